(* Check_C14.v — executable side of C14: the case type the harness fills with the
   implementation's observations (library written to disk, loaded by liwe::fs::new_for_path,
   served by iwes::router::server::Server), the correspondence model = observed, and the
   property predicates evaluated on the observations. *)
From IweV Require Import Str RelPath Arena Url LinkPaths Harness.
Local Open Scope string_scope.
Local Open Scope list_scope.
Local Open Scope N_scope.

(* Which BasePath the tree under test has.  [AsFound] = /repo HEAD without
   fix-c14-uri-key.patch; switch [tree_variant] to [Fixed] when that patch is applied. *)
Inductive variant := AsFound | Fixed.
Definition tree_variant : variant := Fixed.

Definition m_url_to_key (v : variant) (base u : string) : string :=
  match v with
  | AsFound => url_to_key_as_found (server_prefix base) u
  | Fixed => url_to_key_fixed base u
  end.
Definition m_key_to_url (v : variant) (base key : string) : res (option string) :=
  match v with
  | AsFound => key_to_url_as_found (server_prefix base) key
  | Fixed => key_to_url_fixed base key
  end.

Record note := Note {
  n_comps : list string;        (* directories ++ [stem]; the file is <base>/<dirs>/<stem>.md, content `# T<i>` *)
  o_uri : option string;        (* Url::from_file_path(<file>).to_string() *)
  o_disk : option string;       (* key under which the loader holds this file's content *)
  o_url_key : option string;    (* BasePath::url_to_key(uri), read off the completion command *)
  o_key_url : option string;    (* BasePath::key_to_url(key of the symbol titled T<i>) *)
  o_open : option string        (* that URI's to_file_path() *)
}.

(* --- the third leg: the note other notes reach by linking to <path> ----------------- *)

(* what `textDocument/definition` answered *)
Inductive def_obs := DPanic | DNone | DSome (uri : string).

Record lfile := LFile {
  f_comps : list string;             (* directories ++ [stem] of a note file of the library on disk *)
  f_uri : option string;             (* Url::from_file_path(<file>).to_string() *)
  f_refs : option (list string);     (* `textDocument/references` of that URI: the URIs listed (None: panic) *)
  f_refs2 : option (list string)     (* the same after a didChange for every file *)
}.

Record link := Link {
  l_from : nat;                      (* index of the linking file *)
  l_url : string;                    (* the url of the link as the Markdown parser reads it *)
  l_inline : bool;                   (* inside a sentence (true) / a paragraph of its own (false) *)
  l_def : def_obs;                   (* `textDocument/definition` on the link *)
  l_def2 : def_obs                   (* the same after a didChange for every file *)
}.

Inductive case :=
| Links (base : string) (files : list lfile) (links : list link)
        (o_loaded : option (list string))      (* keys of new_for_path (None: it panicked) *)
| Skip                                          (* input not usable as file names: nothing ran *)
| Crash (base : string)                         (* Server::new panicked *)
| Case (base : string)                          (* library path as given to loader and server *)
       (notes : list note)
       (o_loaded : option (list string))        (* keys of new_for_path (None: it panicked) *)
       (o_before : option (list (string * string)))  (* (key, title) the server lists *)
       (o_edited : bool)                        (* didChange for note 0's URI returned *)
       (o_after : option (list (string * string)))   (* the same list after that edit *)
       (o_extra : list (string * option string)).    (* other client URIs and their url_to_key *)

Definition seqb := String.eqb.
Definition oeqb := option_eqb String.eqb.
Definition incl_b {A} (eq : A -> A -> bool) (a b : list A) : bool := forallb (fun x => existsb (eq x) b) a.
Definition set_eqb {A} (eq : A -> A -> bool) (a b : list A) : bool := incl_b eq a b && incl_b eq b a.
Definition kv_eqb (a b : string * string) : bool := seqb (fst a) (fst b) && seqb (snd a) (snd b).
Fixpoint nodup_b (l : list string) : bool :=
  match l with [] => true | x :: r => negb (existsb (seqb x) r) && nodup_b r end.

(* update_document on the (key, title) view *)
Fixpoint kv_set (k t : string) (l : list (string * string)) : list (string * string) :=
  match l with
  | [] => [(k, t)]
  | (k', t') :: r => if seqb k k' then (k, t) :: r else (k', t') :: kv_set k t r
  end.

Definition same_file (p q : string) : bool := list_eqb seqb (path_components p) (path_components q).

Definition alnum (a : ascii) : bool := is_alpha a || is_digit a.

(* the key the loader gives to the file a URI denotes, if it is a file under the library *)
Definition denoted_key (base u : string) : option string :=
  match to_file_path u with
  | Some p =>
      match strip_list_prefix (path_components base) (path_components p) with
      | Some rel =>
          match rev rel with
          | name :: rdirs => if has_md_extension name then Some (loader_key (rev rdirs) name) else None
          | [] => None
          end
      | None => None
      end
  | None => None
  end.

(* sub-properties a known-finding class accounts for *)
Definition explains (k : N) : list N :=
  match k with
  | 1 => [1; 2] | 2 => [3] | 3 => [1; 2; 3] | 4 => [1; 2] | 6 => [4] | 7 => [4] | 8 => [4]
  | 9 => [5]
  | _ => []
  end.

(* --- link cases -------------------------------------------------------------------- *)

Definition def_eqb (a b : def_obs) : bool :=
  match a, b with
  | DPanic, DPanic => true | DNone, DNone => true | DSome x, DSome y => seqb x y | _, _ => false
  end.

Definition find_file (files : list lfile) (t : list string) : option lfile :=
  find (fun f => list_eqb seqb (f_comps f) t) files.

(* the note file a link occurrence names: resolved from the directory of the linking FILE
   (LinkPaths.link_target), then looked up among the files on disk *)
Definition link_file (files : list lfile) (l : link) : option lfile :=
  match nth_error files (l_from l) with
  | Some f => match link_target (f_comps f) (l_url l) with Some t => find_file files t | None => None end
  | None => None
  end.

(* go-to-definition on a link to a note file answers that file's URI; on any other link it does
   not answer the URI of a note file *)
Definition def_ok (files : list lfile) (l : link) (d : def_obs) : bool :=
  match link_file files l with
  | Some g => match d, f_uri g with DSome u, Some u' => seqb u u' | _, _ => false end
  | None => match d with DSome u => negb (existsb (fun f => oeqb (f_uri f) (Some u)) files) | _ => true end
  end.

(* URIs of the files holding a link that names the file g *)
Definition linkers (files : list lfile) (links : list link) (g : lfile) : list string :=
  flat_map (fun l => match link_file files l, nth_error files (l_from l) with
                     | Some t, Some f =>
                         if list_eqb seqb (f_comps t) (f_comps g)
                         then match f_uri f with Some u => [u] | None => [] end else []
                     | _, _ => []
                     end) links.
Definition refs_ok (files : list lfile) (links : list link) (g : lfile) (r : option (list string)) : bool :=
  match r with Some us => set_eqb seqb us (linkers files links g) | None => false end.

(* model of handle_goto_definition (server.rs:244-272): url_to_key(uri).parent(), RelativePath::join,
   BasePath::relative_to_full_path *)
Definition m_definition (v dv : variant) (base furi url : string) : res (option string) :=
  let parent := key_parent (m_url_to_key v base furi) in
  match dv with
  | AsFound => relative_to_full_path_as_found (server_prefix base) (rjoin parent url)
  (* fix-c14-definition-uri.patch: Key::from_rel_link_url(url, parent).to_full_url(base_path) *)
  | Fixed => m_key_to_url v base (from_rel_link_url url parent)
  end.
Definition def_corr (v dv : variant) (base : string) (files : list lfile) (l : link) (d : def_obs) : bool :=
  match nth_error files (l_from l) with
  | Some f =>
      match f_uri f with
      | Some u =>
          match m_definition v dv base u (l_url l) with
          | Ok (Some t) => def_eqb d (DSome t)
          | Ok None => true                        (* a URL outside the modelled part of the crate *)
          | Panic _ => def_eqb d DPanic
          end
      | None => true
      end
  | None => false
  end.

(* K9: relative_to_full_path still hands text to Url::parse / Url::join (the repair of key_to_url did
   not reach it): a library path that is not its own URL text or has a trailing slash, or a note link
   whose path from the root is re-read by Url::join (also a link to no note: `[x](a%20b)` names the
   missing file `a%20b.md` and is answered with the URI of `a b.md`) *)
Definition def_text_join (base : string) (files : list lfile) (links : list link) : bool :=
  base_unsafe base || base_trailing_slash base ||
  existsb (fun l => match is_ref_url (l_url l), nth_error files (l_from l) with
                    | true, Some f =>
                        let rel := strip_md (rjoin (file_key (dir_of (f_comps f))) (l_url l)) in
                        (* … or holds a drive-letter-like directory name (`C|`, `a:`), which Url::join's `..` does not leave *)
                        join_reinterprets_key rel || existsb drive_letter (split_on SEP rel)
                    | _, _ => false end) links.
(* (K10, F-C14-inline-dir: an inline link was keyed by its url as written (GraphInline::ref_key), not by the
   note it names from the linking file's directory.  Repaired: `to_graph_inline` keeps the key the url names
   from the note's directory; the class is gone, a failure of sub-property 6 on an inline link is a VIOLATION.) *)

(* Which go-to-definition the tree under test has: [AsFound] = /repo HEAD (relative_to_full_path joins
   text onto a URL); [Fixed] once fix-c14-definition-uri.patch is applied (VERIF_C14_DEF=fixed tries it
   without editing). *)
Definition def_variant : variant := Fixed.

Definition run_links (v dv : variant) (base : string) (files : list lfile) (links : list link)
                     (o_loaded : option (list string)) : verdict :=
  let mkeys := map (fun f => disk_key (f_comps f)) (filter (fun f => loaded (f_comps f)) files) in
  let corr :=
    flag 1 (forallb (fun f => oeqb (file_uri (note_path base (f_comps f))) (f_uri f)) files) ++
    flag 2 (match o_loaded with Some l => set_eqb seqb l mkeys && nodup_b l | None => false end) ++
    (* 10: the URI go-to-definition answers *)
    flag 10 (forallb (fun l => def_corr v dv base files l (l_def l) && def_corr v dv base files l (l_def2 l)) links) in
  let prop :=
    (* 5: go-to-definition on a link reaches the file the link names from the linking file's directory *)
    flag 5 (forallb (fun l => def_ok files l (l_def l) && def_ok files l (l_def2 l)) links) ++
    (* 6: the references of a file's URI are the files that link to it *)
    flag 6 (forallb (fun g => refs_ok files links g (f_refs g) && refs_ok files links g (f_refs2 g)) files) in
  (* class 9 (F-C14-def-uri: the definition URI built by joining text onto a URL) is repaired (a61b14e):
     a failure of sub-property 5 is no longer excused *)
  (* class 10 (F-C14-inline-dir: inline links keyed by their url as written) is repaired as well: no class is
     left for the link leg *)
  let cls : list N := [] in
  let nontriv := existsb (fun l => match link_file files l, nth_error files (l_from l) with
                                   | Some _, Some f => Nat.ltb 1 (length (f_comps f))
                                   | _, _ => false end) links in
  V corr prop cls nontriv.

Definition run_with2 (v dv : variant) (c : case) : verdict :=
  match c with
  | Links base files links o_loaded => run_links v dv base files links o_loaded
  | Skip => V [] [] [] false
  | Crash _ => V [9] [1] [] false
  | Case base notes o_loaded o_before o_edited o_after o_extra =>
      let mkeys := map (fun n => disk_key (n_comps n)) (filter (fun n => loaded (n_comps n)) notes) in
      let u0 := match notes with n :: _ => o_uri n | [] => None end in
      let k0 := match u0 with Some u => Some (m_url_to_key v base u) | None => None end in
      let any_panic := existsb (fun k => match m_key_to_url v base k with Panic _ => true | _ => false end) mkeys in
      (* a key that Url::join turns into a URL outside the modelled part of the crate (another
         scheme, a host): whether that call panics is not modelled, and one panic empties the whole
         symbol response, so stage 5 is skipped for such a library *)
      let any_oracle := existsb (fun k => match m_key_to_url v base k with Ok None => true | _ => false end) mkeys in
      let corr :=
        (* 1: Url::from_file_path *)
        flag 1 (forallb (fun n => oeqb (file_uri (note_path base (n_comps n))) (o_uri n)) notes) ++
        (* 2: key set of the loader *)
        flag 2 (match o_loaded with Some l => set_eqb seqb l mkeys && nodup_b l | None => false end) ++
        (* 3: key of each file (None only for a file that lost a key collision: the same components twice) *)
        flag 3 (forallb (fun n => match o_disk n with
                                  | Some k => seqb k (disk_key (n_comps n)) && loaded (n_comps n)
                                  | None => negb (loaded (n_comps n)) ||
                                            N.ltb 1 (count_in 0 (map (fun m => if seqb (disk_key (n_comps m)) (disk_key (n_comps n)) then 0 else 1) notes))
                                  end) notes) ++
        (* 4: BasePath::url_to_key on the editor's URI *)
        flag 4 (forallb (fun n => match o_uri n with
                                  | Some u => oeqb (o_url_key n) (Some (m_url_to_key v base u))
                                  | None => true end) notes) ++
        (* 5: BasePath::key_to_url on the loader's key *)
        flag 5 (any_oracle || forallb (fun n => match o_disk n with
                                  | Some k =>
                                      if any_panic then oeqb (o_key_url n) None else
                                      match m_key_to_url v base k with
                                      | Ok (Some t) => oeqb (o_key_url n) (Some t)
                                      | Ok None => true
                                      | Panic _ => oeqb (o_key_url n) None
                                      end
                                  | None => true end) notes) ++
        (* 6: Url::to_file_path of the URI the server produced (file: URLs only; the crate also
           answers for other schemes with a rooted path, which is outside the model) *)
        flag 6 (forallb (fun n => match o_key_url n with
                                  | Some t => negb (starts_with "file://" t) || oeqb (to_file_path t) (o_open n)
                                  | None => oeqb (o_open n) None end) notes) ++
        (* 7: the server's notes before and after didChange(note 0's URI, "# E") *)
        flag 7 (match o_loaded, o_before, o_after, k0 with
                | Some l, Some b, Some a, Some k =>
                    set_eqb seqb (map fst b) l && o_edited && set_eqb kv_eqb a (kv_set k "E" b)
                    && N.eqb (N.of_nat (length a)) (N.of_nat (length (kv_set k "E" b)))
                | _, _, _, _ => false end) ++
        (* 8: url_to_key on other client URIs *)
        flag 8 (forallb (fun e => oeqb (snd e) (Some (m_url_to_key v base (fst e)))) o_extra) in
      let prop :=
        (* 1: the file, its URI and its key name the same note *)
        flag 1 (forallb (fun n => match o_disk n, o_url_key n with
                                  | Some k, Some k' => seqb k k'
                                  | _, _ => false end) notes) ++
        (* 2: an edit notification updates that note and creates no second one *)
        flag 2 (match notes, o_before, o_after with
                | n :: _, Some b, Some a =>
                    match o_disk n with
                    | Some k => set_eqb seqb (map fst a) (map fst b) && existsb (kv_eqb (k, "E")) a
                                && N.eqb (N.of_nat (length a)) (N.of_nat (length b))
                    | None => false
                    end
                | _, _, _ => false end) ++
        (* 3: the URI the server answers with opens the file that was meant *)
        flag 3 (forallb (fun n => match o_open n with
                                  | Some p => same_file p (note_path base (n_comps n))
                                  | None => false end) notes) ++
        (* 4: any client URI of a note file addresses the note the loader made of that file *)
        flag 4 (forallb (fun e => match denoted_key base (fst e) with
                                  | Some k => oeqb (snd e) (Some k)
                                  | None => true end) o_extra) in
      let S := server_prefix base in
      let cls :=
        flag 1 (negb (existsb (fun n => existsb needs_encoding (n_comps n)) notes)) ++
        flag 2 (negb (existsb (fun n => join_reinterprets (n_comps n)) notes)) ++
        flag 3 (negb (base_unsafe base)) ++
        flag 4 (negb (base_trailing_slash base)) ++
        (* (class 5, a stem ending in `.md`, is repaired: F-C14-5) *)
        flag 6 (negb (existsb (fun e => prefix_repeats S (fst e)) o_extra)) ++
        flag 7 (negb (existsb (fun e => uri_has_escape (fst e)) o_extra)) ++
        flag 8 (negb (existsb (fun e => uri_has_query (fst e)) o_extra)) in
      (* a class accounts for particular sub-properties only: the classes are reported when
         together they account for every failing sub-property of the case *)
      let explained := flat_map explains cls in
      let cls := if forallb (fun p => existsb (N.eqb p) explained) prop then cls else [] in
      let nontriv := existsb (fun n => Nat.ltb 1 (length (n_comps n)) ||
                                       existsb (sexists (fun a => negb (alnum a))) (n_comps n)) notes in
      V corr prop cls nontriv
  end.

Definition run_with (v : variant) (c : case) : verdict := run_with2 v def_variant c.
Definition run (c : case) : verdict := run_with tree_variant c.
Definition run_fixed (c : case) : verdict := run_with Fixed c.
Definition run_def_fixed (c : case) : verdict := run_with2 tree_variant Fixed c.
