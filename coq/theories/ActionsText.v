(* ActionsText.v — C09 / C10 through the TEXT: the editor applies an action's full-text edit, the
   server re-reads the text (didChange) and the inverse action is computed on the RE-READ tree.
   One step is   t  |->  reparsed key r' (op t)
                      =  tmap (norm_node ctx) (label (spec_tree key (rr o (project dir (op t)))) r')
   (the reader specification [rr] of Reparse.v, the builder specification [spec_tree], the ids the
   arena gives a freshly built note - pre-order numbers from r' -, the title refresh of collect).

   Part 1 (the re-read tree, structurally): for a tree of the builder's shape ([shaped], decidable) whose
   written blocks have the structure of written lists ([gstruct], implied by [reparse_safe]) the tree built
   from the re-read text is the SAME tree, node for node, with every node re-read ([reread], reread_spec):
   no node moves, appears or disappears, so a node keeps its pre-order index.
   Part 2: contexts ([plug]) under erase / tmap / label; the ids after [label] are all different, the
   subtree in the hole carries the ids from r' + pre_off C on (relabel_plug).
   Part 3: the three round trips (C10_type_twice_text, C10_wrap_unwrap_text, C09_extract_inline_text /
   _changes; the _blocks variants hold without [settled]), non-vacuity examples, and for every failure
   class of Props/C10.v / Check_C10.v the hypothesis that excludes it:
     adjacent lists (3), heading deeper than 6 (4): reparse_safe of the note and of the intermediate text;
     tight item with a rule / two quotes (former class 5): no longer a failure since the writer writes such
         a list sparse (F-TIGHTTAIL repaired): C10_wrap_unwrap_text_tight_rule_quotes_holds;
     section after a sibling section (6), extract of a later sub-section:  forallb nonsec l1
         (C10_wrap_unwrap_text_after_section_refuted, C09_extract_inline_text_not_first_refuted). *)
From IweV Require Import Str Text Ast RelPath Arena Project SectionsSpec Check_Norm NormFacts BuilderFacts
  SectionsFacts SectionsRefine HistoryText Reparse ReparseFacts TreeOps Actions TreeOpsFacts Check_Act Check_C10
  ActFacts TreeBuildFacts.
From Coq Require Import Lia.
Local Open Scope string_scope.
Local Open Scope list_scope.

(* =========================== Part 1: the re-read tree ============================================ *)

Definition is_doc (t : tree) : bool := match t_node t with NDocument _ => true | _ => false end.

(* non-sections first, then sections only: the order in which the builder lays children *)
Fixpoint pts (l : list tree) : bool :=
  match l with
  | [] => true
  | x :: r => if is_section x then forallb is_section r else pts r
  end.

(* the shape of every tree the builder makes: children of a document, section or quote are leaves and
   containers first and sections after them; the children of a list are sections (its items); quotes and
   lists are not empty; leaves have no children; a document node is the root only *)
Fixpoint shaped (t : tree) : bool :=
  match t with
  | T _ nd kids =>
      forallb shaped kids && forallb (fun c => negb (is_doc c)) kids &&
      match nd with
      | NDocument _ | NSection _ => pts kids
      | NQuote => pts kids && negb (is_nil kids)
      | NBList | NOList => forallb is_section kids && negb (is_nil kids)
      | _ => is_nil kids
      end
  end.

Definition is_gheader (b : gblock) : bool := match b with GHeader _ _ => true | _ => false end.

Section Reread.
  Variable dir : string.
  Variable o : opts.

  Definition ref_ils (text : string) (rt : link_type) : list inline :=
    match rt with Regular => [Str text] | WikiLink => [] | WikiLinkPiped => [Str text] end.

  (* one node, written and read back *)
  Definition rnode (nd : node) : node :=
    match nd with
    | NSection l => NSection (to_ginlines dir (rr_inlines o (rel_inlines dir l)))
    | NLeaf l => leaf_node dir (DPara (0, 0) (rr_inlines o (rel_inlines dir l)))
    | NRef key text rt =>
        leaf_node dir (DPara (0, 0) (rr_inlines o [Link (to_rel_link_url key dir) "" rt (ref_ils text rt)]))
    | NRaw lang c => NRaw (rr_lang lang) (trim_lf c +++ LFS)
    | nd => nd
    end.

  (* the tree with every node written and read back; ids are gone (a fresh build) *)
  Definition reread (t : tree) : tree := tmap rnode (erase t).

  Lemma reread_T i nd kids : reread (T i nd kids) = T None (rnode nd) (map reread kids).
  Proof. unfold reread. cbn [erase tmap]. now rewrite map_map. Qed.

  Notation Pd d kids := (flat_map (project_node dir d) kids).

  (* ---------- small facts about the specification functions ------------------------------------- *)

  Lemma rr_seq_app sep a : forall k b, exists k', rr_seq o sep k (a ++ b) = rr_seq o sep k a ++ rr_seq o sep k' b.
  Proof.
    induction a as [|x a IH]; intros k b; [exists k; reflexivity|].
    cbn [app rr_seq]. destruct (IH (k + height x + sep) b) as [k' E]. exists k'. now rewrite E.
  Qed.

  Lemma rr_block_header k b : is_header (rr_block o k b) = is_gheader b.
  Proof. destruct b; reflexivity. Qed.

  Lemma blocks_tree_app_pre f pre r :
    Forall (fun b => is_header b = false) pre ->
    blocks_tree dir (S f) (pre ++ r) = flat_map (block_tree dir f) pre ++ blocks_tree dir (S f) r.
  Proof.
    induction 1 as [|b pre Hb _ IH]; [reflexivity|].
    cbn [app flat_map]. rewrite <- app_assoc, <- IH. rewrite !blocks_tree_S. cbn [span_pre]. rewrite Hb.
    destruct (span_pre (pre ++ r)) as [x y]. cbn [flat_map]. now rewrite app_assoc.
  Qed.

  Lemma blocks_tree_headed f lr L l r :
    blocks_tree dir (S f) (DHeader lr L l :: r) = sections_tree dir f L (DHeader lr L l :: r).
  Proof. rewrite blocks_tree_S. reflexivity. Qed.

  Lemma span_section_app L A : forall B,
    Forall (fun n => L < n) (hlv A) ->
    match B with [] => True | DHeader _ n _ :: _ => n <= L | _ => False end ->
    span_section L (A ++ B) = (A, B).
  Proof.
    induction A as [|a A IH]; intros B HA HB.
    - destruct B as [|b B]; [reflexivity|]. destruct b; try contradiction. cbn [app span_section is_split].
      replace (Nat.leb level L) with true by (symmetry; now apply Nat.leb_le). reflexivity.
    - rewrite hlv_cons in HA. apply Forall_app in HA as [Ha HA]. cbn [app span_section].
      assert (E : is_split L a = false).
      { destruct a; try reflexivity. cbn [is_split]. inversion Ha; subst. apply Nat.leb_gt. lia. }
      rewrite E, (IH B HA HB). reflexivity.
  Qed.

  (* the headings the projector writes for the children of a node at depth d are deeper than d *)
  Lemma kids_levels kids d : Forall (fun n => d < n) (glevels (Pd d kids)).
  Proof.
    assert (H : Forall (S1 dir) kids) by (apply Forall_forall; intros t _; apply (project_S1 dir t)).
    destruct (K_of_S1 dir kids H d) as [[F _] _]. exact F.
  Qed.

  (* a shaped tree that is not a document node is written to at least one block *)
  Lemma shaped_nonempty : forall t, shaped t = true -> is_doc t = false -> forall d, project_node dir d t <> [].
  Proof.
    apply (tree_ind' (fun t => shaped t = true -> is_doc t = false -> forall d, project_node dir d t <> [])).
    intros i nd kids IH Hs Hd d. cbn [shaped] in Hs. apply andb_prop in Hs as [Hs Hn]. apply andb_prop in Hs as [Hk Hdoc].
    destruct nd; try discriminate; cbn [project_node]; try discriminate.
    - (* quote *) apply andb_prop in Hn as [_ Hn]. destruct kids as [|x kids]; [discriminate|].
      inversion IH as [|? ? Hx _]; subst. cbn [forallb] in Hk, Hdoc.
      apply andb_prop in Hk as [Hk _]. apply andb_prop in Hdoc as [Hdoc _]. apply Bool.negb_true_iff in Hdoc.
      specialize (Hx Hk Hdoc 0). cbn [flat_map].
      destruct (project_node dir 0 x) as [|g q]; [congruence|]. discriminate.
    - apply andb_prop in Hn as [_ Hn]. destruct kids; discriminate.
    - apply andb_prop in Hn as [_ Hn]. destruct kids; discriminate.
  Qed.

  (* ---------- the statement, for a children list and for one child ---------------------------------- *)

  Definition KIDS (kids : list tree) : Prop :=
    forall d sep k f,
      forallb shaped kids = true -> forallb (fun c => negb (is_doc c)) kids = true -> pts kids = true ->
      forallb gstruct (Pd d kids) = true ->
      4 * dblocks_size (rr_seq o sep k (Pd d kids)) + 4 <= f ->
      blocks_tree dir f (rr_seq o sep k (Pd d kids)) = map reread kids.

  Definition TREE (t : tree) : Prop :=
    forall d sep k f,
      shaped t = true -> is_doc t = false -> is_section t = false ->
      forallb gstruct (project_node dir d t) = true ->
      4 * dblocks_size (rr_seq o sep k (project_node dir d t)) + 1 <= f ->
      flat_map (block_tree dir f) (rr_seq o sep k (project_node dir d t)) = [reread t] /\
      Forall (fun b => is_header b = false) (rr_seq o sep k (project_node dir d t)).

  Definition SECS (secs : list tree) : Prop :=
    forall d sep k f,
      forallb shaped secs = true -> forallb is_section secs = true ->
      forallb gstruct (Pd d secs) = true ->
      4 * dblocks_size (rr_seq o sep k (Pd d secs)) + 3 <= f ->
      sections_tree dir f (d + 1) (rr_seq o sep k (Pd d secs)) = map reread secs.

  Lemma shaped_T i nd kids : shaped (T i nd kids) = true ->
    forallb shaped kids = true /\ forallb (fun c => negb (is_doc c)) kids = true.
  Proof. cbn [shaped]. intros H. apply andb_prop in H as [H _]. now apply andb_prop in H. Qed.

  Lemma secs_step secs : Forall (fun t => KIDS (t_children t)) secs -> SECS secs.
  Proof.
    induction 1 as [|x r Hx _ IH]; intros d sep k f Hsh Hsec Hg Hf.
    - destruct f; reflexivity.
    - cbn [forallb] in Hsh, Hsec. apply andb_prop in Hsh as [Hsx Hsr]. apply andb_prop in Hsec as [Hx1 Hr1].
      destruct x as [i nd ck]. unfold is_section in Hx1. cbn [t_node] in Hx1. destruct nd; try discriminate.
      cbn [t_children] in Hx.
      cbn [flat_map project_node app] in *. cbn [forallb gstruct andb] in Hg. rewrite forallb_app in Hg.
      apply andb_prop in Hg as [Hgc Hgr].
      cbn [rr_seq rr_block height] in *.
      destruct (rr_seq_app sep (Pd (d + 1) ck) (k + 1 + sep) (Pd d r)) as [k' E]. rewrite E in *.
      rewrite dblocks_size_cons, dblocks_size_app in Hf. cbn [dblock_size] in Hf.
      destruct f as [|f]; [lia|]. rewrite sections_tree_S.
      rewrite (span_section_app (d + 1) (rr_seq o sep (k + 1 + sep) (Pd (d + 1) ck)) (rr_seq o sep k' (Pd d r))).
      + cbn [map]. rewrite reread_T. cbn [rnode lead_inlines]. f_equal.
        * f_equal. destruct (shaped_T _ _ _ Hsx) as [Hk1 Hk2].
          apply Hx; auto; [|lia]. cbn [shaped] in Hsx. apply andb_prop in Hsx as [_ Hp]. exact Hp.
        * apply IH; auto. lia.
      + rewrite hlv_rr_seq. apply kids_levels.
      + destruct r as [|y r]; [exact I|]. cbn [forallb] in Hr1. apply andb_prop in Hr1 as [Hy _].
        destruct y as [j nd ck']. unfold is_section in Hy. cbn [t_node] in Hy. destruct nd; try discriminate.
        cbn [flat_map project_node app rr_seq rr_block]. lia.
  Qed.

  Lemma secs_blocks secs : SECS secs -> forall d sep k f,
    forallb shaped secs = true -> forallb is_section secs = true -> forallb gstruct (Pd d secs) = true ->
    4 * dblocks_size (rr_seq o sep k (Pd d secs)) + 4 <= f ->
    blocks_tree dir f (rr_seq o sep k (Pd d secs)) = map reread secs.
  Proof.
    intros HS d sep k f Hsh Hsec Hg Hf. destruct f as [|f]; [lia|].
    destruct secs as [|x r]; [reflexivity|].
    pose proof (HS d sep k f Hsh Hsec Hg ltac:(lia)) as E.
    cbn [forallb] in Hsec. apply andb_prop in Hsec as [Hx _].
    destruct x as [i nd ck]. unfold is_section in Hx. cbn [t_node] in Hx. destruct nd; try discriminate.
    cbn [flat_map project_node app rr_seq rr_block] in *. rewrite blocks_tree_headed. exact E.
  Qed.

  Lemma kids_step kids : Forall (fun t => TREE t /\ KIDS (t_children t)) kids -> KIDS kids.
  Proof.
    induction 1 as [|x r [Hx Hxk] HF' IH]; intros d sep k f Hsh Hdoc Hp Hg Hf.
    - destruct f; reflexivity.
    - cbn [pts] in Hp. destruct (is_section x) eqn:Ex.
      + (* sections only from here on *)
        apply secs_blocks; auto.
        * apply secs_step. constructor; [exact Hxk|]. eapply Forall_impl; [|exact HF']. now intros t [_ ?].
        * cbn [forallb]. now rewrite Ex, Hp.
      + cbn [forallb] in Hsh, Hdoc. apply andb_prop in Hsh as [Hsx Hsr]. apply andb_prop in Hdoc as [Hdx Hdr].
        apply Bool.negb_true_iff in Hdx.
        cbn [flat_map] in *. rewrite forallb_app in Hg. apply andb_prop in Hg as [Hgx Hgr].
        destruct (rr_seq_app sep (project_node dir d x) k (Pd d r)) as [k' E]. rewrite E in *.
        rewrite dblocks_size_app in Hf. destruct f as [|f]; [lia|].
        assert (Hf1 : 4 * dblocks_size (rr_seq o sep k (project_node dir d x)) + 1 <= f) by lia.
        destruct (Hx d sep k f Hsx Hdx Ex Hgx Hf1) as [E1 E2].
        rewrite (blocks_tree_app_pre f _ _ E2), E1. cbn [map app]. f_equal.
        apply IH; auto. lia.
  Qed.

  (* one list item *)
  Lemma item_step f sp k i l ck :
    KIDS ck -> shaped (T i (NSection l) ck) = true ->
    let it := (if first_is_leaf ck then GPara (rel_inlines dir l) else GPlain (rel_inlines dir l)) :: Pd 0 ck in
    led it = true -> forallb gstruct it = true ->
    4 * dblocks_size (rr_seq o sp k (item_body it)) + 5 <= f ->
    item_tree dir f (rr_seq o sp k (item_body it)) = [reread (T i (NSection l) ck)].
  Proof.
    intros HK Hs it Hl Hg Hf. destruct (shaped_T _ _ _ Hs) as [Hk1 Hk2].
    assert (Hp : pts ck = true) by (cbn [shaped] in Hs; now apply andb_prop in Hs as [_ Hp]).
    cbn [forallb] in Hg. apply andb_prop in Hg as [_ Hg].
    destruct f as [|f]; [lia|]. rewrite item_tree_S, reread_T. cbn [rnode].
    destruct l as [|i0 l]; unfold rel_inlines in *; cbn [map] in *.
    - (* no text: the item is written from its second block on *)
      assert (Eb : item_body it = Pd 0 ck) by (unfold it; destruct (first_is_leaf ck); reflexivity).
      rewrite Eb in *.
      assert (Hh : exists x rest, Pd 0 ck = x :: rest /\ headless_start x rest = true).
      { unfold it in Hl. destruct (first_is_leaf ck); cbn [led] in Hl;
          (destruct (Pd 0 ck) as [|x rest]; [discriminate | eauto]). }
      destruct Hh as (x & rest & Ex & Hh).
      assert (E : blocks_tree dir f (rr_seq o sp k (Pd 0 ck)) = map reread ck) by (apply HK; auto; lia).
      rewrite Ex in *. cbn [rr_seq] in *.
      destruct x; try discriminate Hh.
      + cbn [rr_block] in *. rewrite E. reflexivity.
      + rewrite rr_quote in *. rewrite E. reflexivity.
      + destruct rest as [|y rest]; [discriminate Hh|]. rewrite rr_olist in *. cbn [rr_seq] in *. rewrite E. reflexivity.
      + destruct rest as [|y rest]; [discriminate Hh|]. rewrite rr_blist in *. cbn [rr_seq] in *. rewrite E. reflexivity.
      + cbn [rr_block] in *. rewrite E. reflexivity.
    - assert (Eb : rr_seq o sp k (item_body it) =
                   DPara (k, k + 1) (rr_inlines o (rel_inline dir i0 :: map (rel_inline dir) l)) :: rr_seq o sp (k + 1 + sp) (Pd 0 ck))
        by (unfold it; destruct (first_is_leaf ck); reflexivity).
      rewrite Eb in *. rewrite dblocks_size_cons in Hf. cbn [lead_inlines]. do 2 f_equal.
      apply HK; auto. lia.
  Qed.

  Lemma items_step kids : Forall (fun t => KIDS (t_children t)) kids ->
    forall sp k f, forallb shaped kids = true -> forallb is_section kids = true ->
      forallb (fun it => led it && forallb gstruct it) (map (item_of dir) kids) = true ->
      4 * items_size (rr_items o sp k (map (item_of dir) kids)) + 4 <= f ->
      flat_map (item_tree dir f) (rr_items o sp k (map (item_of dir) kids)) = map reread kids.
  Proof.
    induction 1 as [|x r Hx _ IH]; intros sp k f Hsh Hsec Hg Hf; [reflexivity|].
    cbn [forallb map] in Hsh, Hsec, Hg. apply andb_prop in Hsh as [Hsx Hsr]. apply andb_prop in Hsec as [Hx1 Hr1].
    apply andb_prop in Hg as [Hgx Hgr]. apply andb_prop in Hgx as [Hl Hgx].
    destruct x as [i nd ck]. unfold is_section in Hx1. cbn [t_node] in Hx1. destruct nd; try discriminate.
    cbn [t_children] in Hx. cbn [map rr_items flat_map items_size] in *. cbn [item_of] in *. unfold out_inlines in *. cbn [node_inlines] in *.
    rewrite (item_step f sp k i l ck Hx Hsx Hl Hgx ltac:(lia)). cbn [app]. f_equal.
    apply IH; auto. lia.
  Qed.

  Lemma tree_step i nd kids : KIDS kids -> Forall (fun t => KIDS (t_children t)) kids -> TREE (T i nd kids).
  Proof.
    intros HK HKK d sep k f Hs Hd Hsec Hg Hf. destruct (shaped_T _ _ _ Hs) as [Hk1 Hk2].
    pose proof Hs as Hs0. cbn [shaped] in Hs. apply andb_prop in Hs as [_ Hn].
    destruct f as [|f]; [lia|].
    destruct nd; try discriminate.
    - (* quote *)
      apply andb_prop in Hn as [Hp Hne]. cbn [project_node] in *.
      destruct (Pd 0 kids) as [|g q] eqn:Eq.
      { exfalso. destruct kids as [|x kids]; [discriminate|]. cbn [forallb] in Hk1, Hk2.
        apply andb_prop in Hk1 as [Hx1 _]. apply andb_prop in Hk2 as [Hx2 _]. apply Bool.negb_true_iff in Hx2.
        pose proof (shaped_nonempty x Hx1 Hx2 0) as Hne'. cbn [flat_map] in Eq.
        destruct (project_node dir 0 x); [congruence | discriminate]. }
      cbn [forallb] in Hg. apply andb_prop in Hg as [Hg _]. cbn [gstruct] in Hg. apply andb_prop in Hg as [_ Hg].
      cbn [rr_seq] in *. rewrite rr_quote in *. cbn [flat_map]. rewrite app_nil_r, block_tree_S, reread_T. cbn [rnode].
      split; [|repeat constructor].
      rewrite dblocks_size_cons, size_quote in Hf. rewrite <- Eq in *. do 2 f_equal.
      apply HK; auto. cbn [dblocks_size fold_right] in Hf. lia.
    - (* bullet list *)
      apply andb_prop in Hn as [Hit Hne]. cbn [project_node] in *. fold (item_of dir) in *.
      destruct kids as [|x0 kids0] eqn:Ek; [discriminate|]. rewrite <- Ek in *. clear Hne.
      cbn [forallb] in Hg. apply andb_prop in Hg as [Hg _]. cbn [gstruct] in Hg. apply andb_prop in Hg as [_ Hg].
      cbn [rr_seq] in *. rewrite rr_blist in *. cbn [flat_map]. rewrite app_nil_r, block_tree_S, reread_T. cbn [rnode].
      split; [|repeat constructor].
      rewrite dblocks_size_cons, size_blist in Hf. do 2 f_equal.
      apply items_step; auto. cbn [dblocks_size fold_right] in Hf. lia.
    - (* ordered list *)
      apply andb_prop in Hn as [Hit Hne]. cbn [project_node] in *. fold (item_of dir) in *.
      destruct kids as [|x0 kids0] eqn:Ek; [discriminate|]. rewrite <- Ek in *. clear Hne.
      cbn [forallb] in Hg. apply andb_prop in Hg as [Hg _]. cbn [gstruct] in Hg. apply andb_prop in Hg as [_ Hg].
      cbn [rr_seq] in *. rewrite rr_olist in *. cbn [flat_map]. rewrite app_nil_r, block_tree_S, reread_T. cbn [rnode].
      split; [|repeat constructor].
      rewrite dblocks_size_cons, size_olist in Hf. do 2 f_equal.
      apply items_step; auto. cbn [dblocks_size fold_right] in Hf. lia.
    - (* leaf *)
      destruct kids; [|discriminate]. cbn [project_node rr_seq rr_block flat_map]. rewrite app_nil_r, block_tree_S, reread_T.
      split; [reflexivity | repeat constructor].
    - (* raw *)
      destruct kids; [|discriminate]. cbn [project_node rr_seq rr_block flat_map]. rewrite app_nil_r, block_tree_S, reread_T.
      split; [reflexivity | repeat constructor].
    - (* rule *)
      destruct kids; [|discriminate]. cbn [project_node rr_seq rr_block flat_map]. rewrite app_nil_r, block_tree_S, reread_T.
      split; [reflexivity | repeat constructor].
    - (* reference *)
      destruct kids; [|discriminate]. cbn [project_node rr_seq rr_block flat_map]. rewrite app_nil_r, block_tree_S, reread_T.
      split; [destruct rt; reflexivity | repeat constructor].
    (* a table is never written in the class: discharged by [discriminate] above *)
  Qed.

  Theorem reread_all : forall t, TREE t /\ KIDS (t_children t).
  Proof.
    apply (tree_ind' (fun t => TREE t /\ KIDS (t_children t))).
    intros i nd kids IH. cbn [t_children].
    assert (HK : KIDS kids) by now apply kids_step.
    split; [|exact HK]. apply tree_step; [exact HK|].
    eapply Forall_impl; [|exact IH]. now intros t [_ ?].
  Qed.
End Reread.

(* THE RE-READ TREE: the builder's tree of the text written for the children [kids] of a note is the
   list of the children, each re-read node for node *)
Theorem reread_kids o key kids k :
  forallb shaped kids = true -> forallb (fun c => negb (is_doc c)) kids = true -> pts kids = true ->
  forallb gstruct (flat_map (project_node (key_parent key) 0) kids) = true ->
  spec_tree key (rr_at o k (flat_map (project_node (key_parent key) 0) kids))
  = T None (NDocument key) (map (reread (key_parent key) o) kids).
Proof.
  intros Hs Hd Hp Hg. unfold spec_tree, note_tree. f_equal. rewrite rr_at_seq.
  apply (proj2 (reread_all (key_parent key) o (T None NQuote kids))); auto.
  cbn [t_children]. unfold fuel_for. lia.
Qed.

Definition doc_of_key (key : string) (t : tree) : bool :=
  match t_node t with NDocument k => String.eqb k key | _ => false end.

Theorem reread_spec o key t k :
  doc_of_key key t = true -> shaped t = true -> forallb gstruct (project (key_parent key) t) = true ->
  spec_tree key (rr_at o k (project (key_parent key) t)) = reread (key_parent key) o t.
Proof.
  destruct t as [i nd kids]. unfold doc_of_key. cbn [t_node]. destruct nd; try discriminate.
  intros Hk Hs Hg. apply String.eqb_eq in Hk. subst key0.
  destruct (shaped_T _ _ _ Hs) as [H1 H2]. cbn [shaped] in Hs. apply andb_prop in Hs as [_ Hp].
  unfold project in *. cbn [project_node] in *. rewrite reread_kids by assumption. now rewrite reread_T.
Qed.

(* =========================== Part 2: contexts under erase / tmap / label ============================= *)

Definition fr_tmap (g : node -> node) (f : frame) : frame :=
  match f with F i n l r => F i (g n) (map (tmap g) l) (map (tmap g) r) end.
Definition fr_erase (f : frame) : frame :=
  match f with F _ n l r => F None n (map erase l) (map erase r) end.

Lemma tmap_plug g C : forall x, tmap g (plug C x) = plug (map (fr_tmap g) C) (tmap g x).
Proof.
  induction C as [|[i n l r] C IH]; intros x; [reflexivity|]. cbn [plug map fr_tmap]. rewrite IH. f_equal.
  cbn [tmap]. now rewrite map_app.
Qed.

Lemma erase_plug C : forall x, erase (plug C x) = plug (map fr_erase C) (erase x).
Proof.
  induction C as [|[i n l r] C IH]; intros x; [reflexivity|]. cbn [plug map fr_erase]. rewrite IH. f_equal.
  cbn [erase]. now rewrite map_app.
Qed.

Lemma fr_erase_tmap g C : map fr_erase (map (fr_tmap g) C) = map (fr_tmap g) (map fr_erase C).
Proof.
  induction C as [|[i n l r] C IH]; [reflexivity|]. cbn [map fr_erase fr_tmap]. rewrite IH. f_equal. f_equal.
  - rewrite !map_map. apply map_ext. intros t. symmetry. apply tmap_erase.
  - rewrite !map_map. apply map_ext. intros t. symmetry. apply tmap_erase.
Qed.

Lemma erase_erase t : erase (erase t) = erase t.
Proof.
  induction t as [i nd ts IH] using tree_ind'. cbn [erase]. f_equal. rewrite map_map.
  induction IH as [|x r Hx _ IHr]; cbn [map]; [reflexivity | now rewrite Hx, IHr].
Qed.

Lemma fr_erase_erase C : map fr_erase (map fr_erase C) = map fr_erase C.
Proof.
  induction C as [|[i n l r] C IH]; [reflexivity|]. cbn [map fr_erase]. rewrite IH. f_equal. f_equal.
  - rewrite map_map. apply map_ext. apply erase_erase.
  - rewrite map_map. apply map_ext. apply erase_erase.
Qed.

(* the number of nodes before the hole, in pre-order: the hole's pre-order index *)
Fixpoint pre_off (C : list frame) : nat :=
  match C with
  | [] => 0
  | F _ _ l _ :: C' => pre_off C' + 1 + fsz l
  end.

Lemma fsz_map (f : tree -> tree) l : (forall t, tsz (f t) = tsz t) -> fsz (map f l) = fsz l.
Proof. intros H. induction l as [|x l IH]; cbn [map fsz]; [reflexivity | now rewrite H, IH]. Qed.

Lemma pre_off_tmap g C : pre_off (map (fr_tmap g) C) = pre_off C.
Proof.
  induction C as [|[i n l r] C IH]; [reflexivity|]. cbn [map fr_tmap pre_off]. rewrite IH.
  now rewrite (fsz_map (tmap g) l (tsz_tmap g)).
Qed.
Lemma pre_off_erase C : pre_off (map fr_erase C) = pre_off C.
Proof.
  induction C as [|[i n l r] C IH]; [reflexivity|]. cbn [map fr_erase pre_off]. rewrite IH.
  now rewrite (fsz_map erase l tsz_erase).
Qed.

Lemma labelf_app a : forall b k, labelf (a ++ b) k = labelf a k ++ labelf b (k + fsz a).
Proof.
  induction a as [|x a IH]; intros b k; cbn [app labelf fsz]; [now rewrite Nat.add_0_r|].
  rewrite IH, Nat.add_assoc. reflexivity.
Qed.

Lemma erase_labelf l : forall k, map erase (labelf l k) = map erase l.
Proof. induction l as [|x l IH]; intros k; cbn [labelf map]; [reflexivity | now rewrite erase_label, IH]. Qed.

(* labelling a tree given as a context and a subtree: the subtree is labelled from its pre-order index *)
Lemma label_plug C : forall y r, exists C',
  label (plug C y) r = plug C' (label y (r + pre_off C)) /\ map fr_erase C' = map fr_erase C.
Proof.
  induction C as [|[i n l rt] C IH]; intros y r.
  - exists []. cbn [plug pre_off]. now rewrite Nat.add_0_r.
  - cbn [plug pre_off]. destruct (IH (T i n (l ++ y :: rt)) r) as (C'' & E & Ee).
    rewrite E, label_T, labelf_app. cbn [labelf].
    exists (F (Some (r + pre_off C)) n (labelf l (S (r + pre_off C))) (labelf rt (S (r + pre_off C) + fsz l + tsz y)) :: C'').
    cbn [plug map fr_erase]. rewrite Ee, !erase_labelf. split; [|reflexivity].
    replace (S (r + pre_off C) + fsz l) with (r + (pre_off C + 1 + fsz l)) by lia. reflexivity.
Qed.

(* ---------- ids: a tree whose ids are all different ------------------------------------------------- *)

Lemma pre_idsf_app a b : pre_idsf (a ++ b) = pre_idsf a ++ pre_idsf b.
Proof. unfold pre_idsf. apply flat_map_app. Qed.

Lemma contains_in : forall t id, contains t id = true -> In (Some id) (pre_ids t).
Proof.
  apply (tree_ind' (fun t => forall id, contains t id = true -> In (Some id) (pre_ids t))).
  intros i n c IH id H. rewrite pre_ids_T. cbn [contains] in H. apply Bool.orb_true_iff in H as [H|H].
  - left. rewrite id_eq_T in H. destruct i as [j|]; [|discriminate]. cbn in H. apply Nat.eqb_eq in H. now subst.
  - right. apply existsb_exists in H as (x & Hx & Hc). unfold pre_idsf. apply in_flat_map. exists x. split; [exact Hx|].
    rewrite Forall_forall in IH. now apply IH.
Qed.

Lemma notin_contains t id : ~ In (Some id) (pre_ids t) -> contains t id = false.
Proof. intros H. destruct (contains t id) eqn:E; [|reflexivity]. exfalso. apply H. now apply contains_in. Qed.

Lemma nodup_app_inv {A} (a b : list A) : NoDup (a ++ b) -> NoDup a /\ NoDup b /\ (forall x, In x a -> ~ In x b).
Proof.
  induction a as [|x a IH]; cbn [app]; intros H.
  - split; [constructor|]. split; [exact H|]. intros ? [].
  - inversion H as [|? ? Hx Hn]; subst. destruct (IH Hn) as (Ha & Hb & Hd).
    split; [constructor; [|exact Ha]; intros Hin; apply Hx; apply in_or_app; now left|].
    split; [exact Hb|]. intros y [->|Hy]; [intros Hin; apply Hx; apply in_or_app; now right | now apply Hd].
Qed.

(* among the children of a node with distinct ids: an id of one child is in no sibling, nor at the node *)
Lemma nodup_kids i n l y r id :
  NoDup (pre_ids (T i n (l ++ y :: r))) -> In (Some id) (pre_ids y) ->
  oid_is i id = false /\ Forall (fun t => contains t id = false) l /\ Forall (fun t => contains t id = false) r /\
  NoDup (pre_ids y).
Proof.
  rewrite pre_ids_T, pre_idsf_app. unfold pre_idsf at 2. cbn [flat_map]. fold (pre_idsf r).
  intros ND Hin. inversion ND as [|? ? Hi ND']; subst.
  destruct (nodup_app_inv _ _ ND') as (Hl & Hyr & Hd1). destruct (nodup_app_inv _ _ Hyr) as (Hy & Hr & Hd2).
  split; [|split; [|split; [|exact Hy]]].
  - destruct i as [j|]; [|reflexivity]. cbn. apply Nat.eqb_neq. intros ->. apply Hi.
    apply in_or_app. right. apply in_or_app. now left.
  - apply Forall_forall. intros t Ht. apply notin_contains. intros Hc.
    apply (Hd1 (Some id)); [unfold pre_idsf; apply in_flat_map; eauto | apply in_or_app; now left].
  - apply Forall_forall. intros t Ht. apply notin_contains. intros Hc.
    apply (Hd2 (Some id) Hin). unfold pre_idsf. apply in_flat_map. eauto.
Qed.

Lemma in_pre_ids_kid i n l y r a : In a (pre_ids y) -> In a (pre_ids (T i n (l ++ y :: r))).
Proof.
  intros H. rewrite pre_ids_T, pre_idsf_app. right. apply in_or_app. right. unfold pre_idsf. cbn [flat_map].
  apply in_or_app. now left.
Qed.

Lemma ctx_free_nodup C : forall z id,
  NoDup (pre_ids (plug C z)) -> In (Some id) (pre_ids z) -> ctx_free id C /\ NoDup (pre_ids z).
Proof.
  induction C as [|[i n l r] C IH]; intros z id ND Hin; [split; [constructor | exact ND]|].
  cbn [plug] in ND. destruct (IH (T i n (l ++ z :: r)) id ND (in_pre_ids_kid i n l z r _ Hin)) as [HC NDz].
  destruct (nodup_kids i n l z r id NDz Hin) as (H1 & H2 & H3 & H4).
  split; [|exact H4]. constructor; [|exact HC]. cbn [frame_free]. auto.
Qed.

Lemma pre_ids_tmap g : forall t, pre_ids (tmap g t) = pre_ids t.
Proof.
  apply (tree_ind' (fun t => pre_ids (tmap g t) = pre_ids t)). intros i n c IH. cbn [tmap]. rewrite !pre_ids_T. f_equal.
  unfold pre_idsf. induction IH as [|x c Hx _ IHc]; cbn [map flat_map]; [reflexivity | now rewrite Hx, IHc].
Qed.

Lemma nodup_label t r : NoDup (pre_ids (label t r)).
Proof.
  rewrite pre_ids_label. apply FinFun.Injective_map_NoDup; [|apply seq_NoDup]. intros a b H. now inversion H.
Qed.

(* a freshly built and collected tree, seen as context and subtree: the subtree carries the ids from
   [r + pre_off C] on, and none of them occurs in the context *)
Lemma relabel_plug g C y r : exists C2,
  tmap g (label (plug C y) r) = plug C2 (tmap g (label y (r + pre_off C))) /\
  map fr_erase C2 = map (fr_tmap g) (map fr_erase C) /\
  NoDup (pre_ids (label y (r + pre_off C))) /\
  (forall id, In (Some id) (pre_ids (label y (r + pre_off C))) -> ctx_free id C2).
Proof.
  destruct (label_plug C y r) as (C' & E & Ee).
  exists (map (fr_tmap g) C'). split; [now rewrite E, tmap_plug|]. split; [now rewrite fr_erase_tmap, Ee|].
  split; [apply nodup_label|].
  intros id Hin.
  assert (ND : NoDup (pre_ids (plug (map (fr_tmap g) C') (tmap g (label y (r + pre_off C)))))).
  { rewrite <- tmap_plug, <- E, pre_ids_tmap. apply nodup_label. }
  apply (ctx_free_nodup _ _ id ND). now rewrite pre_ids_tmap.
Qed.

(* what is written depends on the tree without its ids *)
Lemma project_of_erase dir a b : erase a = erase b -> project dir a = project dir b.
Proof. intros E. unfold project. now rewrite <- (project_erase dir a 0), E, project_erase. Qed.

(* the common last step: a re-built tree with the subtree [Z] in the hole, without ids *)
Lemma erase_replug g Cr C2 Z y :
  map fr_erase C2 = map (fr_tmap g) (map fr_erase Cr) -> erase Z = erase (tmap g y) ->
  erase (plug C2 Z) = erase (tmap g (plug Cr y)).
Proof.
  intros EC EZ. rewrite erase_plug, EC, EZ, tmap_plug, erase_plug, fr_erase_tmap. reflexivity.
Qed.

(* ---------- [shaped] and the root key of a tree given as context and subtree ---------------------- *)

Lemma pts_congr l x x' r : is_section x = is_section x' -> pts (l ++ x :: r) = pts (l ++ x' :: r).
Proof.
  intros H. induction l as [|a l IH]; cbn [app pts]; [now rewrite H|].
  destruct (is_section a); [|exact IH]. rewrite !forallb_app. cbn [forallb]. now rewrite H.
Qed.

Lemma shaped_kids_congr i n l x x' r :
  shaped x = shaped x' -> is_section x = is_section x' -> is_doc x = is_doc x' ->
  shaped (T i n (l ++ x :: r)) = shaped (T i n (l ++ x' :: r)).
Proof.
  intros H1 H2 H3.
  assert (E1 : forallb shaped (l ++ x :: r) = forallb shaped (l ++ x' :: r))
    by (rewrite !forallb_app; cbn [forallb]; now rewrite H1).
  assert (E2 : forallb (fun c => negb (is_doc c)) (l ++ x :: r) = forallb (fun c => negb (is_doc c)) (l ++ x' :: r))
    by (rewrite !forallb_app; cbn [forallb]; now rewrite H3).
  assert (E3 : pts (l ++ x :: r) = pts (l ++ x' :: r)) by now apply pts_congr.
  assert (E4 : forallb is_section (l ++ x :: r) = forallb is_section (l ++ x' :: r))
    by (rewrite !forallb_app; cbn [forallb]; now rewrite H2).
  assert (E5 : is_nil (l ++ x :: r) = is_nil (l ++ x' :: r)) by (destruct l; reflexivity).
  cbn [shaped]. now rewrite E1, E2, E3, E4, E5.
Qed.

Lemma shaped_plug_congr C : forall x x',
  shaped x = shaped x' -> is_section x = is_section x' -> is_doc x = is_doc x' ->
  shaped (plug C x) = shaped (plug C x').
Proof.
  induction C as [|[i n l r] C IH]; intros x x' H1 H2 H3; [exact H1|]. cbn [plug]. apply IH; try reflexivity.
  now apply shaped_kids_congr.
Qed.

Lemma doc_plug_congr key C : forall x x',
  doc_of_key key x = doc_of_key key x' -> doc_of_key key (plug C x) = doc_of_key key (plug C x').
Proof. induction C as [|[i n l r] C IH]; intros x x' H; [exact H|]. cbn [plug]. now apply IH. Qed.

Lemma reread_plug dir o C x :
  reread dir o (plug C x) = plug (map (fr_tmap (rnode dir o)) (map fr_erase C)) (reread dir o x).
Proof. unfold reread. now rewrite erase_plug, tmap_plug. Qed.

Lemma erase_tmap_labelf g l k : map erase (map (tmap g) (labelf l k)) = map erase (map (tmap g) l).
Proof.
  rewrite !map_map. rewrite (map_ext (fun x => erase (tmap g x)) (fun x => tmap g (erase x))) by (intros; symmetry; apply tmap_erase).
  rewrite (map_ext (fun x : tree => erase (tmap g x)) (fun x => tmap g (erase x))) by (intros; symmetry; apply tmap_erase).
  rewrite <- !(map_map erase (tmap g)). now rewrite erase_labelf.
Qed.


Lemma shaped_sub C : forall x, shaped (plug C x) = true -> shaped x = true.
Proof.
  induction C as [|[i n l r] C IH]; intros x H; [exact H|]. cbn [plug] in H. apply IH in H.
  apply shaped_T in H as [H _]. rewrite forallb_app in H. apply andb_prop in H as [_ H]. cbn [forallb] in H.
  now apply andb_prop in H as [H _].
Qed.

Lemma pts_nonsec_app l y : forallb nonsec l = true -> pts (l ++ y) = pts y.
Proof.
  induction l as [|a l IH]; [reflexivity|]. cbn [forallb app pts]. intros H. apply andb_prop in H as [Ha Hl].
  unfold nonsec in Ha. apply Bool.negb_true_iff in Ha. rewrite Ha. now apply IH.
Qed.

Lemma pts_of_sections l : forallb is_section l = true -> pts l = true.
Proof. destruct l as [|a l]; [reflexivity|]. cbn [forallb pts]. intros H. apply andb_prop in H as [Ha Hl]. now rewrite Ha. Qed.

Lemma erase_tmap_label g y k : erase (tmap g (label y k)) = erase (tmap g y).
Proof. now rewrite <- !tmap_erase, erase_label. Qed.

(* section -> list on the first sub-section of a node that is not a list keeps the builder's shape *)
Lemma shaped_eq i nd kids :
  shaped (T i nd kids) =
  forallb shaped kids && forallb (fun c => negb (is_doc c)) kids &&
  match nd with
  | NDocument _ | NSection _ => pts kids
  | NQuote => pts kids && negb (is_nil kids)
  | NBList | NOList => forallb is_section kids && negb (is_nil kids)
  | _ => is_nil kids
  end.
Proof. reflexivity. Qed.

Lemma shaped_wrap pi pn l1 rs i lx cx :
  shaped (T pi pn (l1 ++ T i (NSection lx) cx :: rs)) = true -> forallb nonsec l1 = true -> node_is_list pn = false ->
  shaped (T pi pn (l1 ++ T i NBList [T i (NSection lx) cx] :: rs)) = true.
Proof.
  intros Hs Hl Hp. set (x := T i (NSection lx) cx) in *. set (L := T i NBList [x]).
  rewrite shaped_eq in Hs. apply andb_prop in Hs as [Hs Hn]. apply andb_prop in Hs as [Hk Hd].
  rewrite forallb_app in Hk, Hd. cbn [forallb] in Hk, Hd.
  apply andb_prop in Hk as [Hk1 Hk2]. apply andb_prop in Hk2 as [Hkx Hk2].
  apply andb_prop in Hd as [Hd1 Hd2]. apply andb_prop in Hd2 as [Hdx Hd2].
  assert (Hx : shaped L = true).
  { unfold L. rewrite shaped_eq. cbn [forallb]. rewrite Hkx, Hdx. reflexivity. }
  rewrite shaped_eq, !forallb_app. cbn [forallb]. rewrite Hk1, Hx, Hk2, Hd1, Hd2.
  change (negb (is_doc L)) with true. cbn [andb].
  assert (Hpts : pts (l1 ++ x :: rs) = true -> pts (l1 ++ L :: rs) = true).
  { rewrite !pts_nonsec_app by assumption. cbn [pts]. change (is_section x) with true. change (is_section L) with false.
    cbv iota. apply pts_of_sections. }
  destruct pn; try discriminate Hp.
  - now apply Hpts.
  - now apply Hpts.
  - apply andb_prop in Hn as [Hn1 Hn2]. rewrite (Hpts Hn1). destruct l1; reflexivity.
  - destruct l1; discriminate Hn.
  - destruct l1; discriminate Hn.
  - destruct l1; discriminate Hn.
  - destruct l1; discriminate Hn.
  - destruct l1; discriminate Hn.
Qed.


(* ---------- a document node among the children of a section is transparent to the projector, at any depth
   of the tree ------------------------------------------------------------------------------------------- *)

Section SameWritten.
  Variable dir : string.

  Definition same_written (y y' : tree) : Prop :=
    t_node y = t_node y' /\ first_is_leaf (t_children y) = first_is_leaf (t_children y') /\
    (forall hl, flat_map (project_node dir hl) (t_children y) = flat_map (project_node dir hl) (t_children y')) /\
    (forall hl, project_node dir hl y = project_node dir hl y').

  Lemma first_is_leaf_mid l y y' r : t_node y = t_node y' -> first_is_leaf (l ++ y :: r) = first_is_leaf (l ++ y' :: r).
  Proof. intros H. destruct l; [|reflexivity]. destruct y, y'. cbn in *. now subst. Qed.

  Lemma same_written_up i n l y y' r :
    same_written y y' -> same_written (T i n (l ++ y :: r)) (T i n (l ++ y' :: r)).
  Proof.
    intros (Hn & Hf & Hk & Hp).
    assert (HP : forall hl, flat_map (project_node dir hl) (l ++ y :: r) = flat_map (project_node dir hl) (l ++ y' :: r))
      by (intros hl; rewrite !flat_map_app; cbn [flat_map]; now rewrite Hp).
    assert (HI : map (item_of dir) (l ++ y :: r) = map (item_of dir) (l ++ y' :: r)).
    { rewrite !map_app. cbn [map]. do 2 f_equal. destruct y as [a b c], y' as [a' b' c']. cbn [t_node t_children] in *.
      subst b'. cbn [item_of]. now rewrite Hf, (Hk 0). }
    repeat split; try reflexivity; cbn [t_children].
    - now apply first_is_leaf_mid.
    - exact HP.
    - intros hl. destruct n; cbn [project_node]; rewrite ?HP; try reflexivity.
      + fold (item_of dir). rewrite HI. destruct l; reflexivity.
      + fold (item_of dir). rewrite HI. destruct l; reflexivity.
  Qed.

  Lemma same_written_plug C : forall y y', same_written y y' -> same_written (plug C y) (plug C y').
  Proof.
    induction C as [|[i n l r] C IH]; intros y y' H; [exact H|]. cbn [plug]. apply IH. now apply same_written_up.
  Qed.

  Lemma same_written_doc i n a di dk x b :
    flat_node n = true -> is_section x = true ->
    same_written (T i n (a ++ T di (NDocument dk) [x] :: b)) (T i n (a ++ x :: b)).
  Proof.
    intros Hn Hx. repeat split; cbn [t_children].
    - destruct a; [|reflexivity]. destruct x as [xi xn xc]. unfold is_section in Hx. cbn [t_node] in Hx.
      destruct xn; try discriminate. reflexivity.
    - intros hl. rewrite !flat_map_app. cbn [flat_map project_node]. now rewrite app_nil_r.
    - intros hl. now apply project_document_transparent.
  Qed.
End SameWritten.

(* ---------- more on ids and kinds ------------------------------------------------------------------------ *)

Lemma nodup_root_kids sid n kids :
  NoDup (pre_ids (T (Some sid) n kids)) -> Forall (fun t => contains t sid = false) kids.
Proof.
  rewrite pre_ids_T. intros ND. inversion ND as [|? ? Hi _]; subst. apply Forall_forall. intros t Ht.
  apply notin_contains. intros Hc. apply Hi. unfold pre_idsf. apply in_flat_map. eauto.
Qed.

Lemma tsz_reread dir o t : tsz (reread dir o t) = tsz t.
Proof. unfold reread. now rewrite tsz_tmap, tsz_erase. Qed.

Lemma rnode_section dir o nd : node_is_section (rnode dir o nd) = node_is_section nd.
Proof.
  destruct nd; try reflexivity; cbn [rnode].
  - pose proof (leaf_node_not_section dir (DPara (0, 0) (rr_inlines o (rel_inlines dir l)))) as H.
    destruct (leaf_node dir (DPara (0, 0) (rr_inlines o (rel_inlines dir l)))); try reflexivity. contradiction.
  - set (b := DPara (0, 0) (rr_inlines o [Link (to_rel_link_url key dir) "" rt (ref_ils text rt)])).
    pose proof (leaf_node_not_section dir b) as H. destruct (leaf_node dir b); try reflexivity. contradiction.
Qed.

Lemma norm_section ctx nd : node_is_section (norm_node ctx nd) = node_is_section nd.
Proof. destruct nd; reflexivity. Qed.

Lemma is_section_rebuilt ctx dir o y k :
  is_section (tmap (norm_node ctx) (label (reread dir o y) k)) = is_section y.
Proof.
  destruct y as [i nd c]. rewrite reread_T, label_T. unfold is_section. cbn [tmap t_node].
  now rewrite norm_section, rnode_section.
Qed.

Lemma nonsec_rebuilt ctx dir o l : forall k,
  forallb nonsec (map (tmap (norm_node ctx)) (labelf (map (reread dir o) l) k)) = forallb nonsec l.
Proof.
  induction l as [|y l IH]; intros k; [reflexivity|]. cbn [map labelf forallb]. rewrite IH. f_equal.
  unfold nonsec. now rewrite is_section_rebuilt.
Qed.

(* extracting the first sub-section of a section keeps the builder's shape *)
Lemma shaped_extract i ln l1 x rs R :
  shaped (T i (NSection ln) (l1 ++ x :: rs)) = true -> forallb nonsec l1 = true -> is_section x = true ->
  shaped R = true -> is_section R = false -> is_doc R = false ->
  shaped (T i (NSection ln) (l1 ++ R :: rs)) = true /\ forallb is_section rs = true.
Proof.
  intros Hs Hl Hx HR1 HR2 HR3.
  rewrite shaped_eq in Hs. apply andb_prop in Hs as [Hs Hn]. apply andb_prop in Hs as [Hk Hd].
  rewrite forallb_app in Hk, Hd. cbn [forallb] in Hk, Hd.
  apply andb_prop in Hk as [Hk1 Hk2]. apply andb_prop in Hk2 as [Hkx Hk2].
  apply andb_prop in Hd as [Hd1 Hd2]. apply andb_prop in Hd2 as [Hdx Hd2].
  rewrite pts_nonsec_app in Hn by assumption. cbn [pts] in Hn. rewrite Hx in Hn.
  split; [|exact Hn].
  rewrite shaped_eq, !forallb_app. cbn [forallb]. rewrite Hk1, HR1, Hk2, Hd1, HR3, Hd2. cbn [andb negb].
  rewrite pts_nonsec_app by assumption. cbn [pts]. rewrite HR2. now apply pts_of_sections.
Qed.

(* the reference written for [nk] is read back as a reference to [nk] (RelPath round trip, C15) *)
Definition ref_back (dir : string) (o : opts) (nk text : string) : bool :=
  match rnode dir o (NRef nk text Regular) with NRef k _ _ => String.eqb k nk | _ => false end.


(* ---------- the section that surrounds a node, in a tree given as context and subtree --------------------- *)

Lemma gss_kids id i n l z r :
  Forall (fun t => contains t id = false) l -> Forall (fun t => contains t id = false) r ->
  id_eq z id = false -> contains z id = true ->
  get_surrounding_section_id id (T i n (l ++ z :: r)) = get_surrounding_section_id id z.
Proof.
  intros Hl Hr Hz Hc. cbn [get_surrounding_section_id]. rewrite (existsb_middle_false l z r id Hl Hr), Hz, Bool.andb_false_r.
  induction Hl as [|a l Ha _ IH]; cbn [app]; [now rewrite Hc|]. now rewrite Ha.
Qed.

Lemma contains_kid i n l z r id : contains z id = true -> contains (T i n (l ++ z :: r)) id = true.
Proof. intros H. cbn [contains]. rewrite existsb_app. cbn [existsb]. rewrite H. now rewrite !Bool.orb_true_r. Qed.

Lemma gss_plug id C : ctx_free id C -> forall z, id_eq z id = false -> contains z id = true ->
  get_surrounding_section_id id (plug C z) = get_surrounding_section_id id z.
Proof.
  induction 1 as [|[i n l r] C (Hi & Hl & Hr) _ IH]; intros z Hz Hc; [reflexivity|]. cbn [plug].
  rewrite IH; [now apply gss_kids | now rewrite id_eq_T | now apply contains_kid].
Qed.

(* =========================== Part 3: the round trips through the text ============================== *)

Section Trips.
  Variable ctx : titles.          (* the titles in force when the second action is computed *)
  Variable o : opts.
  Variable tables : list string.

  Notation norm := (norm_node ctx).

  (* the tree the second action works on: the text written for [t1] is re-read ([rr]), the note is built
     again ([spec_tree]), the arena numbers its nodes in pre-order from [r'] ([label]) and collect
     refreshes the titles *)
  Definition reparsed (key : string) (r' : nat) (t1 : tree) : tree :=
    tmap norm (label (spec_tree key (rr o (project (key_parent key) t1))) r').

  Lemma reparsed_reread key r' t1 :
    doc_of_key key t1 = true -> shaped t1 = true -> reparse_safe o (project (key_parent key) t1) = true ->
    reparsed key r' t1 = tmap norm (label (reread (key_parent key) o t1) r').
  Proof.
    intros Hd Hs Hsafe. unfold reparsed, rr. rewrite reread_spec; auto. now apply (reparse_safe_gstruct o).
  Qed.

  (* formatting the re-read tree of a settled note writes the note's blocks again *)
  Lemma settled_back key t :
    doc_of_key key t = true -> shaped t = true -> reparse_safe o (project (key_parent key) t) = true ->
    settled ctx (key_parent key) o (project (key_parent key) t) = true ->
    project (key_parent key) (tmap norm (reread (key_parent key) o t)) = project (key_parent key) t.
  Proof.
    intros Hd Hs Hsafe Hset. rewrite <- (reread_spec o key t 0); auto; [|now apply (reparse_safe_gstruct o)].
    now apply fixpoint_blocks.
  Qed.

  (* without [settled]: formatting the re-read tree formats every written block once more (C02's gagain) *)
  Lemma again_back key t :
    doc_of_key key t = true -> shaped t = true -> reparse_safe o (project (key_parent key) t) = true ->
    project (key_parent key) (tmap norm (reread (key_parent key) o t))
    = map (gagain ctx (key_parent key) o) (project (key_parent key) t).
  Proof.
    intros Hd Hs Hsafe. rewrite <- (reread_spec o key t 0); auto; [|now apply (reparse_safe_gstruct o)].
    now apply second_pass_tree.
  Qed.

  Lemma text_of_blocks key t final :
    settled ctx (key_parent key) o (project (key_parent key) t) = true ->
    project (key_parent key) final = map (gagain ctx (key_parent key) o) (project (key_parent key) t) ->
    tree_to_markdown o tables (key_parent key) final = tree_to_markdown o tables (key_parent key) t.
  Proof. intros Hset E. unfold tree_to_markdown. now rewrite E, (settled_fixed _ _ _ _ Hset). Qed.

  (* ---------- C10: change the list type, write, re-read, change the type of the same list, write ------ *)

  Theorem type_twice_blocks key r' id C i n c :
    let dir := key_parent key in
    let t := plug C (T i n c) in
    node_is_list n = true -> oid_is i id = true -> ctx_free id C ->
    doc_of_key key t = true -> shaped t = true ->
    reparse_safe o (project dir t) = true ->
    reparse_safe o (project dir (change_list_type id t)) = true ->
    project dir (change_list_type (r' + pre_off C) (reparsed key r' (change_list_type id t)))
    = map (gagain ctx dir o) (project dir t).
  Proof.
    intros dir t Hn Hi HC Hdoc Hsh Hsafe Hsafe1. subst dir.
    assert (E1 : change_list_type id t = plug C (T i (flip_list n) c)) by (apply scope_change_list_type; auto).
    rewrite E1 in *.
    assert (Hsh1 : shaped (plug C (T i (flip_list n) c)) = true).
    { rewrite <- Hsh. apply shaped_plug_congr; destruct n; try discriminate; reflexivity. }
    assert (Hdoc1 : doc_of_key key (plug C (T i (flip_list n) c)) = true).
    { rewrite <- Hdoc. apply doc_plug_congr. destruct n; try discriminate; reflexivity. }
    rewrite <- (again_back key t) by assumption. apply project_of_erase.
    rewrite reparsed_reread by assumption. rewrite reread_plug.
    set (Cr := map (fr_tmap (rnode (key_parent key) o)) (map fr_erase C)).
    destruct (relabel_plug norm Cr (reread (key_parent key) o (T i (flip_list n) c)) r') as (C2 & E2 & EC & _ & Hfree).
    assert (Ep : pre_off Cr = pre_off C) by (unfold Cr; now rewrite pre_off_tmap, pre_off_erase).
    rewrite Ep in *. rewrite E2. rewrite reread_T, label_T in *. cbn [tmap].
    rewrite scope_change_list_type; [| apply Hfree; rewrite pre_ids_T; now left | cbn; apply Nat.eqb_refl].
    unfold t. rewrite reread_plug. fold Cr. apply erase_replug; [exact EC|].
    rewrite reread_T. cbn [tmap erase]. rewrite erase_tmap_labelf.
    destruct n; try discriminate; reflexivity.
  Qed.

  Theorem type_twice_text key r' id C i n c :
    let dir := key_parent key in
    let t := plug C (T i n c) in
    node_is_list n = true -> oid_is i id = true -> ctx_free id C ->
    doc_of_key key t = true -> shaped t = true ->
    reparse_safe o (project dir t) = true -> settled ctx dir o (project dir t) = true ->
    reparse_safe o (project dir (change_list_type id t)) = true ->
    tree_to_markdown o tables dir (change_list_type (r' + pre_off C) (reparsed key r' (change_list_type id t)))
    = tree_to_markdown o tables dir t.
  Proof.
    intros dir t Hn Hi HC Hdoc Hsh Hsafe Hset Hsafe1. apply text_of_blocks; [exact Hset|].
    now apply type_twice_blocks.
  Qed.

  (* ---------- C10: section -> list, write, re-read, list -> sections, write ----------------------------- *)

  Theorem wrap_unwrap_blocks key r' id C pi pn l1 rs i lx cx :
    let dir := key_parent key in
    let t := plug (F pi pn l1 rs :: C) (T i (NSection lx) cx) in
    oid_is i id = true -> ctx_free id (F pi pn l1 rs :: C) ->
    forallb nonsec l1 = true ->            (* the section is the first sub-section of its parent *)
    node_is_list pn = false ->             (* and not a list item: what the action checks (is_header) *)
    doc_of_key key t = true -> shaped t = true ->
    reparse_safe o (project dir t) = true ->
    reparse_safe o (project dir (wrap_into_list id t)) = true ->
    project dir (unwrap_list (r' + pre_off (F pi pn l1 rs :: C)) (reparsed key r' (wrap_into_list id t)))
    = map (gagain ctx dir o) (project dir t).
  Proof.
    intros dir t Hi HC Hl1 Hpn Hdoc Hsh Hsafe Hsafe1. subst dir.
    set (x := T i (NSection lx) cx) in *.
    assert (E1 : wrap_into_list id t = plug (F pi pn l1 rs :: C) (T i NBList [x]))
      by (apply scope_wrap_into_list; auto).
    rewrite E1 in *.
    assert (Hsh1 : shaped (plug (F pi pn l1 rs :: C) (T i NBList [x])) = true).
    { cbn [plug]. unfold t in Hsh. cbn [plug] in Hsh. rewrite <- Hsh.
      apply shaped_plug_congr; try reflexivity.
      rewrite (shaped_sub _ _ Hsh). apply shaped_wrap; auto. apply (shaped_sub _ _ Hsh). }
    assert (Hdoc1 : doc_of_key key (plug (F pi pn l1 rs :: C) (T i NBList [x])) = true).
    { rewrite <- Hdoc. unfold t. cbn [plug]. now apply doc_plug_congr. }
    rewrite <- (again_back key t) by assumption. apply project_of_erase.
    rewrite reparsed_reread by assumption. rewrite reread_plug.
    set (Cr := map (fr_tmap (rnode (key_parent key) o)) (map fr_erase (F pi pn l1 rs :: C))).
    destruct (relabel_plug norm Cr (reread (key_parent key) o (T i NBList [x])) r') as (C2 & E2 & EC & _ & Hfree).
    assert (Ep : pre_off Cr = pre_off (F pi pn l1 rs :: C)) by (unfold Cr; now rewrite pre_off_tmap, pre_off_erase).
    rewrite Ep in *. rewrite E2. rewrite reread_T, label_T in *. cbn [map labelf tmap rnode norm_node] in *.
    destruct C2 as [|[pi2 pn2 l2 r2] C2']; [discriminate EC|].
    rewrite scope_unwrap_list; [| apply Hfree; rewrite pre_ids_T; now left | cbn; apply Nat.eqb_refl].
    cbn [app].
    change (plug C2' (T pi2 pn2 (l2 ++ ?z :: r2))) with (plug (F pi2 pn2 l2 r2 :: C2') z).
    unfold t. rewrite reread_plug. fold Cr. apply erase_replug; [exact EC|].
    apply erase_tmap_label.
  Qed.

  Theorem wrap_unwrap_text key r' id C pi pn l1 rs i lx cx :
    let dir := key_parent key in
    let t := plug (F pi pn l1 rs :: C) (T i (NSection lx) cx) in
    oid_is i id = true -> ctx_free id (F pi pn l1 rs :: C) ->
    forallb nonsec l1 = true -> node_is_list pn = false ->
    doc_of_key key t = true -> shaped t = true ->
    reparse_safe o (project dir t) = true -> settled ctx dir o (project dir t) = true ->
    reparse_safe o (project dir (wrap_into_list id t)) = true ->
    tree_to_markdown o tables dir
      (unwrap_list (r' + pre_off (F pi pn l1 rs :: C)) (reparsed key r' (wrap_into_list id t)))
    = tree_to_markdown o tables dir t.
  Proof.
    intros dir t Hi HC Hl1 Hpn Hdoc Hsh Hsafe Hset Hsafe1. apply text_of_blocks; [exact Hset|].
    now apply wrap_unwrap_blocks.
  Qed.

  (* ---------- C09: extract the first sub-section, write both notes, re-read both, inline the reference ---- *)

  Theorem extract_inline_blocks key nk r' rn e pid C i ln l1 x rs :
    let dir := key_parent key in
    let t := plug C (T i (NSection ln) (l1 ++ x :: rs)) in
    let txt := node_plain_text (t_node x) in
    let src := plug C (T i (NSection ln) (l1 ++ ref_tree nk txt :: rs)) in
    key_parent nk = dir ->
    (* the hypotheses of C09_extract, for the FIRST sub-section x (id e) of the section with id pid *)
    ctx_free pid C -> ctx_free e C -> oid_is i pid = true -> oid_is i e = false ->
    forallb nonsec l1 = true -> is_section x = true -> id_eq x e = true ->
    Forall (fun t => contains t e = false) l1 -> Forall (fun t => id_eq t e = false) rs ->
    doc_of_key key t = true -> shaped t = true ->
    reparse_safe o (project dir t) = true ->
    (* the two texts the extraction writes are in the class of [rr] *)
    reparse_safe o (project dir src) = true -> reparse_safe o (project dir x) = true ->
    ref_back dir o nk txt = true ->
    let O' := reparsed key r' src in                                              (* the source note, re-read *)
    let N' := tmap norm (label (spec_tree nk (rr o (project dir x))) rn) in      (* the new note, re-read *)
    let sid := r' + pre_off C in                     (* the section that holds the reference, in O' *)
    let tid := sid + 1 + fsz l1 in                   (* the reference, in O' *)
    extract_rec e pid nk t = Ok src /\ tget t e = Ok x /\
    reference_key O' tid = nk /\
    project dir (append_pre_header sid N' (remove_node tid O')) = map (gagain ctx dir o) (project dir t) /\
    get_surrounding_section_id tid O' = Some sid /\ exists R', tget O' tid = Ok R' /\ is_reference R' = true.
  Proof.
    intros dir t txt src Hnk HCp HCe Hip Hie Hl1 Hx Hxe Nl1 Nrs Hdoc Hsh Hsafe Hsafe1 Hsafex Hback O' N' sid tid.
    subst dir.
    destruct (extract_spec e pid nk C i (NSection ln) l1 [] x rs HCp HCe Hip Hie Hl1 eq_refl Hx Hxe Nl1 (Forall_nil _) Nrs)
      as [Eext Eget].
    split; [exact Eext|]. split; [exact Eget|].
    set (R := ref_tree nk txt) in *.
    set (P := T i (NSection ln) (l1 ++ x :: rs)) in *. set (P1 := T i (NSection ln) (l1 ++ R :: rs)) in *.
    pose proof (shaped_sub C P Hsh) as HshP.
    destruct (shaped_extract i ln l1 x rs R HshP Hl1 Hx eq_refl eq_refl eq_refl) as [HshP1 Hrs].
    assert (Hsh1 : shaped src = true).
    { unfold src. rewrite <- Hsh. apply shaped_plug_congr; try reflexivity. exact (eq_trans HshP1 (eq_sym HshP)). }
    assert (Hdoc1 : doc_of_key key src = true) by (rewrite <- Hdoc; now apply doc_plug_congr).
    assert (Hshx : shaped x = true).
    { apply shaped_T in HshP as [HshP _]. rewrite forallb_app in HshP. apply andb_prop in HshP as [_ HshP].
      cbn [forallb] in HshP. now apply andb_prop in HshP as [HshP _]. }
    assert (Hdx : is_doc x = false).
    { destruct x as [xi xn xc]. unfold is_section in Hx. cbn [t_node] in Hx. destruct xn; try discriminate. reflexivity. }
    (* the new note *)
    assert (EN : N' = T (Some rn) (NDocument nk) [tmap norm (label (reread (key_parent key) o x) (S rn))]).
    { unfold N', rr. replace (project (key_parent key) x) with (flat_map (project_node (key_parent nk) 0) [x])
        by (rewrite Hnk; cbn [flat_map]; now rewrite app_nil_r).
      rewrite reread_kids.
      - rewrite Hnk, label_T. cbn [map labelf tmap norm_node]. reflexivity.
      - cbn [forallb]. now rewrite Hshx.
      - cbn [forallb]. now rewrite Hdx.
      - cbn [pts]. now rewrite Hx.
      - rewrite Hnk. cbn [flat_map]. rewrite app_nil_r. now apply (reparse_safe_gstruct o). }
    (* the source note *)
    unfold O'. rewrite reparsed_reread by assumption. unfold src. rewrite reread_plug.
    set (Cr := map (fr_tmap (rnode (key_parent key) o)) (map fr_erase C)).
    destruct (relabel_plug norm Cr (reread (key_parent key) o P1) r') as (C2 & E2 & EC & ND & Hfree).
    assert (Ep : pre_off Cr = pre_off C) by (unfold Cr; now rewrite pre_off_tmap, pre_off_erase).
    rewrite Ep in *. fold sid in E2, ND, Hfree. rewrite E2.
    unfold P1 in ND, Hfree |- *. rewrite reread_T, map_app in ND, Hfree |- *. cbn [map] in ND, Hfree |- *.
    rewrite label_T, labelf_app in ND, Hfree |- *. cbn [labelf] in ND, Hfree |- *.
    rewrite (fsz_map (reread (key_parent key) o) l1 (tsz_reread _ _)) in ND, Hfree |- *.
    replace (S sid + fsz l1) with tid in ND, Hfree |- * by (unfold tid; lia).
    cbn [tmap]. rewrite map_app. cbn [map].
    set (n' := norm (rnode (key_parent key) o (NSection ln))).
    set (a := map (tmap norm) (labelf (map (reread (key_parent key) o) l1) (S sid))).
    set (RR := reread (key_parent key) o R) in *.
    set (Rr := tmap norm (label RR tid)).
    set (b := map (tmap norm) (labelf (map (reread (key_parent key) o) rs) (tid + tsz RR))).
    assert (ND' : NoDup (pre_ids (T (Some sid) n' (a ++ Rr :: b)))).
    { replace (T (Some sid) n' (a ++ Rr :: b))
        with (tmap norm (T (Some sid) (rnode (key_parent key) o (NSection ln))
                (labelf (map (reread (key_parent key) o) l1) (S sid) ++ label RR tid
                 :: labelf (map (reread (key_parent key) o) rs) (tid + tsz RR))))
        by (cbn [tmap]; rewrite map_app; reflexivity).
      rewrite pre_ids_tmap. exact ND. }
    assert (Rid : id_eq Rr tid = true).
    { unfold Rr, RR, R, ref_tree. rewrite reread_T, label_T. cbn [tmap]. rewrite id_eq_T. cbn. apply Nat.eqb_refl. }
    assert (Rin : In (Some tid) (pre_ids Rr)).
    { unfold Rr, RR, R, ref_tree. rewrite reread_T, label_T. cbn [tmap]. rewrite pre_ids_T. now left. }
    destruct (nodup_kids (Some sid) n' a Rr b tid ND' Rin) as (Hst & Ta & Tb & _).
    pose proof (nodup_root_kids sid n' (a ++ Rr :: b) ND') as Sab. apply Forall_app in Sab as [Sa Sb].
    inversion Sb as [|? ? _ Sb']; subst.
    assert (Ft : ctx_free tid C2).
    { apply Hfree. apply in_pre_ids_kid. unfold RR, R, ref_tree. rewrite reread_T, label_T, pre_ids_T. now left. }
    assert (Fs : ctx_free sid C2) by (apply Hfree; rewrite pre_ids_T; now left).
    assert (Efind : tfind tid (plug C2 (T (Some sid) n' (a ++ Rr :: b))) = Some Rr).
    { apply (tfind_plug tid C2 Ft). cbn [tfind]. rewrite id_eq_T, Hst. rewrite find_map_app_none.
      - cbn [find_map]. now rewrite (tfind_root tid Rr Rid).
      - eapply Forall_impl; [|exact Ta]. intros z Hz. now apply tfind_notin. }
    assert (Enode : exists k tx rt, t_node Rr = NRef k tx rt /\ k = nk).
    { unfold Rr, RR, R, ref_tree. rewrite reread_T, label_T. cbn [tmap t_node].
      unfold ref_back in Hback. fold txt. destruct (rnode (key_parent key) o (NRef nk txt Regular)); try discriminate.
      cbn [norm_node]. eexists _, _, _. split; [reflexivity | now apply String.eqb_eq]. }
    destruct Enode as (k0 & tx & rt0 & En & Ek).
    split; [|split; [|split]].
    - (* the reference names the new note *)
      unfold reference_key. rewrite Efind, En. exact Ek.
    - (* the text *)
      rewrite EN.
      rewrite (roundtrip_spec sid tid C2 (Some sid) n' a _ b Rr nk (Some rn)); auto.
      + unfold project.
        rewrite (proj2 (proj2 (proj2 (same_written_plug (key_parent key) C2 _ _
                   (same_written_doc (key_parent key) (Some sid) n' a (Some rn) nk _ b eq_refl
                      (eq_trans (is_section_rebuilt ctx (key_parent key) o x (S rn)) Hx)))))).
        fold (project (key_parent key) (plug C2 (T (Some sid) n' (a ++ tmap norm (label (reread (key_parent key) o x) (S rn)) :: b)))).
        fold (project (key_parent key) t).
        rewrite <- (again_back key t) by assumption. apply project_of_erase.
        unfold t. rewrite reread_plug. fold Cr. apply erase_replug; [exact EC|].
        unfold P. rewrite reread_T, map_app. cbn [map tmap erase]. rewrite !map_app. cbn [map].
        unfold a, b, n'. now rewrite !erase_tmap_labelf, erase_tmap_label.
      + cbn. apply Nat.eqb_refl.
      + unfold a. now rewrite nonsec_rebuilt.
      + unfold b. destruct rs as [|y rs']; [reflexivity|]. cbn [map labelf]. rewrite is_section_rebuilt.
        cbn [forallb] in Hrs. now apply andb_prop in Hrs as [Hy _].
    - (* the surrounding section *)
      rewrite gss_plug; [| exact Ft | now rewrite id_eq_T | apply contains_kid; destruct Rr; cbn [contains]; now rewrite Rid].
      cbn [get_surrounding_section_id]. rewrite (existsb_middle_false a Rr b tid Ta Tb), Rid.
      unfold n'. now rewrite norm_section, rnode_section.
    - (* the node is a reference *)
      exists Rr. unfold tget. rewrite Efind. split; [reflexivity|]. unfold is_reference. now rewrite En.
  Qed.


  Theorem extract_inline_text key nk r' rn e pid C i ln l1 x rs :
    let dir := key_parent key in
    let t := plug C (T i (NSection ln) (l1 ++ x :: rs)) in
    let txt := node_plain_text (t_node x) in
    let src := plug C (T i (NSection ln) (l1 ++ ref_tree nk txt :: rs)) in
    key_parent nk = dir ->
    ctx_free pid C -> ctx_free e C -> oid_is i pid = true -> oid_is i e = false ->
    forallb nonsec l1 = true -> is_section x = true -> id_eq x e = true ->
    Forall (fun t => contains t e = false) l1 -> Forall (fun t => id_eq t e = false) rs ->
    doc_of_key key t = true -> shaped t = true ->
    reparse_safe o (project dir t) = true -> settled ctx dir o (project dir t) = true ->
    reparse_safe o (project dir src) = true -> reparse_safe o (project dir x) = true ->
    ref_back dir o nk txt = true ->
    let O' := reparsed key r' src in
    let N' := tmap norm (label (spec_tree nk (rr o (project dir x))) rn) in
    let sid := r' + pre_off C in
    let tid := sid + 1 + fsz l1 in
    extract_rec e pid nk t = Ok src /\ tget t e = Ok x /\
    reference_key O' tid = nk /\
    tree_to_markdown o tables dir (append_pre_header sid N' (remove_node tid O')) = tree_to_markdown o tables dir t /\
    get_surrounding_section_id tid O' = Some sid /\ exists R', tget O' tid = Ok R' /\ is_reference R' = true.
  Proof.
    intros dir t txt src Hnk HCp HCe Hip Hie Hl1 Hx Hxe Nl1 Nrs Hdoc Hsh Hsafe Hset Hsafe1 Hsafex Hback O' N' sid tid.
    destruct (extract_inline_blocks key nk r' rn e pid C i ln l1 x rs Hnk HCp HCe Hip Hie Hl1 Hx Hxe Nl1 Nrs Hdoc Hsh Hsafe
                Hsafe1 Hsafex Hback) as (E1 & E2 & E3 & E4 & E5 & E6).
    repeat split; auto. now apply text_of_blocks.
  Qed.

  (* the same, as the change list the InlineSection action returns on the re-read library: the new note is
     removed and the source is updated to the formatted original *)
  Corollary extract_inline_changes key nk r' rn e pid C i ln l1 x rs cx kg :
    let dir := key_parent key in
    let t := plug C (T i (NSection ln) (l1 ++ x :: rs)) in
    let txt := node_plain_text (t_node x) in
    let src := plug C (T i (NSection ln) (l1 ++ ref_tree nk txt :: rs)) in
    key_parent nk = dir ->
    ctx_free pid C -> ctx_free e C -> oid_is i pid = true -> oid_is i e = false ->
    forallb nonsec l1 = true -> is_section x = true -> id_eq x e = true ->
    Forall (fun t => contains t e = false) l1 -> Forall (fun t => id_eq t e = false) rs ->
    doc_of_key key t = true -> shaped t = true ->
    reparse_safe o (project dir t) = true -> settled ctx dir o (project dir t) = true ->
    reparse_safe o (project dir src) = true -> reparse_safe o (project dir x) = true ->
    ref_back dir o nk txt = true ->
    let O' := reparsed key r' src in
    let N' := tmap norm (label (spec_tree nk (rr o (project dir x))) rn) in
    let tid := r' + pre_off C + 1 + fsz l1 in
    (* the server's answers on the re-read library *)
    cx_key_of cx tid = Ok key -> cx_collect cx key = Ok O' -> cx_collect cx nk = Ok N' ->
    exists final,
      changes cx InlineSection kg tid = Ok (Some [Remove nk; Update key dir final]) /\
      tree_to_markdown o tables dir final = tree_to_markdown o tables dir t.
  Proof.
    intros dir t txt src Hnk HCp HCe Hip Hie Hl1 Hx Hxe Nl1 Nrs Hdoc Hsh Hsafe Hset Hsafe1 Hsafex Hback O' N' tid Hk Hc1 Hc2.
    destruct (extract_inline_text key nk r' rn e pid C i ln l1 x rs Hnk HCp HCe Hip Hie Hl1 Hx Hxe Nl1 Nrs Hdoc Hsh Hsafe
                Hset Hsafe1 Hsafex Hback) as (_ & _ & Eref & Etext & Egss & R' & Eget & ER).
    fold dir t txt src O' N' tid in Eref, Etext, Egss, Eget.
    eexists. split; [|exact Etext].
    unfold changes. rewrite Hk. cbn [bind]. unfold ctx_collect. rewrite Hc1. cbn [bind]. rewrite Eget. cbn [bind].
    rewrite ER, Eref, Egss, Hc2. reflexivity.
  Qed.
End Trips.

(* ---------- the class is closed under the step: the re-read tree has the builder's shape again ------------- *)

Definition kc (nd : node) : nat :=
  match nd with NDocument _ => 0 | NSection _ => 1 | NQuote => 2 | NBList | NOList => 3 | _ => 4 end.

Lemma is_section_kc t : is_section t = Nat.eqb (kc (t_node t)) 1.
Proof. destruct t as [i nd c]. destruct nd; reflexivity. Qed.
Lemma is_doc_kc t : is_doc t = Nat.eqb (kc (t_node t)) 0.
Proof. destruct t as [i nd c]. destruct nd; reflexivity. Qed.

Lemma pts_map (f : tree -> tree) l : (forall t, is_section (f t) = is_section t) -> pts (map f l) = pts l.
Proof.
  intros H. induction l as [|a l IH]; [reflexivity|]. cbn [map pts]. rewrite H, IH. destruct (is_section a); [|reflexivity].
  clear IH. induction l as [|b l IH]; [reflexivity|]. cbn [map forallb]. now rewrite H, IH.
Qed.

Lemma forallb_map_ext {A} (p : A -> bool) (f : A -> A) l : (forall x, p (f x) = p x) -> forallb p (map f l) = forallb p l.
Proof. intros H. induction l as [|a l IH]; [reflexivity|]. cbn [map forallb]. now rewrite H, IH. Qed.

Lemma shaped_tmap g : (forall nd, kc (g nd) = kc nd) -> forall t, shaped (tmap g t) = shaped t.
Proof.
  intros Hg. apply (tree_ind' (fun t => shaped (tmap g t) = shaped t)). intros i nd kids IH.
  assert (Hsec : forall t, is_section (tmap g t) = is_section t)
    by (intros [j n c]; rewrite !is_section_kc; cbn [tmap t_node]; now rewrite Hg).
  assert (Hdoc : forall t, is_doc (tmap g t) = is_doc t)
    by (intros [j n c]; rewrite !is_doc_kc; cbn [tmap t_node]; now rewrite Hg).
  cbn [tmap]. rewrite !shaped_eq.
  assert (E1 : forallb shaped (map (tmap g) kids) = forallb shaped kids).
  { induction IH as [|x r Hx _ IHr]; [reflexivity|]. cbn [map forallb]. now rewrite Hx, IHr. }
  rewrite E1, (forallb_map_ext (fun c => negb (is_doc c)) (tmap g) kids) by (intros; now rewrite Hdoc).
  rewrite (pts_map (tmap g) kids Hsec), (forallb_map_ext is_section (tmap g) kids Hsec).
  assert (E5 : is_nil (map (tmap g) kids) = is_nil kids) by (destruct kids; reflexivity). rewrite E5.
  specialize (Hg nd). destruct nd; destruct (g _); try discriminate Hg; reflexivity.
Qed.

Lemma shaped_erase : forall t, shaped (erase t) = shaped t.
Proof.
  apply (tree_ind' (fun t => shaped (erase t) = shaped t)). intros i nd kids IH.
  assert (Hsec : forall t, is_section (erase t) = is_section t) by (intros [j n c]; reflexivity).
  assert (Hdoc : forall t, is_doc (erase t) = is_doc t) by (intros [j n c]; reflexivity).
  cbn [erase]. rewrite !shaped_eq.
  assert (E1 : forallb shaped (map erase kids) = forallb shaped kids).
  { induction IH as [|x r Hx _ IHr]; [reflexivity|]. cbn [map forallb]. now rewrite Hx, IHr. }
  rewrite E1, (forallb_map_ext (fun c => negb (is_doc c)) erase kids) by (intros; now rewrite Hdoc).
  rewrite (pts_map erase kids Hsec), (forallb_map_ext is_section erase kids Hsec).
  assert (E5 : is_nil (map erase kids) = is_nil kids) by (destruct kids; reflexivity). now rewrite E5.
Qed.

Lemma shaped_label t r : shaped (label t r) = shaped t.
Proof. now rewrite <- (shaped_erase (label t r)), erase_label, shaped_erase. Qed.

Lemma kc_rnode dir o nd : kc (rnode dir o nd) = kc nd.
Proof.
  destruct nd; try reflexivity; cbn [rnode leaf_node].
  - destruct (rr_inlines o _) as [|[] [|]]; try reflexivity. destruct (is_ref_url url); reflexivity.
  - destruct (rr_inlines o _) as [|[] [|]]; try reflexivity. destruct (is_ref_url url); reflexivity.
Qed.
Lemma kc_norm ctx nd : kc (norm_node ctx nd) = kc nd.
Proof. destruct nd; reflexivity. Qed.

Theorem shaped_reparsed ctx o key r' t1 :
  doc_of_key key t1 = true -> shaped t1 = true -> reparse_safe o (project (key_parent key) t1) = true ->
  shaped (reparsed ctx o key r' t1) = true /\ doc_of_key key (reparsed ctx o key r' t1) = true.
Proof.
  intros Hd Hs Hsafe. rewrite reparsed_reread by assumption. unfold reread.
  rewrite (shaped_tmap _ (kc_norm ctx)), shaped_label, (shaped_tmap _ (kc_rnode _ o)), shaped_erase.
  split; [exact Hs|]. destruct t1 as [i nd c]. unfold doc_of_key in *. cbn [t_node] in Hd. destruct nd; try discriminate.
  cbn [erase tmap]. rewrite label_T. cbn [tmap t_node rnode norm_node]. exact Hd.
Qed.

(* =========================== the headline statements ================================================== *)

(* C10, sub-property 4.  Changing a list's type twice THROUGH THE TEXT restores the formatted note.
   t = plug C (T i n c): the list (id [id], the only node with that id) in its context C.  The first action
   writes [change_list_type id t]; the server re-reads that text: [reparsed] (rr, spec_tree, ids = pre-order
   numbers from r', title refresh).  Position: the builder keeps every node in place (reread_spec), so the SAME
   list is the node with the same pre-order index, [pre_off C], in the re-read tree: its id is r' + pre_off C.
   Hypotheses (all decidable): the tree has the builder's shape; the note and the intermediate text are in the
   class [reparse_safe] on which [rr] is claimed; the note is settled (formatting it again changes nothing). *)
Theorem C10_type_twice_text :
  forall ctx o tables key r' id C i n c,
    let dir := key_parent key in
    let t := plug C (T i n c) in
    node_is_list n = true -> oid_is i id = true -> ctx_free id C ->
    doc_of_key key t = true -> shaped t = true ->
    reparse_safe o (project dir t) = true -> settled ctx dir o (project dir t) = true ->
    reparse_safe o (project dir (change_list_type id t)) = true ->
    tree_to_markdown o tables dir (change_list_type (r' + pre_off C) (reparsed ctx o key r' (change_list_type id t)))
    = tree_to_markdown o tables dir t.
Proof. exact type_twice_text. Qed.
Print Assumptions C10_type_twice_text.

(* C10, sub-property 5.  Section -> list -> sections through the text restores the formatted note, for a
   section (id [id]) that is the FIRST sub-section of its parent (no section among the earlier siblings l1) and
   whose parent is not a list.  The new list stands at the section's pre-order index in the re-read tree. *)
Theorem C10_wrap_unwrap_text :
  forall ctx o tables key r' id C pi pn l1 rs i lx cx,
    let dir := key_parent key in
    let t := plug (F pi pn l1 rs :: C) (T i (NSection lx) cx) in
    oid_is i id = true -> ctx_free id (F pi pn l1 rs :: C) ->
    forallb nonsec l1 = true -> node_is_list pn = false ->
    doc_of_key key t = true -> shaped t = true ->
    reparse_safe o (project dir t) = true -> settled ctx dir o (project dir t) = true ->
    reparse_safe o (project dir (wrap_into_list id t)) = true ->
    tree_to_markdown o tables dir
      (unwrap_list (r' + pre_off (F pi pn l1 rs :: C)) (reparsed ctx o key r' (wrap_into_list id t)))
    = tree_to_markdown o tables dir t.
Proof. exact wrap_unwrap_text. Qed.
Print Assumptions C10_wrap_unwrap_text.

(* C09, sub-property 7.  Extract the first sub-section x of a section, write both notes, re-read both, inline
   the reference again (remove_node + append_pre_header with the re-read new note, as InlineSection does):
   the extraction is the one of C09_extract, the reference in the re-read source names the new note (so the
   change list of the inline removes exactly that note), and the text written is the formatted original. *)
Theorem C09_extract_inline_text :
  forall ctx o tables key nk r' rn e pid C i ln l1 x rs,
    let dir := key_parent key in
    let t := plug C (T i (NSection ln) (l1 ++ x :: rs)) in
    let txt := node_plain_text (t_node x) in
    let src := plug C (T i (NSection ln) (l1 ++ ref_tree nk txt :: rs)) in
    key_parent nk = dir ->
    ctx_free pid C -> ctx_free e C -> oid_is i pid = true -> oid_is i e = false ->
    forallb nonsec l1 = true -> is_section x = true -> id_eq x e = true ->
    Forall (fun t => contains t e = false) l1 -> Forall (fun t => id_eq t e = false) rs ->
    doc_of_key key t = true -> shaped t = true ->
    reparse_safe o (project dir t) = true -> settled ctx dir o (project dir t) = true ->
    reparse_safe o (project dir src) = true -> reparse_safe o (project dir x) = true ->
    ref_back dir o nk txt = true ->
    let O' := reparsed ctx o key r' src in
    let N' := tmap (norm_node ctx) (label (spec_tree nk (rr o (project dir x))) rn) in
    let sid := r' + pre_off C in
    let tid := sid + 1 + fsz l1 in
    extract_rec e pid nk t = Ok src /\ tget t e = Ok x /\
    reference_key O' tid = nk /\
    tree_to_markdown o tables dir (append_pre_header sid N' (remove_node tid O')) = tree_to_markdown o tables dir t /\
    get_surrounding_section_id tid O' = Some sid /\ exists R', tget O' tid = Ok R' /\ is_reference R' = true.
Proof. exact extract_inline_text. Qed.
Print Assumptions C09_extract_inline_text.

Theorem C09_extract_inline_changes :
  forall ctx o tables key nk r' rn e pid C i ln l1 x rs cx kg,
    let dir := key_parent key in
    let t := plug C (T i (NSection ln) (l1 ++ x :: rs)) in
    let txt := node_plain_text (t_node x) in
    let src := plug C (T i (NSection ln) (l1 ++ ref_tree nk txt :: rs)) in
    key_parent nk = dir ->
    ctx_free pid C -> ctx_free e C -> oid_is i pid = true -> oid_is i e = false ->
    forallb nonsec l1 = true -> is_section x = true -> id_eq x e = true ->
    Forall (fun t => contains t e = false) l1 -> Forall (fun t => id_eq t e = false) rs ->
    doc_of_key key t = true -> shaped t = true ->
    reparse_safe o (project dir t) = true -> settled ctx dir o (project dir t) = true ->
    reparse_safe o (project dir src) = true -> reparse_safe o (project dir x) = true ->
    ref_back dir o nk txt = true ->
    let O' := reparsed ctx o key r' src in
    let N' := tmap (norm_node ctx) (label (spec_tree nk (rr o (project dir x))) rn) in
    let tid := r' + pre_off C + 1 + fsz l1 in
    cx_key_of cx tid = Ok key -> cx_collect cx key = Ok O' -> cx_collect cx nk = Ok N' ->
    exists final,
      changes cx InlineSection kg tid = Ok (Some [Remove nk; Update key dir final]) /\
      tree_to_markdown o tables dir final = tree_to_markdown o tables dir t.
Proof. exact extract_inline_changes. Qed.
Print Assumptions C09_extract_inline_changes.

(* Without [settled] (any note in the class): the blocks written after the round trip are the note's blocks
   formatted once more, block for block (ReparseFacts.gagain, the one more pass of C02); with [settled] that is
   the note itself - the three theorems above. *)
Definition C10_type_twice_blocks := type_twice_blocks.
Definition C10_wrap_unwrap_blocks := wrap_unwrap_blocks.
Definition C09_extract_inline_blocks := extract_inline_blocks.
Print Assumptions C10_type_twice_blocks.
Print Assumptions C10_wrap_unwrap_blocks.
Print Assumptions C09_extract_inline_blocks.

Print Assumptions reread_spec.
Print Assumptions shaped_reparsed.

(* =========================== non-vacuity, and what the hypotheses exclude =============================== *)

Definition xo : opts := Opts ".md".
Definition xctx : titles := fun k => if String.eqb k "d/a" then Some "Title A" else None.
Definition xkey : string := "d/n".

(* a bullet list with a nested ordered list and a quote, between paragraphs, a reference and sections *)
Definition xa_list : tree :=
  T (Some 4) NBList [sec 5 "one" [T (Some 6) NOList [sec 7 "sub" []; sec 17 "sub2" []]];
                     sec 8 "two" [leaf 9 "more"; T (Some 18) NQuote [leaf 19 "q"]]].
Definition xa_C : list frame :=
  [F (Some 1) (NSection [Str "Top"]) [leaf 2 "p"; T (Some 3) (NRef "d/a" "Title A" Regular) []]
     [sec 10 "A" [leaf 11 "a text"; sec 13 "A1" [T (Some 14) (NRaw None "code
") []]]; sec 15 "B" [T (Some 16) NRule []]];
   F (Some 0) (NDocument xkey) [leaf 12 "intro"] []].
Definition xa : tree := plug xa_C xa_list.

Example C10_type_twice_text_nonvacuous :
  ctx_free 4 xa_C /\ doc_of_key xkey xa = true /\ shaped xa = true /\
  reparse_safe xo (project "d" xa) = true /\ settled xctx "d" xo (project "d" xa) = true /\
  reparse_safe xo (project "d" (change_list_type 4 xa)) = true /\
  tree_to_markdown xo [] "d" (change_list_type 4 xa) <> tree_to_markdown xo [] "d" xa /\
  tree_to_markdown xo [] "d" (change_list_type (100 + pre_off xa_C) (reparsed xctx xo xkey 100 (change_list_type 4 xa)))
  = tree_to_markdown xo [] "d" xa.
Proof.
  assert (HC : ctx_free 4 xa_C) by (repeat constructor).
  assert (H : doc_of_key xkey xa = true /\ shaped xa = true /\
              reparse_safe xo (project "d" xa) = true /\ settled xctx "d" xo (project "d" xa) = true /\
              reparse_safe xo (project "d" (change_list_type 4 xa)) = true) by (repeat split; vm_compute; reflexivity).
  destruct H as (H1 & H2 & H3 & H4 & H5).
  refine (conj HC (conj H1 (conj H2 (conj H3 (conj H4 (conj H5 (conj _ _))))))).
  - vm_compute. discriminate.
  - apply (C10_type_twice_text xctx xo [] xkey 100 4 xa_C (Some 4) NBList _); auto.
Qed.

(* the nested ordered list of the same note (four frames deep) *)
Example C10_type_twice_text_nested :
  let C := [F (Some 5) (NSection [Str "one"]) [] [];
            F (Some 4) NBList [] [sec 8 "two" [leaf 9 "more"; T (Some 18) NQuote [leaf 19 "q"]]]] ++ xa_C in
  let x := T (Some 6) NOList [sec 7 "sub" []; sec 17 "sub2" []] in
  plug C x = xa /\
  tree_to_markdown xo [] "d" (change_list_type (100 + pre_off C) (reparsed xctx xo xkey 100 (change_list_type 6 (plug C x))))
  = tree_to_markdown xo [] "d" (plug C x).
Proof.
  cbv zeta. split; [reflexivity|].
  apply (C10_type_twice_text xctx xo [] xkey 100 6 _ (Some 6) NOList _); try (vm_compute; reflexivity).
  repeat constructor.
Qed.

(* adjacent lists (class 3 of Check_C10, F-ADJ of Props/C10.v): changing the ordered list next to a bullet list
   writes two bullet lists a blank line apart; the hypothesis on the intermediate text is false there *)
Example C10_type_twice_text_adjacent_excluded :
  let t := T (Some 0) (NDocument xkey) [sec 1 "s" [T (Some 2) NBList [sec 3 "x" []]; T (Some 4) NOList [sec 5 "y" []]]] in
  reparse_safe xo (project "d" t) = true /\ settled xctx "d" xo (project "d" t) = true /\ shaped t = true /\
  adjacent_lists (project "d" (change_list_type 4 t)) = true /\
  reparse_safe xo (project "d" (change_list_type 4 t)) = false.
Proof. cbv zeta. repeat split; vm_compute; reflexivity. Qed.

(* section -> list -> sections *)
Definition xb_x : tree := sec 10 "A" [leaf 11 "a text"; sec 13 "A1" [leaf 14 "deep"; T (Some 20) NBList [sec 21 "i" []]]].
Definition xb_l : list tree := [leaf 2 "p"; T (Some 4) NOList [sec 5 "one" [leaf 6 "x"]]].
Definition xb_r : list tree := [sec 15 "B" [T (Some 16) NRule []]].
Definition xb_C : list frame := [F (Some 0) (NDocument xkey) [leaf 12 "intro"] [sec 30 "Z" []]].
Definition xb_F : frame := F (Some 1) (NSection [Str "Top"]) xb_l xb_r.
Definition xb : tree := plug (xb_F :: xb_C) xb_x.

Example C10_wrap_unwrap_text_nonvacuous :
  ctx_free 10 (xb_F :: xb_C) /\ forallb nonsec xb_l = true /\ doc_of_key xkey xb = true /\ shaped xb = true /\
  reparse_safe xo (project "d" xb) = true /\ settled xctx "d" xo (project "d" xb) = true /\
  reparse_safe xo (project "d" (wrap_into_list 10 xb)) = true /\
  tree_to_markdown xo [] "d" (wrap_into_list 10 xb) <> tree_to_markdown xo [] "d" xb /\
  tree_to_markdown xo [] "d" (unwrap_list (100 + pre_off (xb_F :: xb_C)) (reparsed xctx xo xkey 100 (wrap_into_list 10 xb)))
  = tree_to_markdown xo [] "d" xb.
Proof.
  assert (HC : ctx_free 10 (xb_F :: xb_C)) by (repeat constructor).
  assert (H : forallb nonsec xb_l = true /\ doc_of_key xkey xb = true /\ shaped xb = true /\
              reparse_safe xo (project "d" xb) = true /\ settled xctx "d" xo (project "d" xb) = true /\
              reparse_safe xo (project "d" (wrap_into_list 10 xb)) = true) by (repeat split; vm_compute; reflexivity).
  destruct H as (H0 & H1 & H2 & H3 & H4 & H5).
  refine (conj HC (conj H0 (conj H1 (conj H2 (conj H3 (conj H4 (conj H5 (conj _ _)))))))).
  - vm_compute. discriminate.
  - apply (C10_wrap_unwrap_text xctx xo [] xkey 100 10 xb_C (Some 1) (NSection [Str "Top"]) xb_l xb_r (Some 10)); auto.
Qed.

(* after a sibling section (class 6, C10_wrap_unwrap_after_section_refuted): every other hypothesis holds, the
   list is read back as part of the sibling, list -> sections writes a deeper heading: [forallb nonsec l1] is
   the clause that excludes it *)
Theorem C10_wrap_unwrap_text_after_section_refuted :
  let l1 := [sec 1 "a" []] in
  let Fp := F (Some 0) (NDocument xkey) l1 [] in
  let t := plug [Fp] (T (Some 2) (NSection [Str "b"]) []) in
  forallb nonsec l1 = false /\ ctx_free 2 [Fp] /\ doc_of_key xkey t = true /\ shaped t = true /\
  reparse_safe xo (project "d" t) = true /\ settled xctx "d" xo (project "d" t) = true /\
  reparse_safe xo (project "d" (wrap_into_list 2 t)) = true /\
  tree_to_markdown xo [] "d" (unwrap_list (100 + pre_off [Fp]) (reparsed xctx xo xkey 100 (wrap_into_list 2 t)))
  = "# a" +++ LFS +++ LFS +++ "## b" +++ LFS /\
  tree_to_markdown xo [] "d" t = "# a" +++ LFS +++ LFS +++ "# b" +++ LFS.
Proof. cbv zeta. repeat split; try (vm_compute; reflexivity). repeat constructor. Qed.

(* next to a bullet list (class 3): the hypothesis on the intermediate text is false *)
Example C10_wrap_unwrap_text_adjacent_excluded :
  let t3 := T (Some 0) (NDocument xkey) [sec 1 "s" [T (Some 2) NBList [sec 3 "x" []]; sec 4 "b" []]] in
  reparse_safe xo (project "d" t3) = true /\ reparse_safe xo (project "d" (wrap_into_list 4 t3)) = false.
Proof. cbv zeta. split; vm_compute; reflexivity. Qed.

(* a section holding a rule right under its heading and two quotes in a row (the former class 5: in a tight
   item the rule was a setext underline, the quotes one quote).  Since the repair of F-TIGHTTAIL the writer
   writes such an item sparse (Project.is_sparse, ReparseFacts.tight_list_calm), the intermediate text is in
   the class and the round trip HOLDS *)
Definition xc_x : tree :=
  sec 4 "b" [T (Some 5) NRule []; T (Some 6) NQuote [leaf 7 "q1"]; T (Some 8) NQuote [leaf 9 "q2"]].
Definition xc_F : frame := F (Some 1) (NSection [Str "s"]) [] [].
Definition xc_C : list frame := [F (Some 0) (NDocument xkey) [] []].
Definition xc : tree := plug (xc_F :: xc_C) xc_x.

Example C10_wrap_unwrap_text_tight_rule_quotes_holds :
  reparse_safe xo (project "d" (wrap_into_list 4 xc)) = true /\
  tree_to_markdown xo [] "d" (wrap_into_list 4 xc) <> tree_to_markdown xo [] "d" xc /\
  tree_to_markdown xo [] "d" (unwrap_list (100 + pre_off (xc_F :: xc_C)) (reparsed xctx xo xkey 100 (wrap_into_list 4 xc)))
  = tree_to_markdown xo [] "d" xc.
Proof.
  assert (H5 : reparse_safe xo (project "d" (wrap_into_list 4 xc)) = true) by (vm_compute; reflexivity).
  refine (conj H5 (conj _ _)).
  - vm_compute. discriminate.
  - apply (C10_wrap_unwrap_text xctx xo [] xkey 100 4 xc_C (Some 1) (NSection [Str "s"]) [] [] (Some 4));
      try (vm_compute; reflexivity); auto. repeat constructor.
Qed.

(* heading depth (class 4): a note in the class has no heading deeper than 6, and the item written for the
   section restarts at level 1; a level-7 heading is outside [reparse_safe] (ReparseFacts.reparse_depth7_refuted) *)
Example C10_text_depth7_excluded : reparse_safe xo [GHeader 7 [Str "x"]] = false.
Proof. reflexivity. Qed.

(* extract / inline *)
Definition xb_src : tree := plug xb_C (T (Some 1) (NSection [Str "Top"]) (xb_l ++ ref_tree "d/2" "A" :: xb_r)).

Example C09_extract_inline_text_nonvacuous :
  let O' := reparsed xctx xo xkey 100 xb_src in
  let N' := tmap (norm_node xctx) (label (spec_tree "d/2" (rr xo (project "d" xb_x))) 200) in
  extract_rec 10 1 "d/2" xb = Ok xb_src /\ tget xb 10 = Ok xb_x /\
  tree_to_markdown xo [] "d" xb_src <> tree_to_markdown xo [] "d" xb /\
  reference_key O' (100 + pre_off xb_C + 1 + fsz xb_l) = "d/2" /\
  tree_to_markdown xo [] "d" (append_pre_header (100 + pre_off xb_C) N' (remove_node (100 + pre_off xb_C + 1 + fsz xb_l) O'))
  = tree_to_markdown xo [] "d" xb.
Proof.
  cbv zeta.
  destruct (C09_extract_inline_text xctx xo [] xkey "d/2" 100 200 10 1 xb_C (Some 1) [Str "Top"] xb_l xb_x xb_r)
    as (E1 & E2 & E3 & E4 & _); try (vm_compute; reflexivity); try (repeat constructor; fail).
  refine (conj E1 (conj E2 (conj _ (conj E3 E4)))). vm_compute. discriminate.
Qed.

(* not the first sub-section: the inlined section comes back BEFORE its elder sibling *)
Theorem C09_extract_inline_text_not_first_refuted :
  let t := T (Some 0) (NDocument xkey) [sec 1 "s" [sec 2 "a" []; sec 3 "b" []]] in
  let src := T (Some 0) (NDocument xkey) [sec 1 "s" [ref_tree "d/2" "b"; sec 2 "a" []]] in
  let O' := reparsed xctx xo xkey 100 src in
  let N' := tmap (norm_node xctx) (label (spec_tree "d/2" (rr xo (project "d" (sec 3 "b" [])))) 200) in
  extract_rec 3 1 "d/2" t = Ok src /\ reference_key O' 102 = "d/2" /\
  reparse_safe xo (project "d" t) = true /\ settled xctx "d" xo (project "d" t) = true /\
  reparse_safe xo (project "d" src) = true /\ shaped t = true /\ shaped src = true /\
  tree_to_markdown xo [] "d" (append_pre_header 101 N' (remove_node 102 O')) <> tree_to_markdown xo [] "d" t.
Proof. cbv zeta. repeat split; try (vm_compute; reflexivity). vm_compute. discriminate. Qed.
