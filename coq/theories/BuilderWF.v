(* BuilderWF.v — the transliterated SectionsBuilder / GraphBuilder keeps the arena a well-formed
   forest (C20; used by C05/C17/C18): for EVERY list of reader blocks, every key and
   every well-formed arena, [build_document] returns normally and
     - the resulting arena satisfies [arena_ok];
     - the slots of the older notes are untouched;
     - the slot after them is the new document root, every later slot is a live non-document node;
     - (build_document_owned) every new node belongs to the new note, and the walk from the new
       root reaches every new node exactly once.
   Method: the cursor invariant of BuilderFacts is strengthened to
       Pre st  :=  arena_ok (b_arena st) /\ disciplined (b_arena st) (b_cur st) (b_insert st)
   and every one of the five mutually recursive functions is shown to relate its start state to its
   end state by [Post]: the arena stays well formed, the end cursor is disciplined, old slots other
   than the start cursor are untouched, the start cursor keeps its kind, its prev and the slot the
   builder was NOT allowed to write ([frame]), every added slot is live and not a document
   ([news]), and the cursor either did not move at all or sits on an added slot with insert=false.
   The frame is what lets the builder return to an earlier node (the list node after its items,
   the section node after its body, the quote node after its blocks): that node's `next` is
   still free. *)
From IweV Require Import Str Ast RelPath Arena ArenaWF ArenaFacts BuilderFacts Check_Norm SectionsFacts ForestFacts.
From Coq Require Import Lia Permutation.
Local Open Scope string_scope.
Local Open Scope list_scope.

(* ---------- frames ---------------------------------------------------------------------------- *)

(* what a run of the builder that starts with the cursor (c, i) may do to the slots that existed:
   nothing, except writing the link slot of c that the insert flag selects *)
Definition frame (a : arena) (c : nat) (i : bool) (a' : arena) : Prop :=
  length a <= length a' /\
  forall id n, get a id = Some n ->
    exists n', get a' id = Some n' /\ g_kind n' = g_kind n /\ g_prev n' = g_prev n /\
               (id <> c -> n' = n) /\
               (if i then g_next n' = g_next n else g_child n' = g_child n).

(* every slot added is a live node other than a document *)
Definition news (a a' : arena) : Prop :=
  forall id n, length a <= id -> get a' id = Some n ->
    is_emptyk (g_kind n) = false /\ is_dock (g_kind n) = false.

Definition Grow (a : arena) (c : nat) (i : bool) (a' : arena) : Prop :=
  arena_ok a' = true /\ frame a c i a' /\ news a a'.

Lemma frame_refl a c i : frame a c i a.
Proof.
  split; [lia|]. intros id n H. exists n. repeat split; auto. now destruct i.
Qed.

Lemma news_refl a : news a a.
Proof. intros id n Hle Hg. apply get_lt in Hg. lia. Qed.

Lemma Grow_refl a c i : arena_ok a = true -> Grow a c i a.
Proof. intros H. split; [exact H|]. split; [apply frame_refl | apply news_refl]. Qed.

Lemma get_some_lt (a : arena) id : id < length a -> exists n, get a id = Some n.
Proof.
  intros H. unfold get. destruct (nth_error a id) as [n|] eqn:E; [now exists n|].
  apply nth_error_None in E. lia.
Qed.

(* a later run composes with an earlier one when it starts on an added slot, or exactly where
   the earlier one started *)
Lemma frame_trans a c i a1 c1 i1 a2 :
  frame a c i a1 -> frame a1 c1 i1 a2 ->
  (length a <= c1 \/ (c1 = c /\ i1 = i)) ->
  frame a c i a2.
Proof.
  intros [L1 F1] [L2 F2] Hlink. split; [lia|].
  intros id n Hg.
  destruct (F1 id n Hg) as (n1 & G1 & K1 & P1 & E1 & S1).
  destruct (F2 id n1 G1) as (n2 & G2 & K2 & P2 & E2 & S2).
  exists n2. split; [exact G2|]. split; [congruence|]. split; [congruence|].
  pose proof (get_lt _ _ _ Hg) as Hid.
  destruct Hlink as [Hnew|[-> ->]].
  - assert (Hne : id <> c1) by lia. specialize (E2 Hne). subst n2.
    split; [exact E1 | exact S1].
  - split.
    + intros Hne. rewrite (E2 Hne). now apply E1.
    + destruct i; congruence.
Qed.

Lemma news_trans a c1 i1 a1 a2 :
  news a a1 -> frame a1 c1 i1 a2 -> news a1 a2 -> news a a2.
Proof.
  intros N1 [L2 F2] N2 id n Hle Hg.
  destruct (Nat.lt_ge_cases id (length a1)) as [Hlt|Hge].
  - destruct (get_some_lt a1 id Hlt) as (m & Hm).
    destruct (F2 id m Hm) as (n' & G' & K' & _).
    rewrite Hg in G'. inversion G'; subst n'. rewrite K'. now apply (N1 id m).
  - now apply (N2 id n).
Qed.

Lemma Grow_trans a c i a1 c1 i1 a2 :
  Grow a c i a1 -> Grow a1 c1 i1 a2 ->
  (length a <= c1 \/ (c1 = c /\ i1 = i)) ->
  Grow a c i a2.
Proof.
  intros (_ & F1 & N1) (O2 & F2 & N2) Hlink. split; [exact O2|]. split.
  - eapply frame_trans; eauto.
  - eapply news_trans; eauto.
Qed.

(* ---------- the state invariant and the relation between start and end state ------------------ *)

Definition Pre (st : bst) : Prop :=
  arena_ok (b_arena st) = true /\ disciplined (b_arena st) (b_cur st) (b_insert st).

Definition same (st st' : bst) : Prop :=
  b_arena st' = b_arena st /\ b_cur st' = b_cur st /\ b_insert st' = b_insert st.

Definition Post (st st' : bst) : Prop :=
  Grow (b_arena st) (b_cur st) (b_insert st) (b_arena st') /\
  disciplined (b_arena st') (b_cur st') (b_insert st') /\
  (same st st' \/ (length (b_arena st) <= b_cur st' /\ b_insert st' = false)).

(* the cursor has moved to an added slot *)
Definition Moved (st st' : bst) : Prop :=
  Post st st' /\ length (b_arena st) <= b_cur st' /\ b_insert st' = false.

Lemma Post_Pre st st' : Post st st' -> Pre st'.
Proof. intros ((O & _) & D & _). split; assumption. Qed.

Lemma Post_refl st : Pre st -> Post st st.
Proof.
  intros [O D]. split; [now apply Grow_refl|]. split; [exact D|]. left. repeat split.
Qed.

Lemma Post_trans st s s' : Post st s -> Post s s' -> Post st s'.
Proof.
  intros (G1 & D1 & M1) (G2 & D2 & M2).
  assert (Hlink : length (b_arena st) <= b_cur s \/ (b_cur s = b_cur st /\ b_insert s = b_insert st)).
  { destruct M1 as [(_ & Hc & Hi)|[Hc _]]; [right; auto | left; exact Hc]. }
  split; [eapply Grow_trans; eauto|]. split; [exact D2|].
  assert (Hlen : length (b_arena st) <= length (b_arena s)) by (destruct G1 as (_ & [L _] & _); exact L).
  destruct M2 as [(Ea & Ec & Ei)|[Hc Hi]].
  - destruct M1 as [(Ea1 & Ec1 & Ei1)|[Hc1 Hi1]].
    + left. unfold same. repeat split; congruence.
    + right. split; congruence.
  - right. split; [lia | exact Hi].
Qed.

Lemma Moved_Post st st' : Moved st st' -> Post st st'.
Proof. now intros [H _]. Qed.

Lemma Post_Moved_trans st s s' : Post st s -> Moved s s' -> Moved st s'.
Proof.
  intros H1 (H2 & Hc & Hi). split; [eapply Post_trans; eauto|]. split; [|exact Hi].
  destruct H1 as ((_ & [L _] & _) & _). lia.
Qed.

Lemma Moved_Post_trans st s s' : Moved st s -> Post s s' -> Moved st s'.
Proof.
  intros (H1 & Hc & Hi) H2. split; [eapply Post_trans; eauto|].
  assert (L1 : length (b_arena st) <= length (b_arena s)) by (destruct H1 as ((_ & [L1 _] & _) & _); exact L1).
  destruct H2 as ((_ & [L _] & _) & _ & [(Ea & Ec & Ei)|[Hc2 Hi2]]).
  - rewrite Ec, Ei. auto.
  - split; [lia | exact Hi2].
Qed.

(* Post and Moved only look at the arena, the cursor and the flag *)
Lemma Post_same_r st s s' : Post st s -> same s s' -> Post st s'.
Proof.
  intros (G & D & M) (Ea & Ec & Ei). unfold Post. rewrite Ea, Ec, Ei. split; [exact G|]. split; [exact D|].
  destruct M as [(Ea1 & Ec1 & Ei1)|[Hc Hi]]; [left; unfold same; repeat split; congruence | right; auto].
Qed.

Lemma Moved_same_r st s s' : Moved st s -> same s s' -> Moved st s'.
Proof.
  intros (H & Hc & Hi) Hs. split; [eapply Post_same_r; eauto|].
  destruct Hs as (Ea & Ec & Ei). rewrite Ec, Ei. auto.
Qed.

Lemma Pre_same st s : Pre st -> same st s -> Pre s.
Proof. intros [O D] (Ea & Ec & Ei). unfold Pre. now rewrite Ea, Ec, Ei. Qed.

Lemma same_lines st lr : same st (set_lines_range st lr).
Proof. repeat split. Qed.

(* a node just added as a container: both link slots are free *)
Definition fresh_container (a : arena) (id : nat) : Prop :=
  exists n, get a id = Some n /\ insertable (g_kind n) = true /\ is_dock (g_kind n) = false /\
            g_child n = None /\ g_next n = None.

Lemma fresh_disc_true a id : fresh_container a id -> disciplined a id true.
Proof.
  intros (n & G & I & D & C & N). exists n. split; [exact G|]. split; [now apply insertable_live|]. auto.
Qed.

(* ---------- add_node --------------------------------------------------------------------------- *)

Lemma add_node_Moved st k :
  Pre st -> is_emptyk k = false -> is_dock k = false ->
  exists st', add_node st k = Ok st' /\ Moved st st' /\
              get (b_arena st') (b_cur st') = Some (GN k (Some (b_cur st)) None None) /\
              b_cur st' = length (b_arena st).
Proof.
  intros [Hok (n & Hn & He & Hm)] Hk Hkd.
  destruct (add_node_runs (b_arena st) (b_cur st) (b_insert st) k n Hn He Hm st eq_refl eq_refl eq_refl)
    as (st' & Hadd & Har & Hcur & Hins).
  set (a := b_arena st) in *. set (c := b_cur st) in *. set (i := b_insert st) in *.
  pose proof (get_lt _ _ _ Hn) as Hc.
  assert (Hnew : get (b_arena st') (b_cur st') = Some (GN k (Some c) None None)).
  { rewrite Har, Hcur. apply a'_get_new. }
  exists st'. split; [exact Hadd|]. split; [|split; [exact Hnew | exact Hcur]].
  assert (HG : Grow a c i (b_arena st')).
  { rewrite Har. split; [now apply add_node_preserves|]. split.
    - split; [unfold a'; rewrite app_length, set_nth_length; cbn; lia|].
      intros id m Hg. destruct (Nat.eq_dec id c) as [->|Hne].
      + rewrite Hn in Hg. inversion Hg; subst m.
        exists (linked a i n). split; [now apply a'_get_cur|].
        split; [now apply linked_kind|]. split; [now apply linked_prev|].
        split; [intros Hx; now elim Hx|]. unfold linked. destruct i; reflexivity.
      + exists m. split; [rewrite a'_get_old; [exact Hg | exact Hne | eapply get_lt; eauto]|].
        repeat split; auto. now destruct i.
    - intros id m Hle Hg. destruct (a'_get a c i k n Hn id m Hg) as [[-> ->]|[[-> ->]|(_ & Hlt & _)]];
        [cbn; auto | lia | lia]. }
  split; [|split; [rewrite Hcur; apply le_n | exact Hins]].
  split; [exact HG|]. split.
  - rewrite Hins. exists (GN k (Some c) None None). split; [exact Hnew|]. cbn. auto.
  - right. split; [rewrite Hcur; apply le_n | exact Hins].
Qed.

(* the leaf blocks: add the node, record its lines *)
Lemma add_leaf st k lr :
  Pre st -> is_emptyk k = false -> is_dock k = false ->
  exists st', (do s <- add_node st k; Ok (set_lines_range s lr)) = Ok st' /\ Moved st st' /\
              get (b_arena st') (b_cur st') = Some (GN k (Some (b_cur st)) None None).
Proof.
  intros HP Hk Hd. destruct (add_node_Moved st k HP Hk Hd) as (s & H & M & G & _).
  rewrite H. cbn [bind]. eexists. split; [reflexivity|].
  split; [eapply Moved_same_r; [exact M | apply same_lines] | exact G].
Qed.

(* coming back to a container node added earlier, after a run that started below it: the cursor
   is disciplined there with insert = false, because the run could not write its `next` *)
Lemma back_to st a1 c1 a2 (m : list (nat * lrange)) :
  Grow (b_arena st) (b_cur st) (b_insert st) a1 -> length (b_arena st) <= c1 ->
  fresh_container a1 c1 -> Grow a1 c1 true a2 ->
  Moved st (B a2 c1 false m).
Proof.
  intros G1 Hc (n & Gn & In & Dn & Cn & Nn) G2.
  assert (HG : Grow (b_arena st) (b_cur st) (b_insert st) a2)
    by (eapply Grow_trans; [exact G1 | exact G2 | now left]).
  destruct G2 as (O2 & [L2 F2] & N2).
  destruct (F2 c1 n Gn) as (n' & G' & K' & P' & _ & S').
  unfold Moved, Post. cbn [b_arena b_cur b_insert].
  split; [|split; [exact Hc | reflexivity]].
  split; [exact HG|]. split; [|right; split; [exact Hc | reflexivity]].
  exists n'. split; [exact G'|]. rewrite K'. split; [now apply insertable_live|]. split; [exact Dn | congruence].
Qed.

(* folding a step that relates its states by Post *)
Lemma fold_Post {X} (step : bst -> X -> res bst) (l : list X) :
  forall st, Pre st ->
  (forall x, In x l -> forall s, Pre s -> exists s', step s x = Ok s' /\ Post s s') ->
  exists st', fold_left (fun acc x => do s <- acc; step s x) l (Ok st) = Ok st' /\ Post st st'.
Proof.
  induction l as [|x l IH]; intros st HP Hstep; cbn [fold_left].
  - exists st. split; [reflexivity | now apply Post_refl].
  - destruct (Hstep x (or_introl eq_refl) st HP) as (s1 & H1 & P1).
    cbn [bind]. rewrite H1.
    destruct (IH s1 (Post_Pre _ _ P1)) as (st' & H2 & P2).
    { intros y Hy. apply Hstep. now right. }
    exists st'. split; [exact H2 | eapply Post_trans; eauto].
Qed.

(* the same, when every step moves the cursor: a non-empty fold moves it *)
Lemma fold_Moved {X} (step : bst -> X -> res bst) (l : list X) :
  forall st, Pre st ->
  (forall x, In x l -> forall s, Pre s -> exists s', step s x = Ok s' /\ Moved s s') ->
  exists st', fold_left (fun acc x => do s <- acc; step s x) l (Ok st) = Ok st' /\ Post st st' /\
              (l <> [] -> Moved st st').
Proof.
  induction l as [|x l IH]; intros st HP Hstep; cbn [fold_left].
  - exists st. split; [reflexivity|]. split; [now apply Post_refl | intros H; now elim H].
  - destruct (Hstep x (or_introl eq_refl) st HP) as (s1 & H1 & M1).
    cbn [bind]. rewrite H1.
    destruct (IH s1 (Post_Pre _ _ (Moved_Post _ _ M1))) as (st' & H2 & P2 & _).
    { intros y Hy. apply Hstep. now right. }
    exists st'. split; [exact H2|].
    assert (HM : Moved st st') by (eapply Moved_Post_trans; eauto).
    split; [now apply Moved_Post | intros _; exact HM].
Qed.

(* ---------- the main induction ----------------------------------------------------------------- *)

Section Main.
  Variable dir : string.

  Definition block_wf n :=
    forall f b st, dblock_size b <= n -> 4 * n + 1 <= f -> is_header b = false ->
      Pre st -> exists st', block dir f b st = Ok st' /\ Moved st st'.

  Definition sblock_wf n :=
    forall f h st, dblock_size h <= n -> 4 * n + 1 <= f ->
      (text_lead h = true \/ list_lead h = true) -> Pre st ->
      exists st', section_block dir f h st = Ok st' /\ Post st st' /\
                  (text_lead h = true -> Moved st st' /\ fresh_container (b_arena st') (b_cur st')).

  (* a section that starts with text (a heading, or the text of an item) *)
  Definition hsection_wf n :=
    forall f h body st, dblocks_size (h :: body) <= n -> 4 * n + 2 <= f -> text_lead h = true -> Pre st ->
      exists st', process_section dir f (h :: body) st = Ok st' /\ Moved st st'.

  (* any list item *)
  Definition section_wf n :=
    forall f it st, dblocks_size it <= n -> 4 * n + 5 <= f -> Pre st ->
      exists st', process_section dir f it st = Ok st' /\ Post st st'.

  Definition sections_wf n :=
    forall f L bs st, dblocks_size bs <= n -> 4 * n + 3 <= f -> headed bs -> Pre st ->
      exists st', process_sections dir f L bs st = Ok st' /\ Post st st' /\ (bs <> [] -> Moved st st').

  (* a run of blocks starts below the cursor whatever the flag was *)
  Definition blocks_wf n :=
    forall f bs st, dblocks_size bs <= n -> 4 * n + 4 <= f -> Pre (set_insert st true) ->
      exists st', process_blocks dir f bs st = Ok st' /\
                  Grow (b_arena st) (b_cur st) true (b_arena st') /\
                  (bs = [] -> st' = st) /\ (bs <> [] -> Moved (set_insert st true) st').

  Lemma process_blocks_nil f st : 1 <= f -> process_blocks dir f [] st = Ok st.
  Proof. destruct f as [|f]; [lia | reflexivity]. Qed.

  Lemma items_fold_wf n f its st :
    section_wf n -> (forall it, In it its -> dblocks_size it <= n) -> (its <> [] -> 4 * n + 5 <= f) ->
    Pre st ->
    exists st', fold_left (fun acc it => do s <- acc; process_section dir f it s) its (Ok st) = Ok st' /\
                Post st st'.
  Proof.
    intros HS Hsz Hf HP.
    apply (fold_Post (fun s it => process_section dir f it s) its st HP).
    intros it Hin s Hs.
    assert (Hne : its <> []) by (intros ->; contradiction).
    destruct (HS f it s (Hsz it Hin) (Hf Hne) Hs) as (s' & H1 & P1).
    exists s'. auto.
  Qed.

  (* a list block: the list node, its items below it, back to the list node *)
  Lemma list_block n f its st k :
    section_wf n -> (forall it, In it its -> dblocks_size it <= n) -> (its <> [] -> 4 * n + 5 <= f) ->
    Pre st -> insertable k = true -> is_dock k = false ->
    exists st',
      (do st <- add_node st k;
       let st := set_insert st true in
       let id := b_cur st in
       do st <- fold_left (fun acc it => do s <- acc; process_section dir f it s) its (Ok st);
       Ok (set_insert (set_id st id) false)) = Ok st' /\ Moved st st'.
  Proof.
    intros HS Hsz Hf HP Hins Hdk.
    destruct (add_node_Moved st k HP (insertable_live k Hins) Hdk) as (st1 & H1 & M1 & G1 & Hc1).
    rewrite H1. cbn [bind]. cbv zeta.
    assert (Hfresh : fresh_container (b_arena st1) (b_cur st1)).
    { eexists. split; [exact G1|]. cbn [g_kind g_child g_next]. auto. }
    assert (HP1 : Pre (set_insert st1 true)).
    { split; [apply (Post_Pre _ _ (Moved_Post _ _ M1)) | now apply fresh_disc_true]. }
    destruct (items_fold_wf n f its (set_insert st1 true) HS Hsz Hf HP1) as (st2 & H2 & P2).
    rewrite H2. cbn [bind]. eexists. split; [reflexivity|].
    cbn [set_insert set_id b_arena b_cur b_insert b_map].
    destruct M1 as ((GG1 & _) & Hle & _). destruct P2 as (GG2 & _).
    cbn [set_insert b_arena b_cur b_insert] in GG2.
    eapply back_to; eauto.
  Qed.

  Lemma step_block_wf n : (forall m, m < n -> section_wf m /\ blocks_wf m) -> block_wf n.
  Proof.
    intros IH f b st Hsz Hf Hnh HP.
    destruct f as [|f]; [lia|]. rewrite block_S.
    destruct b as [lr l|lr lang text|lr bs|its|its|lr lv l|lr|lr h al rows]; try discriminate.
    - (* paragraph: reference or leaf *)
      destruct (para_is_ref l) eqn:Er.
      + destruct l as [|[| | | | | |url title lt ils|] [|? ?]]; try discriminate.
        destruct (add_leaf st (KRef (from_rel_link_url url dir) (inlines_plain_text ils) lt) lr HP eq_refl eq_refl)
          as (st' & H & M & _). exists st'. auto.
      + destruct (add_leaf st (KLeaf (to_ginlines dir l)) lr HP eq_refl eq_refl) as (st' & H & M & _).
        exists st'. auto.
    - (* code *)
      destruct (add_leaf st (KRaw lang text) lr HP eq_refl eq_refl) as (st' & H & M & _). exists st'. auto.
    - (* quote: a nested run below the quote node, then back to it *)
      destruct (add_node_Moved st KQuote HP eq_refl eq_refl) as (st1 & H1 & M1 & G1 & Hc1).
      rewrite H1. cbn [bind]. cbv zeta. cbn [set_lines_range b_arena b_cur b_insert b_map].
      rewrite size_quote in Hsz.
      destruct (IH (dblocks_size bs) ltac:(lia)) as [_ HB].
      assert (Hfresh : fresh_container (b_arena st1) (b_cur st1)).
      { eexists. split; [exact G1|]. cbn [g_kind g_child g_next]. auto. }
      assert (HP1 : Pre (set_insert (B (b_arena st1) (b_cur st1) true []) true)).
      { split; [apply (Post_Pre _ _ (Moved_Post _ _ M1)) | now apply fresh_disc_true]. }
      destruct (HB f bs _ (le_n _) ltac:(lia) HP1) as (inner & H2 & GG2 & _).
      rewrite H2. cbn [bind]. eexists. split; [reflexivity|].
      destruct M1 as ((GG1 & _) & Hle & Hi1). rewrite Hi1.
      cbn [b_arena b_cur] in GG2.
      eapply back_to; eauto.
    - (* ordered list *)
      rewrite size_olist in Hsz. set (n' := items_size its - 1).
      destruct (IH n' ltac:(destruct its; cbn [items_size] in *; lia)) as [HS _].
      apply (list_block n' f its st KOList HS); auto.
      + intros it Hin. pose proof (items_size_in it its Hin). unfold n'. lia.
      + unfold n'. destruct its; [congruence | cbn [items_size] in *; lia].
    - (* bullet list *)
      rewrite size_blist in Hsz. set (n' := items_size its - 1).
      destruct (IH n' ltac:(destruct its; cbn [items_size] in *; lia)) as [HS _].
      apply (list_block n' f its st KBList HS); auto.
      + intros it Hin. pose proof (items_size_in it its Hin). unfold n'. lia.
      + unfold n'. destruct its; [congruence | cbn [items_size] in *; lia].
    - (* rule *)
      destruct (add_leaf st KRule lr HP eq_refl eq_refl) as (st' & H & M & _). exists st'. auto.
    - (* table *)
      destruct (add_leaf st (KTable (map (to_ginlines dir) h) al (map (map (to_ginlines dir)) rows)) lr HP eq_refl eq_refl)
        as (st' & H & M & _). exists st'. auto.
  Qed.

  Lemma step_sblock_wf n : (forall m, m < n -> section_wf m) -> sblock_wf n.
  Proof.
    intros IH f h st Hsz Hf Hlead HP.
    destruct f as [|f]; [lia|]. rewrite section_block_S.
    destruct h as [lr l|lr lang text|lr bs|its|its|lr lv l|lr|lr hh al rows];
      try (destruct Hlead as [Hx|Hx]; discriminate).
    - destruct (add_leaf st (KSection (to_ginlines dir l)) lr HP eq_refl eq_refl) as (st' & H & M & G).
      exists st'. split; [exact H|]. split; [now apply Moved_Post|]. intros _. split; [exact M|].
      eexists. split; [exact G|]. cbn [g_kind g_child g_next]. auto.
    - rewrite size_olist in Hsz. set (n' := items_size its - 1).
      assert (HS : section_wf n') by (apply IH; destruct its; cbn [items_size] in *; lia).
      destruct (items_fold_wf n' f its st HS) as (st2 & H2 & P2); auto.
      { intros it Hin. pose proof (items_size_in it its Hin). unfold n'. lia. }
      { unfold n'. destruct its; [congruence | cbn [items_size] in *; lia]. }
      exists st2. split; [exact H2|]. split; [exact P2 | discriminate].
    - rewrite size_blist in Hsz. set (n' := items_size its - 1).
      assert (HS : section_wf n') by (apply IH; destruct its; cbn [items_size] in *; lia).
      destruct (items_fold_wf n' f its st HS) as (st2 & H2 & P2); auto.
      { intros it Hin. pose proof (items_size_in it its Hin). unfold n'. lia. }
      { unfold n'. destruct its; [congruence | cbn [items_size] in *; lia]. }
      exists st2. split; [exact H2|]. split; [exact P2 | discriminate].
    - destruct (add_leaf st (KSection (to_ginlines dir l)) lr HP eq_refl eq_refl) as (st' & H & M & G).
      exists st'. split; [exact H|]. split; [now apply Moved_Post|]. intros _. split; [exact M|].
      eexists. split; [exact G|]. cbn [g_kind g_child g_next]. auto.
  Qed.

  (* the body of a section below its node, then back to the node *)
  Lemma section_body m f body st st1 :
    blocks_wf m -> dblocks_size body <= m -> 4 * m + 4 <= f ->
    Moved st st1 -> fresh_container (b_arena st1) (b_cur st1) ->
    exists st2, process_blocks dir f body st1 = Ok st2 /\ Moved st (set_id st2 (b_cur st1)).
  Proof.
    intros HB Hsz Hf M1 Hfresh.
    assert (HP1 : Pre (set_insert st1 true)).
    { split; [apply (Post_Pre _ _ (Moved_Post _ _ M1)) | now apply fresh_disc_true]. }
    destruct (HB f body st1 Hsz Hf HP1) as (st2 & H2 & GG2 & Hnil & Hcons).
    exists st2. split; [exact H2|].
    assert (Hi2 : b_insert st2 = false).
    { destruct body as [|b0 body0].
      - rewrite (Hnil eq_refl). now destruct M1 as (_ & _ & ?).
      - now destruct (Hcons ltac:(discriminate)) as (_ & _ & ?). }
    unfold set_id. rewrite Hi2.
    destruct M1 as ((GG1 & _) & Hle & _).
    eapply back_to; eauto.
  Qed.

  Lemma step_hsection_wf n : sblock_wf n -> (forall m, m < n -> blocks_wf m) -> hsection_wf n.
  Proof.
    intros HSB IH f h body st Hsz Hf Htl HP.
    destruct f as [|f]; [lia|]. rewrite process_section_S, (text_lead_starts h body Htl).
    rewrite dblocks_size_cons in Hsz. pose proof (dblock_size_pos h) as Hpos.
    (* the section's text: a section node; its body below it; back to the section node *)
    destruct (HSB f h st ltac:(lia) ltac:(lia) (or_introl Htl) HP) as (st1 & H1 & P1 & HM).
    destruct (HM Htl) as [M1 Hfresh].
    rewrite H1. cbn [bind].
    destruct (section_body _ f body st st1 (IH (dblocks_size body) ltac:(lia)) (le_n _) ltac:(lia) M1 Hfresh)
      as (st2 & H2 & HMv).
    rewrite H2. cbn [bind]. eexists. split; [reflexivity | exact HMv].
  Qed.

  Lemma step_section_wf n : sblock_wf n -> hsection_wf n -> blocks_wf n -> section_wf n.
  Proof.
    intros HSB HH HB f it st Hsz Hf HP.
    destruct it as [|h body].
    - destruct f as [|f]; [lia|]. rewrite process_section_S.
      exists st. split; [reflexivity | now apply Post_refl].
    - destruct (text_lead h) eqn:Htl.
      + destruct (HH f h body st Hsz ltac:(lia) Htl HP) as (st' & H & M).
        exists st'. split; [exact H | now apply Moved_Post].
      + destruct f as [|f]; [lia|]. rewrite process_section_S.
        destruct (starts_with_header (h :: body)) eqn:Hs.
        * (* a lone list: its items join the enclosing list *)
          assert (body = [] /\ list_lead h = true) as [-> Hll].
          { destruct h; cbn in Htl, Hs; try discriminate; destruct body; try discriminate; auto. }
          rewrite dblocks_size_cons in Hsz. cbn [dblocks_size fold_right] in Hsz.
          destruct (HSB f h st ltac:(lia) ltac:(lia) (or_intror Hll) HP) as (st1 & H1 & P1 & _).
          rewrite H1. cbn [bind]. rewrite process_blocks_nil by lia. cbn [bind].
          eexists. split; [reflexivity|].
          eapply Post_same_r; [exact P1 | repeat split].
        * (* no text: a section node without text, ALL blocks of the item below it, back to the node *)
          destruct (add_node_Moved st (KSection []) HP eq_refl eq_refl) as (st1 & H1 & M1 & G1 & Hc1).
          rewrite H1. cbn [bind].
          assert (Hfresh : fresh_container (b_arena st1) (b_cur st1)).
          { eexists. split; [exact G1|]. cbn [g_kind g_child g_next]. auto. }
          destruct (section_body n f (h :: body) st st1 HB Hsz ltac:(lia) M1 Hfresh) as (st2 & H2 & HMv).
          rewrite H2. cbn [bind]. eexists. split; [reflexivity | now apply Moved_Post].
  Qed.

  Lemma step_sections_wf n :
    hsection_wf n -> (forall m, m < n -> sections_wf m) -> sections_wf n.
  Proof.
    intros HS IH f L bs st Hsz Hf Hhd HP.
    destruct f as [|f]; [lia|]. rewrite process_sections_S.
    destruct bs as [|h r].
    { exists st. split; [reflexivity|]. split; [now apply Post_refl | intros H; now elim H]. }
    cbv zeta.
    destruct (span_section L r) as [body rest] eqn:Es.
    destruct (span_section_spec L r body rest Es) as [Hr Hrest]. subst r.
    rewrite dblocks_size_cons, dblocks_size_app in Hsz.
    pose proof (dblock_size_pos h) as Hpos.
    cbn [headed] in Hhd.
    assert (Htl : text_lead h = true) by (destruct h; try discriminate; reflexivity).
    destruct (HS f h body st) as (st1 & H1 & M1); auto.
    { rewrite dblocks_size_cons. lia. }
    { lia. }
    rewrite H1. cbn [bind].
    pose proof (Moved_Post _ _ M1) as P1.
    destruct (IH (dblocks_size rest) ltac:(lia) f L rest st1 (le_n _) ltac:(lia) Hrest (Post_Pre _ _ P1))
      as (st2 & H2 & P2 & _).
    exists st2. split; [exact H2|].
    assert (HMv : Moved st st2) by (eapply Moved_Post_trans; [exact M1 | exact P2]).
    split; [now apply Moved_Post | intros _; exact HMv].
  Qed.

  Lemma step_blocks_wf n : block_wf n -> sections_wf n -> blocks_wf n.
  Proof.
    intros HB HSs f bs st Hsz Hf HP.
    destruct f as [|f]; [lia|]. rewrite process_blocks_S.
    destruct bs as [|b0 bs0].
    { exists st. split; [reflexivity|]. split; [apply Grow_refl; apply HP|]. split; [reflexivity | intros H; now elim H]. }
    cbv zeta.
    destruct (span_pre (b0 :: bs0)) as [pre rest] eqn:Es.
    destruct (span_pre_spec _ pre rest Es) as (Hbs & Hpre & Hrest).
    rewrite Hbs in Hsz. rewrite dblocks_size_app in Hsz.
    destruct (fold_Moved (fun s b => block dir f b s) pre (set_insert st true) HP) as (st1 & H1 & P1 & HM1).
    { intros b Hin s Hs. rewrite Forall_forall in Hpre.
      apply (HB f b s); auto.
      - assert (dblock_size b <= dblocks_size pre).
        { clear - Hin. induction pre as [|x l IHl]; [contradiction|]. rewrite dblocks_size_cons.
          destruct Hin as [->|Hin]; [lia | specialize (IHl Hin); lia]. }
        lia.
      - lia. }
    rewrite H1. cbn [bind].
    assert (Hfin : forall st2, Moved (set_insert st true) st2 ->
              Grow (b_arena st) (b_cur st) true (b_arena st2) /\
              (b0 :: bs0 = [] -> st2 = st) /\ (b0 :: bs0 <> [] -> Moved (set_insert st true) st2)).
    { intros st2 M. split; [apply M|]. split; [discriminate | auto]. }
    destruct rest as [|h r].
    - exists st1. split; [reflexivity|]. apply Hfin. apply HM1.
      intros ->. rewrite app_nil_r in Hbs. discriminate.
    - cbn [headed] in Hrest.
      destruct (header_level h) as [L|] eqn:EL; [|destruct h; discriminate].
      destruct (HSs f L (h :: r) st1 ltac:(lia) ltac:(lia) Hrest (Post_Pre _ _ P1)) as (st2 & H2 & _ & HM2).
      exists st2. split; [exact H2|]. apply Hfin.
      eapply Post_Moved_trans; [exact P1 | apply HM2; discriminate].
  Qed.

  (* all six, for every size *)
  Theorem builder_wf n :
    block_wf n /\ sblock_wf n /\ hsection_wf n /\ sections_wf n /\ blocks_wf n /\ section_wf n.
  Proof.
    induction n as [n IH] using lt_wf_ind.
    assert (HB : block_wf n) by (apply step_block_wf; intros m Hm; destruct (IH m Hm) as (_ & _ & _ & _ & ? & ?); auto).
    assert (HSB : sblock_wf n) by (apply step_sblock_wf; intros m Hm; now destruct (IH m Hm) as (_ & _ & _ & _ & _ & ?)).
    assert (HH : hsection_wf n) by (apply step_hsection_wf; [exact HSB | intros m Hm; now destruct (IH m Hm) as (_ & _ & _ & _ & ? & _)]).
    assert (HSs : sections_wf n) by (apply step_sections_wf; [exact HH | intros m Hm; now destruct (IH m Hm) as (_ & _ & _ & ? & _)]).
    assert (HBs : blocks_wf n) by now apply step_blocks_wf.
    repeat split; auto. now apply step_section_wf.
  Qed.
End Main.

(* ---------- the headline: build_document keeps the forest well formed --------------------------- *)

Lemma firstn_of_get (a a' : arena) :
  (forall id n, get a id = Some n -> get a' id = Some n) -> firstn (length a) a' = a.
Proof.
  revert a'; induction a as [|x a IH]; intros a' H; [reflexivity|].
  destruct a' as [|y a'].
  - specialize (H 0 x eq_refl). discriminate.
  - cbn [length firstn]. f_equal.
    + specialize (H 0 x eq_refl). cbn in H. congruence.
    + apply IH. intros id n Hg. exact (H (S id) n Hg).
Qed.

(* what the run of the sections builder on a fresh root does, in terms of Grow *)
Lemma build_document_grow (a : arena) (key : string) (bs : list dblock) :
  arena_ok a = true ->
  exists st, build_document a key bs = Ok st /\
    Grow (a ++ [GN (KDocument key) None None None]) (length a) true (b_arena st).
Proof.
  intros Hok. unfold build_document, fuel_for.
  destruct (builder_wf (key_parent key) (dblocks_size bs)) as (_ & _ & _ & _ & HB & _).
  destruct (build_key_wf a key Hok) as [O D].
  destruct (HB (4 * dblocks_size bs + 8) bs (build_key a key) (le_n _) ltac:(lia)) as (st & H & G & _).
  { split; [exact O | exact D]. }
  exists st. split; [exact H | exact G].
Qed.

Theorem build_document_wf (a : arena) (key : string) (bs : list dblock) :
  arena_ok a = true ->
  exists st, build_document a key bs = Ok st /\
    arena_ok (b_arena st) = true /\
    firstn (length a) (b_arena st) = a /\
    (exists n, get (b_arena st) (length a) = Some n /\ g_kind n = KDocument key /\ g_prev n = None /\ g_next n = None) /\
    (forall id n, length a < id -> get (b_arena st) id = Some n ->
         is_emptyk (g_kind n) = false /\ is_dock (g_kind n) = false).
Proof.
  intros Hok.
  destruct (build_document_grow a key bs Hok) as (st & H & O & [L F] & N).
  exists st. split; [exact H|]. split; [exact O|]. split; [|split].
  - apply firstn_of_get. intros id n Hg. pose proof (get_lt _ _ _ Hg) as Hlt.
    destruct (F id n) as (n' & G' & _ & _ & E & _); [now rewrite get_app_l|].
    rewrite G'. f_equal. apply E. lia.
  - destruct (F (length a) _ (get_app_new a _)) as (n' & G' & K' & P' & _ & S').
    exists n'. cbn [g_kind g_prev g_next] in *. auto.
  - intros id n Hlt Hg. apply (N id n); [|exact Hg]. rewrite app_length. cbn. lia.
Qed.
Print Assumptions build_document_wf.

(* the former witness of F-ITEMLEAD: an item that starts with a list and holds a further block; the
   block used to be linked as the child of the inner list's last item, whose own body (node 3) was
   cut off.  Since the builder repair the item is a section without text (node 2) over the inner
   list and the block: the arena is a forest and every node is reached from the root *)
Definition itemlead_witness : list dblock :=
  [DBList [[DBList [[DPara (0, 1) [Str "x"]; DPara (1, 2) [Str "z"]]]; DPara (2, 3) [Str "y"]]]].

Example build_document_itemlead :
  exists st, build_document [] "n" itemlead_witness = Ok st /\
    arena_ok (b_arena st) = true /\
    subtree_ids (S (length (b_arena st))) (b_arena st) 0 = [0; 1; 2; 3; 4; 5; 6].
Proof. eexists. split; [vm_compute; reflexivity|]. vm_compute. repeat split. Qed.

(* non-trivial instances: a second note with headings, nested lists (one item is a lone list, one is
   empty, some start with a quote, a code block, a rule, or a list that further blocks follow), a
   quote; 27 nodes are added *)
Example build_document_wf_nontrivial :
  let a := match build_document [] "z" [DPara (0, 1) [Str "a"]] with Ok st => b_arena st | Panic _ => [] end in
  let bs := [DPara (0, 1) [Str "a"]; DHeader (1, 2) 1 [Str "b"];
             DBList [[DPara (2, 3) [Str "x"]; DRule (3, 4)]; [];
                     [DOList [[DHeader (4, 5) 2 [Str "q"]; DBList [[DPara (5, 6) [Str "r"]]]]]];
                     [DQuote (5, 6) [DPara (5, 6) [Str "s"]]]; [DCode (5, 6) None "c"; DPara (5, 6) [Str "t"]];
                     [DRule (5, 6)]; [DBList [[DPara (5, 6) [Str "u"]]]; DPara (5, 6) [Str "v"]]];
             DHeader (6, 7) 2 [Str "e"]; DQuote (7, 9) [DPara (7, 8) [Str "z"]; DHeader (8, 9) 1 [Str "w"]];
             DHeader (9, 10) 1 [Str "f"]; DCode (10, 11) None "c"] in
  arena_ok a = true /\
  match build_document a "k" bs with Ok st => length (b_arena st) = 29 /\ arena_ok (b_arena st) = true | Panic _ => False end.
Proof. vm_compute. repeat split. Qed.

(* ---------- every new node belongs to the new note, and is reached exactly once from its root ---- *)

Lemma get_firstn (l : arena) k p : p < k -> get (firstn k l) p = get l p.
Proof.
  unfold get. revert k p; induction l as [|x l IH]; intros [|k] [|p] H; cbn; try lia; auto.
  apply IH. lia.
Qed.

Theorem build_document_owned (a : arena) (key : string) (bs : list dblock) :
  arena_ok a = true ->
  exists st, build_document a key bs = Ok st /\
    (forall id, length a <= id < length (b_arena st) -> to_document (S id) (b_arena st) id = Ok (length a)) /\
    Permutation (subtree_ids (S (length (b_arena st))) (b_arena st) (length a))
                (seq (length a) (length (b_arena st) - length a)).
Proof.
  intros Hok.
  destruct (build_document_wf a key bs Hok) as (st & H & O & Hfirst & (rn & Hr & Hrk & _ & _) & Hnew).
  exists st. split; [exact H|].
  set (a2 := b_arena st) in *. set (r := length a) in *.
  assert (Hall : forall id m, get a id = Some m -> node_ok a id m = true) by (now apply arena_ok_spec).
  assert (Hall2 : forall id m, get a2 id = Some m -> node_ok a2 id m = true) by (now apply arena_ok_spec).
  (* a new node never hangs below a node of an older note *)
  assert (HA : forall id n p, r < id -> get a2 id = Some n -> g_prev n = Some p -> r <= p).
  { intros id n p Hid Hn Hp. destruct (Hnew id n Hid Hn) as [He _].
    destruct (link_up a2 O id n p Hn He Hp) as (_ & _ & pn & Hg & Hpe & Hlink & _).
    destruct (Nat.lt_ge_cases p r) as [Hlt|Hge]; [|exact Hge].
    assert (Hgp : get a p = Some pn) by (rewrite <- Hfirst, get_firstn; [exact Hg | exact Hlt]).
    assert (Hc : g_child pn = Some id \/ g_next pn = Some id) by (destruct Hlink as [?|[? _]]; auto).
    destruct (node_ok_ptr_lt a p pn id (Hall _ _ Hgp) Hpe Hc) as [Hx _]. unfold r in Hid. lia. }
  (* the owner of every new node is the new root *)
  assert (HB : forall id, r <= id < length a2 -> to_document (S id) a2 id = Ok r).
  { intros id. induction id as [id IH] using lt_wf_ind. intros [Hle Hlt].
    destruct (Nat.eq_dec id r) as [->|Hne].
    - cbn [to_document]. now rewrite Hr, Hrk.
    - destruct (get_some_lt a2 id Hlt) as (n & Hn).
      destruct (Hnew id n ltac:(lia) Hn) as [He Hd].
      destruct (node_ok_prev a2 id n (Hall2 _ _ Hn) He Hd) as (p & pn & Hp & Hpl & Hgp & Hep).
      pose proof (HA id n p ltac:(lia) Hn Hp) as Hrp.
      assert (Hpo : to_document (S p) a2 p = Ok r) by (apply IH; [exact Hpl | split; [exact Hrp | lia]]).
      cbn [to_document]. rewrite Hn.
      destruct (g_kind n) eqn:Ek; try discriminate; rewrite Hp;
        (apply (to_document_more a2 (S p)); [exact Hpo | lia]). }
  split; [exact HB|].
  assert (Hlr : lv a2 r) by (exists rn; split; [exact Hr | now rewrite Hrk]).
  pose proof (get_lt _ _ _ Hr) as Hrl.
  apply NoDup_Permutation.
  - now apply subtree_NoDup.
  - apply seq_NoDup.
  - intros y. rewrite in_seq. split.
    + intros Hin. destruct (subtree_sound a2 O _ r y Hlr Hin) as (Hle & (m & Hm & _) & _).
      pose proof (get_lt _ _ _ Hm). lia.
    + intros [Hle Hlt]. assert (Hy : y < length a2) by lia.
      apply (subtree_owner_iff a2 O r rn key Hr Hrk). split; [|apply HB; lia].
      destruct (Nat.eq_dec y r) as [->|Hne]; [exact Hlr|].
      destruct (get_some_lt a2 y Hy) as (n & Hn). exists n. split; [exact Hn|].
      now destruct (Hnew y n ltac:(lia) Hn).
Qed.
Print Assumptions build_document_owned.

(* ---------- lifted to the library operations ---------------------------------------------------- *)
From IweV Require Import Text Project Library.

Lemma refresh_title_arena g key : gr_arena (refresh_title g key) = gr_arena g.
Proof.
  unfold refresh_title. destruct (alookup key (gr_keys g)) as [root|]; [|reflexivity].
  destruct (extract_ref_text (gr_arena g) root); reflexivity.
Qed.

(* Graph::from_markdown on blocks: a note is added to a well-formed graph *)
Theorem from_blocks_wf (g : graph) key meta bs :
  arena_ok (gr_arena g) = true ->
  exists g', from_blocks g key meta bs = Ok g' /\ arena_ok (gr_arena g') = true /\
             firstn (length (gr_arena g)) (gr_arena g') = gr_arena g.
Proof.
  intros Hok. unfold from_blocks, build_note.
  destruct (build_document_wf (gr_arena g) key bs Hok) as (st & H & O & Hf & _).
  rewrite H. cbn [bind]. eexists. split; [reflexivity|]. rewrite refresh_title_arena. cbn [gr_arena]. auto.
Qed.

(* Graph::import: the arena of a freshly imported library is a well-formed forest *)
Theorem import_wf (notes : list (string * option string * list dblock)) :
  exists g, import notes = Ok g /\ arena_ok (gr_arena g) = true.
Proof.
  unfold import.
  assert (H : forall g0, arena_ok (gr_arena g0) = true -> exists g1,
            fold_left (fun acc n => do g <- acc; let '(name, meta, bs) := n in
                                    build_note g (key_name name) meta bs) notes (Ok g0) = Ok g1 /\
            arena_ok (gr_arena g1) = true).
  { induction notes as [|[[name meta] bs] l IH]; intros g0 H0; cbn [fold_left].
    - eexists. split; [reflexivity | exact H0].
    - cbn [bind]. unfold build_note at 2.
      destruct (build_document_wf (gr_arena g0) (key_name name) bs H0) as (st & H & O & _).
      rewrite H. cbn [bind]. apply IH. exact O. }
  destruct (H empty_graph eq_refl) as (g1 & H1 & O1). rewrite H1. cbn [bind]. eexists. split; [reflexivity|].
  assert (Hr : forall (ks : list (string * nat)) g, gr_arena (fold_left (fun g kv => refresh_title g (fst kv)) ks g) = gr_arena g).
  { induction ks as [|kv ks IHk]; intros g; cbn [fold_left]; [reflexivity|]. rewrite IHk. apply refresh_title_arena. }
  now rewrite Hr.
Qed.
Print Assumptions from_blocks_wf.
Print Assumptions import_wf.
