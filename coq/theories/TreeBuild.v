(* TreeBuild.v — building an arena from a tree: `GraphBuilder::insert_from_iter` /
   `append_from_visitor` / `add_new_node_and` / `add_node_and2` (crates/liwe/src/graph/builder.rs:
   207-362), `Graph::build_key_from_iter` (graph.rs:183-185), `GraphPatch::add_key`
   (graph.rs:461-470), driven by the `NodeIter` of a `Tree` (`TreeIter`, model/tree.rs:453-508:
   `node()`, `child()`, `next()`; `is_document()`, model/node.rs:204-209).

   This is the path every "patch graph" takes: `iwe squash` (main.rs:171-180), formatting
   (server.rs:276-279), rename (server.rs:464-481), the code actions' patches (command.rs:82).

   Every reachable Rust panic is a [Panic] result:
     - `iter.child().unwrap()` on a document position           (builder.rs:330, 349)
     - `panic!("Document node is not allowed")`                 (builder.rs:229; dead: `is_document`
                                                                 is tested first, kept for the record)
     - `set_child_id` on a Leaf/Raw/Table/Rule/Reference/Empty  (graph_node.rs:505-519, via Arena.set_child_id)
     - `set_next_id` on a Document/Empty                        (via Arena.set_next_id)
     - arena index out of bounds.
   No proofs in this file. *)
From IweV Require Import Str Ast RelPath Arena.
Local Open Scope string_scope.
Local Open Scope list_scope.

(* ---------- TreeIter (model/tree.rs:453-508) ---------------------------------------------- *)

(* a position in a tree: the tree and the child indices from its root *)
Record titer := TI { ti_tree : tree; ti_path : list nat }.

(* `node()`: walk the path; `children.get(n)` failing anywhere gives None *)
Fixpoint tree_at (t : tree) (p : list nat) : option tree :=
  match p with
  | [] => Some t
  | n :: r => match nth_error (t_children t) n with
              | Some c => tree_at c r
              | None => None
              end
  end.

Definition ti_node (it : titer) : option node :=
  match tree_at (ti_tree it) (ti_path it) with Some t => Some (t_node t) | None => None end.

(* `child()`: path + [0], for every position that holds a node — also one without children;
   the position returned then holds no node *)
Definition ti_child (it : titer) : option titer :=
  match ti_node it with
  | Some _ => Some (TI (ti_tree it) (ti_path it ++ [0]))
  | None => None
  end.

(* `next()`: the last index + 1; None at the root (empty path) and at a position without node *)
Definition ti_next (it : titer) : option titer :=
  match rev (ti_path it) with
  | [] => None
  | last :: _ =>
      match ti_node it with
      | Some _ => Some (TI (ti_tree it) (removelast (ti_path it) ++ [S last]))
      | None => None
      end
  end.

Definition ti_is_document (it : titer) : bool :=
  match ti_node it with Some (NDocument _) => true | _ => false end.

(* ---------- add_new_node_and / add_node_and2 (builder.rs:207-322) ------------------------- *)

(* the GraphNode a Node becomes (lines are kept inside the kinds in this model) *)
Definition node_gkind (n : node) : gkind :=
  match n with
  | NDocument key => KDocument key
  | NSection l => KSection l
  | NQuote => KQuote
  | NBList => KBList
  | NOList => KOList
  | NLeaf l => KLeaf l
  | NRaw la c => KRaw la c
  | NRule => KRule
  | NRef k t rt => KRef k t rt
  | NTable h al rows => KTable h al rows
  end.

(* add_node_and2: link from (id, insert), clear insert, push the node; `self.id` does NOT move;
   the closure runs on a new builder placed on the new node with insert = node.insertable() *)
Definition add_node_and2 (st : bst) (k : gkind) (f : bst -> res bst) : res bst :=
  let new_id := length (b_arena st) in
  do a' <- (if b_insert st then set_child_id (b_arena st) (b_cur st) new_id
            else set_next_id (b_arena st) (b_cur st) new_id);
  do inner <- f (B (a' ++ [GN k (Some (b_cur st)) None None]) new_id (insertable k) (b_map st));
  Ok (B (b_arena inner) (b_cur st) false (b_map st)).

Definition add_new_node_and (st : bst) (n : node) (f : bst -> res bst) : res bst :=
  match n with
  | NDocument _ => Panic "Document node is not allowed"
  | _ => add_node_and2 st (node_gkind n) f
  end.

(* ---------- insert_from_iter / append_from_visitor (builder.rs:326-362) ------------------- *)

(* The two Rust functions are the same text except for the value they first assign to
   `self.insert` (true in insert_from_iter, false in append_from_visitor) and for the function a
   document position recurses into (itself).  [first] is that value.  The closure handed to
   add_new_node_and inserts the children below the new node and then appends the following
   siblings after it.  Every call moves to a child or a next position: fuel bounds the depth. *)
Fixpoint from_iter (fuel : nat) (first : bool) (st : bst) (it : titer) {struct fuel} : res bst :=
  match fuel with
  | O => Panic "out of fuel"
  | S f =>
      let st := set_insert st first in
      if ti_is_document it then
        match ti_child it with
        | None => Panic "called `Option::unwrap()` on a `None` value"
        | Some c => from_iter f first st c       (* and `return`: `next()` of the document is never asked *)
        end
      else
        match ti_node it with
        | None => Ok st
        | Some nd =>
            add_new_node_and st nd (fun b =>
              do b <- (match ti_child it with Some c => from_iter f true b c | None => Ok b end);
              match ti_next it with Some n => from_iter f false b n | None => Ok b end)
        end
  end.

Definition insert_from_iter (fuel : nat) : bst -> titer -> res bst := from_iter fuel true.
Definition append_from_visitor (fuel : nat) : bst -> titer -> res bst := from_iter fuel false.

(* number of nodes of a tree; one more than that is enough fuel (TreeBuildFacts.from_iter_fuel) *)
Fixpoint tree_nodes (t : tree) : nat :=
  match t with
  | T _ _ ts => S ((fix go (l : list tree) : nat := match l with [] => 0 | x :: r => tree_nodes x + go r end) ts)
  end.
Definition iter_fuel (t : tree) : nat := S (tree_nodes t).

(* Graph::build_key_from_iter(key, tree.iter()) on arena [a]: a fresh root, then insert_from_iter *)
Definition build_key_from_iter (a : arena) (key : string) (t : tree) : res bst :=
  insert_from_iter (iter_fuel t) (build_key a key) (TI t []).

(* GraphPatch::add_key(key, tree.iter()): the document position is unwrapped by the caller
   (`expect("to have child in document iter")`), the rest is the same builder call.  (The title
   cache and index updates of build_key_and do not touch the arena.) *)
Definition add_key (a : arena) (key : string) (t : tree) : res bst :=
  let it := TI t [] in
  if ti_is_document it then
    match ti_child it with
    | None => Panic "to have child in document iter"
    | Some c => insert_from_iter (iter_fuel t) (build_key a key) c
    end
  else insert_from_iter (iter_fuel t) (build_key a key) it.

(* what `collect` reads back from the new root *)
Definition tree_read_back (a : arena) (key : string) (t : tree) : res (option tree) :=
  do st <- build_key_from_iter a key t; collect_raw (b_arena st) (length a).

(* ---------- the input class and the normal form --------------------------------------------- *)

(* what the builder makes of a forest (a position and its following siblings):
   - ids are forgotten (the arena allocates new ones);
   - a Document node is replaced by what its children become, and everything that FOLLOWS the
     Document node among its siblings is dropped (the code returns after recursing into
     `iter.child()`);
   - everything else is kept, children in order. *)
Fixpoint norm_cons (t : tree) (rest : list tree) {struct t} : list tree :=
  match t with
  | T _ nd ts =>
      let kids := (fix go (l : list tree) : list tree :=
                     match l with [] => [] | c :: r => norm_cons c (go r) end) ts in
      match nd with
      | NDocument _ => kids
      | _ => T None nd kids :: rest
      end
  end.
Fixpoint normf (ts : list tree) : list tree :=
  match ts with [] => [] | c :: r => norm_cons c (normf r) end.

(* the tree read back from the new root of build_key_from_iter *)
Definition built_tree (key : string) (t : tree) : tree := T None (NDocument key) (normf [t]).

Definition node_insertable (n : node) : bool := insertable (node_gkind n).

(* the shape `collect` returns in a well-formed arena: only containers have children *)
Fixpoint shape_ok (t : tree) : bool :=
  match t with
  | T _ nd ts =>
      (node_insertable nd || match ts with [] => true | _ => false end) &&
      (fix go (l : list tree) : bool := match l with [] => true | c :: r => shape_ok c && go r end) ts
  end.

(* the class on which the builder returns: in what the tree becomes, a Leaf / Raw / Rule /
   Reference / Table node has no children (`set_child_id` panics on those kinds); what the
   builder never visits (the siblings after a Document node) does not matter *)
Definition buildable (t : tree) : bool := forallb shape_ok (normf [t]).

(* no Document node anywhere in the tree *)
Fixpoint doc_free (t : tree) : bool :=
  match t with
  | T _ nd ts =>
      match nd with NDocument _ => false | _ => true end &&
      (fix go (l : list tree) : bool := match l with [] => true | c :: r => doc_free c && go r end) ts
  end.
