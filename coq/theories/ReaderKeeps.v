(* ReaderKeeps.v — property C01 (reader half; also C13): the READER keeps everything the parser
   reports.  The reader machine is `Pos.step` / `Pos.read_events` (reader.rs `read`, `start_tag`,
   `end_tag`, `push/pop_inline`, `push/pop_block`; document.rs `append_inline / append_block /
   append_item / append_row / append_cell`).

   [atom] is the account: what a stream SAYS ([said_ev]) and what a document SAYS
   ([said_blocks]), in document order:
     AStr len        a text piece (Text outside front matter and code blocks; an inline html piece; a
                     soft / hard break, len 1) — the three are one constructor `PStr` of the document
                     model, so the account cannot tell them apart either;
     ALeaf r len     a code span (len = its length) or inline math (len 0) with its inline range;
     AOpen k r       the opening of an emphasis / strong / strike-through / link (type, url) / image
                     with its inline range;  AClose   its end (so the inline TREE is accounted for);
     AHeading lr, AQuote lr, AList, ATable lr   the opening of a block with the line range of its
                     Start event;  AEnd   the end of one of these four;
     AItem, ARow, ACell   a list item, a table row, a table cell begins;
     ACodeBlock lr, ARule lr   a code block, a rule.
   Ranges are the ones the machine computes from the event's byte range with the mode [M]
   (`m_lines M s e`, `m_inline M s e`); with [raw_mode] they are the byte offsets themselves.
   NOT in the account, because the machine (or the model) has no place for them:
     - paragraphs boundaries (Start/End Paragraph): a tight item's text is an implicit paragraph,
       so paragraphs are transparent; their inlines are all there, in order;
     - Text inside the front matter (`metadata_block`: `step` drops it; the real reader keeps the
       front matter elsewhere) and everything inside a raw HTML block (events `Html` = [ESkip];
       a Text event there is outside [inG_doc]): the documented drops;
     - the TEXT of a code block: `Pos.pblock`'s `BCode` carries a line range only (the model is
       "positions only"), so this file cannot speak about it — a limit of the MODEL;
     - Start/End of TableHead, End of Item/Row/Cell, [ESkip]: no-ops of the machine.

   Headline: [C01_reader_keeps] — for every mode and every stream of the document-shaped grammar
   [ReaderTotal.inG_doc], the blocks the reader returns say exactly what the stream said.
   No sub-grammar was needed: [inG_doc] has no stream on which the current machine drops or
   misplaces an atom.  [keeps_outside_doc_refuted_*]: streams of the larger grammar [inG] (the
   machine survives them, no CommonMark parser emits them) on which it does drop.
   [C01_reader_keeps_as_found_refuted]: the machine with the list arm as found (before 9f9db12)
   loses the text of `ex_tight_tail`. *)
From Coq Require Import List String Bool Arith Lia.
From IweV Require Import Str Text Ast Arena Pos PosFacts ReaderTotal.
Import ListNotations.
Local Open Scope string_scope.
Local Open Scope list_scope.

(* ====================================================================================== *)
(* 1. The account                                                                          *)
(* ====================================================================================== *)

Inductive atom :=
| AStr (len : nat)
| ALeaf (r : irange) (len : nat)
| AOpen (k : pkind) (r : irange)
| AClose
| AHeading (lr : lrange)
| AQuote (lr : lrange)
| AList
| AItem
| ATable (lr : lrange)
| ARow
| ACell
| ACodeBlock (lr : lrange)
| ARule (lr : lrange)
| AEnd.

(* --- of a document --- *)
Fixpoint said_inl (i : pinl) : list atom :=
  match i with
  | PStr n => [AStr n]
  | PLeaf r n => [ALeaf r n]
  | PNode k r kids =>
      AOpen k r ::
      (fix go (l : list pinl) : list atom := match l with [] => [] | x :: t => said_inl x ++ go t end) kids
      ++ [AClose]
  end.
Fixpoint said_inls (l : list pinl) : list atom :=
  match l with [] => [] | x :: t => said_inl x ++ said_inls t end.

Fixpoint said_cells (cells : list (list pinl)) : list atom :=
  match cells with [] => [] | c :: t => (ACell :: said_inls c) ++ said_cells t end.
Fixpoint said_rows (rows : list (list (list pinl))) : list atom :=
  match rows with [] => [] | r :: t => (ARow :: said_cells r) ++ said_rows t end.

Fixpoint said_block (b : pblock) : list atom :=
  let fix go (l : list pblock) : list atom :=
    match l with [] => [] | x :: t => said_block x ++ go t end in
  let fix goi (l : list (list pblock)) : list atom :=
    match l with [] => [] | it :: t => (AItem :: go it) ++ goi t end in
  match b with
  | BPara _ l => said_inls l
  | BHeader lr l => AHeading lr :: said_inls l ++ [AEnd]
  | BCode lr => [ACodeBlock lr]
  | BQuote lr bs => AQuote lr :: go bs ++ [AEnd]
  | BList items => AList :: goi items ++ [AEnd]
  | BRule lr => [ARule lr]
  | BTable lr h rows => ATable lr :: (said_cells h ++ said_rows rows) ++ [AEnd]
  end.
Fixpoint said_blocks (l : list pblock) : list atom :=
  match l with [] => [] | x :: t => said_block x ++ said_blocks t end.
Fixpoint said_items (l : list (list pblock)) : list atom :=
  match l with [] => [] | it :: t => (AItem :: said_blocks it) ++ said_items t end.

(* --- of a stream --- *)
(* where the stream is: inside the front matter, inside a code block, elsewhere *)
Inductive place := WOut | WMeta | WCode.
Definition w_step (w : place) (e : ev) : place :=
  match e with
  | EStart TMeta _ _ => WMeta
  | EStart TCodeBlock _ _ => WCode
  | EEnd TMeta | EEnd TCodeBlock => WOut
  | _ => w
  end.

Definition kind_of (t : tag) : option pkind :=
  match t with
  | TEmph => Some KEmph | TStrong => Some KStrong | TStrike => Some KStrike
  | TLink lt url => Some (KLink lt url) | TImage => Some KImage
  | _ => None
  end.

Definition atoms_of (M : mode) (w : place) (e : ev) : list atom :=
  match e with
  | EStart t s e' =>
      match t with
      | THeading => [AHeading (m_lines M s e')]
      | TQuote => [AQuote (m_lines M s e')]
      | TCodeBlock => [ACodeBlock (m_lines M s e')]
      | TList => [AList]
      | TItem => [AItem]
      | TTable => [ATable (m_lines M s e')]
      | TTableRow => [ARow]
      | TTableCell => [ACell]
      | TEmph | TStrong | TStrike | TLink _ _ | TImage =>
          match kind_of t with Some k => [AOpen k (m_inline M s e')] | None => [] end
      | TPara | THtmlBlock | TTableHead | TMeta | TOther => []
      end
  | EEnd t =>
      match t with
      | THeading | TQuote | TList | TTable => [AEnd]
      | TEmph | TStrong | TStrike | TLink _ _ | TImage => [AClose]
      | _ => []
      end
  | EText len _ _ => match w with WOut => [AStr len] | _ => [] end
  | ECode len s e' => [ALeaf (m_inline M s e') len]
  | EMath s e' => [ALeaf (m_inline M s e') 0]
  | EInlineHtml len _ _ => [AStr len]
  | EBreak _ _ => match w with WOut => [AStr 1] | _ => [] end
  | ERule s e' => [ARule (m_lines M s e')]
  | ESkip => []
  end.

Fixpoint said_from (M : mode) (w : place) (evs : list ev) : list atom :=
  match evs with
  | [] => []
  | e :: r => atoms_of M w e ++ said_from M (w_step w e) r
  end.
Definition said_ev (M : mode) (evs : list ev) : list atom := said_from M WOut evs.

(* ranges = the byte offsets of the events *)
Definition raw_mode (u : bool) : mode := Mode (fun s e => (s, e)) (fun s e => ((0, s), (0, e))) u.

(* the statement, on one stream *)
Definition keeps_on (M : mode) (evs : list ev) : Prop :=
  match read_events M evs with
  | Ok bs => said_blocks bs = said_ev M evs
  | Panic _ => False
  end.

(* tests of the statement before proving it *)
Example t_ex_doc : keeps_on (raw_mode true) ex_doc.
Proof. vm_compute. reflexivity. Qed.
Example t_ex_tight_tail : keeps_on (raw_mode false) ex_tight_tail.
Proof. vm_compute. reflexivity. Qed.

(* own streams: a quote holding a loose and a tight item with nested emphasis in a link, a heading and a
   quote inside a tight item followed by text, an image, math, inline html *)
Definition t_stream1 : list ev :=
  [ EStart TQuote 0 90;
      EStart TList 2 80;
        EStart TItem 2 40;
          EStart TPara 4 20; EStart (TLink Regular "u") 4 18; EStart TEmph 5 10; EText 3 6 9; EEnd TEmph;
            EText 2 10 12; EEnd (TLink Regular "u"); EMath 18 20; EEnd TPara;
          EStart TPara 22 30; EInlineHtml 4 22 26; EStart TImage 26 30; EText 1 28 29; EEnd TImage; EEnd TPara;
        EEnd TItem;
        EStart TItem 42 80;
          EText 1 44 45;
          EStart THeading 48 52; EText 2 50 52; EEnd THeading;
          EText 1 54 55; EStart TStrong 55 60; EText 1 57 58; EEnd TStrong;
          EStart TQuote 62 70; EStart TPara 64 70; EText 6 64 70; EEnd TPara; EEnd TQuote;
          ECode 2 72 76;
          ERule 77 80;
          EBreak 80 81;
        EEnd TItem;
      EEnd TList;
    EEnd TQuote ].
Example t_stream1_ok : inG_doc t_stream1 = true /\ keeps_on (raw_mode true) t_stream1.
Proof. split; [reflexivity|vm_compute; reflexivity]. Qed.

(* a table whose head comes after a row, a row without cells, two cells in a row; a table in an item *)
Definition t_stream2 : list ev :=
  [ EStart TList 0 90; EStart TItem 0 90;
    EStart TTable 2 80;
      EStart TTableRow 2 10; EStart TTableCell 3 5; EText 1 3 4; EEnd TTableCell; EEnd TTableRow;
      EStart TTableHead 12 20; EStart TTableCell 13 15; ECode 1 13 15; EEnd TTableCell;
        EStart TTableCell 16 19; EEnd TTableCell; EEnd TTableHead;
      EStart TTableRow 22 23; EEnd TTableRow;
      EStart TTableRow 24 40; EStart TTableCell 25 30; EStart TStrike 25 30; EText 1 27 28; EEnd TStrike; EText 1 30 31;
        EEnd TTableCell; EEnd TTableRow;
    EEnd TTable;
    EText 1 82 83;
    EEnd TItem; EEnd TList;
    EStart TMeta 90 99; EText 3 91 94; EEnd TMeta;
    EStart TCodeBlock 100 120; EText 3 104 107; EText 3 108 111; EEnd TCodeBlock ].
Example t_stream2_ok : inG_doc t_stream2 = true /\ keeps_on (raw_mode false) t_stream2.
Proof. split; [reflexivity|vm_compute; reflexivity]. Qed.

(* ====================================================================================== *)
(* 2. Equations of the account                                                             *)
(* ====================================================================================== *)

Lemma said_inl_node k r kids : said_inl (PNode k r kids) = AOpen k r :: said_inls kids ++ [AClose].
Proof.
reflexivity. Qed.

Lemma said_inls_app a b : said_inls (a ++ b) = said_inls a ++ said_inls b.
Proof. induction a as [|x t IH]; [reflexivity|]. cbn [app said_inls]. now rewrite IH, app_assoc. Qed.

Lemma said_inls_snoc a i : said_inls (a ++ [i]) = said_inls a ++ said_inl i.
Proof. rewrite said_inls_app. cbn [said_inls]. now rewrite app_nil_r. Qed.

Lemma said_blocks_app a b : said_blocks (a ++ b) = said_blocks a ++ said_blocks b.
Proof. induction a as [|x t IH]; [reflexivity|]. cbn [app said_blocks]. now rewrite IH, app_assoc. Qed.

Lemma said_blocks_snoc a b : said_blocks (a ++ [b]) = said_blocks a ++ said_block b.
Proof. rewrite said_blocks_app. cbn [said_blocks]. now rewrite app_nil_r. Qed.

Lemma said_items_app a b : said_items (a ++ b) = said_items a ++ said_items b.
Proof.
  induction a as [|x t IH]; [reflexivity|]. cbn [app said_items]. rewrite IH.
  cbn [app]. now rewrite app_assoc.
Qed.

Lemma said_cells_app a b : said_cells (a ++ b) = said_cells a ++ said_cells b.
Proof.
  induction a as [|x t IH]; [reflexivity|]. cbn [app said_cells]. rewrite IH.
  cbn [app]. now rewrite app_assoc.
Qed.

Lemma said_rows_app a b : said_rows (a ++ b) = said_rows a ++ said_rows b.
Proof.
  induction a as [|x t IH]; [reflexivity|]. cbn [app said_rows]. rewrite IH.
  cbn [app]. now rewrite app_assoc.
Qed.

Lemma said_block_quote lr bs : said_block (BQuote lr bs) = AQuote lr :: said_blocks bs ++ [AEnd].
Proof.
reflexivity. Qed.

Lemma said_block_list items : said_block (BList items) = AList :: said_items items ++ [AEnd].
Proof.
reflexivity. Qed.

(* what an OPEN block (one on the block stack) has said so far, and what its end adds *)
Definition open_said (b : pblock) : list atom :=
  match b with
  | BPara _ l => said_inls l
  | BHeader lr l => AHeading lr :: said_inls l
  | BCode lr => [ACodeBlock lr]
  | BQuote lr bs => AQuote lr :: said_blocks bs
  | BList items => AList :: said_items items
  | BRule lr => [ARule lr]
  | BTable lr h rows => ATable lr :: (said_cells h ++ said_rows rows)
  end.
Definition close_of (b : pblock) : list atom :=
  match b with
  | BHeader _ _ | BQuote _ _ | BList _ | BTable _ _ _ => [AEnd]
  | _ => []
  end.

Lemma said_block_open b : said_block b = open_said b ++ close_of b.
Proof.
  destruct b as [r l|r l|r|r bs|items|r|r h rows];
    rewrite ?said_block_quote, ?said_block_list; cbn [said_block open_said close_of];
    rewrite ?app_nil_r; reflexivity.
Qed.

Definition open_inl (i : pinl) : list atom :=
  match i with PNode k r kids => AOpen k r :: said_inls kids | _ => said_inl i end.

Lemma said_inl_open i : is_node i = true -> said_inl i = open_inl i ++ [AClose].
Proof. destruct i; try discriminate. intros _. now rewrite said_inl_node. Qed.

(* the stacks, bottom first *)
Fixpoint said_bstack (l : list pblock) : list atom :=
  match l with [] => [] | b :: r => said_bstack r ++ open_said b end.
Fixpoint said_istack (l : list (pinl * lrange)) : list atom :=
  match l with [] => [] | p :: r => said_istack r ++ open_inl (fst p) end.

(* what the machine has said so far: the closed output, the open blocks, the open inlines *)
Definition said_parts (out blk : list pblock) (inl : list (pinl * lrange)) : list atom :=
  said_blocks out ++ said_bstack blk ++ said_istack inl.
Definition said_st (st : rst) : list atom := said_parts (r_out st) (r_blk st) (r_inl st).

(* ====================================================================================== *)
(* 3. The block stack of the machine against the stack of open tags of [inG_doc]           *)
(* ====================================================================================== *)

Definition nonempty {A} (l : list A) : bool := match l with [] => false | _ => true end.
Fixpoint last_nonempty {A} (rows : list (list A)) : bool :=
  match rows with
  | [] => false
  | r :: [] => nonempty r
  | _ :: t => last_nonempty t
  end.
(* the table has a cell an inline can go to (document.rs:213-223) *)
Definition has_cell (h : list (list pinl)) (rows : list (list (list pinl))) : bool :=
  match rows with [] => nonempty h | _ => last_nonempty rows end.
Definition cell_ok (b : pblock) : bool :=
  match b with BTable _ h rows => has_cell h rows | _ => false end.

(* the open tag [n] is the open block [b] *)
Definition kind_ok (n : nt) (b : pblock) : bool :=
  match n, b with
  | NPara, BPara _ _ | NHeading, BHeader _ _ | NQuote, BQuote _ _ | NCode, BCode _ | NTable, BTable _ _ _ => true
  | NList hi, BList items => Bool.eqb hi (nonempty items)
  | _, _ => false
  end.
(* tags for which the machine pushes a block *)
Definition opaque (n : nt) : bool :=
  match n with NPara | NHeading | NQuote | NCode | NList _ | NTable => true | _ => false end.

Fixpoint rel (k : list nt) (bs : list pblock) : Prop :=
  match k with
  | [] => bs = []
  | n :: k' =>
      if opaque n then
        match bs with b :: r => kind_ok n b = true /\ rel k' r | [] => False end
      else
        match n with
        | NCell => match bs with b :: _ => cell_ok b = true | [] => False end /\ rel k' bs
        | _ => rel k' bs
        end
  end.

Fixpoint inl_top (k : list nt) : nat := match k with NInl :: r => S (inl_top r) | _ => 0 end.

Definition RelSt (k : list nt) (st : rst) : Prop :=
  rel k (r_blk st) /\ length (r_inl st) = inl_top k /\ Inv st /\ r_meta st = meta_of k.

Definition w_of (k : list nt) : place :=
  match k with NMeta :: _ => WMeta | NCode :: _ => WCode | _ => WOut end.

(* replacing the innermost open block by one of the same kind *)
Lemma rel_top k : forall b b' r,
  (forall n, kind_ok n b = true -> kind_ok n b' = true) ->
  (cell_ok b = true -> cell_ok b' = true) ->
  rel k (b :: r) -> rel k (b' :: r).
Proof.
  induction k as [|n k IH]; intros b b' r Hk Hc H; [discriminate|].
  cbn [rel] in *. destruct (opaque n).
  - destruct H as [H1 H2]. split; [now apply Hk|exact H2].
  - destruct n; try (eapply IH; eassumption).
    destruct H as [H1 H2]. split; [now apply Hc|eapply IH; eassumption].
Qed.

(* --- facts about [allowed] --- *)
Lemma allowed_inl_top f k : allowed f k = true -> f <> NInl -> inl_top k = 0.
Proof.
  destruct k as [|p r]; [reflexivity|]. cbn [allowed]. intros H Hf.
  destruct p; try reflexivity. destruct f; try discriminate. congruence.
Qed.
Lemma allowed_meta f k : allowed f k = true -> meta_of k = false.
Proof. destruct k as [|p r]; [reflexivity|]. cbn [allowed]. destruct p; try reflexivity. destruct f; discriminate. Qed.
Lemma allowed_w f k : allowed f k = true -> w_of k = WOut.
Proof.
  destruct k as [|p r]; [reflexivity|]. cbn [allowed]. destruct p; try reflexivity; destruct f; discriminate.
Qed.
Lemma allowed_block f k : is_block_nt f = true -> allowed f k = block_pos k.
Proof.
  intros Hf. destruct k as [|p r]; [cbn; now rewrite Hf|]. unfold block_pos. cbn [allowed].
  destruct f; try discriminate; destruct p; reflexivity.
Qed.

(* an inline has a block to go to: a paragraph, a heading, a list with an item, a table with a cell *)
Definition receptive (b : pblock) : bool :=
  match b with
  | BPara _ _ | BHeader _ _ => true
  | BList items => nonempty items
  | BTable _ h rows => has_cell h rows
  | _ => false
  end.

Lemma recv_of_rel : forall k blk, chain k = true -> inline_pos k = true -> rel k blk ->
  exists b r, blk = b :: r /\ receptive b = true.
Proof.
  induction k as [|p k IH]; intros blk Hc Hp H; [discriminate|].
  pose proof (chain_tail _ _ Hc) as Hc'. pose proof (chain_head _ _ Hc) as Ha.
  unfold inline_pos in Hp. cbn [allowed] in Hp.
  destruct p; try discriminate; cbn [rel opaque] in H.
  - destruct blk as [|b r]; [destruct H|]. destruct H as [H1 _]. exists b, r. split; [reflexivity|].
    destruct b; try discriminate; reflexivity.
  - destruct blk as [|b r]; [destruct H|]. destruct H as [H1 _]. exists b, r. split; [reflexivity|].
    destruct b; try discriminate; reflexivity.
  - (* item *)
    destruct k as [|[] k]; try discriminate. destruct has_item; try discriminate.
    cbn [rel opaque] in H. destruct blk as [|b r]; [destruct H|]. destruct H as [H1 _].
    exists b, r. split; [reflexivity|]. destruct b; try discriminate. cbn [kind_ok receptive] in *.
    destruct (nonempty items); [reflexivity|discriminate].
  - (* cell *)
    destruct H as [H1 _]. destruct blk as [|b r]; [destruct H1|]. exists b, r. split; [reflexivity|].
    destruct b; try discriminate. exact H1.
  - (* inline *) apply IH; assumption.
Qed.

(* a closing block has a quote or a list with an item to go to, or nothing *)
Definition container_ready (b : pblock) : bool :=
  match b with BQuote _ _ => true | BList items => nonempty items | _ => false end.

Lemma container_of_rel k blk : chain k = true -> block_pos k = true -> rel k blk ->
  blk = [] \/ exists b r, blk = b :: r /\ container_ready b = true.
Proof.
  intros Hc Hp H. destruct k as [|p k]; [left; exact H|right].
  pose proof (chain_tail _ _ Hc) as Hc'. pose proof (chain_head _ _ Hc) as Ha.
  unfold block_pos in Hp. cbn [allowed] in Hp. destruct p; try discriminate; cbn [rel opaque] in H.
  - destruct blk as [|b r]; [destruct H|]. destruct H as [H1 _]. exists b, r. split; [reflexivity|].
    destruct b; try discriminate; reflexivity.
  - destruct k as [|[] k]; try discriminate. destruct has_item; try discriminate.
    cbn [rel opaque] in H. destruct blk as [|b r]; [destruct H|]. destruct H as [H1 _].
    exists b, r. split; [reflexivity|]. destruct b; try discriminate. cbn [kind_ok container_ready] in *.
    destruct (nonempty items); [reflexivity|discriminate].
Qed.

(* ====================================================================================== *)
(* 4. append_inline / append_block / the table and item operations keep the account        *)
(* ====================================================================================== *)

Lemma said_cells_cons c t : said_cells (c :: t) = (ACell :: said_inls c) ++ said_cells t.
Proof. reflexivity. Qed.
Lemma said_rows_cons r t : said_rows (r :: t) = (ARow :: said_cells r) ++ said_rows t.
Proof. reflexivity. Qed.
Lemma said_items_cons it t : said_items (it :: t) = (AItem :: said_blocks it) ++ said_items t.
Proof. reflexivity. Qed.
Lemma said_blocks_cons x t : said_blocks (x :: t) = said_block x ++ said_blocks t.
Proof. reflexivity. Qed.

Lemma push_last_cell_said i : forall cells, nonempty cells = true ->
  said_cells (push_last_cell cells i) = said_cells cells ++ said_inl i /\
  nonempty (push_last_cell cells i) = true.
Proof.
  induction cells as [|c t IH]; [discriminate|]. intros _. destruct t as [|c2 t].
  - cbn [push_last_cell said_cells nonempty]. split; [|reflexivity].
    rewrite said_inls_snoc, !app_nil_r. reflexivity.
  - change (push_last_cell (c :: c2 :: t) i) with (c :: push_last_cell (c2 :: t) i).
    destruct (IH eq_refl) as [E _]. split; [|reflexivity].
    rewrite (said_cells_cons c (push_last_cell _ _)), (said_cells_cons c (c2 :: t)), E. apply app_assoc.
Qed.

Lemma inline_rows_said i : forall rows, last_nonempty rows = true ->
  said_rows (on_last_row rows (fun r => push_last_cell r i)) = said_rows rows ++ said_inl i /\
  last_nonempty (on_last_row rows (fun r => push_last_cell r i)) = true /\
  nonempty (on_last_row rows (fun r => push_last_cell r i)) = true.
Proof.
  induction rows as [|r t IH]; [discriminate|]. destruct t as [|r2 t].
  - cbn [last_nonempty on_last_row said_rows]. intros H.
    destruct (push_last_cell_said i r H) as [E1 E2]. rewrite E1, E2. rewrite !app_nil_r.
    repeat split; reflexivity.
  - change (last_nonempty (r :: r2 :: t)) with (last_nonempty (r2 :: t)). intros H.
    change (on_last_row (r :: r2 :: t) (fun r => push_last_cell r i))
      with (r :: on_last_row (r2 :: t) (fun r => push_last_cell r i)).
    destruct (IH H) as [E1 [E2 E3]]. repeat split.
    + rewrite (said_rows_cons r (on_last_row _ _)), (said_rows_cons r (r2 :: t)), E1. apply app_assoc.
    + destruct (on_last_row (r2 :: t) (fun r => push_last_cell r i)); [discriminate|exact E2].
Qed.

Lemma cell_rows_said : forall rows, nonempty rows = true ->
  said_rows (on_last_row rows (fun r => r ++ [[]])) = said_rows rows ++ [ACell] /\
  last_nonempty (on_last_row rows (fun r => r ++ [[]])) = true /\
  nonempty (on_last_row rows (fun r => r ++ [[]])) = true.
Proof.
  induction rows as [|r t IH]; [discriminate|]. intros _. destruct t as [|r2 t].
  - cbn [last_nonempty on_last_row said_rows]. rewrite said_cells_app. cbn [said_cells said_inls app].
    rewrite !app_nil_r. split; [reflexivity|]. split; [now destruct r|reflexivity].
  - change (on_last_row (r :: r2 :: t) (fun r => r ++ [[]]))
      with (r :: on_last_row (r2 :: t) (fun r => r ++ [[]])).
    destruct (IH eq_refl) as [E1 [E2 E3]]. repeat split.
    + rewrite (said_rows_cons r (on_last_row _ _)), (said_rows_cons r (r2 :: t)), E1. apply app_assoc.
    + destruct (on_last_row (r2 :: t) (fun r => r ++ [[]])); [discriminate|exact E2].
Qed.

Section append.
  Variable M : mode.
  Variable i : pinl.
  Variable lr : lrange.
  Let f := fun x => append_inline M x i lr.

  Lemma app_tail_said : forall it,
    exists it', app_tail f i lr it = Ok it' /\ said_blocks it' = said_blocks it ++ said_inl i.
  Proof.
    induction it as [|x t IH].
    - eexists. split; [reflexivity|]. cbn [said_blocks said_block said_inls app]. now rewrite !app_nil_r.
    - destruct t as [|y t].
      + cbn [app_tail]. destruct x as [r l|r l|r|r bs|items|r|r h rows];
          try (eexists; split; [reflexivity|];
               cbn [said_blocks]; cbn [said_block said_inls]; now rewrite !app_nil_r).
        unfold f. cbn [append_inline bind]. eexists. split; [reflexivity|].
        cbn [said_blocks said_block]. now rewrite said_inls_snoc, !app_nil_r.
      + change (app_tail f i lr (x :: y :: t)) with (do r' <- app_tail f i lr (y :: t); Ok (x :: r')).
        destruct IH as [l' [E1 E2]]. rewrite E1. cbn [bind]. eexists. split; [reflexivity|].
        rewrite (said_blocks_cons x l'), (said_blocks_cons x (y :: t)), E2. apply app_assoc.
  Qed.

  Lemma app_item_said : forall items, nonempty items = true ->
    exists items', app_item f i lr items = Ok items' /\
                   said_items items' = said_items items ++ said_inl i /\ nonempty items' = true.
  Proof.
    induction items as [|it t IH]; [discriminate|]. intros _. destruct t as [|it2 t].
    - cbn [app_item]. destruct (app_tail_said it) as [it' [E1 E2]]. rewrite E1. cbn [bind].
      eexists. split; [reflexivity|]. split; [|reflexivity].
      cbn [said_items]. rewrite E2, !app_nil_r. cbn [app]. reflexivity.
    - change (app_item f i lr (it :: it2 :: t)) with (do r' <- app_item f i lr (it2 :: t); Ok (it :: r')).
      destruct (IH eq_refl) as [l' [E1 [E2 E3]]]. rewrite E1. cbn [bind].
      eexists. split; [reflexivity|]. split; [|reflexivity].
      rewrite (said_items_cons it l'), (said_items_cons it (it2 :: t)), E2. apply app_assoc.
  Qed.

  Lemma append_inline_keeps b : receptive b = true ->
    exists b', append_inline M b i lr = Ok b' /\
               open_said b' = open_said b ++ said_inl i /\
               (forall n, kind_ok n b = true -> kind_ok n b' = true) /\
               (cell_ok b = true -> cell_ok b' = true).
  Proof.
    destruct b as [r l|r l|r|r bs|items|r|r h rows]; try discriminate; intros Hr.
    - eexists. split; [reflexivity|]. cbn [open_said]. rewrite said_inls_snoc. repeat split; tauto.
    - eexists. split; [reflexivity|]. cbn [open_said]. rewrite said_inls_snoc. repeat split; tauto.
    - rewrite append_inline_list. cbn [receptive] in Hr.
      destruct (app_item_said items Hr) as [items' [E1 [E2 E3]]]. fold f. rewrite E1. cbn [bind].
      eexists. split; [reflexivity|]. cbn [open_said]. rewrite E2. split; [reflexivity|].
      split; [|discriminate]. intros n. destruct n; try discriminate. cbn [kind_ok]. now rewrite Hr, E3.
    - cbn [receptive] in Hr. cbn [append_inline]. eexists. split; [reflexivity|].
      cbn [open_said cell_ok]. unfold table_inline_header, table_inline_rows, has_cell in *.
      destruct rows as [|r0 t].
      + destruct (push_last_cell_said i h Hr) as [E1 E2]. cbn [on_last_row said_rows]. rewrite E1, !app_nil_r.
        repeat split; tauto.
      + destruct (inline_rows_said i (r0 :: t) Hr) as [E1 [E2 E3]]. rewrite E1.
        split; [now rewrite !app_assoc|]. split; [tauto|]. intros _.
        destruct (on_last_row (r0 :: t) (fun r => push_last_cell r i)); [discriminate|exact E2].
  Qed.
End append.

Lemma push_last_item_said b : forall items, nonempty items = true ->
  exists items', push_last_item items b = Ok items' /\
                 said_items items' = said_items items ++ said_block b /\ nonempty items' = true.
Proof.
  induction items as [|it t IH]; [discriminate|]. intros _. destruct t as [|it2 t].
  - cbn [push_last_item]. eexists. split; [reflexivity|]. split; [|reflexivity].
    cbn [said_items]. rewrite said_blocks_snoc, !app_nil_r. cbn [app]. reflexivity.
  - change (push_last_item (it :: it2 :: t) b) with (do r' <- push_last_item (it2 :: t) b; Ok (it :: r')).
    destruct (IH eq_refl) as [l' [E1 [E2 E3]]]. rewrite E1. cbn [bind].
    eexists. split; [reflexivity|]. split; [|reflexivity].
    rewrite (said_items_cons it l'), (said_items_cons it (it2 :: t)), E2. apply app_assoc.
Qed.

Lemma append_block_keeps top b : container_ready top = true ->
  exists top', append_block top b = Ok top' /\ is_container top = true /\
               open_said top' = open_said top ++ said_block b /\
               (forall n, kind_ok n top = true -> kind_ok n top' = true) /\
               (cell_ok top = true -> cell_ok top' = true).
Proof.
  destruct top as [r l|r l|r|r bs|items|r|r h rows]; try discriminate; intros Hr.
  - eexists. split; [reflexivity|]. split; [reflexivity|]. cbn [open_said]. rewrite said_blocks_snoc.
    repeat split; tauto.
  - cbn [container_ready] in Hr. cbn [append_block].
    destruct (push_last_item_said b items Hr) as [items' [E1 [E2 E3]]]. rewrite E1. cbn [bind].
    eexists. split; [reflexivity|]. split; [reflexivity|]. cbn [open_said]. rewrite E2. split; [reflexivity|].
    split; [|discriminate]. intros n. destruct n; try discriminate. cbn [kind_ok]. now rewrite Hr, E3.
Qed.

(* ====================================================================================== *)
(* 5. The operations of the machine                                                        *)
(* ====================================================================================== *)

Ltac norm := repeat first [rewrite app_nil_r | rewrite <- app_assoc | progress cbn [app]].

Definition nodes (l : list (pinl * lrange)) : Prop := Forall (fun p => is_node (fst p) = true) l.

(* a complete inline [i] leaves the inline stack (reader.rs:159-169) *)
Lemma pop_inline_keeps M k i lr rest blk out meta :
  chain k = true -> inline_pos k = true -> rel k blk -> length rest = inl_top k -> nodes rest ->
  meta = meta_of k ->
  exists st', pop_inline M (R ((i, lr) :: rest) blk out meta) = Ok st' /\ RelSt k st' /\
              said_st st' = said_parts out blk rest ++ said_inl i.
Proof.
  intros Hc Hp Hr Hl Hn Hm. destruct rest as [|[parent plr] rest'].
  - destruct (recv_of_rel k blk Hc Hp Hr) as [b [r [-> Hb]]].
    destruct (append_inline_keeps M i lr b Hb) as [b' [E1 [E2 [E3 E4]]]].
    unfold pop_inline. cbn [r_inl r_blk r_out r_meta]. rewrite E1. cbn [bind].
    eexists. split; [reflexivity|]. split.
    + repeat split; cbn [r_inl r_blk r_out r_meta].
      * eapply rel_top; eassumption.
      * exact Hl.
      * constructor.
      * exact Hm.
    + unfold said_st, said_parts. cbn [r_inl r_blk r_out said_bstack said_istack]. rewrite E2. now norm.
  - inversion Hn as [|? ? Hp1 Hn']; subst. cbn [fst] in Hp1.
    destruct parent as [n|r n|kd r kids]; try discriminate.
    unfold pop_inline. cbn [r_inl r_blk r_out r_meta].
    eexists. split; [reflexivity|]. split.
    + repeat split; cbn [r_inl r_blk r_out r_meta]; try assumption; try reflexivity.
      constructor; [reflexivity|exact Hn'].
    + unfold said_st, said_parts. cbn [r_inl r_blk r_out said_istack fst open_inl].
      rewrite said_inls_snoc. now norm.
Qed.

Lemma leaf_keeps M k st i s e :
  chain k = true -> inline_pos k = true -> RelSt k st ->
  exists st', leaf_inline M st i s e = Ok st' /\ RelSt k st' /\ said_st st' = said_st st ++ said_inl i.
Proof.
  intros Hc Hp [Hr [Hl [Hi Hm]]]. destruct st as [inl blk out meta].
  unfold leaf_inline, push_inline. cbn [r_inl r_blk r_out r_meta] in *.
  exact (pop_inline_keeps M k i (m_lines M s e) inl blk out meta Hc Hp Hr Hl Hi Hm).
Qed.

(* a complete block [b] leaves the block stack (reader.rs:171-182) *)
Lemma pop_block_keeps k b blk out meta :
  chain k = true -> block_pos k = true -> rel k blk ->
  exists st', pop_block (R [] (b :: blk) out meta) = Ok st' /\ rel k (r_blk st') /\ r_inl st' = [] /\
              r_meta st' = meta /\ said_st st' = said_parts out blk [] ++ said_block b.
Proof.
  intros Hc Hp Hr. destruct (container_of_rel k blk Hc Hp Hr) as [-> | [top [r [-> Ht]]]].
  - eexists. split; [reflexivity|]. cbn [r_inl r_blk r_out r_meta]. repeat split; [exact Hr|].
    unfold said_st, said_parts. cbn [r_inl r_blk r_out said_bstack said_istack].
    rewrite said_blocks_snoc. now norm.
  - destruct (append_block_keeps top b Ht) as [top' [E1 [E0 [E2 [E3 E4]]]]].
    unfold pop_block. cbn [r_inl r_blk r_out r_meta]. rewrite E0, E1. cbn [bind].
    eexists. split; [reflexivity|]. cbn [r_inl r_blk r_out r_meta]. repeat split.
    + eapply rel_top; eassumption.
    + unfold said_st, said_parts. cbn [r_inl r_blk r_out said_bstack said_istack]. rewrite E2. now norm.
Qed.

Lemma push_block_keeps f b k st :
  opaque f = true -> is_block_nt f = true -> kind_ok f b = true -> allowed f k = true -> RelSt k st ->
  RelSt (f :: k) (push_block st b) /\ said_st (push_block st b) = said_st st ++ open_said b.
Proof.
  intros Ho Hb Hk Ha [Hr [Hl [Hi Hm]]]. destruct st as [inl blk out meta].
  cbn [r_inl r_blk r_out r_meta] in *.
  assert (Hf : f <> NInl) by (intros ->; discriminate).
  rewrite (allowed_inl_top f k Ha Hf) in Hl. destruct inl; [|discriminate].
  unfold push_block. cbn [r_inl r_blk r_out r_meta]. split.
  - repeat split; cbn [r_inl r_blk r_out r_meta].
    + cbn [rel]. rewrite Ho. split; assumption.
    + destruct f; try discriminate; reflexivity.
    + exact Hi.
    + rewrite Hm, (allowed_meta f k Ha). destruct f; try discriminate; reflexivity.
  - unfold said_st, said_parts. cbn [r_inl r_blk r_out said_bstack said_istack]. now norm.
Qed.

(* tags the machine ignores (html block, table head, End of item / row / cell) *)
Lemma transparent_push f k st :
  opaque f = false -> f <> NInl -> f <> NCell -> f <> NMeta -> allowed f k = true ->
  RelSt k st -> RelSt (f :: k) st.
Proof.
  intros Ho H1 H2 H3 Ha [Hr [Hl [Hi Hm]]]. repeat split.
  - cbn [rel]. rewrite Ho. destruct f; try exact Hr. congruence.
  - rewrite Hl, (allowed_inl_top f k Ha H1). destruct f; try reflexivity. congruence.
  - exact Hi.
  - rewrite Hm, (allowed_meta f k Ha). destruct f; try reflexivity. congruence.
Qed.

Lemma transparent_pop f k st :
  opaque f = false -> f <> NInl -> f <> NMeta -> allowed f k = true ->
  RelSt (f :: k) st -> RelSt k st.
Proof.
  intros Ho H1 H3 Ha [Hr [Hl [Hi Hm]]]. repeat split.
  - cbn [rel] in Hr. rewrite Ho in Hr. destruct f; try exact Hr. tauto.
  - rewrite Hl, (allowed_inl_top f k Ha H1). destruct f; try reflexivity. congruence.
  - exact Hi.
  - rewrite Hm, (allowed_meta f k Ha). destruct f; try reflexivity. congruence.
Qed.

Lemma said_st_meta inl blk out m m' : said_st (R inl blk out m) = said_st (R inl blk out m').
Proof. reflexivity. Qed.

(* ====================================================================================== *)
(* 6. One event                                                                            *)
(* ====================================================================================== *)

Lemma push_inline_keeps M k st kd s e :
  chain k = true -> allowed NInl k = true -> RelSt k st ->
  let st' := push_inline st (PNode kd (m_inline M s e) []) (m_lines M s e) in
  RelSt (NInl :: k) st' /\ said_st st' = said_st st ++ [AOpen kd (m_inline M s e)].
Proof.
  intros Hc Ha [Hr [Hl [Hi Hm]]]. destruct st as [inl blk out meta]. cbn [r_inl r_blk r_out r_meta] in *.
  unfold push_inline. cbn [r_inl r_blk r_out r_meta]. split.
  - repeat split; cbn [r_inl r_blk r_out r_meta].
    + exact Hr.
    + cbn [length inl_top]. now rewrite Hl.
    + constructor; [reflexivity|exact Hi].
    + rewrite Hm. apply (allowed_meta NInl k Ha).
  - unfold said_st, said_parts. cbn [r_inl r_blk r_out said_istack fst open_inl said_inls]. now norm.
Qed.

Lemma end_inline_keeps M k st :
  chain (NInl :: k) = true -> RelSt (NInl :: k) st ->
  exists st', pop_inline M st = Ok st' /\ RelSt k st' /\ said_st st' = said_st st ++ [AClose].
Proof.
  intros Hc [Hr [Hl [Hi Hm]]]. destruct st as [inl blk out meta]. cbn [r_inl r_blk r_out r_meta] in *.
  pose proof (chain_head _ _ Hc) as Ha. pose proof (chain_tail _ _ Hc) as Hc'.
  destruct inl as [|[i lr] rest]; [discriminate|]. cbn [length inl_top] in Hl. injection Hl as Hl.
  unfold Inv in Hi. cbn [r_inl] in Hi. inversion Hi as [|? ? Hn Hi']; subst. cbn [fst] in Hn.
  cbn [rel opaque] in Hr.
  assert (Hm' : false = meta_of k) by (symmetry; apply (allowed_meta NInl k Ha)).
  destruct (pop_inline_keeps M k i lr rest blk out false Hc' Ha Hr Hl Hi' Hm') as [st' [E1 [E2 E3]]].
  exists st'. split; [exact E1|]. split; [exact E2|]. rewrite E3.
  unfold said_st, said_parts. cbn [r_inl r_blk r_out said_istack fst].
  rewrite (said_inl_open i Hn). now norm.
Qed.

Lemma end_block_keeps k f st :
  chain (f :: k) = true -> opaque f = true -> is_block_nt f = true -> RelSt (f :: k) st ->
  exists st' b, pop_block st = Ok st' /\ RelSt k st' /\ kind_ok f b = true /\
                said_st st' = said_st st ++ close_of b.
Proof.
  intros Hc Ho Hb [Hr [Hl [Hi Hm]]]. destruct st as [inl blk out meta]. cbn [r_inl r_blk r_out r_meta] in *.
  pose proof (chain_head _ _ Hc) as Ha. pose proof (chain_tail _ _ Hc) as Hc'.
  assert (Hl0 : inl_top (f :: k) = 0) by (destruct f; try discriminate; reflexivity).
  rewrite Hl0 in Hl. destruct inl; [|discriminate].
  cbn [rel] in Hr. rewrite Ho in Hr. destruct blk as [|b blk]; [destruct Hr|]. destruct Hr as [Hk Hr].
  assert (Hp : block_pos k = true) by (rewrite <- (allowed_block f k Hb); exact Ha).
  destruct (pop_block_keeps k b blk out meta Hc' Hp Hr) as [st' [E1 [E2 [E3 [E4 E5]]]]].
  exists st', b. split; [exact E1|]. split; [|split; [exact Hk|]].
  - repeat split; try assumption.
    + rewrite E3. symmetry. apply (allowed_inl_top f k Ha). intros ->; discriminate.
    + unfold Inv. rewrite E3. constructor.
    + rewrite E4, Hm, (allowed_meta f k Ha). destruct f; try discriminate; reflexivity.
  - rewrite E5, said_block_open. unfold said_st, said_parts.
    cbn [r_inl r_blk r_out said_bstack said_istack]. now norm.
Qed.

Ltac relst_split := split; [|split; [|split]].

Theorem step_keeps M k e k' st :
  chain k = true -> d_step k e = Some k' -> RelSt k st ->
  exists st', step M st e = Ok st' /\ RelSt k' st' /\
              said_st st' = said_st st ++ atoms_of M (w_of k) e.
Proof.
  intros Hc H HR.
  destruct e as [t s e'|t|len s e'|len s e'|s e'|len s e'|s e'|s e'|].
  - (* Start *)
    destruct t; cbn [d_step] in H;
      try (apply d_push_inv in H; destruct H as [Ha ->]);
      cbn [step atoms_of kind_of].
    + (* paragraph *)
      destruct (push_block_keeps NPara (BPara (m_lines M s e') []) k st eq_refl eq_refl eq_refl Ha HR) as [R1 R2].
      eexists. split; [reflexivity|]. split; [exact R1|exact R2].
    + destruct (push_block_keeps NHeading (BHeader (m_lines M s e') []) k st eq_refl eq_refl eq_refl Ha HR) as [R1 R2].
      eexists. split; [reflexivity|]. split; [exact R1|exact R2].
    + destruct (push_block_keeps NQuote (BQuote (m_lines M s e') []) k st eq_refl eq_refl eq_refl Ha HR) as [R1 R2].
      eexists. split; [reflexivity|]. split; [exact R1|exact R2].
    + destruct (push_block_keeps NCode (BCode (m_lines M s e')) k st eq_refl eq_refl eq_refl Ha HR) as [R1 R2].
      eexists. split; [reflexivity|]. split; [exact R1|exact R2].
    + (* html block *)
      eexists. split; [reflexivity|]. split; [|now rewrite app_nil_r].
      apply transparent_push; try easy.
    + destruct (push_block_keeps (NList false) (BList []) k st eq_refl eq_refl eq_refl Ha HR) as [R1 R2].
      eexists. split; [reflexivity|]. split; [exact R1|exact R2].
    + (* item *)
      destruct k as [|[] rest]; try discriminate. inversion H; subst k'. clear H.
      destruct HR as [Hr [Hl [Hi Hm]]]. destruct st as [inl blk out meta]. cbn [r_inl r_blk r_out r_meta] in *.
      cbn [rel opaque] in Hr. destruct blk as [|b blk]; [destruct Hr|]. destruct Hr as [Hk Hr].
      destruct b as [r l|r l|r|r bs|items|r|r h rows]; try discriminate.
      cbn [inl_top] in Hl. destruct inl; [|discriminate].
      unfold with_top. cbn [r_inl r_blk r_out r_meta bind].
      eexists. split; [reflexivity|]. split.
      * relst_split; cbn [r_inl r_blk r_out r_meta]; try assumption; try reflexivity.
        cbn [rel opaque]. split; [|exact Hr]. cbn [kind_ok]. now destruct items.
      * unfold said_st, said_parts. cbn [r_inl r_blk r_out said_bstack said_istack open_said].
        rewrite said_items_app. cbn [said_items said_blocks]. now norm.
    + destruct (push_block_keeps NTable (BTable (m_lines M s e') [] []) k st eq_refl eq_refl eq_refl Ha HR) as [R1 R2].
      eexists. split; [reflexivity|]. split; [exact R1|exact R2].
    + (* table head *)
      eexists. split; [reflexivity|]. split; [|now rewrite app_nil_r].
      apply transparent_push; try easy.
    + (* row *)
      destruct k as [|[] rest]; try discriminate.
      pose proof HR as [Hr [Hl [Hi Hm]]]. destruct st as [inl blk out meta]. cbn [r_inl r_blk r_out r_meta] in *.
      cbn [rel opaque] in Hr. destruct blk as [|b blk]; [destruct Hr|]. destruct Hr as [Hk Hr].
      destruct b as [r l|r l|r|r bs|items|r|r h rows]; try discriminate.
      cbn [inl_top] in Hl. destruct inl; [|discriminate].
      unfold with_top. cbn [r_inl r_blk r_out r_meta bind].
      eexists. split; [reflexivity|]. split.
      * relst_split; cbn [r_inl r_blk r_out r_meta]; try assumption; try reflexivity.
        cbn [rel opaque]. split; [reflexivity|exact Hr].
      * unfold said_st, said_parts. cbn [r_inl r_blk r_out said_bstack said_istack open_said].
        rewrite said_rows_app. cbn [said_rows said_cells]. now norm.
    + (* cell *)
      pose proof Ha as Ha0. destruct k as [|p rest]; [discriminate|].
      pose proof (chain_head _ _ Hc) as Hap. pose proof (chain_tail _ _ Hc) as Hc'.
      assert (Hp : (p = NHead \/ p = NRow)) by (destruct p; try discriminate; tauto).
      assert (Ht : exists rest', rest = NTable :: rest').
      { destruct Hp as [-> | ->]; (destruct rest as [|[] rest']; try discriminate; eexists; reflexivity). }
      destruct Ht as [rest' ->].
      destruct HR as [Hr [Hl [Hi Hm]]]. destruct st as [inl blk out meta]. cbn [r_inl r_blk r_out r_meta] in *.
      assert (Hr' : rel (NTable :: rest') blk) by (destruct Hp as [-> | ->]; exact Hr).
      cbn [rel opaque] in Hr'. destruct blk as [|b blk]; [destruct Hr'|]. destruct Hr' as [Hk Hr'].
      destruct b as [r l|r l|r|r bs|items|r|r h rows]; try discriminate.
      assert (Hl0 : inl = []) by (destruct Hp as [-> | ->]; cbn [inl_top] in Hl; now destruct inl).
      subst inl.
      unfold with_top. cbn [r_inl r_blk r_out r_meta bind].
      eexists. split; [reflexivity|]. split.
      * relst_split; cbn [r_inl r_blk r_out r_meta]; try assumption; try reflexivity.
        -- cbn [rel opaque]. split.
           ++ cbn [cell_ok]. unfold has_cell, table_cell_header, table_cell_rows.
              destruct rows as [|r0 t]; [cbn [on_last_row]; now destruct h|].
              destruct (cell_rows_said (r0 :: t) eq_refl) as [_ [E2 E3]].
              destruct (on_last_row (r0 :: t) (fun r1 => r1 ++ [[]])); [discriminate|exact E2].
           ++ destruct Hp as [-> | ->]; cbn [rel opaque]; (split; [reflexivity|exact Hr']).
        -- rewrite Hm. destruct Hp as [-> | ->]; reflexivity.
      * unfold said_st, said_parts. cbn [r_inl r_blk r_out said_bstack said_istack open_said].
        unfold table_cell_header, table_cell_rows. destruct rows as [|r0 t].
        -- cbn [on_last_row said_rows]. rewrite said_cells_app. cbn [said_cells said_inls]. now norm.
        -- destruct (cell_rows_said (r0 :: t) eq_refl) as [E1 _]. rewrite E1. now norm.
    + destruct (push_inline_keeps M k st KEmph s e' Hc Ha HR) as [R1 R2].
      eexists. split; [reflexivity|]. split; [exact R1|exact R2].
    + destruct (push_inline_keeps M k st KStrong s e' Hc Ha HR) as [R1 R2].
      eexists. split; [reflexivity|]. split; [exact R1|exact R2].
    + destruct (push_inline_keeps M k st KStrike s e' Hc Ha HR) as [R1 R2].
      eexists. split; [reflexivity|]. split; [exact R1|exact R2].
    + destruct (push_inline_keeps M k st (KLink lt url) s e' Hc Ha HR) as [R1 R2].
      eexists. split; [reflexivity|]. split; [exact R1|exact R2].
    + destruct (push_inline_keeps M k st KImage s e' Hc Ha HR) as [R1 R2].
      eexists. split; [reflexivity|]. split; [exact R1|exact R2].
    + (* front matter *)
      destruct HR as [Hr [Hl [Hi Hm]]]. eexists. split; [reflexivity|]. split.
      * relst_split; cbn [r_inl r_blk r_out r_meta]; try assumption; try reflexivity.
        rewrite Hl. apply (allowed_inl_top NMeta k Ha). discriminate.
      * destruct st as [inl blk out meta]. cbn [r_inl r_blk r_out r_meta].
        rewrite app_nil_r. apply said_st_meta.
    + inversion H; subst k'. eexists. split; [reflexivity|]. split; [exact HR|now rewrite app_nil_r].
  - (* End *)
    destruct t; cbn [d_step] in H;
      try (apply d_pop_inv in H; subst k; pose proof (chain_head _ _ Hc) as Ha;
           pose proof (chain_tail _ _ Hc) as Hc');
      cbn [step atoms_of].
    + destruct (end_block_keeps k' NPara st Hc eq_refl eq_refl HR) as [st' [b [E1 [E2 [E3 E4]]]]].
      exists st'. split; [exact E1|]. split; [exact E2|]. rewrite E4. now destruct b.
    + destruct (end_block_keeps k' NHeading st Hc eq_refl eq_refl HR) as [st' [b [E1 [E2 [E3 E4]]]]].
      exists st'. split; [exact E1|]. split; [exact E2|]. rewrite E4. now destruct b.
    + destruct (end_block_keeps k' NQuote st Hc eq_refl eq_refl HR) as [st' [b [E1 [E2 [E3 E4]]]]].
      exists st'. split; [exact E1|]. split; [exact E2|]. rewrite E4. now destruct b.
    + destruct (end_block_keeps k' NCode st Hc eq_refl eq_refl HR) as [st' [b [E1 [E2 [E3 E4]]]]].
      exists st'. split; [exact E1|]. split; [exact E2|]. rewrite E4. now destruct b.
    + eexists. split; [reflexivity|]. split; [|now rewrite app_nil_r].
      eapply transparent_pop; try eassumption; easy.
    + destruct (end_block_keeps k' (NList true) st Hc eq_refl eq_refl HR) as [st' [b [E1 [E2 [E3 E4]]]]].
      exists st'. split; [exact E1|]. split; [exact E2|]. rewrite E4. now destruct b.
    + eexists. split; [reflexivity|]. split; [|now rewrite app_nil_r].
      eapply transparent_pop; try eassumption; easy.
    + destruct (end_block_keeps k' NTable st Hc eq_refl eq_refl HR) as [st' [b [E1 [E2 [E3 E4]]]]].
      exists st'. split; [exact E1|]. split; [exact E2|]. rewrite E4. now destruct b.
    + eexists. split; [reflexivity|]. split; [|now rewrite app_nil_r].
      eapply transparent_pop; try eassumption; easy.
    + eexists. split; [reflexivity|]. split; [|now rewrite app_nil_r].
      eapply transparent_pop; try eassumption; easy.
    + eexists. split; [reflexivity|]. split; [|now rewrite app_nil_r].
      eapply transparent_pop; try eassumption; easy.
    + exact (end_inline_keeps M k' st Hc HR).
    + exact (end_inline_keeps M k' st Hc HR).
    + exact (end_inline_keeps M k' st Hc HR).
    + exact (end_inline_keeps M k' st Hc HR).
    + exact (end_inline_keeps M k' st Hc HR).
    + (* end of the front matter *)
      destruct HR as [Hr [Hl [Hi Hm]]]. eexists. split; [reflexivity|]. split.
      * relst_split; cbn [r_inl r_blk r_out r_meta]; try assumption.
        -- rewrite Hl. symmetry. apply (allowed_inl_top NMeta k' Ha). discriminate.
        -- symmetry. apply (allowed_meta NMeta k' Ha).
      * destruct st as [inl blk out meta]. cbn [r_inl r_blk r_out r_meta].
        rewrite app_nil_r. apply said_st_meta.
    + inversion H; subst k'. eexists. split; [reflexivity|]. split; [exact HR|now rewrite app_nil_r].
  - (* Text *)
    cbn [d_step] in H. cbn [step atoms_of]. destruct (inline_pos k) eqn:Hp.
    + inversion H; subst k'. clear H. pose proof HR as [Hr [Hl [Hi Hm]]].
      rewrite Hm, (allowed_meta NInl k Hp), (allowed_w NInl k Hp).
      destruct (recv_of_rel k (r_blk st) Hc Hp Hr) as [b [r [Eb Hb]]]. rewrite Eb.
      destruct (leaf_keeps M k st (PStr len) s e' Hc Hp HR) as [st' [E1 [E2 E3]]].
      exists st'. split; [|split; [exact E2|exact E3]].
      destruct b; try discriminate; exact E1.
    + destruct HR as [Hr [Hl [Hi Hm]]].
      destruct k as [|[] rest]; try discriminate; inversion H; subst k'; clear H; cbn [w_of];
        (eexists; split; [|split; [relst_split; eassumption|now rewrite app_nil_r]]).
      * (* code block *)
        rewrite Hm. cbn [meta_of]. cbn [rel opaque] in Hr.
        destruct (r_blk st) as [|b blk]; [destruct Hr|]. destruct Hr as [Hk _].
        destruct b; try discriminate. reflexivity.
      * (* front matter *) rewrite Hm. reflexivity.
  - cbn [d_step] in H. cbn [step atoms_of]. destruct (inline_pos k) eqn:Hp; [|discriminate].
    inversion H; subst k'. exact (leaf_keeps M k st _ s e' Hc Hp HR).
  - cbn [d_step] in H. cbn [step atoms_of]. destruct (inline_pos k) eqn:Hp; [|discriminate].
    inversion H; subst k'. exact (leaf_keeps M k st _ s e' Hc Hp HR).
  - cbn [d_step] in H. cbn [step atoms_of]. destruct (inline_pos k) eqn:Hp; [|discriminate].
    inversion H; subst k'. exact (leaf_keeps M k st _ s e' Hc Hp HR).
  - cbn [d_step] in H. cbn [step atoms_of]. destruct (inline_pos k) eqn:Hp; [|discriminate].
    inversion H; subst k'. pose proof HR as [Hr [Hl [Hi Hm]]].
    rewrite Hm, (allowed_meta NInl k Hp), (allowed_w NInl k Hp).
    exact (leaf_keeps M k st _ s e' Hc Hp HR).
  - (* Rule *)
    cbn [d_step] in H. cbn [step atoms_of]. destruct (block_pos k) eqn:Hp; [|discriminate].
    inversion H; subst k'. clear H. destruct HR as [Hr [Hl [Hi Hm]]].
    destruct st as [inl blk out meta]. cbn [r_inl r_blk r_out r_meta] in *.
    rewrite (allowed_inl_top NPara k Hp) in Hl by discriminate. destruct inl; [|discriminate].
    unfold push_block. cbn [r_inl r_blk r_out r_meta].
    destruct (pop_block_keeps k (BRule (m_lines M s e')) blk out meta Hc Hp Hr) as [st' [E1 [E2 [E3 [E4 E5]]]]].
    exists st'. split; [exact E1|]. split.
    + relst_split; try assumption.
      * rewrite E3. symmetry. apply (allowed_inl_top NPara k Hp). discriminate.
      * unfold Inv. rewrite E3. constructor.
      * now rewrite E4.
    + rewrite E5. reflexivity.
  - inversion H; subst k'. eexists. split; [reflexivity|]. split; [exact HR|now rewrite app_nil_r].
Qed.

(* where the stream is, as [said_ev] tracks it, is what the stack of open tags says *)
Lemma w_step_doc k e k' : chain k = true -> d_step k e = Some k' -> w_of k' = w_step (w_of k) e.
Proof.
  intros Hc H.
  destruct e as [t s e'|t|len s e'|len s e'|s e'|len s e'|s e'|s e'|]; cbn [d_step] in H.
  - destruct t; try (apply d_push_inv in H; destruct H as [Ha ->]); cbn [w_step w_of];
      try (symmetry; eapply allowed_w; eassumption); try reflexivity.
    + destruct k as [|[] rest]; try discriminate. inversion H; subst. reflexivity.
    + inversion H; subst. reflexivity.
  - destruct t; try (apply d_pop_inv in H; subst k; pose proof (chain_head _ _ Hc) as Ha);
      cbn [w_step w_of]; try (eapply allowed_w; eassumption).
    inversion H; subst. reflexivity.
  - destruct (inline_pos k); [inversion H; subst; reflexivity|].
    destruct k as [|[] rest]; try discriminate; inversion H; subst; reflexivity.
  - destruct (inline_pos k); [inversion H; subst; reflexivity|discriminate].
  - destruct (inline_pos k); [inversion H; subst; reflexivity|discriminate].
  - destruct (inline_pos k); [inversion H; subst; reflexivity|discriminate].
  - destruct (inline_pos k); [inversion H; subst; reflexivity|discriminate].
  - destruct (block_pos k); [inversion H; subst; reflexivity|discriminate].
  - inversion H; subst; reflexivity.
Qed.

(* ====================================================================================== *)
(* 7. Whole streams                                                                        *)
(* ====================================================================================== *)

Lemma run_keeps M : forall evs k k' st,
  chain k = true -> d_run k evs = Some k' -> RelSt k st ->
  exists st', run_events M st evs = Ok st' /\ RelSt k' st' /\
              said_st st' = said_st st ++ said_from M (w_of k) evs.
Proof.
  induction evs as [|e r IH]; intros k k' st Hc H HR.
  - inversion H; subst. exists st. split; [reflexivity|]. split; [exact HR|].
    cbn [said_from]. now rewrite app_nil_r.
  - cbn [d_run] in H. destruct (d_step k e) as [k1|] eqn:E; [|discriminate].
    destruct (d_step_sim k e k1 Hc E) as [_ Hc1].
    destruct (step_keeps M k e k1 st Hc E HR) as [st1 [E1 [R1 S1]]].
    destruct (IH k1 k' st1 Hc1 H R1) as [st' [E2 [R2 S2]]].
    exists st'. cbn [run_events]. rewrite E1. cbn [bind]. split; [exact E2|]. split; [exact R2|].
    rewrite S2, S1. cbn [said_from]. rewrite (w_step_doc k e k1 Hc E). now rewrite app_assoc.
Qed.

Lemma RelSt0 : RelSt [] rst0.
Proof. repeat split. constructor. Qed.

(* The reader keeps everything the parser reports: on every document-shaped stream, in every
   mode, the blocks it returns say exactly what the stream said — every text piece, code span,
   math, inline html piece and break, every emphasis / strong / strike-through / link / image
   with its kind, url, range and extent, every heading, quote, list, item, table, row, cell,
   code block and rule with its line range, once and in document order. *)
Theorem C01_reader_keeps :
  forall (M : mode) (evs : list ev) (bs : list pblock),
    inG_doc evs = true -> read_events M evs = Ok bs -> said_blocks bs = said_ev M evs.
Proof.
  intros M evs bs H E. unfold inG_doc in H. destruct (d_run [] evs) as [k'|] eqn:D; [|discriminate].
  destruct k' as [|? ?]; [|discriminate].
  destruct (run_keeps M evs [] [] rst0 eq_refl D RelSt0) as [st [E1 [[Hr [Hl _]] S]]].
  unfold read_events in E. rewrite E1 in E. cbn [bind] in E. inversion E; subst bs.
  cbn [rel] in Hr. cbn [inl_top] in Hl. destruct (r_inl st) eqn:Ei; [|discriminate].
  unfold said_st, said_parts in S. rewrite Hr, Ei in S. cbn [said_bstack said_istack] in S.
  rewrite !app_nil_r in S. exact S.
Qed.
Print Assumptions C01_reader_keeps.

(* with totality: the document exists and says what the stream said *)
Corollary C01_reader_keeps_total :
  forall (M : mode) (evs : list ev),
    inG_doc evs = true -> exists bs, read_events M evs = Ok bs /\ said_blocks bs = said_ev M evs.
Proof.
  intros M evs H. destruct (C03_reader_total_doc M evs H) as [st [E _]].
  exists (r_out st). assert (E' : read_events M evs = Ok (r_out st)).
  { unfold read_events. now rewrite E. }
  split; [exact E'|]. exact (C01_reader_keeps M evs _ H E').
Qed.
Print Assumptions C01_reader_keeps_total.

(* the same for every prefix of a document: what has been delivered, what is in the open blocks and
   what is in the open inlines is what the prefix said *)
Theorem C01_reader_keeps_prefix :
  forall (M : mode) (evs : list ev) (k : list nt),
    d_run [] evs = Some k ->
    exists st, run_events M rst0 evs = Ok st /\ said_st st = said_ev M evs.
Proof.
  intros M evs k D. destruct (run_keeps M evs [] k rst0 eq_refl D RelSt0) as [st [E1 [_ S]]].
  exists st. split; [exact E1|exact S].
Qed.
Print Assumptions C01_reader_keeps_prefix.

(* ====================================================================================== *)
(* 8. The reader of the current tree (Text inside an HTML block is dropped)                *)
(* ====================================================================================== *)

(* `ReaderTotal.run_h` is the machine with the `html_block` flag (reader.rs:19,70-71): it is
   `Pos.step` on the stream in which the Text events inside an HTML block are [ESkip].  What it
   keeps is therefore the account of the stripped stream: exactly the Text events inside a raw
   HTML block are excluded, nothing else. *)
Corollary C01_reader_keeps_head :
  forall (M : mode) (evs : list ev),
    reader_doc_ok evs = true ->
    exists h st, run_h M (false, rst0) evs = Ok (h, st) /\
                 said_blocks (r_out st) = said_ev M (strip_html false evs).
Proof.
  intros M evs H. unfold reader_doc_ok in H.
  destruct (C03_reader_total_doc M _ H) as [st [E _]].
  pose proof (run_h_strip M evs false rst0) as S. rewrite E in S. destruct S as [h S].
  exists h, st. split; [exact S|]. apply (C01_reader_keeps M _ _ H). unfold read_events. now rewrite E.
Qed.
Print Assumptions C01_reader_keeps_head.

(* ====================================================================================== *)
(* 9. Outside the document grammar: where the machine does drop or misplace                *)
(* ====================================================================================== *)

(* [inG] (the streams the machine survives) is larger than [inG_doc]; on these streams of the
   difference - none of which a CommonMark parser emits: text directly inside a quote, text in a
   table outside a cell, a block inside a paragraph - an atom is lost or misplaced. *)
Definition loses (evs : list ev) : Prop :=
  inG evs = true /\ inG_doc evs = false /\
  exists bs, read_events (raw_mode true) evs = Ok bs /\ said_blocks bs <> said_ev (raw_mode true) evs.

(* text directly in a quote after a rule: dropped by the HorizontalRule arm of `append_inline` *)
Theorem keeps_outside_doc_refuted_quote_rule :
  loses [EStart TQuote 0 9; ERule 2 5; EText 1 7 8; EEnd TQuote].
Proof. split; [reflexivity|]. split; [reflexivity|]. eexists. split; [reflexivity|]. vm_compute. discriminate. Qed.
(* ... after a code block: dropped by the CodeBlock arm *)
Theorem keeps_outside_doc_refuted_quote_code :
  loses [EStart TQuote 0 20; EStart TCodeBlock 2 12; EEnd TCodeBlock; ECode 1 14 17; EEnd TQuote].
Proof. split; [reflexivity|]. split; [reflexivity|]. eexists. split; [reflexivity|]. vm_compute. discriminate. Qed.
(* ... after a heading: glued onto the heading (kept, but inside the heading) *)
Theorem keeps_outside_doc_refuted_quote_heading :
  loses [EStart TQuote 0 20; EStart THeading 2 6; EText 1 4 5; EEnd THeading; EText 1 8 9; EEnd TQuote].
Proof. split; [reflexivity|]. split; [reflexivity|]. eexists. split; [reflexivity|]. vm_compute. discriminate. Qed.
(* text in a table outside a cell: `if let Some(cell) = ..last_mut()` finds none *)
Theorem keeps_outside_doc_refuted_table :
  loses [EStart TTable 0 9; EText 1 1 2; EEnd TTable].
Proof. split; [reflexivity|]. split; [reflexivity|]. eexists. split; [reflexivity|]. vm_compute. discriminate. Qed.
(* a block that closes inside a paragraph is dropped by `pop_block` *)
Theorem keeps_outside_doc_refuted_block_in_para :
  loses [EStart TPara 0 9; ERule 2 5; EEnd TPara].
Proof. split; [reflexivity|]. split; [reflexivity|]. eexists. split; [reflexivity|]. vm_compute. discriminate. Qed.

(* ====================================================================================== *)
(* 10. The list arm as found (before 9f9db12) loses the text of a tight item's tail        *)
(* ====================================================================================== *)

(* document.rs as found: "empty item: a new paragraph, else hand the inline to the item's last block" *)
Fixpoint append_inline_af (M : mode) (b : pblock) (i : pinl) (lr : lrange) : res pblock :=
  let fix app_last (l : list pblock) : res (list pblock) :=
    match l with
    | [] => Panic "append_inline: unwrap on None"
    | x :: [] => do x' <- append_inline_af M x i lr; Ok [x']
    | x :: r => do r' <- app_last r; Ok (x :: r')
    end in
  let fix app_item (l : list (list pblock)) : res (list (list pblock)) :=
    match l with
    | [] => Panic "append_inline: no item"
    | it :: [] =>
        match it with
        | [] => Ok [[BPara lr [i]]]
        | _ => do it' <- app_last it; Ok [it']
        end
    | it :: r => do r' <- app_item r; Ok (it :: r')
    end in
  match b with
  | BPara r l => Ok (BPara (if m_union M then lr_union r lr else r) (l ++ [i]))
  | BHeader r l => Ok (BHeader r (l ++ [i]))
  | BCode _ | BRule _ => Ok b
  | BTable r h rows => Ok (BTable r (table_inline_header h rows i) (table_inline_rows rows i))
  | BQuote r bs =>
      match bs with
      | [] => Ok (BQuote r [BPara lr [i]])
      | _ => do bs' <- app_last bs; Ok (BQuote r bs')
      end
  | BList items => do items' <- app_item items; Ok (BList items')
  end.

(* `Pos.step` with the function that delivers a complete inline to a block as a parameter *)
Section machine_with.
  Variable app : pblock -> pinl -> lrange -> res pblock.
  Definition pop_inline_with (st : rst) : res rst :=
    match r_inl st with
    | [] => Panic "pop_inline: unwrap on None"
    | (i, lr) :: [] =>
        match r_blk st with
        | [] => Panic "to have element"
        | b :: rest => do b' <- app b i lr; Ok (R [] (b' :: rest) (r_out st) (r_meta st))
        end
    | (i, _) :: (parent, plr) :: rest =>
        match parent with
        | PNode k r kids => Ok (R ((PNode k r (kids ++ [i]), plr) :: rest) (r_blk st) (r_out st) (r_meta st))
        | _ => Panic "cannot append inline"
        end
    end.
  Definition leaf_with (M : mode) (st : rst) (i : pinl) (s e : nat) : res rst :=
    pop_inline_with (push_inline st i (m_lines M s e)).
  Definition step_with (M : mode) (st : rst) (e : ev) : res rst :=
    match e with
    | EEnd (TEmph | TStrong | TStrike | TLink _ _ | TImage) => pop_inline_with st
    | EText len s e' =>
        if r_meta st then Ok st
        else match r_blk st with
             | [] => Panic "to have element"
             | BCode _ :: _ => Ok st
             | _ => leaf_with M st (PStr len) s e'
             end
    | ECode len s e' => leaf_with M st (PLeaf (m_inline M s e') len) s e'
    | EMath s e' => leaf_with M st (PLeaf (m_inline M s e') 0) s e'
    | EInlineHtml len s e' => leaf_with M st (PStr len) s e'
    | EBreak s e' => if r_meta st then Ok st else leaf_with M st (PStr 1) s e'
    | _ => step M st e          (* the events that deliver no inline *)
    end.
  Fixpoint run_with (M : mode) (st : rst) (evs : list ev) : res rst :=
    match evs with
    | [] => Ok st
    | e :: r => do st' <- step_with M st e; run_with M st' r
    end.
  Definition read_with (M : mode) (evs : list ev) : res (list pblock) :=
    do st <- run_with M rst0 evs; Ok (r_out st).
End machine_with.

(* the parameterised machine with the current `append_inline` IS `Pos.step` *)
Lemma step_with_current M st e : step_with (append_inline M) M st e = step M st e.
Proof. destruct e as [t ? ?|t| | | | | | |]; try reflexivity; destruct t; reflexivity. Qed.
Lemma read_with_current M evs : read_with (append_inline M) M evs = read_events M evs.
Proof.
  unfold read_with, read_events. f_equal. generalize rst0.
  induction evs as [|e r IH]; intros st; [reflexivity|].
  cbn [run_with run_events]. rewrite step_with_current. destruct (step M st e); cbn [bind]; [apply IH|reflexivity].
Qed.

Definition read_events_af (M : mode) : list ev -> res (list pblock) := read_with (append_inline_af M) M.

(* "- a\n  ```\n  c\n  ```\n  t": the text [t] after the code block of the tight item is handed to
   the code block, whose arm of `append_inline` ignores it: the document says less than the stream *)
Theorem C01_reader_keeps_as_found_refuted :
  exists (M : mode) (evs : list ev) (bs : list pblock),
    inG_doc evs = true /\ read_events_af M evs = Ok bs /\ said_blocks bs <> said_ev M evs /\
    length (said_blocks bs) < length (said_ev M evs).
Proof.
  exists (raw_mode false), ex_tight_tail. eexists. split; [reflexivity|]. split; [reflexivity|].
  split; [vm_compute; discriminate|vm_compute; lia].
Qed.
Print Assumptions C01_reader_keeps_as_found_refuted.

(* what each machine makes of it *)
Example ex_tight_tail_both :
  read_events_af (raw_mode false) ex_tight_tail = Ok [BList [[BPara (2, 3) [PStr 1]; BCode (6, 19)]]] /\
  read_events (raw_mode false) ex_tight_tail
  = Ok [BList [[BPara (2, 3) [PStr 1]; BCode (6, 19); BPara (22, 23) [PStr 1]]]] /\
  said_ev (raw_mode false) ex_tight_tail = [AList; AItem; AStr 1; ACodeBlock (6, 19); AStr 1; AEnd].
Proof. repeat split; reflexivity. Qed.

(* as found, text after a heading of a tight item was kept but glued INTO the heading: the account
   sees that too (the heading's AEnd comes after the text) *)
Example ex_tight_heading_as_found :
  let evs := [ EStart TList 0 20; EStart TItem 0 20; EStart THeading 2 6; EText 1 4 5; EEnd THeading;
               EText 1 9 10; EEnd TItem; EEnd TList ] in
  inG_doc evs = true /\
  (exists bs, read_events_af (raw_mode true) evs = Ok bs /\ said_blocks bs <> said_ev (raw_mode true) evs) /\
  keeps_on (raw_mode true) evs.
Proof.
  split; [reflexivity|]. split; [eexists; split; [reflexivity|vm_compute; discriminate]|].
  vm_compute. reflexivity.
Qed.

(* ====================================================================================== *)
(* 11. The account of inlines is faithful: it determines the inline trees                  *)
(* ====================================================================================== *)

(* the account of an inline is never empty and never starts with AClose *)
Lemma said_inl_head i : exists a t, said_inl i = a :: t /\ a <> AClose.
Proof.
  destruct i as [n|r n|k r kids]; [| |rewrite said_inl_node]; eexists _, _; (split; [reflexivity|discriminate]).
Qed.

Definition prefix_free (x : pinl) : Prop :=
  forall y r1 r2, said_inl x ++ r1 = said_inl y ++ r2 -> x = y /\ r1 = r2.

Lemma said_kids_inj : forall kids, Forall prefix_free kids ->
  forall kids' r1 r2, said_inls kids ++ AClose :: r1 = said_inls kids' ++ AClose :: r2 ->
                      kids = kids' /\ r1 = r2.
Proof.
  induction 1 as [|x t Hx Ht IH]; intros kids' r1 r2 E.
  - destruct kids' as [|y t']; cbn [said_inls app] in E; [inversion E; tauto|].
    destruct (said_inl_head y) as [a [u [Ey Ha]]]. rewrite Ey in E. cbn [app] in E. inversion E; congruence.
  - destruct kids' as [|y t']; cbn [said_inls app] in E.
    + destruct (said_inl_head x) as [a [u [Ey Ha]]]. rewrite Ey in E. cbn [app] in E. inversion E; congruence.
    + rewrite <- !app_assoc in E. destruct (Hx y _ _ E) as [-> E'].
      destruct (IH t' r1 r2 E') as [-> ->]. tauto.
Qed.

Lemma said_inl_prefix_free : forall x, prefix_free x.
Proof.
  induction x as [n|r n|k r kids IH] using pinl_ind'; intros y r1 r2 E.
  - destruct y as [n'|r' n'|k' r' kids']; rewrite ?said_inl_node in E; cbn [said_inl app] in E;
      inversion E; subst; tauto.
  - destruct y as [n'|r' n'|k' r' kids']; rewrite ?said_inl_node in E; cbn [said_inl app] in E;
      inversion E; subst; tauto.
  - destruct y as [n'|r' n'|k' r' kids']; rewrite ?said_inl_node in E; cbn [said_inl app] in E;
      try (inversion E; fail).
    inversion E as [[Ek Er E']]. rewrite <- !app_assoc in E'. cbn [app] in E'.
    destruct (said_kids_inj kids IH kids' r1 r2 E') as [-> ->]. tauto.
Qed.

(* two lines of inlines that say the same are the same: the account loses nothing of a paragraph's,
   a heading's or a table cell's inline tree *)
Theorem said_inls_inj : forall l l', said_inls l = said_inls l' -> l = l'.
Proof.
  induction l as [|x t IH]; intros l' E.
  - destruct l' as [|y t']; [reflexivity|]. cbn [said_inls] in E.
    destruct (said_inl_head y) as [a [u [Ey _]]]. rewrite Ey in E. discriminate.
  - destruct l' as [|y t']; cbn [said_inls] in E.
    + destruct (said_inl_head x) as [a [u [Ey _]]]. rewrite Ey in E. discriminate.
    + destruct (said_inl_prefix_free x y _ _ E) as [-> E']. now rewrite (IH t' E').
Qed.
Print Assumptions said_inls_inj.

(* ====================================================================================== *)
(* 12. Non-vacuity                                                                         *)
(* ====================================================================================== *)

(* the hypotheses of the headline are satisfiable by non-trivial streams (section 1 has four:
   `ex_doc`, `ex_tight_tail`, [t_stream1], [t_stream2]), and the conclusion is not trivially true:
   the account of `ex_doc` has 35 atoms, among them a link with its url and a code span *)
Example keeps_ex_doc :
  exists bs, read_events (raw_mode true) ex_doc = Ok bs /\
             said_blocks bs = said_ev (raw_mode true) ex_doc /\
             length (said_ev (raw_mode true) ex_doc) = 35 /\
             In (AOpen (KLink Regular "k") ((0, 24), (0, 30))) (said_ev (raw_mode true) ex_doc) /\
             In (ALeaf ((0, 37), (0, 40)) 1) (said_ev (raw_mode true) ex_doc).
Proof.
  destruct (C01_reader_keeps_total (raw_mode true) ex_doc eq_refl) as [bs [E S]].
  exists bs. split; [exact E|]. split; [exact S|]. split; [reflexivity|].
  split; vm_compute; tauto.
Qed.

(* the account tells documents apart: dropping one text, moving a text out of an emphasis, or changing
   a url changes it *)
Example account_discriminates :
  said_block (BPara (0, 1) [PStr 1; PStr 2]) <> said_block (BPara (0, 1) [PStr 1]) /\
  said_block (BPara (0, 1) [PNode KEmph ((0, 0), (0, 5)) [PStr 1; PStr 2]])
    <> said_block (BPara (0, 1) [PNode KEmph ((0, 0), (0, 5)) [PStr 1]; PStr 2]) /\
  said_block (BPara (0, 1) [PNode (KLink Regular "a") ((0, 0), (0, 5)) []])
    <> said_block (BPara (0, 1) [PNode (KLink Regular "b") ((0, 0), (0, 5)) []]).
Proof. repeat split; vm_compute; discriminate. Qed.

(* the front matter and the text of a code block are not in the account of the stream (the machine
   has no place for them in `Pos.pblock`); the code block itself is *)
Example account_excludes :
  said_ev (raw_mode true)
    [EStart TMeta 0 10; EText 5 4 9; EEnd TMeta; EStart TCodeBlock 11 30; EText 3 15 18; EEnd TCodeBlock]
  = [ACodeBlock (11, 30)].
Proof. reflexivity. Qed.
