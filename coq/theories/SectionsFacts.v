(* SectionsFacts.v — theorems about the specification of SectionsSpec.v (the tree a note's blocks
   determine) composed with the projector of Project.v:

   - C07 identity: in every nesting context, if the heading levels of the blocks are well nested
     (first 1, never skipping a level) the levels written back are exactly those levels;
   - C01 conservation: for EVERY block list every block's content occurs in the tree exactly once
     and in document order; a list item contributes its line first - its text, or an empty line
     when it has none (with NormFacts.project_conserves: in the written blocks).

   Both for block lists of any length and nesting. *)
From IweV Require Import Str Text Ast RelPath Arena Project SectionsSpec Check_Norm NormFacts BuilderFacts.
From Coq Require Import Lia.
Local Open Scope string_scope.
Local Open Scope list_scope.

(* heading levels of the headings of one nesting context, in order *)
Definition hlv (bs : list dblock) : list nat :=
  flat_map (fun b => match b with DHeader _ n _ => [n] | _ => [] end) bs.

Lemma hlv_app a b : hlv (a ++ b) = hlv a ++ hlv b.
Proof. unfold hlv. now rewrite flat_map_app. Qed.

Lemma hlv_no_headers pre : Forall (fun b => is_header b = false) pre -> hlv pre = [].
Proof.
  induction 1 as [|b l Hb _ IH]; [reflexivity|]. unfold hlv in *. cbn [flat_map]. rewrite IH.
  destruct b; try discriminate; reflexivity.
Qed.

(* span_section keeps exactly the blocks whose headings are deeper than L *)
Lemma span_section_levels L bs body rest :
  span_section L bs = (body, rest) ->
  bs = body ++ rest /\ Forall (fun n => L < n) (hlv body) /\
  match rest with DHeader _ n _ :: _ => n <= L | [] => True | _ => False end.
Proof.
  revert body rest; induction bs as [|b bs IH]; intros body rest H; cbn [span_section] in H.
  - inversion H; subst. repeat split; constructor.
  - destruct (is_split L b) eqn:Eh.
    + inversion H; subst. repeat split; [constructor|].
      destruct b; try discriminate. cbn in Eh. now apply Nat.leb_le.
    + destruct (span_section L bs) as [x y] eqn:Es. inversion H; subst.
      destruct (IH x rest eq_refl) as (-> & Hf & Hr). repeat split; auto.
      unfold hlv. cbn [flat_map]. fold (hlv x). destruct b; cbn [app]; auto.
      constructor; auto. cbn in Eh. now apply Nat.leb_gt.
Qed.

Lemma span_lengths L bs body rest :
  span_section L bs = (body, rest) -> length body + length rest = length bs.
Proof. intros H. destruct (span_section_levels L bs body rest H) as (-> & _). now rewrite app_length. Qed.

Lemma wn_from_app p a b :
  well_nested_from p (a ++ b) = true ->
  well_nested_from p a = true /\ exists q, well_nested_from q b = true /\
    match b with n :: _ => n <= S q | [] => True end /\ (a = [] -> q = p).
Proof.
  revert p; induction a as [|x a IH]; intros p; cbn [app well_nested_from].
  - intros H. split; [reflexivity|]. exists p. repeat split; auto.
    destruct b as [|n r]; [exact I|]. cbn in H. apply Bool.andb_true_iff in H as [H _].
    apply Bool.andb_true_iff in H as [_ H]. now apply Nat.leb_le in H.
  - intros H. apply Bool.andb_true_iff in H as [H1 H2]. destruct (IH _ H2) as (Ha & q & Hq & Hb & _).
    split; [now rewrite H1, Ha|]. exists q. repeat split; auto. discriminate.
Qed.

Lemma wn_from_weaken p q l :
  well_nested_from p l = true -> match l with n :: _ => n <= S q | [] => True end -> well_nested_from q l = true.
Proof.
  destruct l as [|n r]; [reflexivity|]. cbn [well_nested_from]. intros H Hn.
  apply Bool.andb_true_iff in H as [H H2]. apply Bool.andb_true_iff in H as [H0 _].
  rewrite H0, H2. replace (Nat.leb n (S q)) with true by (symmetry; now apply Nat.leb_le). reflexivity.
Qed.

Section Identity.
  Variable dir : string.


  (* one-step unfoldings of the mutually recursive specification *)
  Lemma blocks_tree_S f bs :
    blocks_tree dir (S f) bs =
    let '(pre, rest) := span_pre bs in
    flat_map (block_tree dir f) pre ++
    match rest with
    | [] => []
    | h :: _ => match header_level h with
                | Some L => sections_tree dir f L rest
                | None => []
                end
    end.
  Proof. reflexivity. Qed.

  Lemma sections_tree_S f L bs :
    sections_tree dir (S f) L bs =
    match bs with
    | [] => []
    | h :: r =>
        let '(body, rest) := span_section L r in
        T None (NSection (lead_inlines dir h)) (blocks_tree dir f body) :: sections_tree dir f L rest
    end.
  Proof. reflexivity. Qed.

  Lemma block_tree_S f b :
    block_tree dir (S f) b =
    match b with
    | DQuote _ bs => [T None NQuote (blocks_tree dir f bs)]
    | DBList items => [T None NBList (flat_map (item_tree dir f) items)]
    | DOList items => [T None NOList (flat_map (item_tree dir f) items)]
    | DHeader _ _ _ => []
    | _ => [T None (leaf_node dir b) []]
    end.
  Proof. reflexivity. Qed.

  Lemma item_tree_S f it :
    item_tree dir (S f) it =
    match it with
    | [] => []
    | [DBList inner] | [DOList inner] => flat_map (item_tree dir f) inner
    | ((DPara _ _ | DHeader _ _ _) as h) :: body => [T None (NSection (lead_inlines dir h)) (blocks_tree dir f body)]
    | _ => [T None (NSection []) (blocks_tree dir f it)]
    end.
  Proof. reflexivity. Qed.

  (* leaves and containers write no heading into the context they stand in *)
  Lemma block_tree_no_levels f b d :
    is_header b = false -> glevels (flat_map (project_node dir d) (block_tree dir f b)) = [].
  Proof.
    intros Hh. destruct f as [|f]; [reflexivity|]. rewrite block_tree_S. destruct b; try discriminate; cbn [flat_map app].
    - (* paragraph *) cbn [leaf_node]. destruct l as [|i t]; [reflexivity|].
      destruct i; try reflexivity. destruct t; [destruct (is_ref_url url); reflexivity | reflexivity].
    - reflexivity.
    - cbn [project_node]. rewrite app_nil_r. destruct (flat_map (project_node dir 0) (blocks_tree dir f bs)); reflexivity.
    - cbn [project_node]. rewrite app_nil_r. destruct (flat_map (item_tree dir f) items); reflexivity.
    - cbn [project_node]. rewrite app_nil_r. destruct (flat_map (item_tree dir f) items); reflexivity.
    - reflexivity.
    - reflexivity.
  Qed.

  Lemma pre_no_levels f pre d :
    Forall (fun b => is_header b = false) pre ->
    glevels (flat_map (project_node dir d) (flat_map (block_tree dir f) pre)) = [].
  Proof.
    induction 1 as [|b l Hb _ IH]; [reflexivity|]. cbn [flat_map].
    rewrite flat_map_app, glevels_app, IH, (block_tree_no_levels f b d Hb). reflexivity.
  Qed.

  Lemma identity_gen : forall fuel,
    (forall bs d, 2 * length bs + 2 <= fuel -> Forall (fun n => d < n) (hlv bs) ->
        well_nested_from d (hlv bs) = true ->
        glevels (flat_map (project_node dir d) (blocks_tree dir fuel bs)) = hlv bs) /\
    (forall bs d, 2 * length bs + 1 <= fuel -> Forall (fun n => d < n) (hlv bs) ->
        well_nested_from d (hlv bs) = true -> headed bs ->
        glevels (flat_map (project_node dir d) (sections_tree dir fuel (S d) bs)) = hlv bs).
  Proof.
    induction fuel as [|f [IHA IHB]]; [split; intros; lia|].
    split.
    - intros bs d Hf Hgt Hwn. rewrite blocks_tree_S.
      destruct (span_pre bs) as [pre rest] eqn:Es.
      destruct (span_pre_spec bs pre rest Es) as (-> & Hpre & Hrest).
      rewrite flat_map_app, glevels_app, (pre_no_levels f pre d Hpre), hlv_app, (hlv_no_headers pre Hpre).
      cbn [app]. rewrite hlv_app, (hlv_no_headers pre Hpre) in Hgt, Hwn. cbn [app] in Hgt, Hwn.
      destruct rest as [|h r]; [reflexivity|].
      cbn [headed] in Hrest. destruct h as [| | | | |lr n l| |]; try discriminate. cbn [header_level].
      assert (n = S d) as ->.
      { unfold hlv in Hgt, Hwn. cbn [flat_map app] in Hgt, Hwn. inversion Hgt; subst.
        cbn [well_nested_from] in Hwn. apply Bool.andb_true_iff in Hwn as [Hwn _].
        apply Bool.andb_true_iff in Hwn as [_ Hwn]. apply Nat.leb_le in Hwn. lia. }
      apply IHB; auto. rewrite app_length in Hf. cbn [length] in *. lia.
    - intros bs d Hf Hgt Hwn Hhd. destruct bs as [|h r]; [reflexivity|].
      cbn [headed] in Hhd. destruct h as [| | | | |lr n l| |]; try discriminate.
      rewrite sections_tree_S.
      destruct (span_section (S d) r) as [body rest] eqn:Es.
      pose proof (span_lengths _ _ _ _ Es) as Hlen.
      destruct (span_section_levels (S d) r body rest Es) as (-> & Fb & Mr).
      assert (Hh : hlv (DHeader lr n l :: body ++ rest) = n :: hlv body ++ hlv rest)
        by (unfold hlv; cbn [flat_map app]; now rewrite flat_map_app).
      rewrite Hh in *. inversion Hgt as [|? ? Hn Hgt']; subst.
      cbn [well_nested_from] in Hwn. apply Bool.andb_true_iff in Hwn as [Hw1 Hw2].
      apply Bool.andb_true_iff in Hw1 as [_ Hw1]. apply Nat.leb_le in Hw1.
      assert (n = S d) as -> by lia.
      apply Forall_app in Hgt' as [Gb Gr].
      destruct (wn_from_app _ _ _ Hw2) as (Wb & q & Wr & Hq & _).
      cbn [flat_map project_node]. replace (d + 1) with (S d) by lia.
      cbn [glevels flat_map app]. fold (glevels (flat_map (project_node dir (S d)) (blocks_tree dir f body) ++
                                                 flat_map (project_node dir d) (sections_tree dir f (S d) rest))).
      rewrite glevels_app. cbn [length] in Hf.
      rewrite (IHA body (S d)); [| lia | exact Fb | exact Wb].
      rewrite (IHB rest d); [reflexivity | lia | exact Gr | | ].
      + apply (wn_from_weaken q); [exact Wr|]. destruct rest as [|[] ?]; try exact I; try contradiction.
        unfold hlv. cbn [flat_map app]. exact Mr.
      + destruct rest as [|[] ?]; try exact I; try contradiction. reflexivity.
  Qed.

  (* one nesting context: the blocks handed to the sectioning, projected at depth 0 *)
  Theorem context_identity (bs : list dblock) :
    well_nested (hlv bs) = true ->
    glevels (flat_map (project_node dir 0) (blocks_tree dir (fuel_for bs) bs)) = hlv bs.
  Proof.
    intros Hwn. apply (proj1 (identity_gen (fuel_for bs))); auto.
    - unfold fuel_for. assert (length bs <= dblocks_size bs).
      { clear. induction bs as [|b l IH]; [cbn; lia|]. rewrite dblocks_size_cons. pose proof (dblock_size_pos b). cbn [length]. lia. }
      lia.
    - (* every level of a well nested sequence is positive *)
      clear - Hwn. unfold well_nested in Hwn. revert Hwn. generalize 0 at 1 as p. generalize (hlv bs) as l.
      induction l as [|n l IH]; intros p H; [constructor|]. cbn [well_nested_from] in H.
      apply Bool.andb_true_iff in H as [H H2]. apply Bool.andb_true_iff in H as [H0 _]. apply Nat.leb_le in H0.
      constructor; [lia | eapply IH; eauto].
  Qed.
End Identity.

(* the whole note: the top-level context of the written blocks *)
Theorem note_identity (key : string) (bs : list dblock) :
  well_nested (hlv bs) = true ->
  glevels (project (key_parent key) (spec_tree key bs)) = hlv bs.
Proof.
  intros H. unfold project, spec_tree, note_tree. cbn [project_node]. now apply context_identity.
Qed.

(* ---------- C01: the tree holds every block's content once, in document order -------------------- *)

Section Content.
  Variable dir : string.

  (* the content of reader blocks in document order: what each block says, as the content items
     of NormFacts (a line of inlines as it is written back - note links by key, relative to the note's
     directory again: [rel_inlines dir (to_ginlines dir l)] -, a code body, a rule; table cells one by one); the text that
     leads a list item is the item's line, an item that does not start with text has an empty
     line (and an item that is just a list is that list's items) *)
  Fixpoint bcontent (b : dblock) {struct b} : list citem :=
    let fix go (l : list dblock) : list citem := match l with [] => [] | x :: r => bcontent x ++ go r end in
    let fix goi (l : list (list dblock)) : list citem :=
      match l with
      | [] => []
      | it :: r =>
          (match it with
           | [] => []
           | (DPara _ _ | DHeader _ _ _) as h :: body => CI (rel_inlines dir (lead_inlines dir h)) :: go body
           | [(DBList _ | DOList _) as h] => bcontent h          (* merged into the enclosing list *)
           | _ => CI [] :: go it                                  (* an item without text: an empty line *)
           end) ++ goi r
      end in
    match b with
    | DHeader _ _ l => [CI (rel_inlines dir (to_ginlines dir l))]
    | DQuote _ bs => go bs
    | DOList its | DBList its => goi its
    | _ => tcontent dir (T None (leaf_node dir b) [])
    end.

  Definition bscontent (bs : list dblock) : list citem := flat_map bcontent bs.

  Definition item_content (it : list dblock) : list citem :=
    match it with
    | [] => []
    | (DPara _ _ | DHeader _ _ _) as h :: body => CI (rel_inlines dir (lead_inlines dir h)) :: bscontent body
    | [(DBList _ | DOList _) as h] => bcontent h
    | _ => CI [] :: bscontent it
    end.

  Lemma bcontent_go l :
    (fix go (l : list dblock) : list citem := match l with [] => [] | x :: r => bcontent x ++ go r end) l = bscontent l.
  Proof. unfold bscontent. induction l as [|x l IH]; cbn; [reflexivity | now rewrite IH]. Qed.

  Lemma bcontent_list its :
    bcontent (DBList its) = flat_map item_content its /\ bcontent (DOList its) = flat_map item_content its.
  Proof.
    assert (H : forall its,
      (fix goi (l : list (list dblock)) : list citem :=
         match l with
         | [] => []
         | it :: r =>
             (match it with
              | [] => []
              | (DPara _ _ | DHeader _ _ _) as h :: body =>
                  CI (rel_inlines dir (lead_inlines dir h)) ::
                  (fix go (l : list dblock) : list citem := match l with [] => [] | x :: r => bcontent x ++ go r end) body
              | [(DBList _ | DOList _) as h] => bcontent h
              | _ =>
                  CI [] ::
                  (fix go (l : list dblock) : list citem := match l with [] => [] | x :: r => bcontent x ++ go r end) it
              end) ++ goi r
         end) its = flat_map item_content its).
    { intros l0. induction l0 as [|it r IH]; [reflexivity|]. cbn [flat_map]. rewrite IH.
      destruct it as [|h body]; [reflexivity|].
      destruct h; try destruct body; cbn [item_content app]; rewrite ?bcontent_go; reflexivity. }
    split; cbn [bcontent]; apply H.
  Qed.

  Lemma bcontent_quote lr bs : bcontent (DQuote lr bs) = bscontent bs.
  Proof. cbn [bcontent]. apply bcontent_go. Qed.

  Lemma bscontent_app a b : bscontent (a ++ b) = bscontent a ++ bscontent b.
  Proof. unfold bscontent. apply flat_map_app. Qed.

  Definition tscontent (ts : list tree) : list citem := flat_map (tcontent dir) ts.

  Lemma tscontent_app a b : tscontent (a ++ b) = tscontent a ++ tscontent b.
  Proof. unfold tscontent. apply flat_map_app. Qed.

  (* one-step unfoldings (as in the Identity section) *)
  Lemma blocks_tree_S' f bs :
    blocks_tree dir (S f) bs =
    let '(pre, rest) := span_pre bs in
    flat_map (block_tree dir f) pre ++
    match rest with
    | [] => []
    | h :: _ => match header_level h with
                | Some L => sections_tree dir f L rest
                | None => []
                end
    end.
  Proof. reflexivity. Qed.
  Lemma sections_tree_S' f L bs :
    sections_tree dir (S f) L bs =
    match bs with
    | [] => []
    | h :: r =>
        let '(body, rest) := span_section L r in
        T None (NSection (lead_inlines dir h)) (blocks_tree dir f body) :: sections_tree dir f L rest
    end.
  Proof. reflexivity. Qed.
  Lemma block_tree_S' f b :
    block_tree dir (S f) b =
    match b with
    | DQuote _ bs => [T None NQuote (blocks_tree dir f bs)]
    | DBList items => [T None NBList (flat_map (item_tree dir f) items)]
    | DOList items => [T None NOList (flat_map (item_tree dir f) items)]
    | DHeader _ _ _ => []
    | _ => [T None (leaf_node dir b) []]
    end.
  Proof. reflexivity. Qed.
  Lemma item_tree_S' f it :
    item_tree dir (S f) it =
    match it with
    | [] => []
    | [DBList inner] | [DOList inner] => flat_map (item_tree dir f) inner
    | ((DPara _ _ | DHeader _ _ _) as h) :: body => [T None (NSection (lead_inlines dir h)) (blocks_tree dir f body)]
    | _ => [T None (NSection []) (blocks_tree dir f it)]
    end.
  Proof. reflexivity. Qed.

  (* content of the items of a list node: every item tree is a section node *)
  Definition items_content (ts : list tree) : list citem :=
    flat_map (fun c => match c with T _ cn ck => CI (out_inlines dir cn) :: flat_map (tcontent dir) ck end) ts.

  Lemma items_content_app a b : items_content (a ++ b) = items_content a ++ items_content b.
  Proof. unfold items_content. apply flat_map_app. Qed.

  Definition block_ok n :=
    forall f b, dblock_size b <= n -> 4 * n + 1 <= f -> is_header b = false ->
      tscontent (block_tree dir f b) = bcontent b.
  Definition item_ok n :=
    forall f it, dblocks_size it <= n -> 4 * n + 5 <= f ->
      items_content (item_tree dir f it) = item_content it.
  Definition sections_ok n :=
    forall f L bs, dblocks_size bs <= n -> 4 * n + 3 <= f -> headed bs ->
      tscontent (sections_tree dir f L bs) = bscontent bs.
  Definition blocks_ok n :=
    forall f bs, dblocks_size bs <= n -> 4 * n + 4 <= f ->
      tscontent (blocks_tree dir f bs) = bscontent bs.

  Lemma items_fold_content n f its :
    item_ok n -> (forall it, In it its -> dblocks_size it <= n) -> (its <> [] -> 4 * n + 5 <= f) ->
    items_content (flat_map (item_tree dir f) its) = flat_map item_content its.
  Proof.
    intros HI Hsz Hf. specialize (fun it Hin => HI f it (Hsz it Hin)).
    assert (Hf' : forall it, In it its -> 4 * n + 5 <= f) by (intros it Hin; apply Hf; intros ->; contradiction).
    clear Hf Hsz. induction its as [|it r IH]; [reflexivity|].
    cbn [flat_map]. rewrite items_content_app.
    rewrite (HI it (or_introl eq_refl) (Hf' it (or_introl eq_refl))). f_equal.
    apply IH; intros x Hx; [apply HI | apply (Hf' x)]; now right.
  Qed.

  Lemma step_block_c n : (forall m, m < n -> item_ok m /\ blocks_ok m) -> block_ok n.
  Proof.
    intros IH f b Hsz Hf Hnh. destruct f as [|f]; [lia|]. rewrite block_tree_S'.
    destruct b as [lr l|lr lang text|lr bs|its|its|lr lv l|lr|lr h al rows]; try discriminate;
      try (unfold tscontent; cbn [flat_map]; now rewrite app_nil_r).
    - (* quote *)
      rewrite size_quote in Hsz. destruct (IH (dblocks_size bs) ltac:(lia)) as [_ HB].
      unfold tscontent. cbn [flat_map tcontent]. rewrite app_nil_r. rewrite bcontent_quote.
      apply (HB f bs (le_n _) ltac:(lia)).
    - (* ordered list *)
      rewrite size_olist in Hsz. set (n' := items_size its - 1).
      destruct (IH n' ltac:(destruct its; cbn [items_size] in *; lia)) as [HI _].
      unfold tscontent. cbn [flat_map tcontent]. rewrite app_nil_r.
      rewrite (proj2 (bcontent_list its)).
      apply (items_fold_content n' f its HI).
      + intros it Hin. pose proof (items_size_in it its Hin). unfold n'. lia.
      + unfold n'. destruct its; [congruence | cbn [items_size] in *; lia].
    - (* bullet list *)
      rewrite size_blist in Hsz. set (n' := items_size its - 1).
      destruct (IH n' ltac:(destruct its; cbn [items_size] in *; lia)) as [HI _].
      unfold tscontent. cbn [flat_map tcontent]. rewrite app_nil_r.
      rewrite (proj1 (bcontent_list its)).
      apply (items_fold_content n' f its HI).
      + intros it Hin. pose proof (items_size_in it its Hin). unfold n'. lia.
      + unfold n'. destruct its; [congruence | cbn [items_size] in *; lia].
  Qed.

  (* an item without text: a section without text over the tree of all its blocks *)
  Lemma item_no_text n f it :
    blocks_ok n -> dblocks_size it <= n -> 4 * n + 4 <= f ->
    items_content [T None (NSection []) (blocks_tree dir f it)] = CI [] :: bscontent it.
  Proof.
    intros HB Hsz Hf. unfold items_content. cbn [flat_map node_inlines]. rewrite app_nil_r.
    f_equal. apply (HB f it Hsz Hf).
  Qed.

  Lemma step_item_c n : (forall m, m < n -> item_ok m /\ blocks_ok m) -> blocks_ok n -> item_ok n.
  Proof.
    intros IH HBn f it Hsz Hf. destruct f as [|f]; [lia|]. rewrite item_tree_S'.
    destruct it as [|h body]; [reflexivity|].
    pose proof Hsz as Hsz0. rewrite dblocks_size_cons in Hsz.
    pose proof (dblock_size_pos h) as Hpos.
    destruct h as [lr l|lr lang text|lr bs|its|its|lr lv l|lr|lr hh al rows];
      try (cbn [item_content]; apply (item_no_text n f _ HBn Hsz0); lia).
    - (* paragraph lead *)
      destruct (IH (dblocks_size body) ltac:(lia)) as [_ HB].
      unfold items_content. cbn [flat_map node_inlines item_content lead_inlines]. rewrite app_nil_r.
      f_equal. apply (HB f body (le_n _) ltac:(lia)).
    - (* ordered list lead: alone it is merged into the enclosing list *)
      destruct body as [|b1 body]; [|cbn [item_content]; apply (item_no_text n f _ HBn Hsz0); lia].
      rewrite size_olist in Hsz.
      set (n' := items_size its - 1).
      destruct (IH n' ltac:(destruct its; cbn [items_size dblocks_size fold_right] in *; lia)) as [HI _].
      cbn [item_content].
      rewrite (proj2 (bcontent_list its)).
      apply (items_fold_content n' f its HI).
      + intros it Hin. pose proof (items_size_in it its Hin). unfold n'. lia.
      + unfold n'. destruct its; [congruence | cbn [items_size dblocks_size fold_right] in *; lia].
    - (* bullet list lead *)
      destruct body as [|b1 body]; [|cbn [item_content]; apply (item_no_text n f _ HBn Hsz0); lia].
      rewrite size_blist in Hsz.
      set (n' := items_size its - 1).
      destruct (IH n' ltac:(destruct its; cbn [items_size dblocks_size fold_right] in *; lia)) as [HI _].
      cbn [item_content].
      rewrite (proj1 (bcontent_list its)).
      apply (items_fold_content n' f its HI).
      + intros it Hin. pose proof (items_size_in it its Hin). unfold n'. lia.
      + unfold n'. destruct its; [congruence | cbn [items_size dblocks_size fold_right] in *; lia].
    - (* heading lead *)
      destruct (IH (dblocks_size body) ltac:(lia)) as [_ HB].
      unfold items_content. cbn [flat_map node_inlines item_content lead_inlines]. rewrite app_nil_r.
      f_equal. apply (HB f body (le_n _) ltac:(lia)).
  Qed.

  Lemma step_sections_c n :
    (forall m, m < n -> blocks_ok m /\ sections_ok m) -> sections_ok n.
  Proof.
    intros IH f L bs Hsz Hf Hhd. destruct f as [|f]; [lia|]. rewrite sections_tree_S'.
    destruct bs as [|h r]; [reflexivity|].
    destruct (span_section L r) as [body rest] eqn:Es.
    destruct (span_section_spec L r body rest Es) as [-> Hrest].
    rewrite dblocks_size_cons, dblocks_size_app in Hsz.
    pose proof (dblock_size_pos h) as Hpos.
    cbn [headed] in Hhd. destruct h as [| | | | |lr lv l| |]; try discriminate.
    destruct (IH (dblocks_size body) ltac:(lia)) as [HB _].
    destruct (IH (dblocks_size rest) ltac:(lia)) as [_ HS].
    unfold tscontent. cbn [flat_map tcontent]. fold (tscontent (blocks_tree dir f body)).
    fold (tscontent (sections_tree dir f L rest)).
    rewrite (HB f body (le_n _) ltac:(lia)), (HS f L rest (le_n _) ltac:(lia) Hrest).
    unfold bscontent. cbn [flat_map bcontent lead_inlines]. rewrite flat_map_app. reflexivity.
  Qed.

  Lemma step_blocks_c n : block_ok n -> sections_ok n -> blocks_ok n.
  Proof.
    intros HBk HSs f bs Hsz Hf. destruct f as [|f]; [lia|]. rewrite blocks_tree_S'.
    destruct (span_pre bs) as [pre rest] eqn:Es.
    destruct (span_pre_spec bs pre rest Es) as (-> & Hpre & Hrest).
    rewrite dblocks_size_app in Hsz.
    rewrite tscontent_app, bscontent_app. f_equal.
    - (* the blocks before the first heading *)
      clear - HBk Hpre Hsz Hf. induction pre as [|b l IHl]; [reflexivity|].
      inversion Hpre; subst. rewrite dblocks_size_cons in Hsz.
      cbn [flat_map]. rewrite tscontent_app. unfold bscontent. cbn [flat_map]. f_equal.
      + apply HBk; auto; lia.
      + apply IHl; auto. lia.
    - destruct rest as [|h r]; [reflexivity|].
      cbn [headed] in Hrest. destruct h as [| | | | |lr lv l| |]; try discriminate. cbn [header_level].
      apply HSs; auto; lia.
  Qed.

  Theorem content_total n : block_ok n /\ item_ok n /\ sections_ok n /\ blocks_ok n.
  Proof.
    induction n as [n IH] using lt_wf_ind.
    assert (HBk : block_ok n) by (apply step_block_c; intros m Hm; destruct (IH m Hm) as (_ & ? & _ & ?); auto).
    assert (HSs : sections_ok n) by (apply step_sections_c; intros m Hm; destruct (IH m Hm) as (_ & _ & ? & ?); auto).
    assert (HBs : blocks_ok n) by now apply step_blocks_c.
    assert (HI : item_ok n) by (apply step_item_c; [intros m Hm; destruct (IH m Hm) as (_ & ? & _ & ?); auto | exact HBs]).
    repeat split; auto.
  Qed.
End Content.

(* the specified tree of a note says what its blocks say: nothing lost, duplicated or reordered *)
Theorem spec_conserves (key : string) (bs : list dblock) :
  tcontent (key_parent key) (spec_tree key bs) = bscontent (key_parent key) bs.
Proof.
  unfold spec_tree, note_tree. cbn [tcontent].
  destruct (content_total (key_parent key) (dblocks_size bs)) as (_ & _ & _ & HB).
  apply HB; auto. unfold fuel_for. lia.
Qed.

(* ... and so do the blocks written for it (with NormFacts.project_conserves) *)
Theorem spec_written_conserves (key : string) (bs : list dblock) :
  flat_map (gcontent) (project (key_parent key) (spec_tree key bs)) = bscontent (key_parent key) bs.
Proof. rewrite project_conserves. now apply spec_conserves. Qed.
