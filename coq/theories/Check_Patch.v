(* Check_Patch.v — patch graphs built from trees, as observed by the history stage (C20).

   After the last step of a history the harness builds patch graphs the way the server does
   (`self.database.graph().new_patch()` + `build_key_from_iter(key, TreeIter::new(&tree))`:
   server.rs:277-279 formatting, 461-481 rename, action.rs / command.rs through `context.patch()`)
   from the collected tree of every note, from every note with a block reference replaced by the
   referenced note's collected tree (`Tree::replace`: the tree "Inline list" builds) or by its
   blocks in a quote ("Inline quote"), and from hand-made trees; each patch arena is dumped slot by
   slot together with the patch's key map.

   `Graph::new_patch` (graph.rs:99-105) copies the markdown options and the metadata and takes
   `..Default::default()` for everything else: the ARENA of a patch starts EMPTY and so does its key
   map, whatever the graph it was made from.  The model's patch arena is therefore `[]`, and
   `build_key` (graph.rs:175-181) enters the key with the root id `0`.

   No proofs in this file (PatchWF.v has them). *)
From IweV Require Export Check_Lib ArenaWF TreeBuild.
From IweV Require Import TreeOps.
Local Open Scope string_scope.
Local Open Scope list_scope.

(* how the tree handed to the builder was made.  Trees made from collected trees are not printed a
   second time: they are rebuilt here from the collected trees the implementation returned in the
   last state of the history (TreeOps.replace is the transliteration of Tree::replace, tree.rs:63-69) *)
Inductive patch_src :=
| PS_tree (t : tree)                          (* a tree of the input (hand-made) *)
| PS_collected                                (* Graph::collect(key) *)
| PS_inlined (ref_id : nat) (ikey : string)   (* collect(key).replace(ref_id, &collect(ikey)): "Inline list" *)
| PS_quoted (ref_id : nat) (ikey : string).   (* collect(key).replace(ref_id, &Quote[children of collect(ikey)]): "Inline quote" *)

Definition PATCH_COLLECTED := 1.
Definition PATCH_INLINED := 2.
Definition PATCH_QUOTED := 3.
Definition PATCH_HANDMADE := 4.

Record patch_raw := PO {
  pr_key : string;
  pr_src : patch_src;
  pr_arena : res arena;               (* every slot of the patch graph; Panic: the builder panicked (message) *)
  pr_keys : list (string * nat)       (* Graph::keys() of the patch with their root ids *)
}.

Definition src_kind (s : patch_src) : nat :=
  match s with
  | PS_tree _ => PATCH_HANDMADE | PS_collected => PATCH_COLLECTED
  | PS_inlined _ _ => PATCH_INLINED | PS_quoted _ _ => PATCH_QUOTED
  end.

(* the tree, given the collected trees of the last state *)
Definition src_tree (lk : string -> option tree) (key : string) (s : patch_src) : option tree :=
  match s with
  | PS_tree t => Some t
  | PS_collected => lk key
  | PS_inlined id ikey =>
      match lk key, lk ikey with Some t, Some it => Some (replace id it t) | _, _ => None end
  | PS_quoted id ikey =>
      match lk key, lk ikey with
      | Some t, Some it => Some (replace id (T None NQuote (t_children it)) t)
      | _, _ => None
      end
  end.

(* an observation with its tree *)
Record patch_obs := POT {
  po_kind : nat;
  po_key : string;
  po_tree : tree;
  po_arena : res arena;
  po_keys : list (string * nat)
}.

(* None: the harness named a note whose collected tree is not among the observations *)
Definition resolve (lk : string -> option tree) (r : patch_raw) : option patch_obs :=
  match src_tree lk (pr_key r) (pr_src r) with
  | Some t => Some (POT (src_kind (pr_src r)) (pr_key r) t (pr_arena r) (pr_keys r))
  | None => None
  end.

Definition resolve_all (lk : string -> option tree) (l : list patch_raw) : list patch_obs :=
  flat_map (fun r => match resolve lk r with Some o => [o] | None => [] end) l.

Definition all_resolved (lk : string -> option tree) (l : list patch_raw) : bool :=
  forallb (fun r => match resolve lk r with Some _ => true | None => false end) l.

(* ---------- the model ------------------------------------------------------------------- *)

(* the arena and key map `new_patch` starts from *)
Definition patch_arena0 : arena := [].

Definition po_model (o : patch_obs) : res bst := build_key_from_iter patch_arena0 (po_key o) (po_tree o).

Definition po_model_arena (o : patch_obs) : res arena := do st <- po_model o; Ok (b_arena st).

(* the key map of the patch after build_key: the one key, rooted at the first id of the patch arena *)
Definition po_model_keys (o : patch_obs) : list (string * nat) := [(po_key o, length patch_arena0)].

Definition keymap_eqb (a b : list (string * nat)) : bool :=
  list_eqb (fun x y => String.eqb (fst x) (fst y) && Nat.eqb (snd x) (snd y)) a b.

(* stage 10: the model's patch arena = the observed one, slot by slot (kind with its lines, prev,
   next, child); both panic or neither, and where both panic the model's site ("cant set child",
   TreeBuildFacts.build_panics) is how the implementation's message starts; the key map is the
   model's *)
Definition po_corr_arena (o : patch_obs) : bool :=
  match po_model_arena o, po_arena o with
  | Ok a, Ok a' => arena_eqb a a' && keymap_eqb (po_model_keys o) (po_keys o)
  | Panic m, Panic m' => String.prefix m m'
  | _, _ => false
  end.

(* the ids of a tree in pre-order *)
Fixpoint po_pre_ids (t : tree) : list (option nat) :=
  match t with
  | T i _ ts => i :: (fix go (l : list tree) : list (option nat) :=
                        match l with [] => [] | c :: r => po_pre_ids c ++ go r end) ts
  end.

(* stage 11: the conclusion of C20_collect_build evaluated on the IMPLEMENTATION's patch arena: the
   walk `collect` makes from the new root reads the normal form of the tree back ([built_tree]: ids
   forgotten, Document nodes below the root replaced by their blocks, what follows such a node
   dropped), numbered 0, 1, 2 ... in document order, and the arena has no other slot *)
Definition po_corr_back (o : patch_obs) : bool :=
  match po_arena o with
  | Ok a =>
      let bt := built_tree (po_key o) (po_tree o) in
      match collect_raw a 0 with
      | Ok (Some t) =>
          tree_eqb_noid t bt &&
          list_eqb onat_eqb (po_pre_ids t) (map Some (seq 0 (length a))) &&
          Nat.eqb (length a) (tree_nodes bt)
      | _ => false
      end
  | Panic _ => true
  end.

Definition patch_corr (lk : string -> option tree) (raw : list patch_raw) : list N :=
  let l := resolve_all lk raw in
  flag 10 (all_resolved lk raw && forallb po_corr_arena l) ++ flag 11 (forallb po_corr_back l).

(* ---------- C20 on the implementation's patch graphs -------------------------------------- *)

(* sub-properties 4-6: the executable forest invariant, the partition of the live nodes into the
   notes' trees and the owner check (the predicates of sub-properties 1-3, ArenaWF.v) on the patch
   arena with the patch's own key map *)
Definition po_wf (o : patch_obs) : bool :=
  match po_arena o with Ok a => wf_b a (po_keys o) | Panic _ => true end.
Definition po_partition (o : patch_obs) : bool :=
  match po_arena o with Ok a => partition_ok a (po_keys o) | Panic _ => true end.
Definition po_owners (o : patch_obs) : bool :=
  match po_arena o with Ok a => owners_ok a (po_keys o) | Panic _ => true end.

(* sub-property 7: the construction returns, and its key is in the patch's key map, on every tree in
   which only containers have children (TreeBuild.buildable: exactly the class on which the builder
   returns, C20_build_returns_iff); a panic on a tree outside that class is the `set_child_id` of a
   leaf kind the caller asked for (C20_build_panics) and is not counted here *)
Definition po_returns (o : patch_obs) : bool :=
  match po_arena o with
  | Ok _ => existsb (fun kv => String.eqb (fst kv) (po_key o)) (po_keys o)
  | Panic _ => negb (buildable (po_tree o))
  end.

Definition patch_props_of (l : list patch_obs) : list N :=
  flag 4 (forallb po_wf l) ++ flag 5 (forallb po_partition l) ++ flag 6 (forallb po_owners l) ++
  flag 7 (forallb po_returns l).

(* sub-properties 4-6 speak about the observed arena alone; 7 needs the tree only where the builder
   panicked (an observation whose tree cannot be rebuilt fails stage 10) *)
Definition patch_props (lk : string -> option tree) (raw : list patch_raw) : list N :=
  patch_props_of (resolve_all lk raw) ++
  patch_props_of (flat_map (fun r => match resolve lk r, pr_arena r with
                                     | None, Ok a => [POT 0 (pr_key r) (T None (NDocument (pr_key r)) []) (Ok a) (pr_keys r)]
                                     | _, _ => []
                                     end) raw).

(* a patch whose tree has something below its root went through the builder and returned *)
Definition patch_nontrivial (l : list patch_obs) : bool :=
  existsb (fun o => is_ok (po_arena o) && Nat.ltb 1 (tree_nodes (po_tree o))) l.

(* diagnosis: per patch the failing stages / sub-properties, the model's arena, the observed one *)
Definition dbg_patch (l : list patch_obs) : list (nat * string * list N * list N * res arena * res arena) :=
  map (fun o => (po_kind o, po_key o,
                 flag 10 (po_corr_arena o) ++ flag 11 (po_corr_back o),
                 flag 4 (po_wf o) ++ flag 5 (po_partition o) ++ flag 6 (po_owners o) ++ flag 7 (po_returns o),
                 po_model_arena o, po_arena o)) l.
