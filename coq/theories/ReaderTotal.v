(* ReaderTotal.v — property C03, the reader: totality of the stack machine of
   `crates/liwe/src/markdown/reader.rs` (`read`, `start_tag`, `end_tag`, `push/pop_inline`,
   `push/pop_block`) and of `DocumentBlock::append_inline / append_block / append_item /
   append_row / append_cell` (`model/document.rs:115-219`) as modelled by `Pos.step`
   (every reachable expect / unwrap / panic! is an explicit `Panic`).

   The grammar [inG] is a pushdown recogniser over event streams that knows nothing of
   byte ranges, line tables, texts or the blocks built so far: its nesting context is the
   stack of open blocks, each abstracted to one of six frames ([fr]), the number of open
   inline tags and the metadata flag.  The invariant of the proof is
   [alpha st = the context of the grammar]: the grammar's context IS the abstraction of the
   machine's stacks ([step_sim]).  It is exact: a stream is in the grammar iff the machine
   does not panic on it, so no more permissive grammar exists.  In words, [inG] demands:
     G1  an End of a block tag needs an open block, an End of an inline tag an open inline;
     G2  Start(Item) only when the innermost open block is a list, Start(TableRow/TableCell)
         only when it is a table;
     G3  a leaf inline, or the End of an outermost inline, needs an open block in which
         `append_inline` finds a place (anything but a list without an item at the end of
         the chain "last block of the last item / of the quote"); a Text outside a metadata
         block needs an open block;
     G4  no block may close (and no rule occur) directly inside a list that has no item.

   Headlines: C03_reader_total, C03_reader_total_blocks, C03_reader_context (sec. 6),
   C03_reader_exact, C03_reader_iff, C03_reader_dead_sites (three Panic sites of the model
   are unreachable), C03_reader_refuted_* and C03_reader_refuted_shortest (sec. 7),
   [reader_grammar_ok] with C03_reader_total_head / C03_reader_exact_head for the reader of
   the current tree, which drops Text inside an HTML block (sec. 8), and the conventional
   document-shaped grammar [inG_doc] with inG_doc_sub : inG_doc ⊆ inG and
   C03_reader_total_doc (sec. 9): no panic site is reachable on a well-bracketed,
   CommonMark-shaped stream. *)
From Coq Require Import List String Bool Arith Lia.
From IweV Require Import Str Text Ast Arena Pos PosFacts.
Import ListNotations.
Local Open Scope string_scope.
Local Open Scope list_scope.

(* ====================================================================================== *)
(* 1. The grammar                                                                          *)
(* ====================================================================================== *)

(* What the grammar remembers of an open (or just closed) block.
   [FQuote a] / [FList a]: a quote / a list that has an item; [a] says whether an inline
   that arrives while this block is the innermost open one finds a place to go
   (`append_inline` walks down the LAST child of the LAST item, recursively; the only dead
   end is a list without an item).  [FList0]: a list that has no item yet. *)
Inductive fr := FLeaf | FCode | FTable | FQuote (a : bool) | FList0 | FList (a : bool).

Definition fr_aok (f : fr) : bool :=
  match f with FQuote a | FList a => a | FList0 => false | _ => true end.

Record ctx := C {
  c_inl : nat;          (* open inline tags *)
  c_blk : list fr;      (* open blocks, innermost first *)
  c_meta : bool         (* inside a metadata block *)
}.
Definition ctx0 : ctx := C 0 [] false.

Definition g_push (c : ctx) (f : fr) : ctx := C (c_inl c) (f :: c_blk c) (c_meta c).

(* the enclosing frame after child [f] has closed into it; a block cannot close directly
   inside a list that has no item *)
Definition close_into (top f : fr) : option fr :=
  match top with
  | FQuote _ => Some (FQuote (fr_aok f))
  | FList _ => Some (FList true)     (* an inline that follows opens a paragraph of its own *)
  | FList0 => None
  | _ => Some top        (* paragraph, heading, code, table: the child is dropped *)
  end.

Definition g_pop_block (c : ctx) : option ctx :=
  match c_blk c with
  | [] => None
  | f :: [] => Some (C (c_inl c) [] (c_meta c))
  | f :: top :: rest =>
      match close_into top f with
      | Some t' => Some (C (c_inl c) (t' :: rest) (c_meta c))
      | None => None
      end
  end.

(* an inline that is complete arrives at the innermost open block *)
Definition g_deliver (c : ctx) : bool :=
  match c_blk c with [] => false | f :: _ => fr_aok f end.

(* a leaf inline (text, code, math, inline html, break) *)
Definition g_leaf (c : ctx) : option ctx :=
  match c_inl c with
  | 0 => if g_deliver c then Some c else None
  | S _ => Some c
  end.

Definition g_pop_inline (c : ctx) : option ctx :=
  match c_inl c with
  | 0 => None
  | 1 => if g_deliver c then Some (C 0 (c_blk c) (c_meta c)) else None
  | S n => Some (C n (c_blk c) (c_meta c))
  end.

Definition g_top (c : ctx) (f : fr -> option fr) : option ctx :=
  match c_blk c with
  | [] => None
  | t :: rest => match f t with Some t' => Some (C (c_inl c) (t' :: rest) (c_meta c)) | None => None end
  end.

Definition g_push_inline (c : ctx) : ctx := C (S (c_inl c)) (c_blk c) (c_meta c).

Definition g_step (c : ctx) (e : ev) : option ctx :=
  match e with
  | EStart t _ _ =>
      match t with
      | TPara | THeading => Some (g_push c FLeaf)
      | TQuote => Some (g_push c (FQuote true))
      | TCodeBlock => Some (g_push c FCode)
      | TList => Some (g_push c FList0)
      | TItem => g_top c (fun f => match f with FList0 | FList _ => Some (FList true) | _ => None end)
      | TTable => Some (g_push c FTable)
      | TTableRow | TTableCell => g_top c (fun f => match f with FTable => Some FTable | _ => None end)
      | TEmph | TStrong | TStrike | TLink _ _ | TImage => Some (g_push_inline c)
      | TMeta => Some (C (c_inl c) (c_blk c) true)
      | THtmlBlock | TTableHead | TOther => Some c
      end
  | EEnd t =>
      match t with
      | TPara | THeading | TQuote | TCodeBlock | TList | TTable => g_pop_block c
      | TEmph | TStrong | TStrike | TLink _ _ | TImage => g_pop_inline c
      | TMeta => Some (C (c_inl c) (c_blk c) false)
      | _ => Some c
      end
  | EText _ _ _ =>
      if c_meta c then Some c
      else match c_blk c with
           | [] => None
           | FCode :: _ => Some c
           | _ => g_leaf c
           end
  | ECode _ _ _ | EMath _ _ | EInlineHtml _ _ _ => g_leaf c
  | EBreak _ _ => if c_meta c then Some c else g_leaf c
  | ERule _ _ => g_pop_block (g_push c FLeaf)
  | ESkip => Some c
  end.

Fixpoint g_run (c : ctx) (evs : list ev) : option ctx :=
  match evs with
  | [] => Some c
  | e :: r => match g_step c e with Some c' => g_run c' r | None => None end
  end.

Definition inG (evs : list ev) : bool :=
  match g_run ctx0 evs with Some _ => true | None => false end.

(* ====================================================================================== *)
(* 2. The abstraction of the machine's state                                               *)
(* ====================================================================================== *)

Fixpoint abs_blk (b : pblock) : fr :=
  let fix last_aok (l : list pblock) : bool :=
    match l with
    | [] => true
    | x :: [] => fr_aok (abs_blk x)
    | _ :: r => last_aok r
    end in
  let fix items_fr (l : list (list pblock)) : fr :=
    match l with
    | [] => FList0
    | it :: [] => FList true
    | _ :: r => items_fr r
    end in
  match b with
  | BPara _ _ | BHeader _ _ | BRule _ => FLeaf
  | BCode _ => FCode
  | BTable _ _ _ => FTable
  | BQuote _ bs => FQuote (last_aok bs)
  | BList items => items_fr items
  end.

(* the same, as top-level functions *)
Fixpoint last_aok (l : list pblock) : bool :=
  match l with
  | [] => true
  | x :: [] => fr_aok (abs_blk x)
  | _ :: r => last_aok r
  end.
Fixpoint items_fr (l : list (list pblock)) : fr :=
  match l with
  | [] => FList0
  | it :: [] => FList true
  | _ :: r => items_fr r
  end.

Definition alpha (st : rst) : ctx :=
  C (length (r_inl st)) (map abs_blk (r_blk st)) (r_meta st).

Definition is_node (i : pinl) : bool := match i with PNode _ _ _ => true | _ => false end.
(* only Emph / Strong / Strikeout / Link / Image stay on the inline stack *)
Definition Inv (st : rst) : Prop := Forall (fun p => is_node (fst p) = true) (r_inl st).

(* ====================================================================================== *)
(* 3. One-step equations for the nested fixpoints                                          *)
(* ====================================================================================== *)

Lemma abs_blk_quote r bs : abs_blk (BQuote r bs) = FQuote (last_aok bs).
Proof. reflexivity. Qed.

Lemma abs_blk_list items : abs_blk (BList items) = items_fr items.
Proof. reflexivity. Qed.

Lemma last_aok_snoc bs b : last_aok (bs ++ [b]) = fr_aok (abs_blk b).
Proof.
  induction bs as [|x t IH]; [reflexivity|].
  cbn [app]. destruct t as [|y t]; [reflexivity|]. exact IH.
Qed.

Lemma items_fr_snoc items it : items_fr (items ++ [it]) = FList true.
Proof.
  induction items as [|x t IH]; [reflexivity|].
  cbn [app]. destruct t as [|y t]; [reflexivity|]. exact IH.
Qed.

Lemma items_fr_nil items : items_fr items = FList0 -> items = [].
Proof.
  induction items as [|x t IH]; [reflexivity|].
  destruct t as [|y t]; [discriminate|]. intros H. specialize (IH H). discriminate.
Qed.

Lemma items_fr_shape items : items_fr items = FList0 \/ exists a, items_fr items = FList a.
Proof.
  induction items as [|x t IH]; [now left|].
  destruct t as [|y t]; [right; eexists; reflexivity|exact IH].
Qed.

(* the two inner loops of `append_inline` ([app_last], [app_item]) and the one-step equations
   [append_inline_quote] / [append_inline_list] are in PosFacts.v (section 8) *)

(* ====================================================================================== *)
(* 4. append_inline / append_block against the abstraction                                 *)
(* ====================================================================================== *)

Definition no_item : string := "append_inline: no item".

(* [f] behaves on [b] as the frame of [b] says, and keeps the frame *)
Definition follows (f : pblock -> res pblock) (b : pblock) : Prop :=
  (fr_aok (abs_blk b) = true -> exists b', f b = Ok b' /\ abs_blk b' = abs_blk b) /\
  (fr_aok (abs_blk b) = false -> f b = Panic no_item).

Lemma app_last_nonnil f l l' : app_last f l = Ok l' -> l' <> [].
Proof.
  destruct l as [|a [|b l]].
  - discriminate.
  - cbn [app_last]. destruct (f a); cbn [bind]; intros E; inversion E; discriminate.
  - change (app_last f (a :: b :: l)) with (do r' <- app_last f (b :: l); Ok (a :: r')).
    destruct (app_last f (b :: l)); cbn [bind]; intros E; inversion E; discriminate.
Qed.

Lemma app_last_abs f l :
  l <> [] -> Forall (follows f) l ->
  (last_aok l = true -> exists l', app_last f l = Ok l' /\ last_aok l' = true) /\
  (last_aok l = false -> app_last f l = Panic no_item).
Proof.
  intros Hne HF. induction HF as [|x t Hx Ht IH]; [congruence|].
  destruct t as [|y t].
  - cbn [last_aok app_last]. destruct Hx as [Ht1 Hf1]. split; intros Ha.
    + destruct (Ht1 Ha) as [b' [E1 E2]]. rewrite E1. cbn [bind].
      exists [b']. split; [reflexivity|]. cbn [last_aok]. now rewrite E2.
    + now rewrite (Hf1 Ha).
  - assert (Hne' : y :: t <> []) by discriminate.
    destruct (IH Hne') as [IHt IHf].
    change (last_aok (x :: y :: t)) with (last_aok (y :: t)).
    change (app_last f (x :: y :: t)) with (do r' <- app_last f (y :: t); Ok (x :: r')).
    split; intros Ha.
    + destruct (IHt Ha) as [l' [E1 E2]]. rewrite E1. cbn [bind].
      exists (x :: l'). split; [reflexivity|].
      destruct l' as [|z l']; [|exact E2].
      exfalso. exact (app_last_nonnil _ _ _ E1 eq_refl).
    + now rewrite (IHf Ha).
Qed.

Lemma app_tail_ok f i lr l :
  Forall (follows f) l -> exists l', app_tail f i lr l = Ok l'.
Proof.
  intros HF. induction HF as [|x t Hx Ht IH]; [eexists; reflexivity|].
  destruct t as [|y t].
  - cbn [app_tail]. destruct x; try (eexists; reflexivity).
    destruct Hx as [Ht1 _]. destruct (Ht1 eq_refl) as [b' [E1 _]]. rewrite E1. eexists; reflexivity.
  - change (app_tail f i lr (x :: y :: t)) with (do r' <- app_tail f i lr (y :: t); Ok (x :: r')).
    destruct IH as [l' E]. rewrite E. eexists; reflexivity.
Qed.

Lemma app_item_abs f i lr items :
  Forall (Forall (follows f)) items ->
  (fr_aok (items_fr items) = true ->
     exists items', app_item f i lr items = Ok items' /\ items_fr items' = items_fr items) /\
  (fr_aok (items_fr items) = false -> app_item f i lr items = Panic no_item).
Proof.
  intros HF. induction HF as [|it t Hit Ht IH].
  - split; [discriminate|reflexivity].
  - destruct t as [|it' t].
    + cbn [items_fr fr_aok app_item]. split; [|discriminate]. intros _.
      destruct (app_tail_ok f i lr it Hit) as [l' E]. rewrite E. cbn [bind].
      eexists. split; reflexivity.
    + change (items_fr (it :: it' :: t)) with (items_fr (it' :: t)).
      change (app_item f i lr (it :: it' :: t))
        with (do r' <- app_item f i lr (it' :: t); Ok (it :: r')).
      destruct IH as [IHt IHf]. split; intros Ha.
      * destruct (IHt Ha) as [l' [E1 E2]]. rewrite E1. cbn [bind].
        exists (it :: l'). split; [reflexivity|].
        destruct l' as [|z l']; [|exact E2]. symmetry in E2. apply items_fr_nil in E2. discriminate.
      * now rewrite (IHf Ha).
Qed.

(* `append_inline` succeeds exactly when the frame of the block says so, the only panic it
   can raise is the list without an item, and it never changes the frame *)
Lemma append_inline_abs M i lr : forall b, follows (fun x => append_inline M x i lr) b.
Proof.
  induction b as [r l|r l|r|r|r h rows|r bs IH|items IH] using pblock_ind';
    try (split; [intros _; eexists; split; reflexivity|discriminate]).
  - (* quote *)
    unfold follows. rewrite append_inline_quote, abs_blk_quote. cbn [fr_aok].
    destruct bs as [|x t].
    + split; [|discriminate]. intros _. eexists. split; reflexivity.
    + assert (Hne : x :: t <> []) by discriminate.
      destruct (app_last_abs _ (x :: t) Hne IH) as [At Af]. split; intros Ha.
      * destruct (At Ha) as [l' [E1 E2]]. rewrite E1. cbn [bind].
        eexists. split; [reflexivity|]. rewrite abs_blk_quote. now rewrite E2, Ha.
      * now rewrite (Af Ha).
  - (* list *)
    unfold follows. rewrite append_inline_list, abs_blk_list.
    destruct (app_item_abs _ i lr items IH) as [At Af]. split; intros Ha.
    + destruct (At Ha) as [l' [E1 E2]]. rewrite E1. cbn [bind].
      eexists. split; [reflexivity|]. now rewrite abs_blk_list.
    + now rewrite (Af Ha).
Qed.

Lemma push_last_item_abs items b :
  match items_fr items with
  | FList0 => push_last_item items b = Panic "append_block: unwrap on None"
  | _ => exists items', push_last_item items b = Ok items' /\
                        items_fr items' = FList true
  end.
Proof.
  induction items as [|it t IH]; [reflexivity|].
  destruct t as [|it' t].
  - cbn [items_fr push_last_item]. eexists. split; reflexivity.
  - change (items_fr (it :: it' :: t)) with (items_fr (it' :: t)).
    change (push_last_item (it :: it' :: t) b)
      with (do r' <- push_last_item (it' :: t) b; Ok (it :: r')).
    destruct (items_fr (it' :: t)) eqn:E;
      try (apply items_fr_nil in E; discriminate);
      destruct IH as [l' [E1 E2]]; rewrite E1; cbn [bind];
      (exists (it :: l'); split; [reflexivity|]);
      (destruct l' as [|z l']; [discriminate|exact E2]).
Qed.

(* the frame of an open block after a child has closed into it (reader.rs:171-182) *)
Lemma close_abs top b :
  match close_into (abs_blk top) (abs_blk b) with
  | Some f' =>
      if is_container top
      then exists top', append_block top b = Ok top' /\ abs_blk top' = f'
      else abs_blk top = f'
  | None => is_container top = true /\ append_block top b = Panic "append_block: unwrap on None"
  end.
Proof.
  destruct top as [r l|r l|r|r bs|items|r|r h rows]; try reflexivity.
  - (* quote *)
    rewrite abs_blk_quote. cbn [close_into is_container append_block].
    eexists. split; [reflexivity|]. now rewrite abs_blk_quote, last_aok_snoc.
  - (* list *)
    rewrite abs_blk_list. cbn [is_container append_block].
    pose proof (push_last_item_abs items b) as H.
    destruct (items_fr_shape items) as [E|[a E]]; rewrite E in *; cbn [close_into].
    + split; [reflexivity|]. now rewrite H.
    + destruct H as [l' [E1 E2]]. rewrite E1. cbn [bind]. eexists. split; [reflexivity|].
      rewrite abs_blk_list. exact E2.
Qed.

(* ====================================================================================== *)
(* 5. The machine against the grammar, one event                                           *)
(* ====================================================================================== *)

(* the panic sites that some stream reaches (section 7 has a shortest witness for each) *)
Definition live_sites : list string :=
  [ "pop_inline: unwrap on None"; "to have element"; "append_inline: no item";
    "pop_block: unwrap on None"; "append_block: unwrap on None"; "append_item";
    "cannot append row to non table block"; "cannot append cell to non table block" ].
(* the sites of the model that no stream reaches (C03_reader_dead_sites) *)
Definition dead_sites : list string :=
  [ "cannot append inline"; "append_inline: unwrap on None"; "append_block" ].

Ltac live := cbn [live_sites In]; tauto.

(* what "the grammar accepts the event" means for the machine *)
Definition sim (M : mode) (r : res rst) (o : option ctx) : Prop :=
  match o with
  | Some c' => exists st', r = Ok st' /\ alpha st' = c' /\ Inv st'
  | None => exists s, r = Panic s /\ In s live_sites
  end.

Lemma pop_block_sim M st : Inv st -> sim M (pop_block st) (g_pop_block (alpha st)).
Proof.
  destruct st as [inl blk out meta]. intros HI.
  destruct blk as [|b [|top rest]].
  - eexists. split; [reflexivity|live].
  - eexists. split; [reflexivity|]. split; [reflexivity|exact HI].
  - unfold pop_block, g_pop_block, alpha. cbn [r_blk r_inl r_out r_meta map c_blk c_inl c_meta].
    pose proof (close_abs top b) as H.
    destruct (close_into (abs_blk top) (abs_blk b)) as [f'|].
    + destruct (is_container top).
      * destruct H as [top' [E1 E2]]. rewrite E1. cbn [bind].
        eexists. split; [reflexivity|]. split; [|exact HI].
        unfold alpha. cbn [r_blk r_inl r_meta map]. now rewrite E2.
      * eexists. split; [reflexivity|]. split; [|exact HI].
        unfold alpha. cbn [r_blk r_inl r_meta map]. now rewrite H.
    + destruct H as [H1 H2]. rewrite H1, H2. cbn [bind]. eexists. split; [reflexivity|live].
Qed.

(* a complete inline arrives at the innermost open block (reader.rs:163-166) *)
Lemma deliver_sim M blk out meta i lr :
  sim M (match blk with
         | [] => Panic "to have element"
         | b :: rest => do b' <- append_inline M b i lr; Ok (R [] (b' :: rest) out meta)
         end)
        (if g_deliver (C 0 (map abs_blk blk) meta) then Some (C 0 (map abs_blk blk) meta) else None).
Proof.
  destruct blk as [|b rest]; cbn [g_deliver c_blk map].
  - eexists. split; [reflexivity|live].
  - destruct (append_inline_abs M i lr b) as [Ht Hf].
    destruct (fr_aok (abs_blk b)) eqn:E.
    + destruct (Ht eq_refl) as [b' [E1 E2]]. rewrite E1. cbn [bind].
      eexists. split; [reflexivity|]. split; [|constructor].
      unfold alpha. cbn [r_blk r_inl r_meta map length]. now rewrite E2.
    + rewrite (Hf eq_refl). cbn [bind]. eexists. split; [reflexivity|]. unfold no_item. live.
Qed.

Lemma pop_inline_sim M st : Inv st -> sim M (pop_inline M st) (g_pop_inline (alpha st)).
Proof.
  destruct st as [inl blk out meta]. intros HI.
  destruct inl as [|[i lr] [|[parent plr] rest]].
  - eexists. split; [reflexivity|live].
  - exact (deliver_sim M blk out meta i lr).
  - unfold Inv in HI. cbn [r_inl] in HI.
    inversion HI as [|? ? _ HI']; subst. inversion HI' as [|? ? Hp HI'']; subst.
    cbn [fst] in Hp. destruct parent as [n|r n|k r kids]; try discriminate.
    eexists. split; [reflexivity|]. split; [reflexivity|].
    unfold Inv. cbn [r_inl]. constructor; [reflexivity|exact HI''].
Qed.

Lemma leaf_sim M st i s e : Inv st -> sim M (leaf_inline M st i s e) (g_leaf (alpha st)).
Proof.
  destruct st as [inl blk out meta]. intros HI.
  destruct inl as [|[parent plr] rest].
  - pose proof (deliver_sim M blk out meta i (m_lines M s e)) as H.
    unfold g_leaf, alpha. cbn [r_inl r_blk r_meta length c_inl].
    unfold leaf_inline, push_inline, pop_inline. cbn [r_inl r_blk r_out r_meta].
    exact H.
  - unfold Inv in HI. cbn [r_inl] in HI. inversion HI as [|? ? Hp HI']; subst.
    cbn [fst] in Hp. destruct parent as [n|r n|k r kids]; try discriminate.
    eexists. split; [reflexivity|]. split; [reflexivity|].
    unfold Inv. cbn [r_inl]. constructor; [reflexivity|exact HI'].
Qed.

Lemma push_block_sim M st b f : Inv st -> abs_blk b = f ->
  sim M (Ok (push_block st b)) (Some (g_push (alpha st) f)).
Proof.
  intros HI E. eexists. split; [reflexivity|]. split; [|exact HI].
  unfold alpha, g_push, push_block. cbn [r_inl r_blk r_meta map c_inl c_blk c_meta]. now rewrite E.
Qed.

Lemma push_inline_sim M st k r lr : Inv st ->
  sim M (Ok (push_inline st (PNode k r []) lr)) (Some (g_push_inline (alpha st))).
Proof.
  intros HI. eexists. split; [reflexivity|]. split; [reflexivity|].
  unfold Inv, push_inline. cbn [r_inl]. constructor; [reflexivity|exact HI].
Qed.

Lemma same_sim M st : Inv st -> sim M (Ok st) (Some (alpha st)).
Proof. intros HI. eexists. split; [reflexivity|]. split; [reflexivity|exact HI]. Qed.

Lemma meta_sim M st m : Inv st ->
  sim M (Ok (R (r_inl st) (r_blk st) (r_out st) m))
        (Some (C (c_inl (alpha st)) (c_blk (alpha st)) m)).
Proof. intros HI. eexists. split; [reflexivity|]. split; [reflexivity|exact HI]. Qed.

Theorem step_sim M st e : Inv st -> sim M (step M st e) (g_step (alpha st) e).
Proof.
  intros HI. destruct e as [t s e'|t|len s e'|len s e'|s e'|len s e'|s e'|s e'|].
  - (* Start *)
    destruct t; cbn [step g_step];
      try (apply push_block_sim; [exact HI|reflexivity]);
      try (apply push_inline_sim; exact HI);
      try (apply same_sim; exact HI);
      try (apply meta_sim; exact HI).
    + (* item *)
      destruct st as [inl [|b rest] out meta]; [eexists; split; [reflexivity|live]|].
      unfold with_top, g_top, alpha. cbn [r_blk r_inl r_out r_meta map c_blk c_inl c_meta].
      destruct b as [r l|r l|r|r bs|items|r|r h rows];
        try (eexists; split; [reflexivity|live]).
      * rewrite abs_blk_list. cbn [bind].
        assert (E : match items_fr items with FList0 | FList _ => Some (FList true) | _ => None end
                    = Some (FList true)).
        { destruct (items_fr_shape items) as [E|[a E]]; now rewrite E. }
        rewrite E. eexists. split; [reflexivity|]. split; [|exact HI].
        unfold alpha. cbn [r_blk r_inl r_meta map]. now rewrite abs_blk_list, items_fr_snoc.
    + (* row *)
      destruct st as [inl [|b rest] out meta]; [eexists; split; [reflexivity|live]|].
      unfold with_top, g_top, alpha. cbn [r_blk r_inl r_out r_meta map c_blk c_inl c_meta].
      destruct b as [r l|r l|r|r bs|items|r|r h rows];
        first [ solve [eexists; split; [reflexivity|live]]
              | solve [eexists; split; [reflexivity|]; split; [reflexivity|exact HI]]
              | rewrite abs_blk_list; destruct (items_fr_shape items) as [E|[a E]]; rewrite E;
                (eexists; split; [reflexivity|live]) ].
    + (* cell *)
      destruct st as [inl [|b rest] out meta]; [eexists; split; [reflexivity|live]|].
      unfold with_top, g_top, alpha. cbn [r_blk r_inl r_out r_meta map c_blk c_inl c_meta].
      destruct b as [r l|r l|r|r bs|items|r|r h rows];
        first [ solve [eexists; split; [reflexivity|live]]
              | solve [eexists; split; [reflexivity|]; split; [reflexivity|exact HI]]
              | rewrite abs_blk_list; destruct (items_fr_shape items) as [E|[a E]]; rewrite E;
                (eexists; split; [reflexivity|live]) ].
  - (* End *)
    destruct t; cbn [step g_step];
      try (apply pop_block_sim; exact HI);
      try (apply pop_inline_sim; exact HI);
      try (apply same_sim; exact HI);
      try (apply meta_sim; exact HI).
  - (* Text *)
    cbn [step g_step]. change (c_meta (alpha st)) with (r_meta st).
    destruct (r_meta st) eqn:Em; [apply same_sim; exact HI|].
    pose proof (leaf_sim M st (PStr len) s e' HI) as HL.
    destruct st as [inl [|b rest] out meta]; [eexists; split; [reflexivity|live]|].
    cbn [r_blk alpha map c_blk] in *.
    destruct b as [r l|r l|r|r bs|items|r|r h rows]; try exact HL.
    + apply (same_sim M (R inl (BCode r :: rest) out meta)); exact HI.
    + rewrite abs_blk_list.
      destruct (items_fr_shape items) as [E|[a E]]; rewrite E; exact HL.
  - apply leaf_sim; exact HI.
  - apply leaf_sim; exact HI.
  - apply leaf_sim; exact HI.
  - cbn [step g_step]. change (c_meta (alpha st)) with (r_meta st).
    destruct (r_meta st); [apply same_sim; exact HI|apply leaf_sim; exact HI].
  - (* Rule *)
    cbn [step g_step].
    change (g_push (alpha st) FLeaf) with (alpha (push_block st (BRule (m_lines M s e')))).
    apply pop_block_sim. exact HI.
  - apply same_sim; exact HI.
Qed.

(* ====================================================================================== *)
(* 6. Whole streams: the headline theorems                                                 *)
(* ====================================================================================== *)

Lemma run_sim M : forall evs st, Inv st -> sim M (run_events M st evs) (g_run (alpha st) evs).
Proof.
  induction evs as [|e r IH]; intros st HI.
  - apply same_sim. exact HI.
  - cbn [run_events g_run]. pose proof (step_sim M st e HI) as H.
    destruct (g_step (alpha st) e) as [c'|].
    + destruct H as [st' [E1 [E2 HI']]]. rewrite E1. cbn [bind]. subst c'. apply IH. exact HI'.
    + destruct H as [s [E1 Hs]]. rewrite E1. cbn [bind]. exists s. split; [reflexivity|exact Hs].
Qed.

Lemma Inv0 : Inv rst0.
Proof. constructor. Qed.

(* No panic site of the reader is reachable on a stream of the grammar, whatever the text,
   its line table and the byte ranges of the events are (they only enter through [M]); the
   final stacks of the machine are the final context of the grammar. *)
Theorem C03_reader_total :
  forall (M : mode) (evs : list ev),
    inG evs = true -> exists st, run_events M rst0 evs = Ok st.
Proof.
  intros M evs H. unfold inG in H. pose proof (run_sim M evs rst0 Inv0) as S.
  change (alpha rst0) with ctx0 in S.
  destruct (g_run ctx0 evs) as [c'|]; [|discriminate].
  destruct S as [st [E _]]. exists st. exact E.
Qed.
Print Assumptions C03_reader_total.

Theorem C03_reader_total_blocks :
  forall (M : mode) (evs : list ev),
    inG evs = true -> exists bs, read_events M evs = Ok bs.
Proof.
  intros M evs H. destruct (C03_reader_total M evs H) as [st E].
  unfold read_events. rewrite E. cbn [bind]. eexists. reflexivity.
Qed.
Print Assumptions C03_reader_total_blocks.

Theorem C03_reader_context :
  forall (M : mode) (evs : list ev) (c : ctx),
    g_run ctx0 evs = Some c ->
    exists st, run_events M rst0 evs = Ok st /\ alpha st = c /\ Inv st.
Proof.
  intros M evs c H. pose proof (run_sim M evs rst0 Inv0) as S.
  change (alpha rst0) with ctx0 in S. rewrite H in S. exact S.
Qed.
Print Assumptions C03_reader_context.

(* The grammar is exact: outside it the machine panics, in every mode.  Hence no grammar
   that guarantees totality is more permissive than [inG]. *)
Theorem C03_reader_exact :
  forall (M : mode) (evs : list ev),
    inG evs = false -> exists s, run_events M rst0 evs = Panic s /\ In s live_sites.
Proof.
  intros M evs H. unfold inG in H. pose proof (run_sim M evs rst0 Inv0) as S.
  change (alpha rst0) with ctx0 in S.
  destruct (g_run ctx0 evs) as [c'|]; [discriminate|exact S].
Qed.
Print Assumptions C03_reader_exact.

Corollary C03_reader_iff :
  forall (M : mode) (evs : list ev),
    inG evs = true <-> exists st, run_events M rst0 evs = Ok st.
Proof.
  intros M evs. split; [apply C03_reader_total|].
  intros [st E]. destruct (inG evs) eqn:G; [reflexivity|].
  destruct (C03_reader_exact M evs G) as [s [E' _]]. congruence.
Qed.
Print Assumptions C03_reader_iff.

(* Three panic sites of the model are dead code: `apppen` on a Str / Code / Math parent
   (only Emph, Strong, Strikeout, Link, Image stay on the inline stack), the `unwrap` of
   `last_mut` after the emptiness test in `append_inline`, and the `panic!()` of
   `append_block` (guarded by `is_container`). *)
Theorem C03_reader_dead_sites :
  forall (M : mode) (evs : list ev) (s : string),
    run_events M rst0 evs = Panic s -> In s live_sites /\ ~ In s dead_sites.
Proof.
  intros M evs s E.
  assert (L : In s live_sites).
  { destruct (inG evs) eqn:G.
    - destruct (C03_reader_total M evs G) as [st E']. congruence.
    - destruct (C03_reader_exact M evs G) as [s' [E' Hs]]. congruence. }
  split; [exact L|]. intros D.
  cbn [live_sites dead_sites In] in L, D.
  repeat (destruct L as [L|L]; [subst s; repeat (destruct D as [D|D]; [discriminate|]); exact D|]).
  exact L.
Qed.
Print Assumptions C03_reader_dead_sites.

(* ====================================================================================== *)
(* 7. Why each rule of the grammar is there: shortest streams reaching each live site      *)
(* ====================================================================================== *)

Definition refutes (evs : list ev) (site : string) : Prop :=
  inG evs = false /\ forall M, run_events M rst0 evs = Panic site.

(* G1: an End needs something open *)
Theorem C03_reader_refuted_pop_inline : refutes [EEnd TEmph] "pop_inline: unwrap on None".
Proof. split; [reflexivity|intros M; reflexivity]. Qed.
Theorem C03_reader_refuted_pop_block : refutes [EEnd TPara] "pop_block: unwrap on None".
Proof. split; [reflexivity|intros M; reflexivity]. Qed.
(* G3: an inline needs an open block (`top_block()`, three call sites: reader.rs:73, 164, 222) *)
Theorem C03_reader_refuted_top_text : refutes [EText 1 0 1] "to have element".
Proof. split; [reflexivity|intros M; reflexivity]. Qed.
Theorem C03_reader_refuted_top_inline : refutes [ECode 1 0 1] "to have element".
Proof. split; [reflexivity|intros M; reflexivity]. Qed.
Theorem C03_reader_refuted_top_item : refutes [EStart TItem 0 1] "to have element".
Proof. split; [reflexivity|intros M; reflexivity]. Qed.
(* G2: items only directly in a list, rows and cells only directly in a table *)
Theorem C03_reader_refuted_item : refutes [EStart TPara 0 1; EStart TItem 0 1] "append_item".
Proof. split; [reflexivity|intros M; reflexivity]. Qed.
Theorem C03_reader_refuted_row :
  refutes [EStart TPara 0 1; EStart TTableRow 0 1] "cannot append row to non table block".
Proof. split; [reflexivity|intros M; reflexivity]. Qed.
Theorem C03_reader_refuted_cell :
  refutes [EStart TPara 0 1; EStart TTableCell 0 1] "cannot append cell to non table block".
Proof. split; [reflexivity|intros M; reflexivity]. Qed.
(* G3/G4: nothing but an item may come directly inside a list that has no item *)
Theorem C03_reader_refuted_no_item : refutes [EStart TList 0 1; EText 1 0 1] "append_inline: no item".
Proof. split; [reflexivity|intros M; reflexivity]. Qed.
Theorem C03_reader_refuted_no_item_block : refutes [EStart TList 0 1; ERule 0 1] "append_block: unwrap on None".
Proof. split; [reflexivity|intros M; reflexivity]. Qed.
(* the dead end can be arbitrarily deep: the frame of a closed block is remembered *)
Theorem C03_reader_refuted_no_item_deep :
  refutes [EStart TQuote 0 9; EStart TList 2 2; EEnd TList; EText 1 4 5] "append_inline: no item".
Proof. split; [reflexivity|intros M; reflexivity]. Qed.

(* the witnesses are shortest: the empty stream is accepted, and one event from the initial
   state reaches the three stack-underflow sites only *)
Theorem C03_reader_refuted_shortest :
  forall M e s, step M rst0 e = Panic s ->
    In s ["pop_inline: unwrap on None"; "pop_block: unwrap on None"; "to have element"].
Proof.
  intros M e s. destruct e as [t ? ?|t|? ? ?|? ? ?|? ?|? ? ?|? ?|? ?|]; try destruct t;
    cbn; intros E; inversion E; tauto.
Qed.

(* every live site has a witness above *)
Example live_sites_witnessed :
  forall s, In s live_sites -> exists evs, length evs <= 2 /\ refutes evs s.
Proof.
  intros s H. cbn [live_sites In] in H.
  repeat (destruct H as [H|H]; [subst s; eexists; split;
    [|first [ apply C03_reader_refuted_pop_inline | apply C03_reader_refuted_top_text
            | apply C03_reader_refuted_no_item | apply C03_reader_refuted_pop_block
            | apply C03_reader_refuted_no_item_block | apply C03_reader_refuted_item
            | apply C03_reader_refuted_row | apply C03_reader_refuted_cell ]]; cbn; lia|]).
  destruct H.
Qed.

(* ====================================================================================== *)
(* 8. The reader of the current tree: text inside an HTML block is dropped                 *)
(* ====================================================================================== *)

(* reader.rs:19,70-71,213,331 (the repair "text event inside an HTML block panics the
   reader"): a flag set by Start(HtmlBlock), cleared by End(HtmlBlock); a Text event that
   arrives while it is set is ignored.  `Pos.step` does not have the flag (it models the
   machine as far as positions are concerned and predates the repair); the machine with
   the flag is [step_h] below, and it is `Pos.step` on the stream in which those Text events
   are replaced by [ESkip]. *)
Definition step_h (M : mode) (hs : bool * rst) (e : ev) : res (bool * rst) :=
  let (h, st) := hs in
  match e with
  | EStart THtmlBlock _ _ => Ok (true, st)
  | EEnd THtmlBlock => Ok (false, st)
  | EText _ _ _ => if h then Ok (h, st) else do st' <- step M st e; Ok (h, st')
  | _ => do st' <- step M st e; Ok (h, st')
  end.

Fixpoint run_h (M : mode) (hs : bool * rst) (evs : list ev) : res (bool * rst) :=
  match evs with
  | [] => Ok hs
  | e :: r => do hs' <- step_h M hs e; run_h M hs' r
  end.

Fixpoint strip_html (h : bool) (evs : list ev) : list ev :=
  match evs with
  | [] => []
  | e :: r =>
      match e with
      | EStart THtmlBlock _ _ => e :: strip_html true r
      | EEnd THtmlBlock => e :: strip_html false r
      | EText _ _ _ => (if h then ESkip else e) :: strip_html h r
      | _ => e :: strip_html h r
      end
  end.

Lemma run_h_strip M : forall evs h st,
  match run_events M st (strip_html h evs) with
  | Ok st' => exists h', run_h M (h, st) evs = Ok (h', st')
  | Panic s => run_h M (h, st) evs = Panic s
  end.
Proof.
  induction evs as [|e r IH]; intros h st.
  - eexists. reflexivity.
  - assert (G : forall h', strip_html h (e :: r) = e :: strip_html h' r ->
                 step_h M (h, st) e = (do st' <- step M st e; Ok (h', st')) ->
                 match run_events M st (strip_html h (e :: r)) with
                 | Ok st' => exists h'', run_h M (h, st) (e :: r) = Ok (h'', st')
                 | Panic s => run_h M (h, st) (e :: r) = Panic s
                 end).
    { intros h' E1 E2. rewrite E1. cbn [run_events run_h]. rewrite E2.
      destruct (step M st e) as [st'|s]; cbn [bind]; [apply IH|reflexivity]. }
    destruct e as [t s e'|t|len s e'|len s e'|s e'|len s e'|s e'|s e'|];
      try (apply (G h); reflexivity).
    + destruct t; try (apply (G h); reflexivity). apply (G true); reflexivity.
    + destruct t; try (apply (G h); reflexivity). apply (G false); reflexivity.
    + destruct h; [|apply (G false); reflexivity].
      cbn [strip_html run_events run_h step_h step bind]. apply IH.
Qed.

(* the form the harness side calls on a stream pulldown produced *)
Definition reader_grammar_ok (evs : list ev) : bool := inG (strip_html false evs).

(* the reader of the current tree does not panic on a stream whose HTML-stripped form is in
   the grammar, and panics on every other stream *)
Theorem C03_reader_total_head :
  forall (M : mode) (evs : list ev),
    reader_grammar_ok evs = true -> exists hs, run_h M (false, rst0) evs = Ok hs.
Proof.
  intros M evs H. destruct (C03_reader_total M _ H) as [st E].
  pose proof (run_h_strip M evs false rst0) as S. rewrite E in S.
  destruct S as [h' S]. eexists. exact S.
Qed.
Print Assumptions C03_reader_total_head.

Theorem C03_reader_exact_head :
  forall (M : mode) (evs : list ev),
    reader_grammar_ok evs = false ->
    exists s, run_h M (false, rst0) evs = Panic s /\ In s live_sites.
Proof.
  intros M evs H. destruct (C03_reader_exact M _ H) as [s [E Hs]].
  pose proof (run_h_strip M evs false rst0) as S. rewrite E in S.
  exists s. split; assumption.
Qed.
Print Assumptions C03_reader_exact_head.

(* what the repair repaired: a Text event inside a top-level HTML block; the stream is
   outside [inG] (the machine without the flag panics) and inside [reader_grammar_ok] *)
Example html_text_stream :
  let evs := [EStart THtmlBlock 0 12; ESkip; EText 1 6 7; EEnd THtmlBlock] in
  inG evs = false /\ reader_grammar_ok evs = true.
Proof. split; reflexivity. Qed.

(* ====================================================================================== *)
(* 9. The document-shaped grammar (what a CommonMark parser emits) is inside [inG]         *)
(* ====================================================================================== *)

(* [inG] accepts everything the machine survives, e.g. an End that does not match its Start
   or a paragraph inside a paragraph.  The conventional grammar of event streams — well
   bracketed Start/End, inlines only inside a paragraph, a heading, a table cell, an inline
   or (tight lists) directly inside an item; blocks only at top level, in a quote or in an
   item; items only in lists and every list has one; table = head + rows of cells — is
   [inG_doc].  Its context is the stack of open tags.  [inG_doc_sub]: it is contained in
   [inG], so NO panic site is reachable on a stream of this shape. *)
Inductive nt :=
| NPara | NHeading | NQuote | NCode | NHtml | NList (has_item : bool) | NItem
| NTable | NHead | NRow | NCell | NInl | NMeta.

Definition is_block_nt (f : nt) : bool :=
  match f with
  | NPara | NHeading | NQuote | NCode | NHtml | NList _ | NTable | NMeta => true
  | _ => false
  end.

(* may [f] open directly inside [p] ? *)
Definition ok_pair (f p : nt) : bool :=
  match f, p with
  | NInl, (NPara | NHeading | NCell | NItem | NInl) => true
  | NItem, NList true => true
  | NCell, (NHead | NRow) => true
  | (NHead | NRow), NTable => true
  | (NPara | NHeading | NQuote | NCode | NHtml | NList _ | NTable | NMeta), (NQuote | NItem) => true
  | _, _ => false
  end.
Definition allowed (f : nt) (k : list nt) : bool :=
  match k with [] => is_block_nt f | p :: _ => ok_pair f p end.

Definition d_push (f : nt) (k : list nt) : option (list nt) :=
  if allowed f k then Some (f :: k) else None.
Definition inline_pos (k : list nt) : bool := allowed NInl k.
Definition block_pos (k : list nt) : bool := allowed NPara k.

Definition nt_eqb (a b : nt) : bool :=
  match a, b with
  | NPara, NPara | NHeading, NHeading | NQuote, NQuote | NCode, NCode | NHtml, NHtml
  | NItem, NItem | NTable, NTable | NHead, NHead | NRow, NRow | NCell, NCell | NInl, NInl
  | NMeta, NMeta => true
  | NList a, NList b => Bool.eqb a b
  | _, _ => false
  end.
Definition d_pop (f : nt) (k : list nt) : option (list nt) :=
  match k with
  | p :: rest => if nt_eqb p f then Some rest else None
  | [] => None
  end.

Definition d_step (k : list nt) (e : ev) : option (list nt) :=
  match e with
  | EStart t _ _ =>
      match t with
      | TPara => d_push NPara k
      | THeading => d_push NHeading k
      | TQuote => d_push NQuote k
      | TCodeBlock => d_push NCode k
      | THtmlBlock => d_push NHtml k
      | TList => d_push (NList false) k
      | TItem => match k with NList _ :: rest => Some (NItem :: NList true :: rest) | _ => None end
      | TTable => d_push NTable k
      | TTableHead => d_push NHead k
      | TTableRow => d_push NRow k
      | TTableCell => d_push NCell k
      | TEmph | TStrong | TStrike | TLink _ _ | TImage => d_push NInl k
      | TMeta => d_push NMeta k
      | TOther => Some k
      end
  | EEnd t =>
      match t with
      | TPara => d_pop NPara k
      | THeading => d_pop NHeading k
      | TQuote => d_pop NQuote k
      | TCodeBlock => d_pop NCode k
      | THtmlBlock => d_pop NHtml k
      | TList => d_pop (NList true) k          (* a list has at least one item *)
      | TItem => d_pop NItem k
      | TTable => d_pop NTable k
      | TTableHead => d_pop NHead k
      | TTableRow => d_pop NRow k
      | TTableCell => d_pop NCell k
      | TEmph | TStrong | TStrike | TLink _ _ | TImage => d_pop NInl k
      | TMeta => d_pop NMeta k
      | TOther => Some k
      end
  | EText _ _ _ =>
      if inline_pos k then Some k
      else match k with (NCode | NMeta) :: _ => Some k | _ => None end
  | ECode _ _ _ | EMath _ _ | EInlineHtml _ _ _ | EBreak _ _ => if inline_pos k then Some k else None
  | ERule _ _ => if block_pos k then Some k else None
  | ESkip => Some k
  end.

Fixpoint d_run (k : list nt) (evs : list ev) : option (list nt) :=
  match evs with
  | [] => Some k
  | e :: r => match d_step k e with Some k' => d_run k' r | None => None end
  end.

(* complete documents: everything opened is closed *)
Definition inG_doc (evs : list ev) : bool :=
  match d_run [] evs with Some [] => true | _ => false end.

(* --- the context of [inG] that corresponds to a stack of open tags --- *)
Definition fr_of (n : nt) : option fr :=
  match n with
  | NPara | NHeading => Some FLeaf
  | NCode => Some FCode
  | NTable => Some FTable
  | NQuote => Some (FQuote true)
  | NList false => Some FList0
  | NList true => Some (FList true)
  | _ => None
  end.
Fixpoint blk_of (k : list nt) : list fr :=
  match k with
  | [] => []
  | n :: r => match fr_of n with Some f => f :: blk_of r | None => blk_of r end
  end.
Fixpoint inl_of (k : list nt) : nat :=
  match k with [] => 0 | NInl :: r => S (inl_of r) | _ :: r => inl_of r end.
Definition meta_of (k : list nt) : bool := match k with NMeta :: _ => true | _ => false end.
Definition proj (k : list nt) : ctx := C (inl_of k) (blk_of k) (meta_of k).

Fixpoint chain (k : list nt) : bool :=
  match k with [] => true | f :: r => allowed f r && chain r end.

Lemma chain_tail f k : chain (f :: k) = true -> chain k = true.
Proof. cbn [chain]. intros H. apply andb_prop in H. tauto. Qed.
Lemma chain_head f k : chain (f :: k) = true -> allowed f k = true.
Proof. cbn [chain]. intros H. apply andb_prop in H. tauto. Qed.

(* an inline has somewhere to go *)
Lemma holder_blk : forall k, chain k = true -> inline_pos k = true ->
  exists f r, blk_of k = f :: r /\ fr_aok f = true.
Proof.
  induction k as [|p k IH]; intros Hc Hp; [discriminate|].
  pose proof (chain_tail _ _ Hc) as Hc'. pose proof (chain_head _ _ Hc) as Ha.
  destruct p; try discriminate.
  - eexists _, _. split; reflexivity.
  - eexists _, _. split; reflexivity.
  - (* item *) destruct k as [|[] k]; try discriminate. destruct has_item; try discriminate.
    eexists _, _. split; reflexivity.
  - (* cell *) destruct k as [|q k]; [discriminate|].
    pose proof (chain_head _ _ Hc') as Ha'.
    destruct q; try discriminate; (destruct k as [|[] k]; try discriminate);
      eexists _, _; split; reflexivity.
  - (* inline *) cbn [blk_of fr_of]. apply IH; [exact Hc'|exact Ha].
Qed.

Lemma leaf_doc k : chain k = true -> inline_pos k = true -> g_leaf (proj k) = Some (proj k).
Proof.
  intros Hc Hp. destruct (holder_blk k Hc Hp) as [f [r [E Ha]]].
  unfold g_leaf, g_deliver, proj. cbn [c_inl c_blk]. rewrite E, Ha. now destruct (inl_of k).
Qed.

(* closing a block: what is below it *)
Lemma below_block f k : chain (f :: k) = true -> is_block_nt f = true ->
  meta_of k = false /\
  (k = [] \/ exists t r, blk_of k = t :: r /\ (t = FQuote true \/ t = FList true)).
Proof.
  intros Hc Hb. pose proof (chain_head _ _ Hc) as Ha. pose proof (chain_tail _ _ Hc) as Hc'.
  destruct k as [|p k]; [split; [reflexivity|now left]|].
  assert (Hp : p = NQuote \/ p = NItem).
  { destruct f; try discriminate; destruct p; try discriminate; tauto. }
  destruct Hp as [-> | ->].
  - split; [reflexivity|]. right. eexists _, _. split; [reflexivity|tauto].
  - split; [reflexivity|]. right.
    pose proof (chain_head _ _ Hc') as Ha'.
    destruct k as [|[] k]; try discriminate. destruct has_item; try discriminate.
    eexists _, _. split; [reflexivity|tauto].
Qed.

Lemma pop_doc f k fr0 : chain (f :: k) = true -> is_block_nt f = true ->
  fr_of f = Some fr0 -> fr_aok fr0 = true ->
  g_pop_block (proj (f :: k)) = Some (proj k).
Proof.
  intros Hc Hb Ef Ha. destruct (below_block f k Hc Hb) as [Hm Hk].
  assert (Ei : inl_of (f :: k) = inl_of k) by (destruct f; try discriminate; reflexivity).
  assert (Em : meta_of (f :: k) = false) by (destruct f; try discriminate; reflexivity).
  unfold g_pop_block, proj. cbn [c_blk c_inl c_meta blk_of]. rewrite Ef, Ei, Em, Hm.
  destruct Hk as [-> | [t [r [E Ht]]]]; [reflexivity|].
  rewrite E. destruct Ht as [-> | ->]; cbn [close_into]; [now rewrite Ha|reflexivity].
Qed.

Lemma push_doc f k fr0 : allowed f k = true -> is_block_nt f = true -> f <> NMeta -> f <> NHtml ->
  fr_of f = Some fr0 -> g_push (proj k) fr0 = proj (f :: k).
Proof.
  intros Ha Hb Hm Hh Ef.
  assert (Ei : inl_of (f :: k) = inl_of k) by (destruct f; try discriminate; reflexivity).
  assert (Em : meta_of (f :: k) = false) by (destruct f; try discriminate; try reflexivity; congruence).
  assert (Ek : meta_of k = false).
  { destruct k as [|p k]; [reflexivity|]. destruct f; try discriminate; destruct p; try discriminate; reflexivity. }
  unfold g_push, proj. cbn [c_blk c_inl c_meta blk_of]. now rewrite Ef, Ei, Em, Ek.
Qed.

(* frames that are transparent for the machine (item, head, row, cell, html) *)
Lemma transparent_doc f k : chain (f :: k) = true -> fr_of f = None -> f <> NInl -> f <> NMeta ->
  proj (f :: k) = proj k.
Proof.
  intros Hc Ef Hi Hm. pose proof (chain_head _ _ Hc) as Ha.
  assert (Ei : inl_of (f :: k) = inl_of k) by (destruct f; try discriminate; try reflexivity; congruence).
  assert (Em : meta_of (f :: k) = false) by (destruct f; try discriminate; try reflexivity; congruence).
  assert (Ek : meta_of k = false).
  { destruct k as [|p k]; [reflexivity|]. destruct f; try discriminate; destruct p; try discriminate; reflexivity. }
  unfold proj. cbn [blk_of]. now rewrite Ef, Ei, Em, Ek.
Qed.

Lemma d_pop_inv f k k' : d_pop f k = Some k' -> k = f :: k'.
Proof.
  destruct k as [|p rest]; [discriminate|]. cbn [d_pop].
  destruct (nt_eqb p f) eqn:E; [|discriminate]. intros H; inversion H; subst.
  destruct p, f; try discriminate; try reflexivity.
  apply Bool.eqb_prop in E. now subst.
Qed.

Lemma d_push_inv f k k' : d_push f k = Some k' -> allowed f k = true /\ k' = f :: k.
Proof. unfold d_push. destruct (allowed f k); [|discriminate]. intros H; inversion H. tauto. Qed.

Lemma chain_push f k : chain k = true -> allowed f k = true -> chain (f :: k) = true.
Proof. intros Hc Ha. cbn [chain]. now rewrite Ha, Hc. Qed.

Lemma pop_inline_doc k : chain (NInl :: k) = true ->
  g_pop_inline (proj (NInl :: k)) = Some (proj k).
Proof.
  intros Hc. pose proof (chain_head _ _ Hc) as Ha. pose proof (chain_tail _ _ Hc) as Hc'.
  destruct (holder_blk k Hc' Ha) as [f [r [E Hf]]].
  assert (Ek : meta_of k = false).
  { destruct k as [|p k]; [reflexivity|]. destruct p; try discriminate; reflexivity. }
  unfold g_pop_inline, g_deliver, proj. cbn [c_inl c_blk c_meta inl_of blk_of fr_of meta_of].
  rewrite E, Hf, Ek. now destruct (inl_of k).
Qed.

Theorem d_step_sim k e k' :
  chain k = true -> d_step k e = Some k' ->
  g_step (proj k) e = Some (proj k') /\ chain k' = true.
Proof.
  intros Hc H.
  destruct e as [t s e'|t|len s e'|len s e'|s e'|len s e'|s e'|s e'|].
  - (* Start *)
    destruct t; cbn [d_step] in H;
      try (apply d_push_inv in H; destruct H as [Ha ->]; split; [|now apply chain_push];
           cbn [g_step]).
    + f_equal. apply push_doc; try easy.
    + f_equal. apply push_doc; try easy.
    + f_equal. apply push_doc; try easy.
    + f_equal. apply push_doc; try easy.
    + (* html *) f_equal. symmetry. apply transparent_doc; try easy. now apply chain_push.
    + f_equal. apply push_doc; try easy.
    + (* item *)
      destruct k as [|[] rest]; try discriminate. inversion H; subst. split.
      * cbn [g_step]. unfold g_top, proj. cbn [c_blk blk_of fr_of].
        destruct has_item; reflexivity.
      * pose proof (chain_head _ _ Hc) as Ha. pose proof (chain_tail _ _ Hc) as Hc'.
        cbn [chain allowed ok_pair]. rewrite Hc'. rewrite andb_true_r.
        destruct rest as [|p rest]; [reflexivity|]. cbn [allowed] in *. destruct p; try discriminate; reflexivity.
    + f_equal. apply push_doc; try easy.
    + (* head *) f_equal. symmetry. apply transparent_doc; try easy. now apply chain_push.
    + (* row *)
      destruct k as [|[] rest]; try discriminate.
      rewrite (transparent_doc NRow (NTable :: rest)); easy.
    + (* cell *)
      rewrite (transparent_doc NCell k); try easy; [|now apply chain_push].
      destruct k as [|p rest]; [discriminate|].
      pose proof (chain_tail _ _ Hc) as Hc'. pose proof (chain_head _ _ Hc) as Ha'.
      destruct p; try discriminate; (destruct rest as [|[] rest]; try discriminate); reflexivity.
    + (* emph *) f_equal. unfold g_push_inline, proj. cbn [c_inl c_blk c_meta inl_of blk_of fr_of meta_of].
      destruct k as [|p rest]; [discriminate|]. destruct p; try discriminate; reflexivity.
    + f_equal. unfold g_push_inline, proj. cbn [c_inl c_blk c_meta inl_of blk_of fr_of meta_of].
      destruct k as [|p rest]; [discriminate|]. destruct p; try discriminate; reflexivity.
    + f_equal. unfold g_push_inline, proj. cbn [c_inl c_blk c_meta inl_of blk_of fr_of meta_of].
      destruct k as [|p rest]; [discriminate|]. destruct p; try discriminate; reflexivity.
    + f_equal. unfold g_push_inline, proj. cbn [c_inl c_blk c_meta inl_of blk_of fr_of meta_of].
      destruct k as [|p rest]; [discriminate|]. destruct p; try discriminate; reflexivity.
    + f_equal. unfold g_push_inline, proj. cbn [c_inl c_blk c_meta inl_of blk_of fr_of meta_of].
      destruct k as [|p rest]; [discriminate|]. destruct p; try discriminate; reflexivity.
    + (* meta *) reflexivity.
    + (* other *) inversion H; subst. split; [reflexivity|exact Hc].
  - (* End *)
    destruct t; cbn [d_step] in H;
      try (apply d_pop_inv in H; subst k; split; [|eapply chain_tail; exact Hc];
           cbn [g_step]).
    + eapply pop_doc; try easy.
    + eapply pop_doc; try easy.
    + eapply pop_doc; try easy.
    + eapply pop_doc; try easy.
    + (* html *) f_equal. apply transparent_doc; easy.
    + eapply pop_doc; try easy.
    + (* item *) f_equal. apply transparent_doc; easy.
    + eapply pop_doc; try easy.
    + f_equal. apply transparent_doc; easy.
    + f_equal. apply transparent_doc; easy.
    + f_equal. apply transparent_doc; easy.
    + (* inline *) apply pop_inline_doc; exact Hc.
    + apply pop_inline_doc; exact Hc.
    + apply pop_inline_doc; exact Hc.
    + apply pop_inline_doc; exact Hc.
    + apply pop_inline_doc; exact Hc.
    + (* meta *)
      destruct (below_block NMeta k' Hc eq_refl) as [Hm _].
      unfold proj. cbn [c_inl c_blk inl_of blk_of fr_of]. now rewrite Hm.
    + inversion H; subst. split; [reflexivity|exact Hc].
  - (* Text *)
    cbn [d_step] in H. cbn [g_step]. destruct (inline_pos k) eqn:Hp.
    + inversion H; subst k'. split; [|exact Hc].
      destruct (holder_blk k Hc Hp) as [f [r [E Ha]]].
      pose proof (leaf_doc k Hc Hp) as HL.
      change (c_meta (proj k)) with (meta_of k). change (c_blk (proj k)) with (blk_of k).
      destruct (meta_of k); [reflexivity|]. rewrite E.
      destruct f; try exact HL; reflexivity.
    + destruct k as [|[] rest]; try discriminate; inversion H; subst k'; (split; [reflexivity|exact Hc]).
  - cbn [d_step] in H. cbn [g_step]. destruct (inline_pos k) eqn:Hp; [|discriminate].
    inversion H; subst k'. split; [now apply leaf_doc|exact Hc].
  - cbn [d_step] in H. cbn [g_step]. destruct (inline_pos k) eqn:Hp; [|discriminate].
    inversion H; subst k'. split; [now apply leaf_doc|exact Hc].
  - cbn [d_step] in H. cbn [g_step]. destruct (inline_pos k) eqn:Hp; [|discriminate].
    inversion H; subst k'. split; [now apply leaf_doc|exact Hc].
  - cbn [d_step] in H. cbn [g_step]. destruct (inline_pos k) eqn:Hp; [|discriminate].
    inversion H; subst k'. split; [|exact Hc].
    rewrite (leaf_doc k Hc Hp). now destruct (c_meta (proj k)).
  - (* Rule = a paragraph opened and closed *)
    cbn [d_step] in H. cbn [g_step]. destruct (block_pos k) eqn:Hp; [|discriminate].
    inversion H; subst k'. split; [|exact Hc].
    rewrite (push_doc NPara k FLeaf Hp); try easy.
    eapply pop_doc; try easy. now apply chain_push.
  - inversion H; subst. split; [reflexivity|exact Hc].
Qed.

Lemma d_run_sim : forall evs k k',
  chain k = true -> d_run k evs = Some k' ->
  g_run (proj k) evs = Some (proj k') /\ chain k' = true.
Proof.
  induction evs as [|e r IH]; intros k k' Hc H.
  - inversion H; subst. split; [reflexivity|exact Hc].
  - cbn [d_run] in H. destruct (d_step k e) as [k1|] eqn:E; [|discriminate].
    destruct (d_step_sim k e k1 Hc E) as [G Hc1]. cbn [g_run]. rewrite G. now apply IH.
Qed.

Theorem inG_doc_sub : forall evs, inG_doc evs = true -> inG evs = true.
Proof.
  intros evs H. unfold inG_doc in H. destruct (d_run [] evs) as [k'|] eqn:E; [|discriminate].
  destruct (d_run_sim evs [] k' eq_refl E) as [G _]. unfold inG.
  change (proj []) with ctx0 in G. now rewrite G.
Qed.
Print Assumptions inG_doc_sub.

(* On a document-shaped stream the reader does not panic and ends with empty stacks: every
   block it built has been delivered to the output or to its parent. *)
Theorem C03_reader_total_doc :
  forall (M : mode) (evs : list ev),
    inG_doc evs = true ->
    exists st, run_events M rst0 evs = Ok st /\ r_inl st = [] /\ r_blk st = [] /\ r_meta st = false.
Proof.
  intros M evs H. unfold inG_doc in H. destruct (d_run [] evs) as [k'|] eqn:E; [|discriminate].
  destruct k' as [|? ?]; [|discriminate].
  destruct (d_run_sim evs [] [] eq_refl E) as [G _]. change (proj []) with ctx0 in G.
  destruct (C03_reader_context M evs ctx0 G) as [st [E1 [E2 _]]].
  exists st. split; [exact E1|]. destruct st as [inl blk out meta].
  unfold alpha, ctx0 in E2. cbn [r_inl r_blk r_meta] in *. inversion E2 as [[L B Mt]].
  repeat split; [now destruct inl|now destruct blk].
Qed.
Print Assumptions C03_reader_total_doc.

Definition reader_doc_ok (evs : list ev) : bool := inG_doc (strip_html false evs).

Corollary reader_doc_ok_sub : forall evs, reader_doc_ok evs = true -> reader_grammar_ok evs = true.
Proof. intros evs. apply inG_doc_sub. Qed.

(* ====================================================================================== *)
(* 10. Non-vacuity                                                                         *)
(* ====================================================================================== *)

(* "# t\n\n- a *b* [l](k)\n  - c\n\n  > q\n\n  ```\n  x\n  ```\n- \n\n| h |\n|---|\n| c |\n"
   in shape: heading, loose list with nested tight list, quote and code in an item, an empty
   item, a table *)
Definition ex_doc : list ev :=
  [ EStart TMeta 0 10; EText 5 4 9; EEnd TMeta;
    EStart THeading 11 15; EText 1 13 14; EEnd THeading;
    EStart TList 16 60;
      EStart TItem 16 50;
        EStart TPara 18 30; EText 2 18 20; EStart TEmph 20 23; EText 1 21 22; EEnd TEmph;
          EText 1 23 24; EStart (TLink Regular "k") 24 30; EText 1 25 26; EEnd (TLink Regular "");
        EEnd TPara;
        EStart TList 33 38; EStart TItem 33 38; EText 1 35 36; EBreak 36 37; ECode 1 37 40; EEnd TItem; EEnd TList;
        EStart TQuote 41 45; EStart TPara 43 45; EText 1 43 44; EEnd TPara; EEnd TQuote;
        EStart TCodeBlock 46 58; EText 2 52 54; EEnd TCodeBlock;
        EStart THtmlBlock 58 60; ESkip; EEnd THtmlBlock;
      EEnd TItem;
      EStart TItem 58 60; EEnd TItem;
    EEnd TList;
    ERule 60 64;
    EStart TTable 65 90;
      EStart TTableHead 65 71; EStart TTableCell 66 69; EText 1 67 68; EEnd TTableCell; EEnd TTableHead;
      EStart TTableRow 78 84; EStart TTableCell 79 82; EStart TStrong 80 81; EText 1 80 81; EEnd TStrong;
        EEnd TTableCell; EEnd TTableRow;
    EEnd TTable ].
Example ex_doc_in : inG_doc ex_doc = true /\ inG ex_doc = true.
Proof. repeat split; reflexivity. Qed.

(* text directly inside a tight item after a code block ("- a\n  ```\n  c\n  ```\n  t"): in
   both grammars, no panic.  As found the text was handed to the item's last block - silently dropped by
   the CodeBlock / HorizontalRule arms of `append_inline`, glued onto a heading, put into the last cell of a
   table (finding F-TIGHT-AFTER-BLOCK, a loss of content: C01 C05 C13).  Since the repair it opens a
   paragraph of its own. *)
Definition ex_tight_tail : list ev :=
  [ EStart TList 0 24; EStart TItem 0 24; EText 1 2 3;
    EStart TCodeBlock 6 19; EText 2 12 14; EEnd TCodeBlock; EText 1 22 23; EEnd TItem; EEnd TList ].
Example ex_tight_tail_in :
  inG_doc ex_tight_tail = true /\
  read_events (Mode (fun s e => (s, e)) (fun s e => ((0, s), (0, e))) false) ex_tight_tail
  = Ok [BList [[BPara (2, 3) [PStr 1]; BCode (6, 19); BPara (22, 23) [PStr 1]]]].
Proof. split; reflexivity. Qed.

(* streams the machine survives although no parser emits them: [inG] is strictly larger *)
Example ex_permissive :
  let odd := [ EStart TPara 0 9; EStart TPara 1 2; EEnd TQuote; EStart TEmph 3 4; EEnd TImage;
               EEnd TItem; EEnd TTableCell; EEnd TList; EStart TQuote 5 6; EText 1 5 6 ] in
  inG odd = true /\ inG_doc odd = false.
Proof. split; reflexivity. Qed.

(* every witness of section 7 is outside both grammars *)
Example ex_witnesses_outside :
  forallb (fun evs => negb (inG evs) && negb (inG_doc evs))
    [ [EEnd TEmph]; [EEnd TPara]; [EText 1 0 1]; [ECode 1 0 1]; [EStart TItem 0 1];
      [EStart TPara 0 1; EStart TItem 0 1]; [EStart TPara 0 1; EStart TTableRow 0 1];
      [EStart TPara 0 1; EStart TTableCell 0 1]; [EStart TList 0 1; EText 1 0 1];
      [EStart TList 0 1; ERule 0 1];
      [EStart TQuote 0 9; EStart TList 2 2; EEnd TList; EText 1 4 5] ] = true.
Proof. reflexivity. Qed.
