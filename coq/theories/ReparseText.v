(* ReparseText.v — C02 at the byte level on the wider class: one more pass may change the blocks (text runs
   fused, link titles dropped, code bodies normalised) but not one byte of the text, provided every line
   and every code block is written the same again ([md_settled], decidable). *)
From IweV Require Import Str Text Ast RelPath Arena Project SectionsSpec Check_Norm NormFacts BuilderFacts
  SectionsFacts HistoryText Reparse ReparseFacts.
From Coq Require Import Lia.
Local Open Scope string_scope.
Local Open Scope list_scope.

(* ---------- C02, byte level, on the wider class: blocks may change, the text does not ---------------------- *)

(* [block_md] unfolded: sequences are [blocks_md], items a top-level copy of the inner function *)
Lemma md_go_eq o sep l : forall tb,
  (fix go (sep : string) (tb : list string) (l : list gblock) {struct l} : string * list string :=
     match l with
     | [] => ("", tb)
     | [x] => block_md o tb x
     | x :: r => let '(s, tb1) := block_md o tb x in
                 let '(s', tb2) := go sep tb1 r in (s +++ sep +++ s', tb2)
     end) sep tb l = blocks_md o sep tb l.
Proof.
  induction l as [|x l IH]; intros tb; [reflexivity|]. destruct l as [|y l]; [reflexivity|].
  change (blocks_md o sep tb (x :: y :: l)) with
    (let '(s, tb1) := block_md o tb x in let '(s', tb2) := blocks_md o sep tb1 (y :: l) in (s +++ sep +++ s', tb2)).
  destruct (block_md o tb x) as [s tb1]. now rewrite IH.
Qed.

(* one item: an empty lead line is not written, a rule right after the marker is written in asterisks *)
Definition item_md (o : opts) (sep : string) (tb : list string) (it : list gblock) : string * list string :=
  match it with
  | (GPlain [] | GPara []) :: GRule :: rest =>
      match rest with
      | [] => (srepeat "*" 72 +++ LFS, tb)
      | _ => let '(s', tb') := blocks_md o sep tb rest in (srepeat "*" 72 +++ LFS +++ sep +++ s', tb')
      end
  | (GPlain [] | GPara []) :: rest => blocks_md o sep tb rest
  | _ => blocks_md o sep tb it
  end.

Fixpoint items_md (o : opts) (ordered sparse : bool) (n : nat) (tb : list string) (items : list (list gblock))
  {struct items} : list string * list string :=
  match items with
  | [] => ([], tb)
  | it :: r =>
      let '(s, tb1) := item_md o (if sparse then LFS else "") tb it in
      if sempty s then items_md o ordered sparse n tb1 r
      else
        let '(ss, tb2) := items_md o ordered sparse (S n) tb1 r in
        ((if ordered then left_pad_and_prefix_num s n else left_pad_and_prefix s) :: ss, tb2)
  end.

Lemma md_item_eq o sep tb it :
  match it with
  | (GPlain [] | GPara []) :: GRule :: rest =>
      match rest with
      | [] => (srepeat "*" 72 +++ LFS, tb)
      | _ => let '(s', tb') := (fix go (sep : string) (tb : list string) (l : list gblock) {struct l} : string * list string :=
                 match l with
                 | [] => ("", tb)
                 | [x] => block_md o tb x
                 | x :: r => let '(s, tb1) := block_md o tb x in
                             let '(s', tb2) := go sep tb1 r in (s +++ sep +++ s', tb2)
                 end) sep tb rest in (srepeat "*" 72 +++ LFS +++ sep +++ s', tb')
      end
  | (GPlain [] | GPara []) :: rest => (fix go (sep : string) (tb : list string) (l : list gblock) {struct l} : string * list string :=
                 match l with
                 | [] => ("", tb)
                 | [x] => block_md o tb x
                 | x :: r => let '(s, tb1) := block_md o tb x in
                             let '(s', tb2) := go sep tb1 r in (s +++ sep +++ s', tb2)
                 end) sep tb rest
  | _ => (fix go (sep : string) (tb : list string) (l : list gblock) {struct l} : string * list string :=
                 match l with
                 | [] => ("", tb)
                 | [x] => block_md o tb x
                 | x :: r => let '(s, tb1) := block_md o tb x in
                             let '(s', tb2) := go sep tb1 r in (s +++ sep +++ s', tb2)
                 end) sep tb it
  end = item_md o sep tb it.
Proof.
  pose (fin := fun l => md_go_eq o sep l tb).
  Ltac fin_tac f := lazymatch goal with |- _ = blocks_md _ _ _ ?l => exact (f l) end.
  unfold item_md. destruct it as [|h rest]; [reflexivity|].
  destruct h as [l|l| | | | | | |]; try fin_tac fin;
    (destruct l; [|fin_tac fin]; destruct rest as [|x rest']; [reflexivity|];
     destruct x; try fin_tac fin; destruct rest' as [|y r']; [reflexivity|]; now rewrite <- (fin (y :: r'))).
Qed.

Lemma md_goi_eq o ordered sparse items : forall n tb,
  (fix goi (ordered sparse : bool) (n : nat) (tb : list string) (items : list (list gblock)) {struct items}
      : list string * list string :=
    match items with
    | [] => ([], tb)
    | it :: r =>
        let sep := if sparse then LFS else "" in
        let '(s, tb1) :=
          match it with
          | (GPlain [] | GPara []) :: GRule :: rest =>
              match rest with
              | [] => (srepeat "*" 72 +++ LFS, tb)
              | _ => let '(s', tb') :=
                       (fix go (sep : string) (tb : list string) (l : list gblock) {struct l} : string * list string :=
                          match l with
                          | [] => ("", tb)
                          | [x] => block_md o tb x
                          | x :: r => let '(s, tb1) := block_md o tb x in
                                      let '(s', tb2) := go sep tb1 r in (s +++ sep +++ s', tb2)
                          end) sep tb rest in (srepeat "*" 72 +++ LFS +++ sep +++ s', tb')
              end
          | (GPlain [] | GPara []) :: rest =>
              (fix go (sep : string) (tb : list string) (l : list gblock) {struct l} : string * list string :=
                 match l with
                 | [] => ("", tb)
                 | [x] => block_md o tb x
                 | x :: r => let '(s, tb1) := block_md o tb x in
                             let '(s', tb2) := go sep tb1 r in (s +++ sep +++ s', tb2)
                 end) sep tb rest
          | _ =>
              (fix go (sep : string) (tb : list string) (l : list gblock) {struct l} : string * list string :=
                 match l with
                 | [] => ("", tb)
                 | [x] => block_md o tb x
                 | x :: r => let '(s, tb1) := block_md o tb x in
                             let '(s', tb2) := go sep tb1 r in (s +++ sep +++ s', tb2)
                 end) sep tb it
          end in
        if sempty s then goi ordered sparse n tb1 r
        else
          let '(ss, tb2) := goi ordered sparse (S n) tb1 r in
          ((if ordered then left_pad_and_prefix_num s n else left_pad_and_prefix s) :: ss, tb2)
    end) ordered sparse n tb items = items_md o ordered sparse n tb items.
Proof.
  induction items as [|it r IH]; intros n tb; [reflexivity|].
  lazy beta match fix. lazy zeta. rewrite md_item_eq.
  change (items_md o ordered sparse n tb (it :: r)) with
    (let '(s, tb1) := item_md o (if sparse then LFS else "") tb it in
     if sempty s then items_md o ordered sparse n tb1 r
     else let '(ss, tb2) := items_md o ordered sparse (S n) tb1 r in
          ((if ordered then left_pad_and_prefix_num s n else left_pad_and_prefix s) :: ss, tb2)).
  destruct (item_md o (if sparse then LFS else "") tb it) as [s tb1].
  destruct (sempty s); now rewrite IH.
Qed.

Lemma md_quote o tb bs :
  block_md o tb (GQuote bs) =
  let '(s, tb') := blocks_md o LFS tb bs in
  (join LFS (map (fun line => trim ("> " +++ line)) (lines s)) +++ LFS, tb').
Proof. rewrite <- md_go_eq. reflexivity. Qed.
Lemma md_olist o tb its :
  block_md o tb (GOList its) =
  let '(ss, tb') := items_md o true (is_sparse its) 1 tb its in (join (if is_sparse its then LFS else "") ss, tb').
Proof. rewrite <- md_goi_eq. reflexivity. Qed.
Lemma md_blist o tb its :
  block_md o tb (GBList its) =
  let '(ss, tb') := items_md o false (is_sparse its) 1 tb its in (join (if is_sparse its then LFS else "") ss, tb').
Proof. rewrite <- md_goi_eq. reflexivity. Qed.

Section TextLevel.
  Variable ctx : titles.
  Variable dir : string.
  Variable o : opts.

  Definition line_md_stable (l : list inline) : bool :=
    String.eqb (inlines_md o (line0 ctx dir (rr_inlines o l))) (inlines_md o l).

  (* an item's line without text is not written at all (the item starts with its next block): empty stays
     empty, not empty stays not empty *)
  Definition lead_kind_stable (l : list inline) : bool :=
    Bool.eqb (is_nil (line0 ctx dir (rr_inlines o l))) (is_nil l).

  (* every line is written the same again (as a string), every code block too *)
  Fixpoint md_settled (b : gblock) {struct b} : bool :=
    match b with
    | GPlain l | GPara l => String.eqb (inlines_md o (para_line ctx dir (rr_inlines o l))) (inlines_md o l)
    | GHeader _ l => line_md_stable l
    | GCode la tx => String.eqb (fst (block_md o [] (GCode (rr_lang la) (trim_lf tx +++ LFS)))) (fst (block_md o [] b))
    | GQuote bs => forallb md_settled bs
    | GOList its | GBList its =>
        forallb (fun it => match it with
                           | [] => true
                           | h :: rest => is_paragraph h && line_md_stable (gline h) && lead_kind_stable (gline h) &&
                                          forallb md_settled rest
                           end) its
    | GRule | GTable _ _ _ => true
    end.
  Definition item_md_settled (it : list gblock) : bool :=
    match it with
    | [] => true
    | h :: rest => is_paragraph h && line_md_stable (gline h) && lead_kind_stable (gline h) && forallb md_settled rest
    end.

  Notation again := (gagain ctx dir o).

  Definition MB (b : gblock) : Prop := md_settled b = true -> forall tb, block_md o tb (again b) = block_md o tb b.

  Lemma md_seq l : Forall MB l -> forallb md_settled l = true ->
    forall sep tb, blocks_md o sep tb (map again l) = blocks_md o sep tb l.
  Proof.
    induction 1 as [|x r Hx _ IH]; intros Hs sep tb; [reflexivity|].
    cbn [forallb] in Hs. apply andb_prop in Hs as [Hs1 Hs2].
    destruct r as [|y r]; [cbn [map blocks_md]; now apply Hx|].
    change (map again (x :: y :: r)) with (again x :: again y :: map again r).
    cbn [blocks_md]. rewrite (Hx Hs1). destruct (block_md o tb x) as [s tb1].
    specialize (IH Hs2 sep tb1). change (map again (y :: r)) with (again y :: map again r) in IH.
    cbn [blocks_md] in IH. rewrite IH. reflexivity.
  Qed.

  Lemma lead_md h rest tb : is_paragraph h = true -> line_md_stable (gline h) = true ->
    block_md o tb (lead_again ctx dir o h rest) = block_md o tb h.
  Proof.
    intros Hp Hl. unfold line_md_stable in Hl. apply String.eqb_eq in Hl.
    unfold lead_again. destruct h; try discriminate; cbn [gline] in *;
      destruct (gflag o rest); cbn [block_md]; now rewrite Hl.
  Qed.

  Lemma again_rule b : again b = GRule -> b = GRule.
  Proof. destruct b; cbn [gagain]; try discriminate; reflexivity. Qed.

  Lemma md_item it : Forall MB it -> item_md_settled it = true ->
    forall sep tb, item_md o sep tb (item_again ctx dir o it) = item_md o sep tb it.
  Proof.
    intros HF Hs sep tb. destruct it as [|h rest]; [reflexivity|].
    inversion HF as [|? ? _ HFr]; subst. cbn [item_md_settled] in Hs.
    apply andb_prop in Hs as [Hs Hr]. apply andb_prop in Hs as [Hs Hn]. apply andb_prop in Hs as [Hp Hl].
    unfold lead_kind_stable in Hn. apply Bool.eqb_prop in Hn.
    assert (Hold : blocks_md o sep tb (item_again ctx dir o (h :: rest)) = blocks_md o sep tb (h :: rest)).
    { cbn [item_again]. destruct rest as [|y r]; [cbn [map blocks_md]; now apply lead_md|].
      change (map again (y :: r)) with (again y :: map again r).
      cbn [blocks_md]. rewrite (lead_md h (y :: r) tb Hp Hl). destruct (block_md o tb h) as [s tb1].
      pose proof (md_seq (y :: r) HFr Hr sep tb1) as E.
      change (map again (y :: r)) with (again y :: map again r) in E. cbn [blocks_md] in E. rewrite E. reflexivity. }
    cbn [item_again] in *. unfold lead_again in *.
    destruct (line0 ctx dir (rr_inlines o (gline h))) as [|i' l'] eqn:EL; destruct (gline h) as [|i l] eqn:El;
      try discriminate Hn.
    - (* no text before, no text after: the item is written from its second block on *)
      assert (Eh : item_md o sep tb (h :: rest) = item_md o sep tb (GPara [] :: rest))
        by (destruct h; try discriminate Hp; cbn [gline] in El; subst; reflexivity).
      rewrite Eh.
      assert (Eg : forall X, item_md o sep tb ((if gflag o rest then GPara [] else GPlain []) :: X)
                             = item_md o sep tb (GPara [] :: X)) by (intros X; destruct (gflag o rest); reflexivity).
      rewrite Eg. clear Eh Eg Hold.
      destruct rest as [|x r]; [reflexivity|].
      pose proof (md_seq (x :: r) HFr Hr sep tb) as E.
      destruct x; try exact E.
      (* a rule right after the marker *)
      cbn [map gagain item_md]. destruct r as [|y r']; [reflexivity|].
      inversion HFr as [|? ? _ HFr']; subst. cbn [forallb] in Hr. apply andb_prop in Hr as [_ Hr'].
      cbn [map]. change (again y :: map again r') with (map again (y :: r')).
      now rewrite (md_seq (y :: r') HFr' Hr' sep tb).
    - (* text before, text after *)
      assert (Eh : item_md o sep tb (h :: rest) = blocks_md o sep tb (h :: rest))
        by (destruct h; try discriminate Hp; cbn [gline] in El; subst; reflexivity).
      rewrite Eh, <- Hold. destruct (gflag o rest); reflexivity.
  Qed.

  Lemma again_paragraph b : is_paragraph (again b) = is_paragraph b.
  Proof. destruct b; reflexivity. Qed.

  Lemma filter_again r : length (filter is_paragraph (map again r)) = length (filter is_paragraph r).
  Proof.
    induction r as [|x r IH]; [reflexivity|]. cbn [map filter]. rewrite again_paragraph.
    destruct (is_paragraph x); cbn [length]; now rewrite IH.
  Qed.

  Lemma item_again_paras it : item_md_settled it = true ->
    length (filter is_paragraph (item_again ctx dir o it)) = length (filter is_paragraph it).
  Proof.
    destruct it as [|h rest]; [reflexivity|]. cbn [item_md_settled]. intros Hs.
    apply andb_prop in Hs as [Hs _]. apply andb_prop in Hs as [Hs _]. apply andb_prop in Hs as [Hp _].
    cbn [item_again filter]. rewrite Hp.
    assert (Hl : is_paragraph (lead_again ctx dir o h rest) = true)
      by (unfold lead_again; destruct (gflag o rest); reflexivity).
    rewrite Hl. cbn [length]. f_equal. apply filter_again.
  Qed.

  (* tight or sparse (Project.is_sparse) is decided on the kinds of an item's blocks, a paragraph with text and one
     without being two kinds; one more pass keeps the kinds *)
  Definition bkind (b : gblock) : nat :=
    match b with
    | GPlain [] | GPara [] => 0
    | GPlain _ | GPara _ => 1
    | GCode _ _ => 2
    | GQuote _ => 3
    | GBList _ => 4
    | GOList _ => 5
    | GHeader _ _ => 6
    | GRule => 7
    | GTable _ _ _ => 8
    end.
  Definition absorbs_k (a b : nat) : bool :=
    match a, b with
    | 1, (7 | 8) => true
    | 3, (3 | 8) => true
    | (4 | 5 | 8), 8 => true
    | _, _ => false
    end.
  Fixpoint has_absorbed_k (l : list nat) : bool :=
    match l with
    | a :: ((b :: _) as r) => absorbs_k a b || has_absorbed_k r
    | _ => false
    end.

  Lemma absorbs_kind a b : absorbs a b = absorbs_k (bkind a) (bkind b).
  Proof. destruct a as [[|? ?]|[|? ?]| | | | | | |], b as [[|? ?]|[|? ?]| | | | | | |]; reflexivity. Qed.

  Lemma has_absorbed_kind l : has_absorbed l = has_absorbed_k (map bkind l).
  Proof.
    induction l as [|a [|b r] IH]; try reflexivity.
    change (has_absorbed (a :: b :: r)) with (absorbs a b || has_absorbed (b :: r)).
    rewrite IH, absorbs_kind. reflexivity.
  Qed.

  Lemma again_kind b : is_paragraph b = false -> bkind (again b) = bkind b.
  Proof. destruct b; try reflexivity; discriminate. Qed.

  Lemma map_again_kind r : filter is_paragraph r = [] -> map bkind (map again r) = map bkind r.
  Proof.
    induction r as [|x r IH]; [reflexivity|]. cbn [filter map]. destruct (is_paragraph x) eqn:E; [discriminate|].
    intros H. now rewrite (again_kind x E), IH.
  Qed.

  Lemma item_again_kind it : item_md_settled it = true -> length (filter is_paragraph it) <= 1 ->
    map bkind (item_again ctx dir o it) = map bkind it.
  Proof.
    destruct it as [|h rest]; [reflexivity|]. cbn [item_md_settled]. intros Hs Hle.
    apply andb_prop in Hs as [Hs _]. apply andb_prop in Hs as [Hs Hn]. apply andb_prop in Hs as [Hp _].
    cbn [filter] in Hle. rewrite Hp in Hle. cbn [length] in Hle.
    assert (Hr : filter is_paragraph rest = []) by (destruct (filter is_paragraph rest); [reflexivity | cbn [length] in Hle; lia]).
    cbn [item_again map]. rewrite (map_again_kind rest Hr). f_equal.
    unfold lead_kind_stable in Hn. apply Bool.eqb_prop in Hn. unfold lead_again.
    destruct h as [l|l| | | | | | |]; try discriminate Hp; cbn [gline] in *;
      destruct (gflag o rest), (line0 ctx dir (rr_inlines o l)), l; try discriminate Hn; reflexivity.
  Qed.

  Lemma sparse_again its : forallb item_md_settled its = true ->
    is_sparse (map (item_again ctx dir o) its) = is_sparse its.
  Proof.
    unfold is_sparse. induction its as [|it r IH]; [reflexivity|]. cbn [forallb map existsb]. intros Hs.
    apply andb_prop in Hs as [H1 H2]. rewrite (item_again_paras it H1), (IH H2). f_equal.
    destruct (Nat.ltb 1 (length (filter is_paragraph it))) eqn:E; [reflexivity|]. apply Nat.ltb_ge in E.
    cbn [orb]. now rewrite !has_absorbed_kind, (item_again_kind it H1 E).
  Qed.

  Lemma md_items its : Forall (Forall MB) its -> forallb item_md_settled its = true ->
    forall ordered sparse n tb,
      items_md o ordered sparse n tb (map (item_again ctx dir o) its) = items_md o ordered sparse n tb its.
  Proof.
    induction 1 as [|it r Hit _ IH]; intros Hs ordered sparse n tb; [reflexivity|].
    cbn [forallb] in Hs. apply andb_prop in Hs as [Hs1 Hs2].
    cbn [map items_md]. rewrite (md_item it Hit Hs1).
    destruct (item_md o (if sparse then LFS else "") tb it) as [s tb1].
    destruct (sempty s); now rewrite (IH Hs2).
  Qed.

  Lemma md_block : forall b, MB b.
  Proof.
    intros b. induction b as [l|l|la tx|bs IH|its IH|its IH|n l| |h al rows] using gblock_ind'; intros Hs tb.
    - cbn [md_settled] in Hs. apply String.eqb_eq in Hs. cbn [gagain block_md]. now rewrite Hs.
    - cbn [md_settled] in Hs. apply String.eqb_eq in Hs. cbn [gagain block_md]. now rewrite Hs.
    - cbn [md_settled] in Hs. apply String.eqb_eq in Hs. cbn [gagain].
      assert (E : forall la' tx' tb', block_md o tb' (GCode la' tx') = (fst (block_md o [] (GCode la' tx')), tb')).
      { intros la' tx' tb'. cbn [block_md]. destruct la' as [la'|]; [destruct (all_ws la')|]; reflexivity. }
      rewrite (E (rr_lang la)), (E la). now rewrite Hs.
    - cbn [md_settled] in Hs. cbn [gagain]. rewrite !md_quote. now rewrite (md_seq bs IH Hs).
    - cbn [md_settled] in Hs. cbn [gagain]. fold (item_again ctx dir o). rewrite !md_olist.
      change (forallb item_md_settled its = true) in Hs.
      now rewrite (sparse_again its Hs), (md_items its IH Hs).
    - cbn [md_settled] in Hs. cbn [gagain]. fold (item_again ctx dir o). rewrite !md_blist.
      change (forallb item_md_settled its = true) in Hs.
      now rewrite (sparse_again its Hs), (md_items its IH Hs).
    - cbn [md_settled] in Hs. unfold line_md_stable in Hs. apply String.eqb_eq in Hs. cbn [gagain block_md]. now rewrite Hs.
    - reflexivity.
    - reflexivity.
  Qed.

  Theorem md_again g sep tb : forallb md_settled g = true ->
    blocks_md o sep tb (map again g) = blocks_md o sep tb g.
  Proof. intros H. apply md_seq; [|exact H]. apply Forall_forall. intros x _. apply md_block. Qed.
End TextLevel.

(* the text written the second time is the text written the first time, byte for byte, for EVERY tree
   whose written blocks are in the class and keep their text line by line *)
Theorem fixpoint_text_md ctx o key t tables :
  reparse_safe o (project (key_parent key) t) = true ->
  forallb (md_settled ctx (key_parent key) o) (project (key_parent key) t) = true ->
  tree_to_markdown o tables (key_parent key) (tmap (norm_node ctx) (spec_tree key (rr o (project (key_parent key) t))))
  = tree_to_markdown o tables (key_parent key) t.
Proof.
  intros Hs Hm. unfold tree_to_markdown, rr. rewrite (second_pass_tree ctx o key t 0 Hs).
  now rewrite (md_again ctx (key_parent key) o _ LFS tables Hm).
Qed.

(* with the front matter wrapper of Graph::to_markdown *)
Theorem fixpoint_document_md ctx o key t tables meta :
  reparse_safe o (project (key_parent key) t) = true ->
  forallb (md_settled ctx (key_parent key) o) (project (key_parent key) t) = true ->
  let '(meta', bs') := rr_doc o meta (project (key_parent key) t) in
  wrap_metadata meta' (tree_to_markdown o tables (key_parent key) (tmap (norm_node ctx) (spec_tree key bs')))
  = wrap_metadata meta (tree_to_markdown o tables (key_parent key) t).
Proof.
  intros Hs Hm. cbn [rr_doc]. unfold rr_meta, tree_to_markdown.
  rewrite (second_pass_tree ctx o key t (meta_lines meta) Hs).
  now rewrite (md_again ctx (key_parent key) o _ LFS tables Hm).
Qed.

Example ex_md_settled :
  forallb (md_settled ex_ctx (key_parent ex_key) ex_opts) ex_written = true /\
  forallb (md_settled ex_ctx "" ex_opts) [GPara [Str "a"; Str " "; Str "b"]; GPara [Link "http://x" "t" Regular [Str "y"]]] = true /\
  settled ex_ctx "" ex_opts [GPara [Str "a"; Str " "; Str "b"]; GPara [Link "http://x" "t" Regular [Str "y"]]] = false.
Proof. repeat split; vm_compute; reflexivity. Qed.

Print Assumptions fixpoint_text_md.
Print Assumptions fixpoint_document_md.
