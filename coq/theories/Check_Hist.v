(* Check_Hist.v — the history case (C04, C20): a library loaded into a real `Database`, then
   a sequence of document updates.  After every step the harness dumped the whole graph
   (compared here with the model's run of the same history) and an id-free view of what the
   server answers, once from the incrementally updated database and once from a database
   built from scratch on the current texts.  After the last step patch graphs were built from
   trees the way the server builds them (Check_Patch.v) and dumped. *)
From Coq Require Import ZArith.
From IweV Require Export Check_Norm ArenaWF Index Paths Check_Patch.
Local Open Scope string_scope.
Local Open Scope list_scope.

(* byte-wise lexicographic order of strings (Rust's `Ord for str`) *)
Fixpoint sleb (a b : string) : bool :=
  match a, b with
  | EmptyString, _ => true
  | String _ _, EmptyString => false
  | String x a', String y b' =>
      let nx := nat_of_ascii x in let ny := nat_of_ascii y in
      if Nat.ltb nx ny then true else if Nat.ltb ny nx then false else sleb a' b'
  end.

Definition dedup_stages (l : list N) : list N := nodup N.eq_dec l.


Record hnote := HN {
  hn_key : string;
  hn_tree : res tree;
  hn_text : res string;
  hn_map : list (option nat)
}.

Record idfree := IF {
  if_texts : list (string * res string);
  if_titles : list (string * option string);
  if_lines : list (string * list string);
  if_back : list (string * list string * list string);
  if_paths : list string;
  if_search : list string
}.

Record step := ST {
  st_in : note_in;
  st_arena : res arena;
  st_keys : list (string * nat);
  st_titles : list (string * option string);
  st_notes : list hnote;
  st_tables : list (string * list string);
  st_inc : option idfree;
  st_fresh : option idfree
}.

Record histcase := HC {
  hc_ext : string;
  hc_notes : list note_in;
  hc_arena : res arena;
  hc_keys : list (string * nat);
  hc_titles : list (string * option string);
  hc_hnotes : list hnote;
  hc_tables : list (string * list string);
  hc_steps : list step;
  hc_patches : list patch_raw       (* patch graphs built from trees after the last step *)
}.

(* ---------- the model's run of the history ---------------------------------------------- *)

Definition hist_blocks (c : histcase) : res (list (string * option string * list dblock)) :=
  fold_right (fun n acc => do r <- acc; do bs <- ni_blocks n; Ok ((ni_name n, ni_meta n, bs) :: r))
             (Ok []) (hc_notes c).

Definition hist_graph0 (c : histcase) : res graph := do ns <- hist_blocks c; import ns.

Definition step_model (g : res graph) (s : step) : res graph :=
  do g <- g;
  do bs <- ni_blocks (st_in s);
  update_key g (key_name (ni_name (st_in s))) (ni_meta (st_in s)) bs.

(* model states after the import and after every step *)
Fixpoint model_states (g : res graph) (steps : list step) : list (res graph) :=
  match steps with
  | [] => []
  | s :: r => let g' := step_model g s in g' :: model_states g' r
  end.

Definition sort_keys (l : list (string * nat)) : list (string * nat) :=
  fold_right (fun kv acc =>
    (fix ins (l : list (string * nat)) :=
       match l with
       | [] => [kv]
       | y :: r => if sleb (fst kv) (fst y) then kv :: l else y :: ins r
       end) acc) [] l.

Definition keys_eqb (a b : list (string * nat)) : bool :=
  list_eqb (fun x y => String.eqb (fst x) (fst y) && Nat.eqb (snd x) (snd y)) (sort_keys a) (sort_keys b).

Definition tables_of_key (tb : list (string * list string)) (k : string) : list string :=
  match find (fun kv => String.eqb (fst kv) k) tb with Some kv => snd kv | None => [] end.

(* correspondence of one dumped graph with one model state *)
Definition state_corr (ext : string) (g : res graph) (ar : res arena) (keys : list (string * nat))
           (titles : list (string * option string)) (notes : list hnote)
           (tables : list (string * list string)) : list N :=
  match g with
  | Panic _ => flag 1 (negb (is_ok ar))
  | Ok g =>
      flag 1 (res_eqb arena_eqb (Ok (gr_arena g)) ar) ++
      flag 2 (keys_eqb (gr_keys g) keys) ++
      flag 3 (list_eqb (fun a b => String.eqb (fst a) (fst b) && ostring_eqb (snd a) (snd b))
                (map (fun kv => (fst kv, get_key_title g (fst kv))) titles) titles) ++
      flag 4 (forallb (fun o => res_eqb tree_eqb (collect_key g (hn_key o)) (hn_tree o)) notes) ++
      flag 5 (forallb (fun o => res_eqb String.eqb
                                  (to_markdown (Opts ext) (tables_of_key tables (hn_key o)) g (hn_key o)) (hn_text o)) notes) ++
      flag 6 (forallb (fun o => list_eqb onat_eqb (map_obs g (hn_key o) (length (hn_map o))) (hn_map o)) notes)
  end.

Definition strs_eqb_l := list_eqb String.eqb.

Definition hist_corr (c : histcase) : list N :=
  let g0 := hist_graph0 c in
  dedup_stages (
    state_corr (hc_ext c) g0 (hc_arena c) (hc_keys c) (hc_titles c) (hc_hnotes c) (hc_tables c) ++
    flat_map (fun gs => state_corr (hc_ext c) (fst gs) (st_arena (snd gs)) (st_keys (snd gs))
                          (st_titles (snd gs)) (st_notes (snd gs)) (st_tables (snd gs)))
             (combine (model_states g0 (hc_steps c)) (hc_steps c))).


(* ---------- the reference index and the outline paths along the history (Index.v, Paths.v) ---- *)

(* the whole-graph state (graph + merge-only reference index + global line map) after the import
   and after every step; the repaired index walk (continues after tables) and the repaired path
   enumeration (filtered references) are what /repo has *)
Definition hist_state0 (c : histcase) : res gstate := do ns <- hist_blocks c; import_state_v true ns.

Definition step_state (g : res gstate) (s : step) : res gstate :=
  do g <- g;
  do bs <- ni_blocks (st_in s);
  update_state_v true g (key_name (ni_name (st_in s))) (ni_meta (st_in s)) bs.

Fixpoint model_gstates (g : res gstate) (steps : list step) : list (res gstate) :=
  match steps with
  | [] => []
  | s :: r => let g' := step_state g s in g' :: model_gstates g' r
  end.

Fixpoint ins_str (x : string) (l : list string) : list string :=
  match l with
  | [] => [x]
  | y :: r => if sleb x y then x :: l else y :: ins_str x r
  end.
Definition sort_strs (l : list string) : list string := fold_right ins_str [] l.

(* "<owner key>:<first line>" of a node, as the harness prints it (-1 without a line range) *)
Definition loc_str (gs : gstate) (id : nat) : string :=
  match Index.node_key (gr_arena (gs_graph gs)) id with
  | Ok k => k +++ ":" +++ match node_line_range gs id with Some r => dec (fst r) | None => "-1" end
  | Panic _ => "PANIC"
  end.

Definition locs (gs : gstate) (ids : res (list nat)) : list string :=
  match ids with Ok l => sort_strs (map (loc_str gs) l) | Panic _ => ["PANIC"] end.

Definition back_corr (gs : gstate) (b : list (string * list string * list string)) : bool :=
  forallb (fun e => let '(k, blk, inls) := e in
             strs_eqb_l (locs gs (block_refs_to gs k)) blk && strs_eqb_l (locs gs (inline_refs_to gs k)) inls) b.

Definition path_str (gs : gstate) (ids : list nat) : string :=
  join " > " (map (fun id =>
    match Index.node_key (gr_arena (gs_graph gs)) id, Paths.get_text (gr_arena (gs_graph gs)) id with
    | Ok k, Ok t => k +++ "#" +++ trim t
    | _, _ => "PANIC"
    end) ids).

Definition paths_corr (gs : gstate) (ps : list string) : bool :=
  match graph_to_paths true gs with
  | Ok l => strs_eqb_l (sort_strs (map (path_str gs) l)) ps
  | Panic _ => match ps with [p] => starts_with "PANIC" p | _ => false end
  end.

(* one search result as the harness prints it: rank|key|line|root|search text|texts of the chain.
   The chain (what a client is shown as the container of the hit) is part of the observation since
   round 5: two entries that agree in everything but their chain (`# a` > `# b` and `# a b` over the
   same note) are told apart, so their ORDER is observed. *)
Definition sp_str (a : arena) (p : spath) : string :=
  dec (sp_rank p) +++ "|" +++ sp_key p +++ "|" +++ dec (sp_line p) +++ "|" +++
  (if sp_root p then "true" else "false") +++ "|" +++ sp_text p +++ "|" +++
  match texts_of a (sp_ids p) with Ok ts => join " > " ts | Panic _ => "?" end.

(* Database::global_search("") on the threaded state: Graph::search_paths (graph.rs:74-98), every
   fuzzy score 0, the comparator of database.rs:57-69, the first 100 *)
Definition model_search (gs : gstate) : res (list spath) :=
  do sps <- search_paths true gs;
  Ok (global_search true (map (fun p => (p, 0%Z)) sps)).

Definition search_corr (gs : gstate) (obs : list string) : bool :=
  match model_search gs with
  | Ok l => strs_eqb_l (map (sp_str (gr_arena (gs_graph gs))) l) obs
  | Panic _ => match obs with [p] => starts_with "PANIC" p | _ => false end
  end.

Definition index_corr_step (g : res gstate) (inc : option idfree) : list N :=
  match g, inc with
  | Ok gs, Some i => flag 7 (back_corr gs (if_back i)) ++ flag 8 (paths_corr gs (if_paths i)) ++
                     flag 9 (search_corr gs (if_search i))
  | _, _ => []
  end.

Definition hist_index_corr (c : histcase) : list N :=
  dedup_stages (flat_map (fun gs => index_corr_step (fst gs) (st_inc (snd gs)))
                         (combine (model_gstates (hist_state0 c) (hc_steps c)) (hc_steps c))).

(* ---------- C20: the implementation's arena is a well-formed forest after every operation -- *)

Definition wf_state (ar : res arena) (keys : list (string * nat)) : list N :=
  match ar with
  | Ok a => flag 1 (wf_b a keys) ++ flag 2 (partition_ok a keys) ++ flag 3 (owners_ok a keys)
  | Panic _ => []      (* the operation panicked: C03 owns that; nothing was dumped *)
  end.

Definition hist_wf (c : histcase) : list N :=
  dedup_stages (wf_state (hc_arena c) (hc_keys c) ++
                flat_map (fun s => wf_state (st_arena s) (st_keys s)) (hc_steps c)).

(* reading a note back gives the blocks last written for it: the collected tree of the updated
   key equals the tree a fresh model build of its blocks collects (ids aside) *)
Definition fresh_tree (c : histcase) (s : step) : res tree :=
  do bs <- ni_blocks (st_in s);
  let key := key_name (ni_name (st_in s)) in
  do g <- from_blocks empty_graph key (ni_meta (st_in s)) bs;
  collect (fun _ => None) (gr_arena g) 0.

Definition strip_titles_tree (t : tree) : tree := t.

Definition hist_nontrivial (c : histcase) : bool :=
  existsb (fun s => existsb (fun n => String.eqb (key_name (ni_name n)) (key_name (ni_name (st_in s)))) (hc_notes c))
          (hc_steps c).

(* (formerly known-finding class 2, F-ITEMLEAD, repaired: a list item that starts with a list and
   holds further blocks, or starts with a code block, quote, table or rule, is one section without
   text over all its blocks; the arena stays a forest on every history - HistoryClosed.v - so no
   class is left and every failure on such a history is a violation) *)
Definition hist_classes (c : histcase) : list N := [].

(* patch-graph constructions from trees after the last step (Check_Patch.v): stages 10-11 against
   TreeBuild.build_key_from_iter on the empty patch arena, sub-properties 4-7 on the
   implementation's patch arenas *)
(* the collected trees of the last state that was dumped (the graph the patches were made from) *)
Definition last_notes (c : histcase) : list hnote :=
  fold_left (fun acc s => if is_ok (st_arena s) then st_notes s else acc) (hc_steps c) (hc_hnotes c).
Definition last_lookup (c : histcase) : string -> option tree :=
  fun k => match find (fun o => String.eqb (hn_key o) k) (last_notes c) with
           | Some o => match hn_tree o with Ok t => Some t | Panic _ => None end
           | None => None
           end.
Definition hist_patch_corr (c : histcase) : list N := patch_corr (last_lookup c) (hc_patches c).
Definition hist_patch_wf (c : histcase) : list N := nodup N.eq_dec (patch_props (last_lookup c) (hc_patches c)).

Definition run_C20 (c : histcase) : verdict :=
  V (hist_corr c ++ hist_patch_corr c) (hist_wf c ++ hist_patch_wf c) (hist_classes c) (hist_nontrivial c).

(* (formerly known-finding class 3 of C04, F-SEARCHTIE = DESIGN F15, repaired: the comparator of
   Graph::search_paths goes on after node_rank and key with the search text, the line and the heading
   texts of the chain (graph.rs:87-96), so two entries that still tie print alike and the order of the
   search results is the same after every history - SearchTie.search_content, Determinism2.sv_le_antisym.
   No class is left: a difference in the order of the search results, sub-property 6, is a violation.) *)
Definition c04_classes (c : histcase) : list N := hist_classes c.

(* which classes can explain the failure of which sub-property of C04 (none is left: class 2, the
   corrupted arena of F-ITEMLEAD, is repaired as well) *)
Definition explain_C04 (p : N) : list N := [2%N].
Definition explain_hist (explain : N -> list N) (fails cls : list N) : list N * list N :=
  let per := map (fun p => (p, filter (fun k => existsb (N.eqb k) cls) (explain p))) fails in
  match filter (fun x => match snd x with [] => true | _ => false end) per with
  | [] => (fails, match fails with [] => cls | _ => dedup_N (flat_map snd per) end)
  | bad => (map fst bad, [])
  end.

(* ---------- C04: incremental = fresh ------------------------------------------------------- *)

Definition texts_eqb (a b : list (string * res string)) : bool :=
  list_eqb (fun x y => String.eqb (fst x) (fst y) && res_eqb String.eqb (snd x) (snd y)) a b.
Definition titles_eqb (a b : list (string * option string)) : bool :=
  list_eqb (fun x y => String.eqb (fst x) (fst y) && ostring_eqb (snd x) (snd y)) a b.
Definition strs_eqb := list_eqb String.eqb.
Definition lines_eqb (a b : list (string * list string)) : bool :=
  list_eqb (fun x y => String.eqb (fst x) (fst y) && strs_eqb (snd x) (snd y)) a b.
Definition back_eqb (a b : list (string * list string * list string)) : bool :=
  list_eqb (fun x y => String.eqb (fst (fst x)) (fst (fst y)) && strs_eqb (snd (fst x)) (snd (fst y))
                       && strs_eqb (snd x) (snd y)) a b.

Definition step_c04 (s : step) : list N :=
  match st_inc s, st_fresh s with
  | Some i, Some f =>
      flag 1 (texts_eqb (if_texts i) (if_texts f)) ++
      flag 2 (titles_eqb (if_titles i) (if_titles f)) ++
      flag 3 (lines_eqb (if_lines i) (if_lines f)) ++
      flag 4 (back_eqb (if_back i) (if_back f)) ++
      flag 5 (strs_eqb (if_paths i) (if_paths f)) ++
      flag 6 (strs_eqb (if_search i) (if_search f))
  | None, None => []
  | _, _ => [7%N]
  end.

Definition hist_c04 (c : histcase) : list N := dedup_stages (flat_map step_c04 (hc_steps c)).

(* the index and path models are compared on every history (the arenas are forests on all of
   them since the repair of F-ITEMLEAD) *)
Definition run_C04 (c : histcase) : verdict :=
  let '(f, k) := explain_hist explain_C04 (hist_c04 c) (c04_classes c) in
  V (dedup_stages (hist_corr c ++ hist_index_corr c)) f k (hist_nontrivial c).

Definition run_HIST (c : histcase) : verdict :=
  V (hist_corr c ++ hist_patch_corr c)
    (hist_c04 c ++ map (fun x => (10 + x)%N) (hist_wf c ++ hist_patch_wf c)) (hist_classes c) (hist_nontrivial c).
