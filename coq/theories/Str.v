(* Str.v — the Rust `str` operations iwe uses, on Coq [string] (= bytes, UTF-8 as Rust has it).
   Definitions first, characterising lemmas after; no axioms. *)
From Coq Require Export String Ascii List Bool Arith NArith Lia.
Export ListNotations.
Local Open Scope string_scope.

(* string append gets its own infix so that `++` can stay list append everywhere else *)
Infix "+++" := String.append (right associativity, at level 60).

(* ---------- basic helpers ------------------------------------------------------- *)

Definition sempty (s : string) : bool :=
  match s with EmptyString => true | _ => false end.

Fixpoint srev_app (s acc : string) : string :=
  match s with
  | EmptyString => acc
  | String c r => srev_app r (String c acc)
  end.
Definition srev (s : string) : string := srev_app s EmptyString.

(* [starts_with p s] — Rust `s.starts_with(p)` *)
Fixpoint starts_with (p s : string) : bool :=
  match p with
  | EmptyString => true
  | String a p' =>
      match s with
      | EmptyString => false
      | String b s' => if Ascii.eqb a b then starts_with p' s' else false
      end
  end.

(* [strip_prefix p s] — Rust `s.strip_prefix(p)` *)
Fixpoint strip_prefix (p s : string) : option string :=
  match p with
  | EmptyString => Some s
  | String a p' =>
      match s with
      | EmptyString => None
      | String b s' => if Ascii.eqb a b then strip_prefix p' s' else None
      end
  end.

Definition ends_with (suf s : string) : bool := starts_with (srev suf) (srev s).

Definition strip_suffix (suf s : string) : option string :=
  match strip_prefix (srev suf) (srev s) with
  | Some r => Some (srev r)
  | None => None
  end.

(* Rust `s.trim_end_matches(pat)` for a non-empty string pattern: remove the suffix as long
   as it is there.  Works on the reversed string; fuel = length, one char at least is
   consumed per round when the pattern is non-empty. *)
Fixpoint trim_start_matches_fuel (fuel : nat) (p s : string) : string :=
  match fuel with
  | O => s
  | S f =>
      match strip_prefix p s with
      | Some r => if sempty p then s else trim_start_matches_fuel f p r
      | None => s
      end
  end.
Definition trim_start_matches (p s : string) : string :=
  trim_start_matches_fuel (S (String.length s)) p s.
Definition trim_end_matches (p s : string) : string :=
  srev (trim_start_matches (srev p) (srev s)).

(* Rust `s.strip_suffix(p).unwrap_or(s)`: the suffix is removed once, if it is there *)
Definition strip_suffix_once (p s : string) : string :=
  match strip_suffix p s with Some r => r | None => s end.

(* split on a separator character, keeping empty pieces: Rust `s.split(c)` *)
Fixpoint split_on_aux (c : ascii) (s : string) (cur : string) : list string :=
  match s with
  | EmptyString => [srev cur]
  | String a r =>
      if Ascii.eqb a c then srev cur :: split_on_aux c r EmptyString
      else split_on_aux c r (String a cur)
  end.
Definition split_on (c : ascii) (s : string) : list string := split_on_aux c s EmptyString.

Fixpoint join (sep : string) (l : list string) : string :=
  match l with
  | [] => EmptyString
  | [x] => x
  | x :: r => x ++ sep ++ join sep r
  end.

Fixpoint contains_char (c : ascii) (s : string) : bool :=
  match s with
  | EmptyString => false
  | String a r => if Ascii.eqb a c then true else contains_char c r
  end.

Fixpoint srepeat (s : string) (n : nat) : string :=
  match n with O => EmptyString | S k => s ++ srepeat s k end.

Definition lower_ascii (a : ascii) : ascii :=
  let n := nat_of_ascii a in
  if andb (Nat.leb 65 n) (Nat.leb n 90) then ascii_of_nat (n + 32) else a.
Fixpoint lower_ascii_str (s : string) : string :=
  match s with
  | EmptyString => EmptyString
  | String a r => String (lower_ascii a) (lower_ascii_str r)
  end.

(* bytes given as numbers: used by the harness for strings with control characters *)
Fixpoint sb (l : list N) : string :=
  match l with
  | [] => EmptyString
  | n :: r => String (ascii_of_N n) (sb r)
  end.

Fixpoint list_eqb {A} (eq : A -> A -> bool) (a b : list A) : bool :=
  match a, b with
  | [], [] => true
  | x :: a', y :: b' => andb (eq x y) (list_eqb eq a' b')
  | _, _ => false
  end.

Definition option_eqb {A} (eq : A -> A -> bool) (a b : option A) : bool :=
  match a, b with
  | None, None => true
  | Some x, Some y => eq x y
  | _, _ => false
  end.

(* ---------- lemmas ---------------------------------------------------------------- *)

Lemma sapp_assoc (a b c : string) : (a ++ b) ++ c = a ++ (b ++ c).
Proof. induction a as [|x a IH]; cbn; [reflexivity | now rewrite IH]. Qed.

Lemma srev_app_spec s acc : srev_app s acc = srev s ++ acc.
Proof.
  unfold srev. revert acc.
  induction s as [|c s IH]; intros acc; cbn [srev_app]; [reflexivity|].
  rewrite IH. rewrite (IH (String c EmptyString)).
  rewrite sapp_assoc. reflexivity.
Qed.

Lemma srev_cons c s : srev (String c s) = srev s ++ String c EmptyString.
Proof. unfold srev at 1. cbn [srev_app]. apply srev_app_spec. Qed.

Lemma append_nil_r s : s ++ "" = s.
Proof. induction s as [|c s IH]; cbn; [reflexivity | now rewrite IH]. Qed.

Lemma srev_append a b : srev (a ++ b) = srev b ++ srev a.
Proof.
  induction a as [|c a IH]; cbn [String.append].
  - now rewrite append_nil_r.
  - rewrite !srev_cons, IH. now rewrite sapp_assoc.
Qed.

Lemma srev_involutive s : srev (srev s) = s.
Proof.
  induction s as [|c s IH]; [reflexivity|].
  rewrite srev_cons, srev_append, IH. reflexivity.
Qed.

Lemma list_eqb_refl {A} (eq : A -> A -> bool) :
  (forall x, eq x x = true) -> forall l, list_eqb eq l l = true.
Proof. intros H l; induction l as [|x l IH]; cbn; [reflexivity | now rewrite H, IH]. Qed.

Lemma list_eqb_eq {A} (eq : A -> A -> bool) :
  (forall x y, eq x y = true -> x = y) -> forall a b, list_eqb eq a b = true -> a = b.
Proof.
  intros H a; induction a as [|x a IH]; intros [|y b]; cbn; try discriminate; [reflexivity|].
  intros E. apply andb_prop in E as [E1 E2]. f_equal; auto.
Qed.

(* --- split / join ---------------------------------------------------------------- *)

Lemma split_on_aux_nochar c s cur :
  contains_char c s = false -> split_on_aux c s cur = [srev cur ++ s].
Proof.
  revert cur; induction s as [|a s IH]; intros cur H; cbn [split_on_aux].
  - now rewrite append_nil_r.
  - cbn [contains_char] in H. destruct (Ascii.eqb a c); [discriminate|].
    rewrite IH by exact H. rewrite srev_cons, sapp_assoc. reflexivity.
Qed.

Lemma split_on_aux_app c x r cur :
  contains_char c x = false ->
  split_on_aux c (x ++ String c r) cur = (srev cur ++ x) :: split_on_aux c r EmptyString.
Proof.
  revert cur; induction x as [|a x IH]; intros cur H; cbn [String.append split_on_aux].
  - rewrite Ascii.eqb_refl, append_nil_r. reflexivity.
  - cbn [contains_char] in H. destruct (Ascii.eqb a c); [discriminate|].
    rewrite IH by exact H. rewrite srev_cons, sapp_assoc. reflexivity.
Qed.

Lemma split_join c l :
  l <> [] -> Forall (fun x => contains_char c x = false) l ->
  split_on c (join (String c EmptyString) l) = l.
Proof.
  unfold split_on. induction l as [|x l IH]; intros Hne HF; [congruence|].
  inversion HF as [|? ? Hx HF']; subst.
  destruct l as [|y l].
  - cbn [join]. rewrite split_on_aux_nochar by exact Hx. reflexivity.
  - change (join (String c "") (x :: y :: l)) with (x ++ String c (join (String c "") (y :: l))).
    rewrite split_on_aux_app by exact Hx. cbn [srev srev_app String.append].
    rewrite IH; [reflexivity | congruence | exact HF'].
Qed.

Lemma split_on_empty c : split_on c "" = [""].
Proof. reflexivity. Qed.

(* --- prefix / suffix --------------------------------------------------------------- *)

Lemma starts_with_strip p s : starts_with p s = match strip_prefix p s with Some _ => true | None => false end.
Proof.
  revert s; induction p as [|a p IH]; intros s; cbn; [reflexivity|].
  destruct s as [|b s]; [reflexivity|]. destruct (Ascii.eqb a b); [apply IH | reflexivity].
Qed.

Lemma strip_prefix_app p s : strip_prefix p (p ++ s) = Some s.
Proof. induction p as [|a p IH]; cbn; [reflexivity|]. now rewrite Ascii.eqb_refl. Qed.

Lemma strip_prefix_some p s r : strip_prefix p s = Some r -> s = p ++ r.
Proof.
  revert s; induction p as [|a p IH]; intros s; cbn.
  - now intros [= ->].
  - destruct s as [|b s]; [discriminate|].
    destruct (Ascii.eqb_spec a b) as [->|]; [|discriminate].
    intros H. apply IH in H. now subst.
Qed.

Lemma trim_start_matches_none p s :
  starts_with p s = false -> trim_start_matches p s = s.
Proof.
  unfold trim_start_matches. cbn [trim_start_matches_fuel].
  rewrite starts_with_strip. destruct (strip_prefix p s); [discriminate | reflexivity].
Qed.

Lemma trim_end_matches_none p s :
  ends_with p s = false -> trim_end_matches p s = s.
Proof.
  unfold ends_with, trim_end_matches. intros H.
  rewrite trim_start_matches_none by exact H. apply srev_involutive.
Qed.

(* --- strip_suffix_once ---------------------------------------------------------------- *)

Lemma strip_suffix_once_none p s :
  ends_with p s = false -> strip_suffix_once p s = s.
Proof.
  unfold ends_with, strip_suffix_once, strip_suffix. rewrite starts_with_strip.
  destruct (strip_prefix (srev p) (srev s)); [discriminate | reflexivity].
Qed.

(* exactly one copy of the suffix goes, whatever is in front of it *)
Lemma strip_suffix_once_app p s : strip_suffix_once p (s ++ p) = s.
Proof.
  unfold strip_suffix_once, strip_suffix. rewrite srev_append, strip_prefix_app. apply srev_involutive.
Qed.

Lemma ends_with_app p s : ends_with p (s ++ p) = true.
Proof.
  unfold ends_with. rewrite srev_append, starts_with_strip, strip_prefix_app. reflexivity.
Qed.

Lemma ends_with_split p s : ends_with p s = true -> exists r, s = r ++ p.
Proof.
  unfold ends_with. rewrite starts_with_strip. destruct (strip_prefix (srev p) (srev s)) as [r|] eqn:E; [|discriminate].
  intros _. apply strip_prefix_some in E. exists (srev r).
  rewrite <- (srev_involutive s), E, srev_append, srev_involutive. reflexivity.
Qed.

Lemma strip_suffix_once_some p s :
  ends_with p s = true -> s = strip_suffix_once p s ++ p.
Proof.
  intros H. destruct (ends_with_split p s H) as [r ->]. now rewrite strip_suffix_once_app.
Qed.
