(* FsFacts.v — proofs about layer F (Fs.v): the write sequence of `iwe normalize`.
   Unbounded over directory trees, key orders, chunkings of every write and crash points. *)
From IweV Require Import Str Text RelPath RelPathFacts Fs.
Local Open Scope string_scope.
Local Open Scope list_scope.

(* ---------- strings ------------------------------------------------------------------------ *)

Lemma sapp_inv_head (c a b : string) : c +++ a = c +++ b -> a = b.
Proof. induction c as [|x c IH]; cbn; [auto|]. intros [= H]. auto. Qed.

Lemma sapp_inv_tail (a b c : string) : a +++ c = b +++ c -> a = b.
Proof.
  intros H. apply (f_equal srev) in H. rewrite !srev_append in H.
  apply sapp_inv_head in H. apply (f_equal srev) in H. now rewrite !srev_involutive in H.
Qed.

Lemma slength_app (a b : string) : String.length (a +++ b) = String.length a + String.length b.
Proof. induction a as [|x a IH]; cbn; [reflexivity | now rewrite IH]. Qed.

Lemma note_path_inj k k' : note_path k = note_path k' -> k = k'.
Proof. apply sapp_inv_tail. Qed.

(* decimal rendering is injective: reading the digits back gives the number *)
Definition digit_val (a : ascii) : nat := nat_of_ascii a - 48.
Fixpoint undec_from (a : nat) (s : string) : nat :=
  match s with
  | EmptyString => a
  | String c r => undec_from (a * 10 + digit_val c) r
  end.

Lemma digit_val_digit n : n < 10 -> digit_val (digit n) = n.
Proof. intros H. unfold digit_val, digit. rewrite nat_ascii_embedding by lia. lia. Qed.

Lemma undec_dec_aux f : forall n acc, n < f -> undec_from 0 (dec_aux f n acc) = undec_from n acc.
Proof.
  induction f as [|f IH]; intros n acc H; [lia|].
  cbn [dec_aux]. destruct (Nat.ltb n 10) eqn:E.
  - apply Nat.ltb_lt in E. cbn [undec_from]. rewrite Nat.mod_small by exact E.
    rewrite digit_val_digit by exact E. now rewrite Nat.mul_0_l, Nat.add_0_l.
  - apply Nat.ltb_ge in E. rewrite IH.
    + cbn [undec_from]. rewrite digit_val_digit by (apply Nat.mod_upper_bound; lia).
      f_equal. pose proof (Nat.div_mod n 10). lia.
    + pose proof (Nat.div_lt n 10). lia.
Qed.

Lemma dec_inj i j : dec i = dec j -> i = j.
Proof.
  intros H. apply (f_equal (undec_from 0)) in H. unfold dec in H.
  rewrite !undec_dec_aux in H by lia. exact H.
Qed.

(* the candidate names of one note are pairwise different *)
Lemma tmp_cand_inj p i j : tmp_cand p i = tmp_cand p j -> i = j.
Proof.
  assert (X : forall n, TMP <> "." +++ dec (S n) +++ TMP).
  { intros n H. apply (f_equal String.length) in H. cbn [String.append] in H.
    unfold TMP in H. cbn [String.length] in H. rewrite slength_app in H. cbn in H. lia. }
  destruct i as [|i], j as [|j]; cbn [tmp_cand]; intros H; [reflexivity| | |].
  - apply sapp_inv_head in H. now apply X in H.
  - apply sapp_inv_head in H. symmetry in H. now apply X in H.
  - apply sapp_inv_head, sapp_inv_head, sapp_inv_tail in H. now apply dec_inj.
Qed.

Lemma tmp_cand_shape p i : exists x, tmp_cand p i = x +++ TMP.
Proof.
  destruct i as [|i]; cbn [tmp_cand]; [now exists p|].
  exists (p +++ "." +++ dec (S i)). now rewrite !sapp_assoc.
Qed.

(* a temporary name is never the path of a note: it cannot shadow one, and the loader
   ignores it (its extension is `tmp`) *)
Lemma tmp_not_note p i k : tmp_cand p i <> note_path k.
Proof.
  destruct (tmp_cand_shape p i) as (x & ->).
  intros H. apply (f_equal srev) in H. unfold note_path, to_path, TMP, MD in H.
  rewrite !srev_append in H. cbn in H. discriminate.
Qed.

Lemma tmp_not_loaded p i : has_md_ext (tmp_cand p i) = false.
Proof.
  destruct (tmp_cand_shape p i) as (x & ->).
  unfold has_md_ext, ends_with, TMP. rewrite srev_append. reflexivity.
Qed.

(* ---------- the file system ------------------------------------------------------------------ *)

Lemma lookup_remove_same p s : lookup p (remove p s) = None.
Proof.
  induction s as [|[q b] s IH]; cbn; [reflexivity|].
  destruct (String.eqb q p) eqn:E; [exact IH | cbn; rewrite E; exact IH].
Qed.

Lemma lookup_remove_other p q s : p <> q -> lookup q (remove p s) = lookup q s.
Proof.
  intros N. induction s as [|[r b] s IH]; cbn; [reflexivity|].
  destruct (String.eqb r p) eqn:E.
  - apply String.eqb_eq in E; subst r.
    destruct (String.eqb p q) eqn:E2; [apply String.eqb_eq in E2; contradiction | exact IH].
  - cbn. destruct (String.eqb r q); [reflexivity | exact IH].
Qed.

Lemma lookup_set_same p b s : lookup p (set p b s) = Some b.
Proof. unfold set; cbn. now rewrite String.eqb_refl. Qed.

Lemma lookup_set_other p q b s : p <> q -> lookup q (set p b s) = lookup q s.
Proof.
  intros N. unfold set; cbn.
  destruct (String.eqb p q) eqn:E; [apply String.eqb_eq in E; contradiction|].
  now apply lookup_remove_other.
Qed.

Lemma lookup_none_notin q (s : fs) : lookup q s = None <-> ~ In q (map fst s).
Proof.
  induction s as [|[r b] s IH]; cbn; [tauto|].
  destruct (String.eqb r q) eqn:E.
  - apply String.eqb_eq in E. split; [discriminate | intros H; exfalso; apply H; now left].
  - apply String.eqb_neq in E. rewrite IH. tauto.
Qed.

Lemma lookup_in q b (s : fs) : lookup q s = Some b -> In (q, b) s.
Proof.
  induction s as [|[r c] s IH]; cbn; [discriminate|].
  destruct (String.eqb r q) eqn:E.
  - apply String.eqb_eq in E. intros [= ->]. subst. now left.
  - intros H. right. auto.
Qed.

(* paths an operation can modify *)
Definition op_targets (o : op) : list path :=
  match o with
  | OpenTrunc p | OpenNew p | Append p _ | Unlink p => [p]
  | Rename p q => [p; q]
  | Sync _ | Close _ | Other _ => []
  end.

Lemma apply_op_other o q s : ~ In q (op_targets o) -> lookup q (apply_op s o) = lookup q s.
Proof.
  destruct o as [p|p|p c|p|p|p r|p|w]; cbn; intros N; try reflexivity.
  - apply lookup_set_other. tauto.
  - destruct (lookup p s); [reflexivity | apply lookup_set_other; tauto].
  - destruct (lookup p s); [apply lookup_set_other; tauto | reflexivity].
  - destruct (lookup p s); [|reflexivity].
    rewrite lookup_set_other by tauto. apply lookup_remove_other. tauto.
  - apply lookup_remove_other. tauto.
Qed.

Lemma run_ops_cons o ops s : run_ops (o :: ops) s = run_ops ops (apply_op s o).
Proof. reflexivity. Qed.

Lemma run_ops_app a b s : run_ops (a ++ b) s = run_ops b (run_ops a s).
Proof. unfold run_ops. apply fold_left_app. Qed.

Lemma run_ops_other ops q : forall s,
  (forall o, In o ops -> ~ In q (op_targets o)) -> lookup q (run_ops ops s) = lookup q s.
Proof.
  induction ops as [|o ops IH]; intros s H; [reflexivity|].
  rewrite run_ops_cons, IH.
  - apply apply_op_other, H. now left.
  - intros o' Ho'. apply H. now right.
Qed.

Lemma run_appends p cs : forall s b,
  lookup p s = Some b -> lookup p (run_ops (map (Append p) cs) s) = Some (b +++ sconcat cs).
Proof.
  induction cs as [|c cs IH]; intros s b H; cbn [map sconcat].
  - now rewrite append_nil_r.
  - rewrite run_ops_cons. cbn [apply_op]. rewrite H.
    rewrite (IH _ (b +++ c)) by apply lookup_set_same. now rewrite sapp_assoc.
Qed.

Lemma write_ops_targets p cs o : In o (write_ops p cs) -> forall q, In q (op_targets o) -> q = p.
Proof.
  unfold write_ops. intros [<-|H] q; [cbn; intuition congruence|].
  apply in_app_or in H as [H|[<-|[]]]; [|cbn; intuition congruence].
  apply in_map_iff in H as (c & <- & _). cbn. intuition congruence.
Qed.

Lemma write_ops_result p cs s : lookup p (run_ops (write_ops p cs) s) = Some (sconcat cs).
Proof.
  unfold write_ops. rewrite run_ops_cons, run_ops_app. cbn [apply_op].
  change (run_ops [Close p] ?x) with x.
  rewrite (run_appends p cs _ "") by apply lookup_set_same. reflexivity.
Qed.

Lemma write_ops_other p cs q s : q <> p -> lookup q (run_ops (write_ops p cs) s) = lookup q s.
Proof.
  intros N. apply run_ops_other. intros o Ho Hq. apply N. eapply write_ops_targets; eauto.
Qed.

(* ---------- lists ---------------------------------------------------------------------------- *)

Lemma in_firstn {A} (x : A) m : forall l, In x (firstn m l) -> In x l.
Proof. induction m as [|m IH]; intros [|y l]; cbn; try tauto. intros [->|H]; auto. Qed.

Lemma firstn_snoc_cases {A} (l : list A) x m :
  firstn m (l ++ [x]) = firstn m l \/ firstn m (l ++ [x]) = l ++ [x].
Proof.
  rewrite firstn_app. destruct (le_lt_dec m (length l)) as [L|L].
  - left. replace (m - length l) with 0 by lia. cbn. apply app_nil_r.
  - right. rewrite firstn_all2 by lia. f_equal.
    destruct (m - length l) as [|d] eqn:E; [lia|]. cbn. now rewrite firstn_nil.
Qed.

(* a prefix of a concatenation of groups = some complete groups, then a prefix of the next *)
Lemma firstn_flat_map {A B} (f : A -> list B) l : forall n,
  exists l1 l2 m, l = l1 ++ l2 /\
    firstn n (flat_map f l) = flat_map f l1 ++ match l2 with [] => [] | k :: _ => firstn m (f k) end.
Proof.
  induction l as [|a l IH]; intros n.
  - exists [], [], 0. split; [reflexivity|]. now rewrite firstn_nil.
  - cbn [flat_map]. rewrite firstn_app. destruct (le_lt_dec n (length (f a))) as [L|L].
    + exists [], (a :: l), n. split; [reflexivity|].
      replace (n - length (f a)) with 0 by lia. cbn. now rewrite app_nil_r.
    + destruct (IH (n - length (f a))) as (l1 & l2 & m & -> & E).
      exists (a :: l1), l2, m. split; [reflexivity|].
      rewrite firstn_all2 by lia. rewrite E. cbn [flat_map]. now rewrite app_assoc.
Qed.

Lemma in_dedup x l : In x (dedup l) <-> In x l.
Proof.
  induction l as [|y l IH]; cbn; [tauto|].
  destruct (existsb (String.eqb y) l) eqn:E.
  - rewrite IH. split; [tauto|]. intros [->|H]; [|exact H].
    apply existsb_exists in E as (z & Hz & Ez). apply String.eqb_eq in Ez. now subst.
  - cbn. rewrite IH. tauto.
Qed.

(* ---------- the temporary name ------------------------------------------------------------------ *)

Lemma first_free_range p s fuel : forall i, i <= first_free p s fuel i <= i + fuel.
Proof.
  induction fuel as [|f IH]; intros i; cbn [first_free]; [lia|].
  destruct (lookup (tmp_cand p i) s); [|lia]. specialize (IH (S i)). lia.
Qed.

Lemma first_free_busy p s fuel : forall i j,
  i <= j < first_free p s fuel i -> lookup (tmp_cand p j) s <> None.
Proof.
  induction fuel as [|f IH]; intros i j H; cbn [first_free] in H; [lia|].
  destruct (lookup (tmp_cand p i) s) eqn:E; [|lia].
  destruct (Nat.eq_dec j i) as [->|N]; [congruence|]. apply (IH (S i)). lia.
Qed.

Lemma first_free_free p s fuel : forall i,
  first_free p s fuel i < i + fuel -> lookup (tmp_cand p (first_free p s fuel i)) s = None.
Proof.
  induction fuel as [|f IH]; intros i H; cbn [first_free] in *; [lia|].
  destruct (lookup (tmp_cand p i) s) eqn:E; [|exact E]. apply IH. lia.
Qed.

Lemma NoDup_map_inj {A B} (f : A -> B) l :
  (forall x y, f x = f y -> x = y) -> NoDup l -> NoDup (map f l).
Proof.
  intros Hf H. induction H as [|x l Hx _ IH]; cbn [map]; constructor; [|exact IH].
  intros Hin. apply in_map_iff in Hin as (y & E & Hy). apply Hf in E. subst. contradiction.
Qed.

(* n different candidate names that all exist: the file system has at least n files *)
Lemma busy_bound p (s : fs) n :
  (forall j, j < n -> lookup (tmp_cand p j) s <> None) -> n <= length s.
Proof.
  intros H.
  assert (L : length (map (tmp_cand p) (seq 0 n)) <= length (map fst s)).
  { apply NoDup_incl_length.
    - apply NoDup_map_inj; [intros i j; apply tmp_cand_inj | apply seq_NoDup].
    - intros q Hq. apply in_map_iff in Hq as (j & <- & Hj). apply in_seq in Hj.
      destruct (lookup (tmp_cand p j) s) as [b|] eqn:E; [|exfalso; apply (H j); [lia | exact E]].
      apply lookup_in in E. apply in_map_iff. exists (tmp_cand p j, b). auto. }
  rewrite !map_length, seq_length in L. exact L.
Qed.

(* the fuel of [tmp_index] suffices: the name chosen does not exist, and every candidate
   before it does (so it is the FIRST free candidate, whatever the number of files) *)
Lemma tmp_index_spec s p :
  lookup (tmp_of s p) s = None /\ forall j, j < tmp_index s p -> lookup (tmp_cand p j) s <> None.
Proof.
  unfold tmp_of, tmp_index. split.
  - pose proof (first_free_range p s (length s) 0) as R.
    destruct (Nat.eq_dec (first_free p s (length s) 0) (length s)) as [E|N].
    + destruct (lookup (tmp_cand p (first_free p s (length s) 0)) s) as [b|] eqn:L; [|reflexivity].
      exfalso. assert (X : S (length s) <= length s); [|lia].
      apply (busy_bound p). intros j Hj. destruct (Nat.eq_dec j (length s)) as [->|Nj].
      * rewrite E in L. congruence.
      * apply (first_free_busy p s (length s) 0). lia.
    + apply first_free_free. lia.
  - intros j Hj. apply (first_free_busy p s (length s) 0). lia.
Qed.

Lemma tmp_free s p : lookup (tmp_of s p) s = None.
Proof. apply tmp_index_spec. Qed.

(* the name depends only on which candidates exist *)
Lemma tmp_of_ext s s' p :
  (forall i, lookup (tmp_cand p i) s = lookup (tmp_cand p i) s') -> tmp_of s p = tmp_of s' p.
Proof.
  intros H. destruct (tmp_index_spec s p) as [F B], (tmp_index_spec s' p) as [F' B'].
  unfold tmp_of in *. f_equal.
  destruct (lt_eq_lt_dec (tmp_index s p) (tmp_index s' p)) as [[L|E]|L]; [|exact E|]; exfalso.
  - apply (B' _ L). now rewrite <- H.
  - apply (B _ L). now rewrite H.
Qed.

(* the opens that answer EEXIST *)
Definition probes (s : fs) (p : path) : list op :=
  map (fun i => OpenNew (tmp_cand p i)) (seq 0 (tmp_index s p)).

Lemma create_ops_split s p : create_ops s p = probes s p ++ [OpenNew (tmp_of s p)].
Proof. unfold create_ops, probes, tmp_of. rewrite seq_S, map_app. reflexivity. Qed.

Lemma probes_noop s p : forall o, In o (probes s p) -> apply_op s o = s.
Proof.
  intros o H. apply in_map_iff in H as (j & <- & Hj). apply in_seq in Hj. cbn [apply_op].
  destruct (lookup (tmp_cand p j) s) eqn:E; [reflexivity|]. exfalso.
  destruct (tmp_index_spec s p) as [_ B]. apply (B j); [lia | exact E].
Qed.

Lemma run_noops ops s : (forall o, In o ops -> apply_op s o = s) -> run_ops ops s = s.
Proof.
  induction ops as [|o ops IH]; intros H; [reflexivity|].
  rewrite run_ops_cons, H by now left. apply IH. intros o' Ho'. apply H. now right.
Qed.

(* what a group does before its rename: nothing outside its temporary file *)
Definition group_pre (s : fs) (p : path) (cs : list bytes) : list op :=
  create_ops s p ++ map (Append (tmp_of s p)) cs ++ [Close (tmp_of s p)].

Lemma group_pre_other s p cs m q :
  q <> tmp_of s p -> lookup q (run_ops (firstn m (group_pre s p cs)) s) = lookup q s.
Proof.
  intros N. unfold group_pre. rewrite create_ops_split, <- app_assoc, firstn_app, run_ops_app.
  rewrite (run_noops (firstn m (probes s p))).
  - apply run_ops_other. intros o Ho Hq. apply in_firstn in Ho. apply N.
    cbn [app] in Ho. destruct Ho as [<-|Ho]; [cbn in Hq; intuition congruence|].
    apply in_app_or in Ho as [Ho|[<-|[]]]; [|cbn in Hq; tauto].
    apply in_map_iff in Ho as (c & <- & _). cbn in Hq. intuition congruence.
  - intros o Ho. apply in_firstn in Ho. now apply (probes_noop s p).
Qed.

(* ---------- the write sequence ------------------------------------------------------------------ *)

Section Normalize.
  Variable export : string -> bytes.
  Variable chunks : string -> list bytes.
  (* `write_all` writes the whole buffer, in pieces of any size *)
  Hypothesis chunks_ok : forall k, sconcat (chunks k) = export k.

  Notation file_ops := (file_ops chunks).
  Notation normalize_ops := (normalize_ops chunks).

  (* --- one note, complete: the note holds the exported bytes, every other path — the
         temporary name included, which did not exist — is as it was ------------------------------ *)

  Lemma file_ops_regroup s k :
    file_ops Repaired s k =
      group_pre s (note_path k) (chunks k) ++ [Rename (tmp_of s (note_path k)) (note_path k)].
  Proof. cbn [file_ops Fs.file_ops]. unfold group_pre. now rewrite <- !app_assoc. Qed.

  Lemma group_effect v k s q :
    lookup q (run_ops (file_ops v s k) s) =
      if String.eqb (note_path k) q then Some (export k) else lookup q s.
  Proof.
    destruct v; cbn [file_ops Fs.file_ops].
    - destruct (String.eqb_spec (note_path k) q) as [<-|N].
      + now rewrite write_ops_result, chunks_ok.
      + apply write_ops_other. congruence.
    - set (p := note_path k). set (t := tmp_of s p).
      assert (Ft : lookup t s = None) by apply tmp_free.
      rewrite create_ops_split. fold t. rewrite <- app_assoc, run_ops_app.
      rewrite (run_noops (probes s p)) by apply probes_noop.
      cbn [app]. rewrite run_ops_cons. cbn [apply_op]. rewrite Ft, run_ops_app.
      set (s2 := run_ops (map (Append t) (chunks k)) (set t "" s)).
      assert (T2 : lookup t s2 = Some (export k)).
      { unfold s2. rewrite (run_appends t _ _ "") by apply lookup_set_same.
        cbn [String.append]. now rewrite chunks_ok. }
      assert (O2 : forall q', q' <> t -> lookup q' s2 = lookup q' s).
      { intros q' N. unfold s2. rewrite run_ops_other.
        - apply lookup_set_other. congruence.
        - intros o Ho Hq. apply in_map_iff in Ho as (c & <- & _). cbn in Hq. intuition congruence. }
      cbn [run_ops fold_left apply_op]. rewrite T2.
      destruct (String.eqb_spec p q) as [<-|N]; [apply lookup_set_same|].
      rewrite lookup_set_other by exact N.
      destruct (String.eqb_spec t q) as [<-|N2]; [now rewrite lookup_remove_same|].
      rewrite lookup_remove_other by exact N2. apply O2. congruence.
  Qed.

  (* --- the complete run: exactly the note paths are rewritten, with the exported bytes --------- *)

  Definition expected (order : list string) (s0 : fs) (q : path) : option bytes :=
    match find (fun k => String.eqb (note_path k) q) order with
    | Some k => Some (export k)
    | None => lookup q s0
    end.

  Theorem full_run v order : forall s0 q,
    lookup q (run_ops (normalize_ops v order s0) s0) = expected order s0 q.
  Proof.
    induction order as [|k order IH]; intros s0 q; [reflexivity|].
    cbn [normalize_ops Fs.normalize_ops]. rewrite run_ops_app, IH.
    unfold expected. cbn [find].
    destruct (String.eqb_spec (note_path k) q) as [E|N].
    - destruct (find _ order) as [k'|] eqn:F.
      + apply find_some in F as [_ F]. apply String.eqb_eq in F.
        rewrite <- E in F. apply note_path_inj in F. now subst.
      + rewrite group_effect. now rewrite <- E, String.eqb_refl.
    - destruct (find _ order) as [k'|]; [reflexivity|].
      rewrite group_effect. destruct (String.eqb_spec (note_path k) q); [contradiction | reflexivity].
  Qed.

  (* --- any prefix of the repaired sequence (crash), followed by the removal of the temporary
         file (error path): every path is old or new, except at most one temporary file whose
         name did not exist when the run started ---------------------------------------------------- *)

  Section Atomic.
    Variable order : list string.

    (* [q] holds in [s'] what it held in [s], or it is the path of a note of [order] and holds
       the complete exported bytes *)
    Definition old_or_new (s s' : fs) (q : path) : Prop :=
      lookup q s' = lookup q s \/
      exists k, In k order /\ q = note_path k /\ lookup q s' = Some (export k).

    (* what an interrupted run that started from [s0] leaves: every path whatsoever is old or
       new; or the run stopped while writing the note of one key k, and then the same holds for
       every path but one: the temporary file of that note, [tmp_of s0 (note_path k)] — the first
       of its candidate names that did not exist in [s0] (lemma tmp_free) *)
    Definition interrupted (s0 s : fs) : Prop :=
      (forall q, old_or_new s0 s q) \/
      (exists k, In k order /\ forall q, q <> tmp_of s0 (note_path k) -> old_or_new s0 s q).

    Lemma oon_refl s q : old_or_new s s q.
    Proof. now left. Qed.

    Lemma oon_trans s s' s'' q : old_or_new s s' q -> old_or_new s' s'' q -> old_or_new s s'' q.
    Proof.
      intros H1 [H2|H2]; [|now right].
      destruct H1 as [H1|(k & ? & ? & H1)]; [left; congruence|].
      right. exists k. repeat split; auto. congruence.
    Qed.

    (* between two notes the candidate names are as they were at the start: the name chosen for
       the next note is the one the initial directory determines *)
    Lemma tmp_of_stable s0 s k :
      (forall q, old_or_new s0 s q) -> tmp_of s (note_path k) = tmp_of s0 (note_path k).
    Proof.
      intros H. apply tmp_of_ext. intros i.
      destruct (H (tmp_cand (note_path k) i)) as [E|(k' & _ & E & _)]; [exact E|].
      now apply tmp_not_note in E.
    Qed.

    Lemma group_oon k s q : In k order -> old_or_new s (run_ops (file_ops Repaired s k) s) q.
    Proof.
      intros Hk. unfold old_or_new. rewrite group_effect.
      destruct (String.eqb_spec (note_path k) q) as [<-|_]; [right; exists k; auto | now left].
    Qed.

    Lemma group_prefix k m s0 s :
      In k order -> (forall q, old_or_new s0 s q) ->
      interrupted s0 (run_ops (firstn m (file_ops Repaired s k)) s).
    Proof.
      intros Hk H. rewrite file_ops_regroup.
      destruct (firstn_snoc_cases (group_pre s (note_path k) (chunks k))
                  (Rename (tmp_of s (note_path k)) (note_path k)) m) as [E|E]; rewrite E.
      - right. exists k. split; [exact Hk|]. intros q N.
        rewrite <- (tmp_of_stable s0 s k H) in N.
        apply oon_trans with (s' := s); [apply H|]. left. now apply group_pre_other.
      - left. intros q. apply oon_trans with (s' := s); [apply H|].
        rewrite <- file_ops_regroup. now apply group_oon.
    Qed.

    Lemma prefix_interrupted s0 l : forall s n,
      incl l order -> (forall q, old_or_new s0 s q) ->
      interrupted s0 (run_ops (firstn n (normalize_ops Repaired l s)) s).
    Proof.
      induction l as [|k l IH]; intros s n Hi H; cbn [normalize_ops Fs.normalize_ops].
      - rewrite firstn_nil. left. exact H.
      - rewrite firstn_app, run_ops_app.
        destruct (le_lt_dec (length (file_ops Repaired s k)) n) as [L|L].
        + rewrite (firstn_all2 (file_ops Repaired s k)) by exact L.
          apply IH; [intros x Hx; apply Hi; now right|].
          intros q. apply oon_trans with (s' := s); [apply H|]. apply group_oon, Hi. now left.
        + replace (n - length (file_ops Repaired s k)) with 0 by lia. rewrite firstn_O.
          change (run_ops [] ?x) with x. apply group_prefix; [apply Hi; now left | exact H].
    Qed.

    (* the error path of `write_file` (fs.rs:19-23): the temporary file this call created is
       removed — the first free candidate of some note *)
    Definition is_cleanup (s0 : fs) (o : op) : Prop :=
      exists k, In k order /\ o = Unlink (tmp_of s0 (note_path k)).

    Lemma cleanup_interrupted s0 s o :
      is_cleanup s0 o -> interrupted s0 s -> interrupted s0 (apply_op s o).
    Proof.
      intros (k' & Hk' & ->) I. cbn [apply_op]. set (u := tmp_of s0 (note_path k')).
      assert (Fu : forall q, q = u -> old_or_new s0 (remove u s) q).
      { intros q ->. left. rewrite lookup_remove_same. symmetry. apply tmp_free. }
      assert (U : forall q, old_or_new s0 s q -> old_or_new s0 (remove u s) q).
      { intros q Hq. destruct (string_dec q u) as [E|N]; [now apply Fu|].
        destruct Hq as [E|(k & A & B & C)]; [left | right; exists k; repeat split; auto];
          rewrite lookup_remove_other by congruence; assumption. }
      destruct I as [A|(k & Hk & B)].
      - left. intros q. apply U, A.
      - destruct (string_dec u (tmp_of s0 (note_path k))) as [E|N].
        + left. intros q. destruct (string_dec q u) as [Eq|Nq]; [now apply Fu|].
          apply U, B. congruence.
        + right. exists k. split; [exact Hk|]. intros q Nq. apply U, B, Nq.
    Qed.

    Theorem atomic_repaired n cleanup s0 :
      Forall (is_cleanup s0) cleanup ->
      interrupted s0 (run_ops (firstn n (normalize_ops Repaired order s0) ++ cleanup) s0).
    Proof.
      intros Hc. rewrite run_ops_app.
      assert (I : interrupted s0 (run_ops (firstn n (normalize_ops Repaired order s0)) s0))
        by (apply prefix_interrupted; [apply incl_refl | intros q; apply oon_refl]).
      revert I. generalize (run_ops (firstn n (normalize_ops Repaired order s0)) s0) as s.
      induction Hc as [|o cl Ho _ IH]; intros s I; [exact I|].
      rewrite run_ops_cons. apply IH. now apply cleanup_interrupted.
    Qed.
  End Atomic.
End Normalize.

(* ---------- the loader ------------------------------------------------------------------------- *)

Section NodeInd.
  Variable P : node -> Prop.
  Hypothesis HF : forall n c, P (File n c).
  Hypothesis HD : forall n ch, Forall P ch -> P (Dir n ch).
  Fixpoint node_ind2 (x : node) : P x :=
    match x with
    | File n c => HF n c
    | Dir n ch =>
        HD n ch ((fix go (l : list node) : Forall P l :=
                    match l with
                    | [] => Forall_nil _
                    | y :: r => Forall_cons y (node_ind2 y) (go r)
                    end) ch)
    end.
End NodeInd.

(* every loaded note was read from a file of the tree, with that file's content *)
Lemma load_node_in_files n : forall sub l,
  In l (load_node sub n) -> In (l_path l, l_content l) (files_node sub n).
Proof.
  induction n as [name c|name ch IH] using node_ind2; intros sub l; cbn [load_node files_node].
  - destruct (_ && _); [|intros []]. intros [<-|[]]. now left.
  - rewrite !in_flat_map. intros (x & Hx & Hl). exists x. split; [exact Hx|].
    rewrite Forall_forall in IH. now apply IH.
Qed.

Lemma load_in_files t l : In l (load t) -> In (l_path l, l_content l) (files_of t).
Proof.
  unfold load, files_of. rewrite !in_flat_map. intros (x & Hx & Hl). exists x.
  split; [exact Hx | now apply load_node_in_files].
Qed.

Definition nonempty (s : string) : Prop := s <> "".

Lemma join_nonempty sub : sub <> [] -> Forall nonempty sub -> sempty (join SEPS sub) = false.
Proof.
  destruct sub as [|x sub]; [congruence|]. intros _ H. inversion H as [|? ? Hx _]; subst.
  destruct x as [|a x]; [now elim Hx|]. destruct sub; reflexivity.
Qed.

(* a loaded name is its stem plus the one extension that was taken off *)
Lemma stem_md name : has_md_ext name = true -> stem name +++ MD = name.
Proof.
  unfold has_md_ext, stem, strip_md. intros H. apply andb_prop in H as [H _].
  symmetry. now apply strip_suffix_once_some.
Qed.

(* for every loaded entry the key leads back to the path the file was read from *)
Lemma key_path sub name :
  Forall nonempty sub -> has_md_ext name = true -> note_path (key_of sub name) = path_of sub name.
Proof.
  intros Hs Hp. apply stem_md in Hp. unfold note_path, to_path, key_of, path_of.
  rewrite join_snoc. destruct sub as [|x sub]; [exact Hp|].
  rewrite join_nonempty by (congruence || assumption).
  rewrite !sapp_assoc. now rewrite Hp.
Qed.

Lemma load_node_regular n : forall sub l,
  Forall nonempty sub -> names_ok_node n = true ->
  In l (load_node sub n) ->
  note_path (l_key l) = l_path l.
Proof.
  induction n as [name c|name ch IH] using node_ind2; intros sub l Hs Hn; cbn [load_node].
  - destruct (has_md_ext name && utf8_valid c) eqn:E; [|intros []].
    apply andb_prop in E as [Hp _].
    intros [<-|[]]. cbn [l_key l_path]. now apply key_path.
  - cbn [names_ok_node] in Hn. apply andb_prop in Hn as [Hn1 Hn2].
    rewrite in_flat_map. intros (x & Hx & Hl).
    rewrite Forall_forall in IH. apply (IH x Hx (sub ++ [name]) l); auto.
    + apply Forall_app. split; [exact Hs|]. constructor; [|constructor].
      intros ->. discriminate.
    + rewrite forallb_forall in Hn2. now apply Hn2.
Qed.

(* every loaded file - also one named like `x.md.md`, whose key is `x.md` - is written back to the
   path it was read from (the former class [irregular], finding F14-double-md, is gone) *)
Lemma load_regular t l :
  names_ok t = true -> In l (load t) -> note_path (l_key l) = l_path l.
Proof.
  unfold names_ok, load. intros Hn. rewrite in_flat_map. intros (x & Hx & Hl).
  apply (load_node_regular x [] l); auto.
  rewrite forallb_forall in Hn. now apply Hn.
Qed.

(* two loaded files with one key are one file: no note hides another *)
Lemma load_keys_inj t l l' :
  names_ok t = true -> In l (load t) -> In l' (load t) -> l_key l = l_key l' -> l_path l = l_path l'.
Proof.
  intros Hn Hl Hl' E. rewrite <- (load_regular t l Hn Hl), <- (load_regular t l' Hn Hl'). now rewrite E.
Qed.

Lemma in_written_keys t k :
  In k (written_keys t) <-> exists l, In l (load t) /\ k = l_key l.
Proof.
  unfold written_keys, key_name. rewrite in_dedup, in_map_iff. split; intros (l & A & B); exists l; auto.
Qed.

(* ---------- the property, on directory trees ------------------------------------------------------ *)

Section Tree.
  Variable export : string -> bytes.
  Variable chunks : string -> list bytes.
  Hypothesis chunks_ok : forall k, sconcat (chunks k) = export k.

  Variable t : list node.
  Variable order : list string.
  (* the exported HashMap is iterated in some order of the distinct keys *)
  Hypothesis order_ok : forall k, In k order <-> In k (written_keys t).

  Let s0 := files_of t.

  Lemma find_loaded l :
    names_ok t = true -> In l (load t) ->
    find (fun k => String.eqb (note_path k) (l_path l)) order = Some (l_key l).
  Proof.
    intros Hn Hl. pose proof (load_regular t l Hn Hl) as Hp.
    destruct (find _ order) as [k|] eqn:F.
    - apply find_some in F as [_ F]. apply String.eqb_eq in F. rewrite <- Hp in F.
      apply note_path_inj in F. now subst.
    - exfalso.
      assert (Hin : In (l_key l) order) by (apply order_ok, in_written_keys; exists l; auto).
      pose proof (find_none _ _ F (l_key l) Hin) as X. cbn in X.
      rewrite Hp, String.eqb_refl in X. discriminate.
  Qed.

  (* complete run, either variant *)
  Theorem paths_and_content v :
    names_ok t = true ->
    let s := run_ops (normalize_ops chunks v order s0) s0 in
    (forall l, In l (load t) ->
       note_path (l_key l) = l_path l /\ In (l_path l, l_content l) s0 /\
       lookup (l_path l) s = Some (export (l_key l))) /\
    (forall q, (forall l, In l (load t) -> l_path l <> q) -> lookup q s = lookup q s0).
  Proof.
    intros Hn s.
    assert (FR : forall q, lookup q s = expected export order s0 q)
      by (intros q; apply (full_run export chunks chunks_ok)).
    split.
    - intros l Hl. pose proof (load_regular t l Hn Hl) as Hp.
      split; [exact Hp|]. split; [now apply load_in_files|].
      rewrite FR. unfold expected. now rewrite find_loaded.
    - intros q Hq. rewrite FR. unfold expected.
      destruct (find _ order) as [k|] eqn:F; [|reflexivity]. exfalso.
      apply find_some in F as [Hk F]. apply String.eqb_eq in F.
      apply order_ok, in_written_keys in Hk as (l & Hl & ->).
      pose proof (load_regular t l Hn Hl) as Hp. apply (Hq l Hl). congruence.
  Qed.

  (* crash after any number of operations of the repaired sequence, or error stop with removal
     of the temporary file; any directory tree *)
  Theorem atomic_tree n cleanup :
    Forall (is_cleanup order s0) cleanup ->
    let s := run_ops (firstn n (normalize_ops chunks Repaired order s0) ++ cleanup) s0 in
    (* every file that existed holds its old bytes or, if it is the target of a note, the
       complete new bytes *)
    (forall q, In q (map fst s0) -> old_or_new export order s0 s q) /\
    (* every note path likewise *)
    (forall k, In k order -> old_or_new export order s0 s (note_path k)) /\
    (* and so does every other path (nothing else appears or disappears), except at most one:
       the temporary file of the note that was being written, whose name did not exist *)
    ((forall q, old_or_new export order s0 s q) \/
     exists k, In k order /\ lookup (tmp_of s0 (note_path k)) s0 = None /\
               forall q, q <> tmp_of s0 (note_path k) -> old_or_new export order s0 s q).
  Proof.
    intros Hcl s.
    pose proof (atomic_repaired export chunks chunks_ok order n cleanup s0 Hcl) as I. fold s in I.
    repeat split.
    - intros q Hq. destruct I as [A|(k & Hk & B)]; [apply A|]. apply B. intros ->.
      pose proof (tmp_free s0 (note_path k)) as F. now apply lookup_none_notin in F.
    - intros k Hk. destruct I as [A|(k' & Hk' & B)]; [apply A|]. apply B.
      intros E. symmetry in E. now apply tmp_not_note in E.
    - destruct I as [A|(k & Hk & B)]; [now left|]. right. exists k.
      split; [exact Hk|]. split; [apply tmp_free | exact B].
  Qed.
End Tree.

(* ---------- as found: `fs::write` on the note itself ------------------------------------------------ *)

(* one note `a.md` holding "old", export "new": a crash (or a failing first write) right after the
   open leaves the note empty — neither its old nor its new text *)
Theorem as_found_truncates :
  exists (t : list node) (order : list string) (n : nat),
    let export := fun _ : string => "new" in
    let chunks := fun _ : string => ["new"] in
    (forall k, sconcat (chunks k) = export k) /\
    (forall k, In k order <-> In k (written_keys t)) /\
    names_ok t = true /\
    lookup "a.md" (files_of t) = Some "old" /\
    lookup "a.md" (run_ops (firstn n (normalize_ops chunks AsFound order (files_of t))) (files_of t)) = Some "".
Proof.
  exists [File "a.md" "old"], ["a"], 1. cbn zeta. repeat split; try reflexivity.
  - intros [H|[]]. now left.
  - intros [H|[]]. now left.
Qed.

(* the former witness of F14-double-md, now an ordinary tree: `x.md.md` is loaded under the key `x.md`,
   next to `x.md` (key `x`), and each is rewritten in place; nothing is created *)
Theorem double_md_in_place :
  let t := [File "x.md.md" "old"; File "x.md" "other"] in
  let export := fun k : string => "new " +++ k in
  let chunks := fun k : string => ["new "; k] in
  forall (order : list string) (v : variant),
    (forall k, In k order <-> In k (written_keys t)) ->
    names_ok t = true /\ written_keys t = ["x.md"; "x"] /\
    map (fun l => (l_key l, l_path l)) (load t) = [("x.md", "x.md.md"); ("x", "x.md")] /\
    let s := run_ops (normalize_ops chunks v order (files_of t)) (files_of t) in
    lookup "x.md.md" s = Some "new x.md" /\ lookup "x.md" s = Some "new x" /\
    forall q, q <> "x.md.md" -> q <> "x.md" -> lookup q s = None.
Proof.
  intros t export chunks order v Ho.
  assert (Hc : forall k, sconcat (chunks k) = export k).
  { intros k. unfold chunks, export. cbn [sconcat]. f_equal. apply append_nil_r. }
  destruct (paths_and_content export chunks Hc t order Ho v eq_refl) as [A B].
  split; [reflexivity|]. split; [reflexivity|]. split; [reflexivity|]. cbv zeta. split; [|split].
  - destruct (A (Loaded "x.md" "x.md.md" "old")) as (_ & _ & X); [now left | exact X].
  - destruct (A (Loaded "x" "x.md" "other")) as (_ & _ & X); [right; now left | exact X].
  - intros q H1 H2. rewrite B.
    + change (lookup q (files_of t))
        with (if String.eqb "x.md.md" q then Some "old" else if String.eqb "x.md" q then Some "other" else @None bytes).
      destruct (String.eqb_spec "x.md.md" q); [congruence|]. destruct (String.eqb_spec "x.md" q); [congruence|]. reflexivity.
    + intros l [<-|[<-|[]]]; cbn; congruence.
Qed.
