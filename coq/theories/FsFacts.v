(* FsFacts.v — proofs about layer F (Fs.v): the write sequence of `iwe normalize`.
   Unbounded over directory trees, key orders, chunkings of every write and crash points. *)
From IweV Require Import Str RelPath RelPathFacts Fs.
Local Open Scope string_scope.
Local Open Scope list_scope.

(* ---------- strings ------------------------------------------------------------------------ *)

Lemma sapp_inv_head (c a b : string) : c +++ a = c +++ b -> a = b.
Proof. induction c as [|x c IH]; cbn; [auto|]. intros [= H]. auto. Qed.

Lemma sapp_inv_tail (a b c : string) : a +++ c = b +++ c -> a = b.
Proof.
  intros H. apply (f_equal srev) in H. rewrite !srev_append in H.
  apply sapp_inv_head in H. apply (f_equal srev) in H. now rewrite !srev_involutive in H.
Qed.

Lemma slength_app (a b : string) : String.length (a +++ b) = String.length a + String.length b.
Proof. induction a as [|x a IH]; cbn; [reflexivity | now rewrite IH]. Qed.

Lemma note_path_inj k k' : note_path k = note_path k' -> k = k'.
Proof. apply sapp_inv_tail. Qed.

Lemma tmp_of_inj p q : tmp_of p = tmp_of q -> p = q.
Proof. apply sapp_inv_tail. Qed.

Lemma tmp_neq p : tmp_of p <> p.
Proof.
  intros H. apply (f_equal String.length) in H. unfold tmp_of in H. rewrite slength_app in H.
  cbn in H. lia.
Qed.

(* a temporary name is never the path of a note: it cannot shadow one, and the loader
   ignores it (its extension is `tmp`) *)
Lemma tmp_not_note p k : tmp_of p <> note_path k.
Proof.
  intros H. apply (f_equal srev) in H. unfold tmp_of, note_path, to_path, TMP, MD in H.
  rewrite !srev_append in H. cbn in H. discriminate.
Qed.

Lemma tmp_not_loaded p : has_md_ext (tmp_of p) = false.
Proof.
  unfold has_md_ext, ends_with, tmp_of, TMP. rewrite srev_append. reflexivity.
Qed.

(* ---------- the file system ------------------------------------------------------------------ *)

Lemma lookup_remove_same p s : lookup p (remove p s) = None.
Proof.
  induction s as [|[q b] s IH]; cbn; [reflexivity|].
  destruct (String.eqb q p) eqn:E; [exact IH | cbn; rewrite E; exact IH].
Qed.

Lemma lookup_remove_other p q s : p <> q -> lookup q (remove p s) = lookup q s.
Proof.
  intros N. induction s as [|[r b] s IH]; cbn; [reflexivity|].
  destruct (String.eqb r p) eqn:E.
  - apply String.eqb_eq in E; subst r.
    destruct (String.eqb p q) eqn:E2; [apply String.eqb_eq in E2; contradiction | exact IH].
  - cbn. destruct (String.eqb r q); [reflexivity | exact IH].
Qed.

Lemma lookup_set_same p b s : lookup p (set p b s) = Some b.
Proof. unfold set; cbn. now rewrite String.eqb_refl. Qed.

Lemma lookup_set_other p q b s : p <> q -> lookup q (set p b s) = lookup q s.
Proof.
  intros N. unfold set; cbn.
  destruct (String.eqb p q) eqn:E; [apply String.eqb_eq in E; contradiction|].
  now apply lookup_remove_other.
Qed.

Lemma lookup_none_notin q (s : fs) : lookup q s = None <-> ~ In q (map fst s).
Proof.
  induction s as [|[r b] s IH]; cbn; [tauto|].
  destruct (String.eqb r q) eqn:E.
  - apply String.eqb_eq in E. split; [discriminate | intros H; exfalso; apply H; now left].
  - apply String.eqb_neq in E. rewrite IH. tauto.
Qed.

Lemma lookup_in q b (s : fs) : lookup q s = Some b -> In (q, b) s.
Proof.
  induction s as [|[r c] s IH]; cbn; [discriminate|].
  destruct (String.eqb r q) eqn:E.
  - apply String.eqb_eq in E. intros [= ->]. subst. now left.
  - intros H. right. auto.
Qed.

(* paths an operation can modify *)
Definition op_targets (o : op) : list path :=
  match o with
  | OpenTrunc p | Append p _ | Unlink p => [p]
  | Rename p q => [p; q]
  | Sync _ | Close _ | Other _ => []
  end.

Lemma apply_op_other o q s : ~ In q (op_targets o) -> lookup q (apply_op s o) = lookup q s.
Proof.
  destruct o as [p|p c|p|p|p r|p|w]; cbn; intros N; try reflexivity.
  - apply lookup_set_other. tauto.
  - destruct (lookup p s); [apply lookup_set_other; tauto | reflexivity].
  - destruct (lookup p s); [|reflexivity].
    rewrite lookup_set_other by tauto. apply lookup_remove_other. tauto.
  - apply lookup_remove_other. tauto.
Qed.

Lemma run_ops_cons o ops s : run_ops (o :: ops) s = run_ops ops (apply_op s o).
Proof. reflexivity. Qed.

Lemma run_ops_app a b s : run_ops (a ++ b) s = run_ops b (run_ops a s).
Proof. unfold run_ops. apply fold_left_app. Qed.

Lemma run_ops_other ops q : forall s,
  (forall o, In o ops -> ~ In q (op_targets o)) -> lookup q (run_ops ops s) = lookup q s.
Proof.
  induction ops as [|o ops IH]; intros s H; [reflexivity|].
  rewrite run_ops_cons, IH.
  - apply apply_op_other, H. now left.
  - intros o' Ho'. apply H. now right.
Qed.

Lemma run_appends p cs : forall s b,
  lookup p s = Some b -> lookup p (run_ops (map (Append p) cs) s) = Some (b +++ sconcat cs).
Proof.
  induction cs as [|c cs IH]; intros s b H; cbn [map sconcat].
  - now rewrite append_nil_r.
  - rewrite run_ops_cons. cbn [apply_op]. rewrite H.
    rewrite (IH _ (b +++ c)) by apply lookup_set_same. now rewrite sapp_assoc.
Qed.

Lemma write_ops_targets p cs o : In o (write_ops p cs) -> forall q, In q (op_targets o) -> q = p.
Proof.
  unfold write_ops. intros [<-|H] q; [cbn; intuition congruence|].
  apply in_app_or in H as [H|[<-|[]]]; [|cbn; intuition congruence].
  apply in_map_iff in H as (c & <- & _). cbn. intuition congruence.
Qed.

Lemma write_ops_result p cs s : lookup p (run_ops (write_ops p cs) s) = Some (sconcat cs).
Proof.
  unfold write_ops. rewrite run_ops_cons, run_ops_app. cbn [apply_op].
  change (run_ops [Close p] ?x) with x.
  rewrite (run_appends p cs _ "") by apply lookup_set_same. reflexivity.
Qed.

Lemma write_ops_other p cs q s : q <> p -> lookup q (run_ops (write_ops p cs) s) = lookup q s.
Proof.
  intros N. apply run_ops_other. intros o Ho Hq. apply N. eapply write_ops_targets; eauto.
Qed.

(* ---------- lists ---------------------------------------------------------------------------- *)

Lemma in_firstn {A} (x : A) m : forall l, In x (firstn m l) -> In x l.
Proof. induction m as [|m IH]; intros [|y l]; cbn; try tauto. intros [->|H]; auto. Qed.

Lemma firstn_snoc_cases {A} (l : list A) x m :
  firstn m (l ++ [x]) = firstn m l \/ firstn m (l ++ [x]) = l ++ [x].
Proof.
  rewrite firstn_app. destruct (le_lt_dec m (length l)) as [L|L].
  - left. replace (m - length l) with 0 by lia. cbn. apply app_nil_r.
  - right. rewrite firstn_all2 by lia. f_equal.
    destruct (m - length l) as [|d] eqn:E; [lia|]. cbn. now rewrite firstn_nil.
Qed.

(* a prefix of a concatenation of groups = some complete groups, then a prefix of the next *)
Lemma firstn_flat_map {A B} (f : A -> list B) l : forall n,
  exists l1 l2 m, l = l1 ++ l2 /\
    firstn n (flat_map f l) = flat_map f l1 ++ match l2 with [] => [] | k :: _ => firstn m (f k) end.
Proof.
  induction l as [|a l IH]; intros n.
  - exists [], [], 0. split; [reflexivity|]. now rewrite firstn_nil.
  - cbn [flat_map]. rewrite firstn_app. destruct (le_lt_dec n (length (f a))) as [L|L].
    + exists [], (a :: l), n. split; [reflexivity|].
      replace (n - length (f a)) with 0 by lia. cbn. now rewrite app_nil_r.
    + destruct (IH (n - length (f a))) as (l1 & l2 & m & -> & E).
      exists (a :: l1), l2, m. split; [reflexivity|].
      rewrite firstn_all2 by lia. rewrite E. cbn [flat_map]. now rewrite app_assoc.
Qed.

Lemma in_dedup x l : In x (dedup l) <-> In x l.
Proof.
  induction l as [|y l IH]; cbn; [tauto|].
  destruct (existsb (String.eqb y) l) eqn:E.
  - rewrite IH. split; [tauto|]. intros [->|H]; [|exact H].
    apply existsb_exists in E as (z & Hz & Ez). apply String.eqb_eq in Ez. now subst.
  - cbn. rewrite IH. tauto.
Qed.

(* ---------- the write sequence ------------------------------------------------------------------ *)

Section Normalize.
  Variable export : string -> bytes.
  Variable chunks : string -> list bytes.
  (* `write_all` writes the whole buffer, in pieces of any size *)
  Hypothesis chunks_ok : forall k, sconcat (chunks k) = export k.

  Notation file_ops := (file_ops chunks).
  Notation normalize_ops := (normalize_ops chunks).

  (* --- one note, complete -------------------------------------------------------------------- *)

  Definition tmp_hit (v : variant) (k : string) (q : path) : bool :=
    match v with Repaired => String.eqb (tmp_of (note_path k)) q | AsFound => false end.

  Lemma group_effect v k s q :
    lookup q (run_ops (file_ops v k) s) =
      if String.eqb (note_path k) q then Some (export k)
      else if tmp_hit v k q then None else lookup q s.
  Proof.
    destruct v; cbn [file_ops Fs.file_ops tmp_hit].
    - destruct (String.eqb_spec (note_path k) q) as [<-|N].
      + now rewrite write_ops_result, chunks_ok.
      + apply write_ops_other. congruence.
    - rewrite run_ops_app. cbn [run_ops fold_left apply_op].
      fold (run_ops (write_ops (tmp_of (note_path k)) (chunks k)) s).
      rewrite write_ops_result, chunks_ok.
      destruct (String.eqb_spec (note_path k) q) as [<-|N]; [apply lookup_set_same|].
      rewrite lookup_set_other by exact N.
      destruct (String.eqb_spec (tmp_of (note_path k)) q) as [<-|N2]; [apply lookup_remove_same|].
      rewrite lookup_remove_other by exact N2. apply write_ops_other. congruence.
  Qed.

  (* --- the complete run: exactly the note paths are rewritten, with the exported bytes --------- *)

  Definition expected (order : list string) (s0 : fs) (q : path) : option bytes :=
    match find (fun k => String.eqb (note_path k) q) order with
    | Some k => Some (export k)
    | None => lookup q s0
    end.

  Theorem full_run v order : forall s0,
    (v = Repaired -> forall k, In k order -> lookup (tmp_of (note_path k)) s0 = None) ->
    forall q, lookup q (run_ops (normalize_ops v order) s0) = expected order s0 q.
  Proof.
    induction order as [|k order IH]; intros s0 Ht q; [reflexivity|].
    cbn [normalize_ops Fs.normalize_ops flat_map]. rewrite run_ops_app.
    fold (normalize_ops v order). rewrite IH.
    - unfold expected. cbn [find].
      destruct (String.eqb_spec (note_path k) q) as [E|N].
      + destruct (find _ order) as [k'|] eqn:F.
        * apply find_some in F as [_ F]. apply String.eqb_eq in F.
          rewrite <- E in F. apply note_path_inj in F. now subst.
        * rewrite group_effect. now rewrite <- E, String.eqb_refl.
      + destruct (find _ order) as [k'|]; [reflexivity|].
        rewrite group_effect. destruct (String.eqb_spec (note_path k) q); [contradiction|].
        destruct v; cbn [tmp_hit]; [reflexivity|].
        destruct (String.eqb_spec (tmp_of (note_path k)) q) as [<-|]; [|reflexivity].
        symmetry. apply Ht; [reflexivity | now left].
    - intros -> k' Hk'. rewrite group_effect.
      destruct (String.eqb_spec (note_path k) (tmp_of (note_path k'))) as [E|_].
      + symmetry in E. now apply tmp_not_note in E.
      + cbn [tmp_hit]. destruct (String.eqb _ _); [reflexivity|].
        apply Ht; [reflexivity | now right].
  Qed.

  (* --- any prefix of the repaired sequence (crash), followed by the removal of temporary
         files (error path): every path other than a temporary file is old or new ------------------ *)

  Section Atomic.
    Variable order : list string.

    (* [q] holds in [s'] what it held in [s], or it is the path of a note of [order] and holds
       the complete exported bytes *)
    Definition old_or_new (s s' : fs) (q : path) : Prop :=
      lookup q s' = lookup q s \/
      exists k, In k order /\ q = note_path k /\ lookup q s' = Some (export k).

    Lemma oon_refl s q : old_or_new s s q.
    Proof. now left. Qed.

    Lemma oon_trans s s' s'' q : old_or_new s s' q -> old_or_new s' s'' q -> old_or_new s s'' q.
    Proof.
      intros H1 [H2|H2]; [|now right].
      destruct H1 as [H1|(k & ? & ? & H1)]; [left; congruence|].
      right. exists k. repeat split; auto. congruence.
    Qed.

    Lemma group_prefix k m s q :
      In k order -> q <> tmp_of (note_path k) ->
      old_or_new s (run_ops (firstn m (file_ops Repaired k)) s) q.
    Proof.
      intros Hk N. cbn [file_ops Fs.file_ops].
      destruct (firstn_snoc_cases (write_ops (tmp_of (note_path k)) (chunks k))
                  (Rename (tmp_of (note_path k)) (note_path k)) m) as [E|E]; rewrite E.
      - left. apply run_ops_other. intros o Ho Hq. apply in_firstn in Ho.
        apply N. eapply write_ops_targets; eauto.
      - unfold old_or_new. pose proof (group_effect Repaired k s q) as G.
        cbn [file_ops Fs.file_ops tmp_hit] in G. rewrite G.
        destruct (String.eqb_spec (note_path k) q) as [<-|_].
        + right. exists k. auto.
        + left. destruct (String.eqb_spec (tmp_of (note_path k)) q); [congruence | reflexivity].
    Qed.

    Lemma groups_oon l : forall s q,
      incl l order -> (forall k, In k l -> q <> tmp_of (note_path k)) ->
      old_or_new s (run_ops (flat_map (file_ops Repaired) l) s) q.
    Proof.
      induction l as [|k l IH]; intros s q Hi N; [apply oon_refl|].
      cbn [flat_map]. rewrite run_ops_app.
      apply oon_trans with (s' := run_ops (file_ops Repaired k) s).
      - rewrite <- (firstn_all (file_ops Repaired k)).
        apply group_prefix; [apply Hi; now left | apply N; now left].
      - apply IH; [intros x Hx; apply Hi; now right | intros x Hx; apply N; now right].
    Qed.

    Definition is_cleanup (o : op) : Prop := exists k, In k order /\ o = Unlink (tmp_of (note_path k)).

    Theorem atomic_repaired n cleanup s0 q :
      Forall is_cleanup cleanup ->
      (forall k, In k order -> q <> tmp_of (note_path k)) ->
      old_or_new s0 (run_ops (firstn n (normalize_ops Repaired order) ++ cleanup) s0) q.
    Proof.
      intros Hc N. rewrite run_ops_app.
      apply oon_trans with (s' := run_ops (firstn n (normalize_ops Repaired order)) s0).
      - unfold Fs.normalize_ops.
        destruct (firstn_flat_map (file_ops Repaired) order n) as (l1 & l2 & m & E & E2).
        rewrite E2, run_ops_app.
        apply oon_trans with (s' := run_ops (flat_map (file_ops Repaired) l1) s0).
        + apply groups_oon; [rewrite E; intros x Hx; apply in_or_app; now left|].
          intros k Hk. apply N. rewrite E. apply in_or_app. now left.
        + destruct l2 as [|k l2]; [apply oon_refl|].
          apply group_prefix; [|apply N]; rewrite E; apply in_or_app; right; now left.
      - left. apply run_ops_other.
        intros o Ho Hq. rewrite Forall_forall in Hc. destruct (Hc o Ho) as (k & Hk & ->).
        cbn in Hq. destruct Hq as [<-|[]]. now apply (N k).
    Qed.
  End Atomic.
End Normalize.

(* ---------- the loader ------------------------------------------------------------------------- *)

Section NodeInd.
  Variable P : node -> Prop.
  Hypothesis HF : forall n c, P (File n c).
  Hypothesis HD : forall n ch, Forall P ch -> P (Dir n ch).
  Fixpoint node_ind2 (x : node) : P x :=
    match x with
    | File n c => HF n c
    | Dir n ch =>
        HD n ch ((fix go (l : list node) : Forall P l :=
                    match l with
                    | [] => Forall_nil _
                    | y :: r => Forall_cons y (node_ind2 y) (go r)
                    end) ch)
    end.
End NodeInd.

(* every loaded note was read from a file of the tree, with that file's content *)
Lemma load_node_in_files n : forall sub l,
  In l (load_node sub n) -> In (l_path l, l_content l) (files_node sub n).
Proof.
  induction n as [name c|name ch IH] using node_ind2; intros sub l; cbn [load_node files_node].
  - destruct (_ && _); [|intros []]. intros [<-|[]]. now left.
  - rewrite !in_flat_map. intros (x & Hx & Hl). exists x. split; [exact Hx|].
    rewrite Forall_forall in IH. now apply IH.
Qed.

Lemma load_in_files t l : In l (load t) -> In (l_path l, l_content l) (files_of t).
Proof.
  unfold load, files_of. rewrite !in_flat_map. intros (x & Hx & Hl). exists x.
  split; [exact Hx | now apply load_node_in_files].
Qed.

Definition nonempty (s : string) : Prop := s <> "".

Lemma join_nonempty sub : sub <> [] -> Forall nonempty sub -> sempty (join SEPS sub) = false.
Proof.
  destruct sub as [|x sub]; [congruence|]. intros _ H. inversion H as [|? ? Hx _]; subst.
  destruct x as [|a x]; [now elim Hx|]. destruct sub; reflexivity.
Qed.

(* for a regular entry the key leads back to the path the file was read from *)
Lemma key_path sub name :
  Forall nonempty sub -> plain_md name = true -> note_path (key_of sub name) = path_of sub name.
Proof.
  intros Hs Hp. apply String.eqb_eq in Hp. unfold note_path, to_path, key_of, path_of.
  rewrite join_snoc. destruct sub as [|x sub]; [exact Hp|].
  rewrite join_nonempty by (congruence || assumption).
  rewrite !sapp_assoc. now rewrite Hp.
Qed.

Lemma load_node_regular n : forall sub l,
  Forall nonempty sub -> names_ok_node n = true -> irregular_node sub n = false ->
  In l (load_node sub n) ->
  key_from_file_name (l_key l) = l_key l /\ note_path (l_key l) = l_path l.
Proof.
  induction n as [name c|name ch IH] using node_ind2; intros sub l Hs Hn Hi; cbn [load_node].
  - cbn [irregular_node] in Hi. destruct (has_md_ext name && utf8_valid c); [|intros []].
    cbn in Hi. apply negb_false_iff in Hi. unfold regular_entry in Hi.
    apply andb_prop in Hi as [Hp Hk]. apply String.eqb_eq in Hk.
    intros [<-|[]]. cbn [l_key l_path]. split; [exact Hk | now apply key_path].
  - cbn [names_ok_node irregular_node] in Hn, Hi. apply andb_prop in Hn as [Hn1 Hn2].
    rewrite in_flat_map. intros (x & Hx & Hl).
    rewrite Forall_forall in IH. apply (IH x Hx (sub ++ [name]) l); auto.
    + apply Forall_app. split; [exact Hs|]. constructor; [|constructor].
      intros ->. discriminate.
    + rewrite forallb_forall in Hn2. now apply Hn2.
    + destruct (irregular_node (sub ++ [name]) x) eqn:E; [|reflexivity].
      assert (existsb (irregular_node (sub ++ [name])) ch = true) by (apply existsb_exists; eauto).
      congruence.
Qed.

Lemma load_regular t l :
  names_ok t = true -> irregular t = false -> In l (load t) ->
  key_from_file_name (l_key l) = l_key l /\ note_path (l_key l) = l_path l.
Proof.
  unfold names_ok, irregular, load. intros Hn Hi. rewrite in_flat_map. intros (x & Hx & Hl).
  apply (load_node_regular x [] l); auto.
  - rewrite forallb_forall in Hn. now apply Hn.
  - destruct (irregular_node [] x) eqn:E; [|reflexivity].
    assert (existsb (irregular_node []) t = true) by (apply existsb_exists; eauto). congruence.
Qed.

Lemma in_written_keys t k :
  In k (written_keys t) <-> exists l, In l (load t) /\ k = key_from_file_name (l_key l).
Proof.
  unfold written_keys. rewrite in_dedup, in_map_iff. split; intros (l & A & B); exists l; auto.
Qed.

Lemma no_tmp_clash t k :
  tmp_clash t = false -> In k (written_keys t) -> lookup (tmp_of (note_path k)) (files_of t) = None.
Proof.
  intros Hc Hk. apply lookup_none_notin. intros Hin.
  assert (tmp_clash t = true); [|congruence].
  unfold tmp_clash. apply existsb_exists. exists k. split; [exact Hk|].
  apply existsb_exists. exists (tmp_of (note_path k)). split; [exact Hin | apply String.eqb_refl].
Qed.

(* ---------- the property, on directory trees ------------------------------------------------------ *)

Section Tree.
  Variable export : string -> bytes.
  Variable chunks : string -> list bytes.
  Hypothesis chunks_ok : forall k, sconcat (chunks k) = export k.

  Variable t : list node.
  Variable order : list string.
  (* the exported HashMap is iterated in some order of the distinct keys *)
  Hypothesis order_ok : forall k, In k order <-> In k (written_keys t).

  Let s0 := files_of t.

  Lemma find_loaded l :
    names_ok t = true -> irregular t = false -> In l (load t) ->
    find (fun k => String.eqb (note_path k) (l_path l)) order = Some (l_key l).
  Proof.
    intros Hn Hi Hl. destruct (load_regular t l Hn Hi Hl) as [Hk Hp].
    destruct (find _ order) as [k|] eqn:F.
    - apply find_some in F as [_ F]. apply String.eqb_eq in F. rewrite <- Hp in F.
      apply note_path_inj in F. now subst.
    - exfalso.
      assert (Hin : In (l_key l) order) by (apply order_ok, in_written_keys; exists l; auto).
      pose proof (find_none _ _ F (l_key l) Hin) as X. cbn in X.
      rewrite Hp, String.eqb_refl in X. discriminate.
  Qed.

  (* complete run, either variant *)
  Theorem paths_and_content v :
    names_ok t = true -> irregular t = false -> (v = Repaired -> tmp_clash t = false) ->
    let s := run_ops (normalize_ops chunks v order) s0 in
    (forall l, In l (load t) ->
       note_path (l_key l) = l_path l /\ In (l_path l, l_content l) s0 /\
       lookup (l_path l) s = Some (export (l_key l))) /\
    (forall q, (forall l, In l (load t) -> l_path l <> q) -> lookup q s = lookup q s0).
  Proof.
    intros Hn Hi Hc s.
    assert (FR : forall q, lookup q s = expected export order s0 q).
    { apply (full_run export chunks chunks_ok). intros -> k Hk.
      apply no_tmp_clash; [now apply Hc | now apply order_ok]. }
    split.
    - intros l Hl. destruct (load_regular t l Hn Hi Hl) as [_ Hp].
      split; [exact Hp|]. split; [now apply load_in_files|].
      rewrite FR. unfold expected. now rewrite find_loaded.
    - intros q Hq. rewrite FR. unfold expected.
      destruct (find _ order) as [k|] eqn:F; [|reflexivity]. exfalso.
      apply find_some in F as [Hk F]. apply String.eqb_eq in F.
      apply order_ok, in_written_keys in Hk as (l & Hl & ->).
      destruct (load_regular t l Hn Hi Hl) as [Hk Hp]. apply (Hq l Hl). congruence.
  Qed.

  (* crash after any number of operations of the repaired sequence, or error stop with removal
     of temporary files *)
  Theorem atomic_tree n cleanup :
    tmp_clash t = false -> Forall (is_cleanup order) cleanup ->
    let s := run_ops (firstn n (normalize_ops chunks Repaired order) ++ cleanup) s0 in
    (* every file that existed holds its old bytes or, if it is the target of a note, the
       complete new bytes *)
    (forall q, In q (map fst s0) -> old_or_new export order s0 s q) /\
    (* every note path likewise *)
    (forall k, In k order -> old_or_new export order s0 s (note_path k)) /\
    (* whatever else appears is a temporary sibling of a note *)
    (forall q, lookup q s0 = None -> lookup q s <> None ->
       exists k, In k order /\ (q = tmp_of (note_path k) \/ q = note_path k)).
  Proof.
    intros Hc Hcl s. repeat split.
    - intros q Hq. apply (atomic_repaired export chunks chunks_ok); [exact Hcl|].
      intros k Hk ->. apply order_ok in Hk. apply (no_tmp_clash t k Hc) in Hk.
      now apply lookup_none_notin in Hk.
    - intros k Hk. apply (atomic_repaired export chunks chunks_ok); [exact Hcl|].
      intros k' _ E. symmetry in E. now apply tmp_not_note in E.
    - intros q H0 H1.
      destruct (in_dec string_dec q (map (fun k => tmp_of (note_path k)) order)) as [I|I].
      + apply in_map_iff in I as (k & <- & Hk). exists k. auto.
      + destruct (atomic_repaired export chunks chunks_ok order n cleanup s0 q Hcl) as [E|(k & Hk & -> & _)].
        * intros k Hk ->. apply I, in_map_iff. eauto.
        * fold s in E. congruence.
        * exists k. auto.
  Qed.
End Tree.

(* ---------- as found: `fs::write` on the note itself ------------------------------------------------ *)

(* one note `a.md` holding "old", export "new": a crash (or a failing first write) right after the
   open leaves the note empty — neither its old nor its new text *)
Theorem as_found_truncates :
  exists (t : list node) (order : list string) (n : nat),
    let export := fun _ : string => "new" in
    let chunks := fun _ : string => ["new"] in
    (forall k, sconcat (chunks k) = export k) /\
    (forall k, In k order <-> In k (written_keys t)) /\
    names_ok t = true /\ irregular t = false /\
    lookup "a.md" (files_of t) = Some "old" /\
    lookup "a.md" (run_ops (firstn n (normalize_ops chunks AsFound order)) (files_of t)) = Some "".
Proof.
  exists [File "a.md" "old"], ["a"], 1. cbn zeta. repeat split; try reflexivity.
  - intros [H|[]]. now left.
  - intros [H|[]]. now left.
Qed.

(* F14: `x.md.md` is loaded under key `x` and written to `x.md`: a file is created and the note
   is not rewritten in place *)
Theorem double_md_misplaced :
  exists (t : list node) (order : list string),
    let export := fun _ : string => "new" in
    let chunks := fun _ : string => ["new"] in
    (forall k, In k order <-> In k (written_keys t)) /\
    irregular t = true /\
    let s := run_ops (normalize_ops chunks AsFound order) (files_of t) in
    lookup "x.md" (files_of t) = None /\ lookup "x.md" s = Some "new" /\
    lookup "x.md.md" s = Some "old".
Proof.
  exists [File "x.md.md" "old"], ["x"]. cbn zeta. repeat split; try reflexivity.
  - intros [H|[]]. now left.
  - intros [H|[]]. now left.
Qed.
