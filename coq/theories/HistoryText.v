(* HistoryText.v — C04, the text half: the collected tree and the formatted text of EVERY note after ANY
   history of updates (from the empty graph or from an import) are what the final texts alone say.

   Method.  A note is *settled* in a graph when its key maps to a root at which the specification tree
   of its current blocks ([spec_tree], SectionsSpec.v) is *laid* ([laid], SectionsRefine.v), and its
   metadata entry is the current one.  [text_inv g f]: the forest invariant of C20 ([graph_inv]), every
   key of the final-text function [f] is settled and no other key is in the key map, and the title
   cache is the function of [f] alone ([spec_title]).  One [update_key] moves [text_inv g f] to
   [text_inv g' (upd f key (meta, bs))]: the rebuilt note is laid by the refinement theorem of the cursor
   machine, the other notes by [update_frame] (their slots are neither tombstoned nor written).
   [import] establishes it.  Reading a laid tree back ([collect], with any title context) gives the
   tree relabelled in pre-order; the projector ignores the labels; table texts are an oracle consumed
   in document order (position based, no ids): so [to_markdown] is an explicit function
   [spec_markdown] of the final texts, and two histories with the same final texts give the same text
   for every key. *)
From IweV Require Import Str Text Ast RelPath Arena ArenaWF ArenaFacts Project Library LibraryFacts SectionsSpec
  BuilderFacts Check_Norm NormFacts SectionsFacts SectionsRefine BuilderWF HistoryWF HistoryClosed Determinism2.
From Coq Require Import Lia List Permutation.
Local Open Scope string_scope.
Local Open Scope list_scope.

(* ---------- histories, final texts ------------------------------------------------------------------ *)

Definition op := (string * option string * list dblock)%type.
Definition op_key (o : op) : string := fst (fst o).
Definition note_val := (option string * list dblock)%type.       (* metadata, blocks *)
Definition spec := string -> option note_val.                    (* the final texts *)

(* a history of updates, as in HistoryWF.history_wf / Check_Hist.step_model *)
Definition run (ops : list op) (g0 : res graph) : res graph := fold_left hist_step ops g0.

(* the LAST operation on key k *)
Fixpoint last_op (ops : list op) (k : string) : option note_val :=
  match ops with
  | [] => None
  | (k', m, bs) :: r =>
      match last_op r k with
      | Some x => Some x
      | None => if String.eqb k k' then Some (m, bs) else None
      end
  end.

Definition over (l f : spec) : spec := fun k => match l k with Some x => Some x | None => f k end.
Definition upd (f : spec) (key : string) (v : note_val) : spec :=
  fun k => if String.eqb k key then Some v else f k.
Definition no_spec : spec := fun _ => None.

(* import takes the state names as the keys (graph.rs:316 `Key::name`) *)
Definition ops_of (notes : list op) : list op :=
  map (fun n => (key_name (fst (fst n)), snd (fst n), snd n)) notes.

(* ---------- trees: id erasure, node maps -------------------------------------------------------------- *)

Fixpoint erase (t : tree) : tree := match t with T _ nd ts => T None nd (map erase ts) end.
Fixpoint tmap (f : node -> node) (t : tree) : tree := match t with T i nd ts => T i (f nd) (map (tmap f) ts) end.

Definition rmap {A B} (f : A -> B) (r : res A) : res B := match r with Ok a => Ok (f a) | Panic s => Panic s end.

Lemma tsz_tmap f t : tsz (tmap f t) = tsz t.
Proof.
  induction t as [i nd ts IH] using tree_ind'. cbn [tmap]. rewrite !tsz_T. f_equal.
  induction IH as [|x r Hx _ IHr]; cbn [map fsz]; [reflexivity | now rewrite Hx, IHr].
Qed.

Lemma label_tmap f t : forall id, label (tmap f t) id = tmap f (label t id).
Proof.
  induction t as [i nd ts IH] using tree_ind'. intros id. cbn [tmap]. rewrite !label_T. cbn [tmap]. f_equal.
  generalize (S id) as k. induction IH as [|x r Hx _ IHr]; intros k; cbn [map labelf]; [reflexivity|].
  now rewrite Hx, tsz_tmap, IHr.
Qed.

Lemma erase_label t : forall id, erase (label t id) = erase t.
Proof.
  induction t as [i nd ts IH] using tree_ind'. intros id. rewrite label_T. cbn [erase]. f_equal.
  generalize (S id) as k. induction IH as [|x r Hx _ IHr]; intros k; cbn [map labelf]; [reflexivity|].
  now rewrite Hx, IHr.
Qed.

Lemma tmap_ext f f' t : (forall nd, f nd = f' nd) -> tmap f t = tmap f' t.
Proof.
  intros E. induction t as [i nd ts IH] using tree_ind'. cbn [tmap]. rewrite E. f_equal.
  induction IH as [|x r Hx _ IHr]; cbn [map]; [reflexivity | now rewrite Hx, IHr].
Qed.

(* the title refresh of GraphNodePointer::node, on nodes *)
Definition norm_node (ctx : titles) (nd : node) : node :=
  match nd with
  | NSection l => NSection (normalize_inlines ctx l)
  | NLeaf l => NLeaf (normalize_inlines ctx l)
  | NRef key text rt =>
      NRef key
        match rt with
        | Regular => match ctx key with Some t => t | None => text end
        | WikiLink => ""
        | WikiLinkPiped => text
        end rt
  | NTable h al rows => NTable (map (normalize_inlines ctx) h) al (map (map (normalize_inlines ctx)) rows)
  | nd => nd
  end.

Lemma pointer_node_norm ctx k : pointer_node ctx k = option_map (norm_node ctx) (kind_node k).
Proof. destruct k; reflexivity. Qed.

Lemma norm_node_ext ctx ctx' : (forall k, ctx k = ctx' k) -> forall nd, norm_node ctx nd = norm_node ctx' nd.
Proof.
  intros E nd. destruct nd; cbn [norm_node]; try reflexivity.
  - now rewrite (normalize_inlines_ext ctx ctx' E).
  - now rewrite (normalize_inlines_ext ctx ctx' E).
  - now rewrite E.
  - f_equal.
    + apply map_ext. now apply normalize_inlines_ext.
    + apply map_ext. intros r. apply map_ext. now apply normalize_inlines_ext.
Qed.

(* the title a tree gives its note: Graph::extract_ref_text *)
Definition tree_title (t : tree) : option string :=
  match t with
  | T _ _ (T _ (NSection l) _ :: _) => Some (inlines_plain_text l)
  | _ => None
  end.

(* ---------- laid trees: title, read-back with any node function, descendants ---------------------------- *)

Lemma extract_laid a t id nx : laid a t id nx -> extract_ref_text a id = tree_title t.
Proof.
  destruct t as [i nd ts]. intros H. apply laid_T in H as (n & Hg & Hk & Hn & Hc & Hf).
  unfold extract_ref_text. rewrite Hg, Hc. destruct ts as [|[j cn ck] r]; [reflexivity|].
  rewrite laidf_cons in Hf. destruct Hf as [H1 _]. apply laid_T in H1 as (n1 & Hg1 & Hk1 & _).
  rewrite Hg1. cbn [tree_title]. destruct (g_kind n1); cbn [kind_node] in Hk1; inversion Hk1; reflexivity.
Qed.

Lemma collect_laid (f : node -> node) a t : forall id nx fuel,
  laid a t id nx -> length a - id < fuel ->
  collect_fuel fuel (fun _ k => option_map f (kind_node k)) a id = Ok (Some (tmap f (label t id))).
Proof.
  induction t as [i nd ts IH] using tree_ind'. intros id nx fuel H Hfuel.
  pose proof (laid_bound _ _ _ _ H) as Hb. rewrite tsz_T in Hb.
  apply laid_T in H as (n & Hg & Hk & Hn & Hc & Hf).
  destruct fuel as [|fu]; [lia|].
  rewrite collect_fuel_S, Hg. cbv beta. rewrite Hk, Hc, label_T. cbn [option_map tmap].
  set (nf := fun (_ : nat) (k : gkind) => option_map f (kind_node k)).
  assert (G : forall k fin, S id <= k -> laidf a ts k fin ->
            fold_right (fun i acc => do r <- acc; do t <- collect_fuel fu nf a i;
                                     Ok (match t with Some t => t :: r | None => r end)) (Ok []) (roots ts k)
            = Ok (map (tmap f) (labelf ts k))).
  { clear Hf Hc Hb. induction ts as [|x r IHr]; intros k fin Hk' Hl; [reflexivity|].
    inversion IH as [|? ? Hx Hr]; subst. rewrite laidf_cons in Hl. destruct Hl as [H1 H2].
    cbn [roots fold_right labelf map]. rewrite (IHr Hr (k + tsz x) fin ltac:(lia) H2). cbn [bind].
    pose proof (laid_bound _ _ _ _ H1) as Hb1. pose proof (tsz_pos x).
    unfold nf at 1. rewrite (Hx k _ fu H1 ltac:(lia)). reflexivity. }
  destruct ts as [|x r].
  - cbn [bind fold_right labelf map]. reflexivity.
  - rewrite (sib_read a (x :: r) (S id) fu ltac:(discriminate) Hf).
    + cbn [bind]. rewrite (G (S id) None (le_n _) Hf). reflexivity.
    + pose proof (length_le_fsz (x :: r)). lia.
Qed.

(* every slot of a laid tree is a descendant of its root (prev chain), in a well-formed arena *)
Lemma laid_desc a : arena_ok a = true ->
  forall t id nx, laid a t id nx -> forall j, id <= j < id + tsz t -> desc a id j.
Proof.
  intros Hok. induction t as [i nd ts IH] using tree_ind'. intros id nx H j Hj.
  apply laid_T in H as (n & Hg & Hk & Hn & Hc & Hf). rewrite tsz_T in Hj.
  assert (He : is_emptyk (g_kind n) = false) by (destruct (g_kind n); try reflexivity; discriminate).
  assert (G : forall k fin, desc a id k -> laidf a ts k fin -> forall j, k <= j < k + fsz ts -> desc a id j).
  { clear Hf Hc Hj j. induction ts as [|x r IHr]; intros k fin Hdk Hl j Hj; cbn [fsz] in Hj; [lia|].
    inversion IH as [|? ? Hx Hr]; subst. rewrite laidf_cons in Hl. destruct Hl as [H1 H2].
    destruct (Nat.lt_ge_cases j (k + tsz x)) as [Hlt|Hge].
    - eapply desc_trans; [exact Hdk | eapply Hx; eauto; lia].
    - destruct r as [|y r]; [cbn [fsz] in Hj; lia|].
      destruct (laid_root _ _ _ _ H1) as (nk & Hgk & Hnk & Hkk).
      assert (Hek : is_emptyk (g_kind nk) = false) by (destruct (g_kind nk); try reflexivity; discriminate).
      apply (IHr Hr (k + tsz x) fin); [|exact H2 | lia].
      eapply desc_trans; [exact Hdk |].
      eapply (desc_link a Hok k nk); eauto. }
  destruct (Nat.eq_dec j id) as [->|Hne]; [apply desc_refl|].
  destruct ts as [|x r]; [cbn [fsz] in Hj; lia|].
  apply (G (S id) None); [|exact Hf | lia].
  eapply (desc_link a Hok id n); eauto.
Qed.

(* ---------- the builder lays the specification tree (the refinement theorem, with [laid] kept) ---------- *)

Lemma build_laid (a : arena) (key : string) (bs : list dblock) :
  exists st, build_document a key bs = Ok st /\
             laid (b_arena st) (spec_tree key bs) (length a) None /\
             length (b_arena st) = length a + tsz (spec_tree key bs).
Proof.
  unfold build_document, spec_tree, note_tree.
  set (dir := key_parent key). set (doc := GN (KDocument key) None None None).
  destruct (builder_refines dir (dblocks_size bs)) as (_ & _ & _ & HB & _).
  assert (HQ : Qb (build_key a key)).
  { exists (KDocument key). cbn [build_key b_arena b_cur]. split; [|reflexivity].
    unfold kind_at. now rewrite get_app_new. }
  destruct (blocks_any dir _ HB (fuel_for bs) (fuel_for bs) bs (build_key a key) (le_n _)) as (st & H & (c2 & i2 & A) & _);
    auto; try (unfold fuel_for; lia).
  exists st. split; [exact H|]. cbn [build_key b_arena b_cur] in A.
  set (ts := blocks_tree dir (fuel_for bs) bs) in *.
  rewrite laid_T, tsz_T. destruct ts as [|x r].
  - destruct A as (-> & _). split; [|rewrite app_length; cbn; lia].
    exists doc. rewrite get_app_new. cbn. auto.
  - remember (x :: r) as ts eqn:E. assert (N : ts <> []) by (subst; discriminate).
    apply (AppT_ne _ _ _ _ _ _ _ N) in A. destruct A as (L & F & Sl & D & _).
    rewrite app_length in *. cbn [length] in *. split; [|lia].
    exists (slot_set doc true (length a + 1)). split; [apply Sl, get_app_new|].
    cbn [slot_set doc g_kind g_next g_child kind_node].
    repeat split.
    + destruct ts; [congruence|]. f_equal. lia.
    + now replace (S (length a)) with (length a + 1) by lia.
Qed.

(* ---------- the invariant ------------------------------------------------------------------------------ *)

(* the title cache as a function of the final texts *)
Definition spec_title (f : spec) : titles :=
  fun k => match f k with Some (_, bs) => tree_title (spec_tree k bs) | None => None end.

(* note k is settled: key map entry, specification tree of its current blocks laid at the root, metadata *)
Definition note_ok (g : graph) (k : string) (v : option note_val) : Prop :=
  match v with
  | Some (m, bs) => exists root, alookup k (gr_keys g) = Some root /\
                      laid (gr_arena g) (spec_tree k bs) root None /\ alookup k (gr_meta g) = m
  | None => alookup k (gr_keys g) = None
  end.

Definition tree_inv (g : graph) (f : spec) : Prop := graph_inv g /\ forall k, note_ok g k (f k).
Definition title_inv (g : graph) (f : spec) : Prop := forall k, get_key_title g k = spec_title f k.
Definition text_inv (g : graph) (f : spec) : Prop := tree_inv g f /\ title_inv g f.

Lemma tree_inv_ext g f f' : (forall k, f k = f' k) -> tree_inv g f -> tree_inv g f'.
Proof. intros E [H1 H2]. split; [exact H1|]. intros k. rewrite <- E. apply H2. Qed.

Lemma title_inv_ext g f f' : (forall k, f k = f' k) -> title_inv g f -> title_inv g f'.
Proof. intros E H k. rewrite H. unfold spec_title. now rewrite E. Qed.

Lemma text_inv_ext g f f' : (forall k, f k = f' k) -> text_inv g f -> text_inv g f'.
Proof. intros E [H1 H2]. split; [eapply tree_inv_ext | eapply title_inv_ext]; eauto. Qed.

Lemma tree_inv_same g g' f :
  gr_arena g' = gr_arena g -> gr_keys g' = gr_keys g -> gr_meta g' = gr_meta g -> tree_inv g f -> tree_inv g' f.
Proof.
  intros Ea Ek Em [H1 H2]. split.
  - unfold graph_inv in *. now rewrite Ea, Ek.
  - intros k. specialize (H2 k). unfold note_ok in *. destruct (f k) as [[m bs]|]; rewrite ?Ea, ?Ek, ?Em; exact H2.
Qed.

Lemma over_last_cons (f : spec) k m bs r k' :
  over (last_op r) (upd f k (m, bs)) k' = over (last_op ((k, m, bs) :: r)) f k'.
Proof. unfold over, upd. cbn [last_op]. destruct (last_op r k'); [reflexivity|]. now destruct (String.eqb k' k). Qed.

Lemma over_no_spec l k : over l no_spec k = l k.
Proof. unfold over, no_spec. now destruct (l k). Qed.

Lemma refresh_title_meta g key : gr_meta (refresh_title g key) = gr_meta g.
Proof.
  unfold refresh_title. destruct (alookup key (gr_keys g)); [|reflexivity].
  now destruct (extract_ref_text (gr_arena g) n).
Qed.

Lemma text_inv_empty : text_inv empty_graph no_spec.
Proof.
  split; [split|].
  - split; [reflexivity | apply NoDup_nil].
  - intros k. reflexivity.
  - intros k. reflexivity.
Qed.

(* ---------- building a note with a new key (the import step) ---------------------------------------------- *)

Lemma build_note_tree g f key meta bs :
  tree_inv g f -> f key = None ->
  exists g', build_note g key meta bs = Ok g' /\ tree_inv g' (upd f key (meta, bs)) /\ gr_titles g' = gr_titles g.
Proof.
  intros [Hinv Hn] Hnone.
  pose proof (Hn key) as Hk. rewrite Hnone in Hk. cbn [note_ok] in Hk.
  destruct g as [a keys maps titles metas]. cbn [gr_arena gr_keys gr_maps gr_titles gr_meta] in *.
  destruct (build_note_inv build_document_wf a keys maps titles metas key meta bs
              (ready_fresh _ key Hinv Hk)) as (g' & Hb & Hinv' & _).
  exists g'. split; [exact Hb|].
  unfold build_note in Hb. cbn [gr_arena gr_keys gr_maps gr_titles gr_meta] in Hb.
  destruct (build_laid a key bs) as (st & Hbd & Hl & _). rewrite Hbd in Hb. cbn [bind] in Hb.
  inversion Hb; subst g'; clear Hb.
  split; [split; [exact Hinv'|]|reflexivity].
  intros k. unfold upd. destruct (String.eqb k key) eqn:E.
  - apply String.eqb_eq in E; subst k. cbn [note_ok gr_arena gr_keys gr_meta]. exists (length a).
    split; [apply LibraryFacts.alookup_ainsert_same|]. split; [exact Hl|].
    destruct meta; [apply LibraryFacts.alookup_ainsert_same | apply LibraryFacts.alookup_aremove_same].
  - specialize (Hn k). destruct (f k) as [[m bs']|]; cbn [note_ok gr_arena gr_keys gr_meta] in *.
    + destruct Hn as (root & Hr & Hlr & Hm). exists root.
      split; [rewrite LibraryFacts.alookup_ainsert_other by exact E; exact Hr|]. split.
      * eapply laid_same; [|exact Hlr]. intros j Hj. pose proof (laid_bound _ _ _ _ Hlr).
        rewrite <- (HistoryWF.get_firstn (b_arena st) (length a) j) by lia.
        now rewrite (build_document_frame a key bs st Hbd).
      * destruct meta; [rewrite LibraryFacts.alookup_ainsert_other | rewrite LibraryFacts.alookup_aremove_other]; auto.
    + rewrite LibraryFacts.alookup_ainsert_other by exact E. exact Hn.
Qed.

(* ---------- one update -------------------------------------------------------------------------------------- *)

Theorem update_key_text g f key meta bs :
  text_inv g f ->
  exists g', update_key g key meta bs = Ok g' /\ text_inv g' (upd f key (meta, bs)).
Proof.
  intros [[Hinv Hn] Ht].
  destruct (update_key_inv build_document_wf g key meta bs Hinv) as (g' & Hu & Hinv').
  exists g'. split; [exact Hu|].
  assert (Hshape : exists a1 st, build_document a1 key bs = Ok st /\
            g' = refresh_title (G (b_arena st) (ainsert key (length a1) (gr_keys g))
                                  (ainsert key (b_map st) (gr_maps g)) (gr_titles g)
                                  (match meta with Some m => ainsert key m (gr_meta g) | None => aremove key (gr_meta g) end)) key).
  { pose proof Hu as Hu2. unfold update_key in Hu2.
    destruct (match alookup key (gr_keys g) with
              | Some root => delete_branch (S (length (gr_arena g))) (gr_arena g) root
              | None => Ok (gr_arena g) end) as [a1|] eqn:Ed; cbn [bind] in Hu2; [|discriminate].
    unfold from_blocks, build_note in Hu2. cbn [gr_arena gr_keys gr_maps gr_titles gr_meta] in Hu2.
    destruct (build_document a1 key bs) as [st|] eqn:Hb; cbn [bind] in Hu2; [|discriminate].
    inversion Hu2. exists a1, st. auto. }
  destruct Hshape as (a1 & st & Hb & Hg').
  destruct (build_laid a1 key bs) as (st' & Hb' & Hl & _). rewrite Hb in Hb'. inversion Hb'; subst st'; clear Hb'.
  set (g1 := G (b_arena st) (ainsert key (length a1) (gr_keys g)) (ainsert key (b_map st) (gr_maps g)) (gr_titles g)
               (match meta with Some m => ainsert key m (gr_meta g) | None => aremove key (gr_meta g) end)) in Hg'.
  assert (Hk1 : alookup key (gr_keys g1) = Some (length a1)) by apply LibraryFacts.alookup_ainsert_same.
  pose proof Hinv as [Hwf _]. pose proof (proj1 (wf_b_spec _ _) Hwf) as (Hok & _).
  split; [split; [exact Hinv'|]|].
  - (* trees, keys, metadata *)
    intros k. unfold upd. destruct (String.eqb k key) eqn:E.
    + apply String.eqb_eq in E; subst k. cbn [note_ok]. exists (length a1).
      rewrite Hg', LibraryFacts.refresh_title_keys, LibraryFacts.refresh_title_arena, refresh_title_meta.
      split; [exact Hk1|]. split; [exact Hl|]. cbn [g1 gr_meta].
      destruct meta; [apply LibraryFacts.alookup_ainsert_same | apply LibraryFacts.alookup_aremove_same].
    + pose proof E as Hne. apply String.eqb_neq in Hne.
      specialize (Hn k). destruct (f k) as [[m bs']|]; cbn [note_ok] in *.
      * destruct Hn as (root & Hr & Hlr & Hm).
        destruct (update_frame g key meta bs g' k root Hwf Hu Hne Hr) as (Hr' & Hsame).
        exists root. split; [exact Hr'|]. split.
        -- eapply laid_same; [|exact Hlr]. intros j Hj. apply Hsame.
           destruct (laid_root _ _ _ _ Hlr) as (n & Hgn & _ & Hkn).
           apply (desc_In _ Hok _ root n); auto; [lia | destruct (g_kind n); try reflexivity; discriminate |].
           eapply laid_desc; eauto.
        -- rewrite Hg', refresh_title_meta. cbn [g1 gr_meta].
           destruct meta; [rewrite LibraryFacts.alookup_ainsert_other | rewrite LibraryFacts.alookup_aremove_other]; auto.
      * rewrite Hg', LibraryFacts.refresh_title_keys. cbn [g1 gr_keys].
        rewrite LibraryFacts.alookup_ainsert_other by exact E. exact Hn.
  - (* titles *)
    intros k. rewrite Hg'. destruct (String.eqb k key) eqn:E.
    + apply String.eqb_eq in E; subst k. rewrite (refresh_title_exact g1 key (length a1) Hk1).
      cbn [g1 gr_arena]. rewrite (extract_laid _ _ _ _ Hl). unfold spec_title, upd. now rewrite String.eqb_refl.
    + rewrite (refresh_title_frame g1 key k E). unfold get_key_title at 1. cbn [g1 gr_titles].
      change (alookup k (gr_titles g)) with (get_key_title g k). rewrite Ht. unfold spec_title, upd. now rewrite E.
Qed.

(* ---------- whole histories ------------------------------------------------------------------------------------ *)

Theorem run_text ops :
  forall g0 f0, text_inv g0 f0 ->
  exists g, run ops (Ok g0) = Ok g /\ text_inv g (over (last_op ops) f0).
Proof.
  induction ops as [|[[k m] bs] ops IH]; intros g0 f0 Hinv.
  - exists g0. split; [reflexivity|]. eapply text_inv_ext; [|exact Hinv]. intros k. reflexivity.
  - unfold run. cbn [fold_left hist_step bind].
    destruct (update_key_text g0 f0 k m bs Hinv) as (g1 & -> & Hinv1).
    destruct (IH g1 _ Hinv1) as (g & Hr & Hg). exists g. split; [exact Hr|].
    eapply text_inv_ext; [|exact Hg]. intros k'. apply over_last_cons.
Qed.

(* ---------- import -------------------------------------------------------------------------------------------- *)

Lemma import_fold_tree (notes : list op) : NoDup (map note_key notes) ->
  forall g0 f0, tree_inv g0 f0 -> (forall n, In n notes -> f0 (note_key n) = None) ->
  exists g1, fold_left (fun acc n => do g <- acc; let '(name, meta, bs) := n in
                          build_note g (key_name name) meta bs) notes (Ok g0) = Ok g1 /\
             tree_inv g1 (over (last_op (ops_of notes)) f0) /\ gr_titles g1 = gr_titles g0.
Proof.
  induction notes as [|[[name meta] bs] notes IH]; intros Hnd g0 f0 Hinv Hfresh.
  - exists g0. split; [reflexivity|]. split; [|reflexivity]. eapply tree_inv_ext; [|exact Hinv]. intros k. reflexivity.
  - cbn [map] in Hnd. apply NoDup_cons_iff in Hnd as [Hni Hnd]. cbn [fold_left bind].
    pose proof (Hfresh _ (or_introl eq_refl)) as Hnone. unfold note_key in Hnone. cbn [fst] in Hnone.
    destruct (build_note_tree g0 f0 (key_name name) meta bs Hinv Hnone) as (g1 & -> & Hinv1 & Ht1).
    destruct (IH Hnd g1 _ Hinv1) as (g2 & Hf & Hinv2 & Ht2).
    + intros n Hin. unfold upd.
      destruct (String.eqb (note_key n) (key_name name)) eqn:E; [|apply Hfresh; now right].
      apply String.eqb_eq in E. exfalso. apply Hni. unfold note_key at 1. cbn [fst]. rewrite <- E.
      now apply (in_map note_key).
    + exists g2. split; [exact Hf|]. split; [|congruence].
      eapply tree_inv_ext; [|exact Hinv2]. intros k. cbn [ops_of map fst snd]. apply over_last_cons.
Qed.

Lemma refresh_all_same (l : list (string * nat)) : forall g,
  gr_arena (fold_left (fun g kv => refresh_title g (fst kv)) l g) = gr_arena g /\
  gr_keys (fold_left (fun g kv => refresh_title g (fst kv)) l g) = gr_keys g /\
  gr_meta (fold_left (fun g kv => refresh_title g (fst kv)) l g) = gr_meta g.
Proof.
  induction l as [|kv l IH]; intros g; cbn [fold_left]; [auto|].
  destruct (IH (refresh_title g (fst kv))) as (-> & -> & ->).
  now rewrite LibraryFacts.refresh_title_arena, LibraryFacts.refresh_title_keys, refresh_title_meta.
Qed.

Lemma refresh_all_notin (l : list (string * nat)) : forall g k, ~ In k (map fst l) ->
  get_key_title (fold_left (fun g kv => refresh_title g (fst kv)) l g) k = get_key_title g k.
Proof.
  induction l as [|kv l IH]; intros g k Hni; cbn [fold_left]; [reflexivity|].
  cbn [map In] in Hni. rewrite IH by tauto. apply refresh_title_frame.
  apply String.eqb_neq. intros ->. apply Hni. now left.
Qed.

Lemma refresh_all_in (l : list (string * nat)) : forall g k root, In k (map fst l) ->
  alookup k (gr_keys g) = Some root ->
  get_key_title (fold_left (fun g kv => refresh_title g (fst kv)) l g) k = extract_ref_text (gr_arena g) root.
Proof.
  induction l as [|kv l IH]; intros g k root Hin Hr; cbn [fold_left]; [destruct Hin|].
  destruct (in_dec string_dec k (map fst l)) as [Hl|Hl].
  - rewrite (IH _ k root Hl) by (now rewrite LibraryFacts.refresh_title_keys).
    now rewrite LibraryFacts.refresh_title_arena.
  - rewrite refresh_all_notin by exact Hl. destruct Hin as [<-|Hin]; [|tauto].
    now apply refresh_title_exact.
Qed.

Lemma alookup_none_notin {A} k (l : list (string * A)) : alookup k l = None <-> ~ In k (map fst l).
Proof.
  induction l as [|[k' v] l IH]; cbn [alookup map fst In]; [tauto|].
  destruct (String.eqb k k') eqn:E.
  - apply String.eqb_eq in E. subst k'. split; [discriminate | tauto].
  - apply String.eqb_neq in E. rewrite IH. split; [intros H [H1|H1]; [congruence | tauto] | tauto].
Qed.

Theorem import_text (notes : list op) : NoDup (map note_key notes) ->
  exists g, import notes = Ok g /\ text_inv g (last_op (ops_of notes)).
Proof.
  intros Hnd. unfold import.
  destruct (import_fold_tree notes Hnd empty_graph no_spec (proj1 text_inv_empty) (fun _ _ => eq_refl))
    as (g1 & -> & Hinv1 & Ht1).
  cbn [bind]. eexists. split; [reflexivity|].
  destruct (refresh_all_same (gr_keys g1) g1) as (Ea & Ek & Em).
  apply (text_inv_ext _ (over (last_op (ops_of notes)) no_spec)); [apply over_no_spec|].
  split; [now apply (tree_inv_same g1)|].
  intros k. destruct Hinv1 as [_ Hn]. specialize (Hn k). unfold spec_title.
  destruct (over (last_op (ops_of notes)) no_spec k) as [[m bs]|]; cbn [note_ok] in Hn.
  - destruct Hn as (root & Hr & Hl & _).
    rewrite (refresh_all_in (gr_keys g1) g1 k root); [exact (extract_laid _ _ _ _ Hl) | | exact Hr].
    apply alookup_In in Hr. now apply (in_map fst) in Hr.
  - rewrite refresh_all_notin by (now apply alookup_none_notin).
    unfold get_key_title. now rewrite Ht1.
Qed.

(* ---------- the title, in closed form ------------------------------------------------------------------------ *)

Lemma leaf_node_not_section dir b : match leaf_node dir b with NSection _ => False | _ => True end.
Proof.
  destruct b; cbn [leaf_node]; auto.
  destruct l as [|[] [|]]; auto. destruct (is_ref_url url); auto.
Qed.

(* the title of a note is the plain text of its first block if that is a heading, and absent otherwise *)
Lemma spec_tree_title k bs :
  tree_title (spec_tree k bs) =
  match bs with
  | DHeader _ _ l :: _ => Some (inlines_plain_text (to_ginlines (key_parent k) l))
  | _ => None
  end.
Proof.
  unfold spec_tree, note_tree. cbn [tree_title].
  assert (Hf : exists f, fuel_for bs = S (S f)) by (unfold fuel_for; exists (4 * dblocks_size bs + 6); lia).
  destruct Hf as (f & ->). rewrite blocks_tree_S.
  destruct bs as [|b r]; [reflexivity|].
  cbn [span_pre]. destruct (is_header b) eqn:Hh.
  - destruct b; try discriminate. cbn [flat_map app header_level]. rewrite sections_tree_S.
    destruct (span_section level r). reflexivity.
  - destruct (span_pre r) as [x y]. cbn [flat_map]. rewrite block_tree_S.
    pose proof (leaf_node_not_section (key_parent k) b) as Hl.
    destruct b; try discriminate; cbn [app]; try reflexivity;
      destruct (leaf_node (key_parent k) _); try reflexivity; contradiction.
Qed.

(* ---------- reading a graph that satisfies the invariant --------------------------------------------------- *)

(* what H1 says of one note: root, raw tree (ids = pre-order numbering from the root), metadata, title *)
Definition settled (g : graph) (k : string) (m : option string) (bs : list dblock) : Prop :=
  exists root, alookup k (gr_keys g) = Some root /\
    collect_raw (gr_arena g) root = Ok (Some (label (spec_tree k bs) root)) /\
    alookup k (gr_meta g) = m /\
    get_key_title g k = tree_title (spec_tree k bs).

Lemma inv_settled g f k m bs : text_inv g f -> f k = Some (m, bs) -> settled g k m bs.
Proof.
  intros [[_ Hn] Ht] Hk. specialize (Hn k). rewrite Hk in Hn. destruct Hn as (root & Hr & Hl & Hm).
  exists root. repeat split; auto.
  - unfold collect_raw. apply (collect_read _ _ _ _ _ Hl). lia.
  - rewrite Ht. unfold spec_title. now rewrite Hk.
Qed.

(* the tree with the titles of the final texts written into its links *)
Definition spec_tree_t (f : spec) (k : string) (bs : list dblock) : tree :=
  tmap (norm_node (spec_title f)) (spec_tree k bs).

Lemma inv_collect g f k m bs root :
  text_inv g f -> f k = Some (m, bs) -> alookup k (gr_keys g) = Some root ->
  collect (get_key_title g) (gr_arena g) root = Ok (label (spec_tree_t f k bs) root).
Proof.
  intros [[_ Hn] Ht] Hk Hr. specialize (Hn k). rewrite Hk in Hn. destruct Hn as (root' & Hr' & Hl & _).
  rewrite Hr in Hr'. inversion Hr'; subst root'. unfold collect.
  rewrite (collect_fuel_ext _ (fun _ k0 => option_map (norm_node (spec_title f)) (kind_node k0))).
  - rewrite (collect_laid _ _ _ _ _ _ Hl) by lia. cbn [bind]. unfold spec_tree_t. now rewrite label_tmap.
  - intros _ k0. rewrite pointer_node_norm. destruct (kind_node k0); cbn [option_map]; [|reflexivity].
    f_equal. apply norm_node_ext. exact Ht.
Qed.

(* Graph::to_markdown as a function of the final texts alone.  [tables] is the oracle for table texts
   (pulldown-cmark-to-cmark): a list consumed in document order by block_md - position based, no node ids *)
Definition spec_markdown (o : opts) (tables : list string) (f : spec) (k : string) : res string :=
  match f k with
  | None => Panic "to have key"
  | Some (m, bs) => Ok (wrap_metadata m (tree_to_markdown o tables (key_parent k) (spec_tree_t f k bs)))
  end.

Definition spec_collect (f : spec) (k : string) : res tree :=
  match f k with
  | None => Panic "to have key"
  | Some (m, bs) => Ok (erase (spec_tree_t f k bs))
  end.

Theorem to_markdown_spec o tables g f k : text_inv g f -> to_markdown o tables g k = spec_markdown o tables f k.
Proof.
  intros H. pose proof H as [[_ Hn] _]. specialize (Hn k). unfold to_markdown, spec_markdown.
  destruct (f k) as [[m bs]|] eqn:Hk; cbn [note_ok] in Hn.
  - destruct Hn as (root & Hr & _ & Hm). rewrite Hr, (inv_collect g f k m bs root H Hk Hr). cbn [bind]. rewrite Hm.
    do 2 f_equal. unfold tree_to_markdown, project. now rewrite (proj1 (project_label (key_parent k) _)).
  - now rewrite Hn.
Qed.

Theorem collect_key_spec g f k : text_inv g f -> rmap erase (collect_key g k) = spec_collect f k.
Proof.
  intros H. pose proof H as [[_ Hn] _]. specialize (Hn k). unfold collect_key, spec_collect.
  destruct (f k) as [[m bs]|] eqn:Hk; cbn [note_ok] in Hn.
  - destruct Hn as (root & Hr & _ & _). rewrite Hr, (inv_collect g f k m bs root H Hk Hr). cbn [rmap].
    now rewrite erase_label.
  - now rewrite Hn.
Qed.

(* H3, general form: two graphs that satisfy the invariant for the same final texts - whatever their
   histories - answer the same text and the same tree (ids erased) for every key, options and table oracle *)
Theorem text_no_history g g' f :
  text_inv g f -> text_inv g' f ->
  forall o tables k,
    to_markdown o tables g k = to_markdown o tables g' k /\
    rmap erase (collect_key g k) = rmap erase (collect_key g' k) /\
    get_key_title g k = get_key_title g' k.
Proof.
  intros H H' o tables k.
  rewrite !(to_markdown_spec o tables _ f k) by assumption.
  rewrite !(collect_key_spec _ f k) by assumption.
  destruct H as [_ Ht], H' as [_ Ht']. rewrite Ht, Ht'. auto.
Qed.

(* ---------- facts about last_op; the final texts as a history ------------------------------------------------ *)

Lemma last_op_none ops k : last_op ops k = None <-> ~ In k (map op_key ops).
Proof.
  induction ops as [|[[k' m] bs] r IH]; cbn [last_op map In op_key fst]; [tauto|].
  destruct (last_op r k) as [x|].
  - split; [discriminate|]. intros H. exfalso.
    destruct (in_dec string_dec k (map op_key r)) as [Hi|Hi]; [apply H; now right|].
    apply IH in Hi. discriminate.
  - assert (Hr : ~ In k (map op_key r)) by (now apply IH).
    destruct (String.eqb k k') eqn:E.
    + apply String.eqb_eq in E. subst k'. split; [discriminate|]. intros H. exfalso. apply H. now left.
    + apply String.eqb_neq in E. split; [|reflexivity]. intros _ [H|H]; [congruence | tauto].
Qed.

Lemma last_op_some_in ops k m bs : last_op ops k = Some (m, bs) -> In (k, m, bs) ops.
Proof.
  induction ops as [|[[k' m'] bs'] r IH]; cbn [last_op]; [discriminate|].
  destruct (last_op r k) as [x|].
  - intros H. right. apply IH. exact H.
  - destruct (String.eqb k k') eqn:E; [|discriminate]. apply String.eqb_eq in E. subst k'.
    intros H. inversion H. now left.
Qed.

Lemma last_op_in ops : NoDup (map op_key ops) -> forall k m bs, In (k, m, bs) ops -> last_op ops k = Some (m, bs).
Proof.
  induction ops as [|[[k' m'] bs'] r IH]; intros Hnd k m bs Hin; [destruct Hin|].
  cbn [map op_key fst] in Hnd. apply NoDup_cons_iff in Hnd as [Hni Hnd]. cbn [last_op].
  destruct Hin as [E|Hin].
  - inversion E; subst. rewrite (proj2 (last_op_none r k) Hni), String.eqb_refl. reflexivity.
  - now rewrite (IH Hnd _ _ _ Hin).
Qed.

(* the final texts do not depend on the order in which distinct notes are written *)
Lemma last_op_perm ops ops' : NoDup (map op_key ops) -> Permutation ops ops' -> forall k, last_op ops k = last_op ops' k.
Proof.
  intros Hnd P k.
  assert (Hnd' : NoDup (map op_key ops')) by (eapply Permutation_NoDup; [apply Permutation_map; exact P | exact Hnd]).
  destruct (last_op ops k) as [[m bs]|] eqn:E.
  - symmetry. apply last_op_in; [exact Hnd'|]. eapply Permutation_in; [exact P|]. now apply last_op_some_in.
  - symmetry. apply last_op_none. rewrite last_op_none in E. intros Hin. apply E.
    eapply Permutation_in; [apply Permutation_sym, Permutation_map; exact P | exact Hin].
Qed.

(* the history that writes only the final text of every note: one operation per key, the last one *)
Fixpoint final_ops (ops : list op) : list op :=
  match ops with
  | [] => []
  | o :: r => if existsb (String.eqb (op_key o)) (map op_key r) then final_ops r else o :: final_ops r
  end.

Lemma final_ops_incl ops o : In o (final_ops ops) -> In o ops.
Proof.
  induction ops as [|x r IH]; cbn [final_ops]; [auto|].
  destruct (existsb (String.eqb (op_key x)) (map op_key r)); cbn [In]; intuition.
Qed.

Lemma final_ops_last ops k : last_op (final_ops ops) k = last_op ops k.
Proof.
  induction ops as [|[[k' m] bs] r IH]; cbn [final_ops op_key fst]; [reflexivity|].
  destruct (existsb (String.eqb k') (map op_key r)) eqn:E; cbn [last_op]; rewrite IH; [|reflexivity].
  destruct (last_op r k) eqn:L; [reflexivity|]. destruct (String.eqb k k') eqn:E2; [|reflexivity].
  apply String.eqb_eq in E2. subst k'. exfalso. apply last_op_none in L. apply L.
  apply existsb_exists in E as (x & Hx & Ex). apply String.eqb_eq in Ex. now subst x.
Qed.

Lemma final_ops_nodup ops : NoDup (map op_key (final_ops ops)).
Proof.
  induction ops as [|x r IH]; cbn [final_ops]; [apply NoDup_nil|].
  destruct (existsb (String.eqb (op_key x)) (map op_key r)) eqn:E; [exact IH|].
  cbn [map]. apply NoDup_cons; [|exact IH]. intros Hin.
  apply in_map_iff in Hin as (y & Hy & Hin). apply final_ops_incl in Hin.
  assert (Ht : existsb (String.eqb (op_key x)) (map op_key r) = true).
  { apply existsb_exists. exists (op_key y). split; [now apply in_map | rewrite Hy; apply String.eqb_refl]. }
  congruence.
Qed.

Lemma op_key_ops_of notes : map op_key (ops_of notes) = map note_key notes.
Proof. unfold ops_of. rewrite map_map. reflexivity. Qed.

Lemma keys_iff g f : tree_inv g f -> forall k, In k (map fst (gr_keys g)) <-> f k <> None.
Proof.
  intros [_ Hn] k. specialize (Hn k). destruct (f k) as [[m bs]|]; cbn [note_ok] in Hn.
  - destruct Hn as (root & Hr & _). apply alookup_In in Hr. apply (in_map fst) in Hr. split; [discriminate | auto].
  - apply alookup_none_notin in Hn. split; [contradiction | congruence].
Qed.

(* ---------- HEADLINES ------------------------------------------------------------------------------------------- *)

(* the invariant after any history from the empty graph / from an import *)
Theorem history_text ops :
  exists g, run ops (Ok empty_graph) = Ok g /\ text_inv g (last_op ops).
Proof.
  destruct (run_text ops empty_graph no_spec text_inv_empty) as (g & Hr & Hg).
  exists g. split; [exact Hr|]. eapply text_inv_ext; [|exact Hg]. apply over_no_spec.
Qed.

Theorem import_history_text notes ops : NoDup (map note_key notes) ->
  exists g, run ops (import notes) = Ok g /\ text_inv g (over (last_op ops) (last_op (ops_of notes))).
Proof.
  intros Hnd. destruct (import_text notes Hnd) as (g0 & -> & H0). now apply run_text.
Qed.

(* H1: after ANY history of updates from the empty graph, every key that occurs has a root, and the tree
   read back there is the specification tree of the LAST blocks written for it (numbered in pre-order from
   the root), its metadata and its cached title are the last ones; the keys are the distinct keys of ops *)
Theorem collect_after_history (ops : list op) :
  exists g, run ops (Ok empty_graph) = Ok g /\
    (forall k m bs, last_op ops k = Some (m, bs) -> settled g k m bs) /\
    (forall k, In k (map fst (gr_keys g)) <-> In k (map op_key ops)) /\
    NoDup (map fst (gr_keys g)).
Proof.
  destruct (history_text ops) as (g & Hr & Hg). exists g. split; [exact Hr|].
  split; [intros k m bs; now apply inv_settled|]. split.
  - intros k. rewrite (keys_iff g _ (proj1 Hg) k). destruct (last_op ops k) as [x|] eqn:E.
    + split; [intros _ | discriminate].
      destruct (in_dec string_dec k (map op_key ops)) as [Hi|Hi]; [exact Hi|].
      apply last_op_none in Hi. congruence.
    + apply last_op_none in E. split; [congruence | contradiction].
  - destruct Hg as [[[_ Hnd] _] _]. exact Hnd.
Qed.
Print Assumptions collect_after_history.

(* H2: the same from an imported library (distinct note keys): notes updated by ops hold their last
   update, notes not touched by ops still hold their imported blocks *)
Theorem collect_after_import_history (notes ops : list op) :
  NoDup (map note_key notes) ->
  exists g, run ops (import notes) = Ok g /\
    (forall k m bs, last_op ops k = Some (m, bs) -> settled g k m bs) /\
    (forall name m bs, In (name, m, bs) notes -> ~ In (key_name name) (map op_key ops) ->
                       settled g (key_name name) m bs) /\
    (forall k, In k (map fst (gr_keys g)) <-> In k (map op_key ops) \/ In k (map note_key notes)) /\
    NoDup (map fst (gr_keys g)).
Proof.
  intros Hnd. destruct (import_history_text notes ops Hnd) as (g & Hr & Hg).
  exists g. split; [exact Hr|]. split; [|split; [|split]].
  - intros k m bs Hk. apply (inv_settled g _ k m bs Hg). unfold over. now rewrite Hk.
  - intros name m bs Hin Hni. apply (inv_settled g _ _ m bs Hg). unfold over.
    rewrite (proj2 (last_op_none ops _) Hni). apply last_op_in; [now rewrite op_key_ops_of|].
    unfold ops_of. apply in_map_iff. exists (name, m, bs). auto.
  - intros k. rewrite (keys_iff g _ (proj1 Hg) k). unfold over. rewrite <- (op_key_ops_of notes).
    destruct (last_op ops k) as [x|] eqn:E.
    + split; [|discriminate]. intros _. left.
      destruct (in_dec string_dec k (map op_key ops)) as [Hi|Hi]; [exact Hi|].
      apply last_op_none in Hi. congruence.
    + apply last_op_none in E.
      destruct (in_dec string_dec k (map op_key (ops_of notes))) as [Hi|Hi].
      * split; [auto|]. intros _ Hc. now apply last_op_none in Hc.
      * split; [intros Hc; exfalso; apply Hc; now apply last_op_none | tauto].
  - destruct Hg as [[[_ Hk] _] _]. exact Hk.
Qed.
Print Assumptions collect_after_import_history.

(* H3: the text of every note after any history is the explicit function [spec_markdown] of the final
   texts (metadata and blocks of the last operation per key): no trace of earlier versions, of other
   notes' updates, of tombstones or of node ids *)
Theorem text_after_history (ops : list op) :
  exists g, run ops (Ok empty_graph) = Ok g /\
    forall o tables k,
      to_markdown o tables g k = spec_markdown o tables (last_op ops) k /\
      rmap erase (collect_key g k) = spec_collect (last_op ops) k /\
      get_key_title g k = spec_title (last_op ops) k.
Proof.
  destruct (history_text ops) as (g & Hr & Hg). exists g. split; [exact Hr|].
  intros o tables k. split; [now apply to_markdown_spec|]. split; [now apply collect_key_spec | apply Hg].
Qed.
Print Assumptions text_after_history.

Theorem text_after_import_history (notes ops : list op) :
  NoDup (map note_key notes) ->
  exists g, run ops (import notes) = Ok g /\
    forall o tables k,
      to_markdown o tables g k = spec_markdown o tables (over (last_op ops) (last_op (ops_of notes))) k /\
      rmap erase (collect_key g k) = spec_collect (over (last_op ops) (last_op (ops_of notes))) k /\
      get_key_title g k = spec_title (over (last_op ops) (last_op (ops_of notes))) k.
Proof.
  intros Hnd. destruct (import_history_text notes ops Hnd) as (g & Hr & Hg). exists g. split; [exact Hr|].
  intros o tables k. split; [now apply to_markdown_spec|]. split; [now apply collect_key_spec | apply Hg].
Qed.
Print Assumptions text_after_import_history.

(* two histories (each after its own import) with the same final text per key give the same answers *)
Theorem text_no_history_runs (notes ops notes' ops' : list op) :
  NoDup (map note_key notes) -> NoDup (map note_key notes') ->
  (forall k, over (last_op ops) (last_op (ops_of notes)) k = over (last_op ops') (last_op (ops_of notes')) k) ->
  exists g g', run ops (import notes) = Ok g /\ run ops' (import notes') = Ok g' /\
    forall o tables k,
      to_markdown o tables g k = to_markdown o tables g' k /\
      rmap erase (collect_key g k) = rmap erase (collect_key g' k) /\
      get_key_title g k = get_key_title g' k.
Proof.
  intros Hnd Hnd' E.
  destruct (import_history_text notes ops Hnd) as (g & Hr & Hg).
  destruct (import_history_text notes' ops' Hnd') as (g' & Hr' & Hg').
  exists g, g'. split; [exact Hr|]. split; [exact Hr'|]. intros o tables k.
  pose proof (text_inv_ext _ _ _ (fun k => eq_sym (E k)) Hg') as Hg2.
  rewrite !(to_markdown_spec o tables _ _ k Hg), (to_markdown_spec o tables _ _ k Hg2).
  rewrite (collect_key_spec _ _ k Hg), (collect_key_spec _ _ k Hg2).
  destruct Hg as [_ Ht], Hg2 as [_ Ht2]. rewrite Ht, Ht2. auto.
Qed.
Print Assumptions text_no_history_runs.

(* C04 for texts: a history of updates leaves, for every note, the text and the tree that a fresh start on
   the final texts gives - the fresh start being the updates of the last text of every key, in ANY order ... *)
Theorem text_fresh_updates (ops fresh : list op) : Permutation (final_ops ops) fresh ->
  exists g g', run ops (Ok empty_graph) = Ok g /\ run fresh (Ok empty_graph) = Ok g' /\
    forall o tables k,
      to_markdown o tables g k = to_markdown o tables g' k /\
      rmap erase (collect_key g k) = rmap erase (collect_key g' k) /\
      get_key_title g k = get_key_title g' k.
Proof.
  intros P.
  destruct (history_text ops) as (g & Hr & Hg). destruct (history_text fresh) as (g' & Hr' & Hg').
  exists g, g'. split; [exact Hr|]. split; [exact Hr'|]. intros o tables k.
  assert (E : forall k, last_op fresh k = last_op ops k).
  { intros k0. rewrite <- (last_op_perm (final_ops ops) fresh (final_ops_nodup ops) P). apply final_ops_last. }
  pose proof (text_inv_ext _ _ _ E Hg') as Hg2.
  rewrite !(to_markdown_spec o tables _ _ k Hg), (to_markdown_spec o tables _ _ k Hg2).
  rewrite (collect_key_spec _ _ k Hg), (collect_key_spec _ _ k Hg2).
  destruct Hg as [_ Ht], Hg2 as [_ Ht2]. rewrite Ht, Ht2. auto.
Qed.
Print Assumptions text_fresh_updates.

(* ... or Graph::import of files that hold the final texts *)
Theorem text_fresh_import (ops notes : list op) : Permutation (final_ops ops) (ops_of notes) ->
  exists g g', run ops (Ok empty_graph) = Ok g /\ import notes = Ok g' /\
    forall o tables k,
      to_markdown o tables g k = to_markdown o tables g' k /\
      rmap erase (collect_key g k) = rmap erase (collect_key g' k) /\
      get_key_title g k = get_key_title g' k.
Proof.
  intros P.
  assert (Hnd : NoDup (map note_key notes)).
  { rewrite <- op_key_ops_of. eapply Permutation_NoDup; [apply Permutation_map; exact P | apply final_ops_nodup]. }
  destruct (history_text ops) as (g & Hr & Hg). destruct (import_text notes Hnd) as (g' & Hr' & Hg').
  exists g, g'. split; [exact Hr|]. split; [exact Hr'|]. intros o tables k.
  assert (E : forall k, last_op (ops_of notes) k = last_op ops k).
  { intros k0. rewrite <- (last_op_perm (final_ops ops) (ops_of notes) (final_ops_nodup ops) P). apply final_ops_last. }
  pose proof (text_inv_ext _ _ _ E Hg') as Hg2.
  rewrite !(to_markdown_spec o tables _ _ k Hg), (to_markdown_spec o tables _ _ k Hg2).
  rewrite (collect_key_spec _ _ k Hg), (collect_key_spec _ _ k Hg2).
  destruct Hg as [_ Ht], Hg2 as [_ Ht2]. rewrite Ht, Ht2. auto.
Qed.
Print Assumptions text_fresh_import.

(* the cached title after any history, in closed form: the plain text of the first block of the last text if
   that block is a heading, nothing otherwise (extends C04_title_no_history from one step to whole histories) *)
Theorem title_after_history (ops : list op) :
  exists g, run ops (Ok empty_graph) = Ok g /\
    forall k, get_key_title g k =
      match last_op ops k with
      | Some (_, DHeader _ _ l :: _) => Some (inlines_plain_text (to_ginlines (key_parent k) l))
      | _ => None
      end.
Proof.
  destruct (history_text ops) as (g & Hr & [_ Ht]). exists g. split; [exact Hr|].
  intros k. rewrite Ht. unfold spec_title. destruct (last_op ops k) as [[m bs]|]; [|reflexivity].
  rewrite spec_tree_title. destruct bs as [|[] r]; reflexivity.
Qed.
Print Assumptions title_after_history.

(* ---------- non-vacuity: a 3-note, 6-operation history with nested lists, links between the notes, tables,
   metadata and re-updates, against the import of the three final files ------------------------------------ *)

Definition hx_links : dblock :=
  DPara (0, 1) [Str "see "; Link "a" "" Regular [Str "old a"]; Str " and "; Link "c.md" "" Regular [Str "old c"];
                Emph [Link "d/b" "" Regular [Str "old b"]]; Link "zz" "" Regular [Str "nobody"]].
(* the same links as they are typed in a note of the directory d/ (inline links are kept by key and written
   relative to the note, like block references) *)
Definition hx_links_d : dblock :=
  DPara (0, 1) [Str "see "; Link "../a" "" Regular [Str "old a"]; Str " and "; Link "../c.md" "" Regular [Str "old c"];
                Emph [Link "./b" "" Regular [Str "old b"]]; Link "zz" "" Regular [Str "nobody"]].
Definition hx_ref (u : string) : dblock := DPara (0, 1) [Link u "" Regular [Str "stale"]].
Definition hx_table : dblock :=
  DTable (0, 1) [[Str "h"]; [Link "a" "" Regular [Str "x"]]] [ANone; ALeft] [[[Str "1"]; [Str "2"]]].
Definition hx_a3 : list dblock := [DHeader (0, 1) 1 [Str "A3"]; ex_l; ex_q; hx_ref "c"; hx_ref "d/b"; hx_links].
Definition hx_b2 : list dblock := [DHeader (0, 1) 2 [Str "B"; Emph [Str "2"]]; hx_links_d; hx_table].
Definition hx_c1 : list dblock := [ex_h; ex_l; hx_table; hx_ref "a"; hx_ref "d/b"].
Definition hx_ops : list op :=
  [("a", None, [ex_p; ex_h; ex_p; ex_l; hx_links; hx_ref "c"]);
   ("d/b", Some "m: 1", [ex_q; ex_l; hx_ref "../a"]);
   ("a", None, [ex_p]);
   ("d/b", None, hx_b2);
   ("c", None, hx_c1);
   ("a", Some "t: x", hx_a3)].
Definition hx_fresh : list op := [("a", Some "t: x", hx_a3); ("c", None, hx_c1); ("d/b", None, hx_b2)].

Example hx_perm : Permutation (final_ops hx_ops) (ops_of hx_fresh).
Proof.
  vm_compute. eapply perm_trans; [apply perm_swap|]. eapply perm_trans; [apply perm_skip, perm_swap|]. apply perm_swap.
Qed.

(* the two graphs differ (84 slots, 40 of them tombstones, roots 40/44/58 against 44 slots, roots 0/26/40);
   the texts, trees and titles do not *)
Example hx_runs :
  match run hx_ops (Ok empty_graph), import hx_fresh with
  | Ok g, Ok g' =>
      length (gr_arena g) = 84 /\ length (filter (fun n => is_emptyk (g_kind n)) (gr_arena g)) = 40 /\
      gr_keys g = [("d/b", 40); ("c", 44); ("a", 58)] /\
      length (gr_arena g') = 44 /\ gr_keys g' = [("a", 0); ("c", 26); ("d/b", 40)] /\
      to_markdown (Opts ".md") ["TBL"] g "d/b" = to_markdown (Opts ".md") ["TBL"] g' "d/b" /\
      to_markdown (Opts ".md") ["TBL"] g "d/b"
      = Ok ("# B*2*" +++ LFS +++ LFS +++ "see [A3](../a.md) and [T](../c.md)*[B2](b.md)*[nobody](zz.md)" +++ LFS +++ LFS +++ "TBL" +++ LFS)
  | _, _ => False
  end.
Proof. vm_compute. repeat split; reflexivity. Qed.

Example hx_no_history :
  exists g g', run hx_ops (Ok empty_graph) = Ok g /\ import hx_fresh = Ok g' /\
    forall o tables k,
      to_markdown o tables g k = to_markdown o tables g' k /\
      rmap erase (collect_key g k) = rmap erase (collect_key g' k) /\
      get_key_title g k = get_key_title g' k.
Proof. exact (text_fresh_import hx_ops hx_fresh hx_perm). Qed.

(* keys are compared verbatim by update_key: `x`, `x.md` and `X` are three notes (the server derives the key from
   the URI before it calls update_key); Graph::import takes the state names as keys too (`Key::name`); the
   hypothesis NoDup (map note_key notes) says that the list is a map, which a State is by construction *)
Example keys_verbatim :
  match run [("x", None, [ex_p]); ("x.md", None, [ex_h]); ("X", None, [])] (Ok empty_graph) with
  | Ok g => map fst (gr_keys g) = ["x"; "x.md"; "X"]
  | Panic _ => False
  end.
Proof. vm_compute. reflexivity. Qed.

(* NoDup (map note_key notes) is what the forest invariant needs (HistoryWF.import_wf_refuted: a list that names
   `x` twice, the first root stays a live orphan); it is sufficient, not necessary, for the text: on that
   witness the text of `x` is still the one of the last entry *)
Definition dup_notes : list op := [("x", None, [ex_p]); ("x", Some "m", [ex_h])].
Example dup_import_text :
  match import dup_notes with
  | Ok g => wf_b (gr_arena g) (gr_keys g) = false /\
            to_markdown (Opts ".md") [] g "x" = spec_markdown (Opts ".md") [] (last_op (ops_of dup_notes)) "x"
  | Panic _ => False
  end.
Proof. vm_compute. split; reflexivity. Qed.
