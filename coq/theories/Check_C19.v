(* Check_C19.v — executable side of C19.  One case = one directory tree, the result of the real
   loader and export on it (in process), one traced clean run of the built `iwe normalize` and
   a list of traced fault runs (error / SIGKILL injected at a write, rename or open, or a file
   size limit), each with the directory snapshot taken afterwards.
   Correspondence: the model loader, the model write sequence (repaired shape: the temporary
   name is the first free candidate of the model file system at that point, every existing
   candidate before it is probed once and answers EEXIST) and the model file-system semantics
   against what was observed.  Property: the executable form of the
   C19 theorems, evaluated on the snapshots only. *)
From IweV Require Import Str RelPath Harness.
From IweV Require Export Fs.
Local Open Scope string_scope.
Local Open Scope list_scope.
Local Open Scope N_scope.

(* a traced system call on a path under the library: it succeeded; or it is an exclusive
   create that returned EEXIST (the answer of the kernel to [OpenNew] on an existing path: no
   effect); or it returned another error (and then had no effect) *)
Inductive ev := Done (o : op) | Busy (o : op) | Failed (o : op).

Record frun := FRun {
  f_kind : N;      (* 0 clean; 1 error at k-th write; 2 SIGKILL on entering k-th write;
                      3 error at k-th rename; 4 SIGKILL on entering k-th rename;
                      5 RLIMIT_FSIZE = k bytes; 6 error at k-th writing open; 7 SIGKILL there;
                      8 SIGKILL on entering k-th close of a written file;
                      9 SIGKILL on entering the k-th system call (any) of the main thread *)
  f_arg : N;
  f_status : N;    (* 0 exit 0; 1 exit <> 0; 2 killed by a signal *)
  f_trace : list ev;
  f_after : fs;            (* every regular file under the root afterwards *)
  f_dirs : list string     (* every directory under the root afterwards, sorted *)
}.

Record case := Case {
  c_tree : list node;
  c_before : fs;                       (* snapshot after materialising the tree *)
  c_dirs : list string;
  c_loaded : list (string * bytes);    (* liwe::fs::new_for_path(root): (key, content) *)
  c_export : list (string * bytes);    (* Graph::import(that).export(): (key, bytes) *)
  c_clean : frun;
  c_faults : list frun
}.

Definition seqb := String.eqb.
Definition pair_eqb (a b : string * string) : bool := seqb (fst a) (fst b) && seqb (snd a) (snd b).
Definition mem {A} (eq : A -> A -> bool) (x : A) (l : list A) : bool := existsb (eq x) l.
Definition subset {A} (eq : A -> A -> bool) (a b : list A) : bool := forallb (fun x => mem eq x b) a.
Definition set_eqb {A} (eq : A -> A -> bool) (a b : list A) : bool :=
  subset eq a b && subset eq b a && Nat.eqb (length a) (length b).
Definition obytes_eqb := option_eqb seqb.

Definition fs_eqb (a b : fs) : bool :=
  forallb (fun p => obytes_eqb (lookup p a) (lookup p b)) (map fst a ++ map fst b).

(* the operations that were carried out, in the model's reading: [OpenNew p] stands for the
   call whatever it answered — [apply_op] creates p or, when p exists, leaves everything as it
   is ([answers_ok] below checks that the kernel gave the answer the model state predicts) *)
Definition done_ops (tr : list ev) : list op :=
  flat_map (fun e => match e with Done o | Busy o => [o] | Failed _ => [] end) tr.
Definition all_done (tr : list ev) : bool :=
  forallb (fun e => match e with Done _ | Busy _ => true | Failed _ => false end) tr.

(* an exclusive create succeeded exactly when the path did not exist in the replayed model
   state, and answered EEXIST exactly when it did; nothing else answers EEXIST *)
Fixpoint answers_ok (tr : list ev) (s : fs) : bool :=
  match tr with
  | [] => true
  | Done (OpenNew p) :: r =>
      match lookup p s with None => answers_ok r (apply_op s (OpenNew p)) | Some _ => false end
  | Busy (OpenNew p) :: r =>
      match lookup p s with Some _ => answers_ok r s | None => false end
  | Busy _ :: _ => false
  | Done o :: r => answers_ok r (apply_op s o)
  | Failed _ :: r => answers_ok r s
  end.

Definition op_eqb (a b : op) : bool :=
  match a, b with
  | OpenTrunc p, OpenTrunc q | OpenNew p, OpenNew q | Sync p, Sync q
  | Close p, Close q | Unlink p, Unlink q | Other p, Other q => seqb p q
  | Append p c, Append q d => seqb p q && seqb c d
  | Rename p p', Rename q q' => seqb p q && seqb p' q'
  | _, _ => false
  end.

(* [ops] = [pre ++ rest]: the rest *)
Fixpoint strip_ops (pre ops : list op) : option (list op) :=
  match pre with
  | [] => Some ops
  | a :: pre' =>
      match ops with
      | b :: ops' => if op_eqb a b then strip_ops pre' ops' else None
      | [] => None
      end
  end.

(* [ops] is a proper prefix of [l] *)
Fixpoint proper_prefix (ops l : list op) : bool :=
  match ops, l with
  | [], _ :: _ => true
  | a :: ops', b :: l' => op_eqb a b && proper_prefix ops' l'
  | _, _ => false
  end.

(* ---------- shape of an observed operation sequence ------------------------------------------- *)

Fixpoint take_appends (p : path) (ops : list op) (acc : bytes) : bytes * list op :=
  match ops with
  | Append q c :: r => if seqb q p then take_appends p r (acc +++ c) else (acc, ops)
  | Sync q :: r => if seqb q p then take_appends p r acc else (acc, ops)
  | _ => (acc, ops)
  end.

(* the note a group is for, read off the first name it tries: `<note>.tmp` (candidate 0) *)
Definition target_of (c0 : path) : option path := strip_suffix TMP c0.

(* complete groups `create_ops s p; Append t ..; Close t; Rename t p` with t = tmp_of s p, where s
   is the model file system when the group starts (repaired shape: the model's own [create_ops],
   i.e. one open per existing candidate and then the first free one): the (target, bytes) pairs,
   what could not be parsed, and the model state there *)
Fixpoint parse_groups (fuel : nat) (ops : list op) (s : fs) : list (path * bytes) * list op * fs :=
  match fuel with
  | O => ([], ops, s)
  | S f =>
      match ops with
      | OpenNew c0 :: _ =>
          match target_of c0 with
          | Some p =>
              let t := tmp_of s p in
              match strip_ops (create_ops s p) ops with
              | Some r =>
                  let '(b, r1) := take_appends t r "" in
                  match r1 with
                  | Close t1 :: Rename t2 p' :: r2 =>
                      if seqb t1 t && seqb t2 t && seqb p' p
                      then let used := firstn (length ops - length r2) ops in
                           let '(gs, rest, s') := parse_groups f r2 (run_ops used s) in
                           ((p, b) :: gs, rest, s')
                      else ([], ops, s)
                  | _ => ([], ops, s)
                  end
              | None => ([], ops, s)
              end
          | None => ([], ops, s)
          end
      | _ => ([], ops, s)
      end
  end.

(* the expected (target, bytes) pairs: one per exported key *)
Definition expected_writes (c : case) : list (path * bytes) :=
  map (fun kb => (note_path (fst kb), snd kb)) (c_export c).

Fixpoint nodup_paths (l : list (path * bytes)) : bool :=
  match l with [] => true | x :: r => negb (mem seqb (fst x) (map fst r)) && nodup_paths r end.

(* the clean run is exactly `normalize_ops .. Repaired order (c_before c)` for some order and
   chunking *)
Definition clean_shape (c : case) : bool :=
  let ops := done_ops (f_trace (c_clean c)) in
  let '(gs, rest, _) := parse_groups (S (length ops)) ops (c_before c) in
  match rest with [] => true | _ => false end &&
  all_done (f_trace (c_clean c)) && set_eqb pair_eqb gs (expected_writes c).

(* a fault run is a prefix of such a sequence, optionally followed by the removal of the
   temporary file in progress (error path); at most one call failed (EEXIST answers of the
   probing opens are not failures), and only close/unlink follow it *)
Fixpoint after_fail_ok (tr : list ev) : bool :=
  match tr with
  | [] => true
  | Done _ :: r | Busy _ :: r => after_fail_ok r
  | Failed _ :: r =>
      forallb (fun e => match e with
                        | Done (Close _) | Done (Unlink _) | Failed (Close _) | Failed (Unlink _) => true
                        | _ => false end) r
  end.

(* the group in progress when the run stopped, in model state s: some of the opens of
   [create_ops s p] (nothing created yet, so nothing to remove), or all of them and then writes
   to t = tmp_of s p, possibly closed, possibly removed again (error path: only ever t) *)
Definition partial_group_ok (c : case) (gs : list (path * bytes)) (rest : list op) (s : fs) : bool :=
  match rest with
  | [] => true
  | OpenNew c0 :: _ =>
      match target_of c0 with
      | Some p =>
          let t := tmp_of s p in
          existsb (fun pb => seqb p (fst pb) && negb (mem seqb p (map fst gs)) &&
                     (proper_prefix rest (create_ops s p) ||
                      match strip_ops (create_ops s p) rest with
                      | Some r =>
                          let '(b, r1) := take_appends t r "" in
                          starts_with b (snd pb) &&
                          match r1 with
                          | [] => true
                          | [Unlink t1] => seqb t1 t
                          | [Close t1] => seqb t1 t && seqb b (snd pb)
                          | [Close t1; Unlink t2] => seqb t1 t && seqb t2 t
                          | _ => false
                          end
                      | None => false
                      end)) (expected_writes c)
      | None => false
      end
  | _ => false
  end.

Definition fault_shape (c : case) (r : frun) : bool :=
  let ops := done_ops (f_trace r) in
  let '(gs, rest, s) := parse_groups (S (length ops)) ops (c_before c) in
  subset pair_eqb gs (expected_writes c) && nodup_paths gs &&
  partial_group_ok c gs rest s && after_fail_ok (f_trace r).

(* ---------- the property on snapshots ---------------------------------------------------------- *)

Definition note_paths (c : case) : list path := map l_path (load (c_tree c)).

(* the bytes the export holds for the note read from path q *)
Definition new_bytes (c : case) (q : path) : option bytes :=
  match find (fun l => seqb (l_path l) q) (load (c_tree c)) with
  | Some l => lookup (key_name (l_key l)) (c_export c)
  | None => None
  end.

Definition all_paths (a b : fs) : list path := map fst a ++ map fst b.

(* 1: every note is rewritten in place with the exported bytes (clean run, exit 0) *)
Definition p_in_place (c : case) : bool :=
  N.eqb (f_status (c_clean c)) 0 &&
  forallb (fun q => match new_bytes c q with
                    | Some b => obytes_eqb (lookup q (f_after (c_clean c))) (Some b)
                    | None => false end) (note_paths c).

(* 2: nothing else is created, deleted or changed (clean run) *)
Definition p_nothing_else (c : case) : bool :=
  let a := f_after (c_clean c) in
  forallb (fun q => mem seqb q (note_paths c) || obytes_eqb (lookup q a) (lookup q (c_before c)))
          (all_paths (c_before c) a) &&
  list_eqb seqb (f_dirs (c_clean c)) (c_dirs c).

(* 3: after a fault every file that existed holds its old bytes or, if it is a note, its
   complete new bytes *)
Definition old_or_newb (c : case) (r : frun) : bool :=
  forallb (fun q =>
             let now := lookup q (f_after r) in
             obytes_eqb now (lookup q (c_before c)) ||
             (mem seqb q (note_paths c) &&
              match new_bytes c q with Some b => obytes_eqb now (Some b) | None => false end))
          (map fst (c_before c)).
Definition p_atomic (c : case) : bool := forallb (old_or_newb c) (c_faults c).

(* 4: after a fault nothing else appears or disappears, except that a *killed* run may leave
   one file: the temporary sibling of one note, under the first of its candidate names
   `<note>.tmp`, `<note>.1.tmp`, .. that did not exist before the run (which no loader reads:
   its extension is tmp).  This is the third clause of C19_atomic. *)
Definition no_strangers (c : case) (r : frun) : bool :=
  match filter (fun q => negb (mem seqb q (map fst (c_before c)))) (map fst (f_after r)) with
  | [] => true
  | [q] => N.eqb (f_status r) 2 && existsb (fun p => seqb q (tmp_of (c_before c) p)) (note_paths c)
  | _ => false
  end &&
  list_eqb seqb (f_dirs r) (c_dirs c).
Definition p_no_strangers (c : case) : bool := forallb (no_strangers c) (c_faults c).

(* ---------- classes -------------------------------------------------------------------------------- *)

(* 1 (history): the implementation opened an existing note with O_TRUNC — the as-found
   `fs::write` on the note itself *)
Definition truncates_in_place (c : case) : bool :=
  existsb (fun r => existsb (fun e => match e with
                                      | Done (OpenTrunc p) => mem seqb p (note_paths c)
                                      | _ => false end) (f_trace r))
          (c_clean c :: c_faults c).

Definition run (c : case) : verdict :=
  let t := c_tree c in
  let s0 := files_of t in
  let corr :=
    (* 1: the tree on disk is the model's initial file system *)
    flag 1 (fs_eqb s0 (c_before c) && Nat.eqb (length s0) (length (c_before c))) ++
    (* 2: loader: observed (key, content) pairs come from the model's, every model key is observed *)
    flag 2 (subset pair_eqb (c_loaded c) (map (fun l => (l_key l, l_content l)) (load t)) &&
            subset seqb (map l_key (load t)) (map fst (c_loaded c)) &&
            Nat.eqb (length (c_loaded c)) (length (load t))) ++
    (* 3: exported keys = the distinct loaded keys (Key::name) *)
    flag 3 (set_eqb seqb (map fst (c_export c)) (written_keys t)) ++
    (* 4: the clean run's operations are normalize_ops (repaired shape) in some order *)
    flag 4 (clean_shape c) ++
    (* 5: model file-system semantics: replaying the observed operations gives the snapshot *)
    flag 5 (fs_eqb (run_ops (done_ops (f_trace (c_clean c))) (c_before c)) (f_after (c_clean c)) &&
            answers_ok (f_trace (c_clean c)) (c_before c)) ++
    (* 6: every fault run is a crash prefix / error stop of such a sequence *)
    flag 6 (forallb (fault_shape c) (c_faults c)) ++
    (* 7: semantics on the fault runs *)
    flag 7 (forallb (fun r => fs_eqb (run_ops (done_ops (f_trace r)) (c_before c)) (f_after r) &&
                              answers_ok (f_trace r) (c_before c)) (c_faults c)) in
  let prop :=
    flag 1 (p_in_place c) ++ flag 2 (p_nothing_else c) ++
    flag 3 (p_atomic c) ++ flag 4 (p_no_strangers c) in
  let cls :=
    (* (class 2, a loaded file named like `x.md.md`, is repaired: F14-double-md) *)
    (if truncates_in_place c then [1] else []) in
  let nontriv :=
    Nat.leb 2 (length (load t)) && Nat.ltb (length (load t)) (length s0) &&
    existsb (fun l => contains_char SEP (l_key l)) (load t) &&
    Nat.leb 3 (length (c_faults c)) in
  V corr prop cls nontriv.
