(* SquashFacts.v — proofs about Squash.v: the code-shaped model over the arena equals the
   recursive expansion over the collected trees (which terminates by construction), and the
   facts of C17 about that expansion. *)
From IweV Require Import Str Text Ast RelPath Arena Project Library Squash.
Local Open Scope string_scope.
Local Open Scope list_scope.

(* ---------- unfolding --------------------------------------------------------------------- *)

Lemma expand0_T : forall i n kids,
  expand0 (T i n kids) = T i n (order_tagged (map (fun c => (is_ref c, expand0 c)) kids)).
Proof. reflexivity. Qed.

Lemma expand_T : forall lk d i n kids,
  expand lk d (T i n kids) =
  T i n (concat (order_tagged (map (fun c => (is_ref c, child_spec lk d c)) kids))).
Proof. intros lk d i n kids. destruct d; reflexivity. Qed.

(* ---------- small tools ------------------------------------------------------------------- *)

Lemma bind_ok : forall {A B} (r : res A) (f : A -> res B) b,
  bind r f = Ok b -> exists x, r = Ok x /\ f x = Ok b.
Proof. intros A B r f b H. destruct r; simpl in H; [eauto | discriminate]. Qed.

Lemma pointer_node_none : forall ctx k, pointer_node ctx k = None -> k = KEmpty.
Proof. intros ctx k H. destruct k; simpl in H; try discriminate; reflexivity. Qed.

Definition live (a : arena) (i : nat) : Prop := exists n, get a i = Some n /\ g_kind n <> KEmpty.

Lemma sibling_ids_live : forall fuel a c ids,
  sibling_ids fuel a c = Ok ids -> Forall (live a) ids.
Proof.
  induction fuel as [|f IH]; intros a c ids H; simpl in H; [discriminate|].
  destruct (get a c) as [n|] eqn:E; [|discriminate].
  assert (L : g_kind n <> KEmpty -> live a c) by (intro; exists n; auto).
  destruct (g_kind n) eqn:K; try discriminate;
    (destruct (g_next n) as [nx|];
     [ apply bind_ok in H as (r & Hr & H1); inversion H1; subst; constructor;
       [apply L; discriminate | eapply IH; eauto]
     | inversion H; subst; constructor; [apply L; discriminate | constructor] ]).
Qed.

(* the two folds over the sibling chain: `collect` keeps the trees, squash maps each child *)
Lemma fold_corr : forall {X} (cstep : nat -> res (option tree)) (sstep : nat -> res X) (F : tree -> X) ids kids,
  (forall i t, In i ids -> cstep i = Ok (Some t) -> sstep i = Ok (F t)) ->
  (forall i, In i ids -> cstep i <> Ok None) ->
  fold_right (fun i acc => do r <- acc; do t <- cstep i;
                Ok (match t with Some t => t :: r | None => r end)) (Ok []) ids = Ok kids ->
  fold_right (fun i acc => do r <- acc; do x <- sstep i; Ok (x :: r)) (Ok []) ids = Ok (map F kids).
Proof.
  intros X cstep sstep F ids. induction ids as [|i ids IH]; intros kids Hs Hn H; simpl in *.
  - inversion H; reflexivity.
  - apply bind_ok in H as (r & Hr & H). apply bind_ok in H as (t & Ht & H).
    destruct t as [t|]; [|exfalso; eapply Hn; eauto].
    inversion H; subst.
    rewrite (IH r); auto. simpl.
    rewrite (Hs i t); auto.
Qed.

Section Corr.
  Variable g : graph.
  Notation a := (gr_arena g).
  Notation ctx := (get_key_title g).
  Notation nf := (fun (_ : nat) (k : gkind) => pointer_node ctx k).

  Lemma collect_fuel_live : forall f i, live a i -> collect_fuel f nf a i <> Ok None.
  Proof.
    intros f i (n & E & K) H. destruct f as [|f]; simpl in H; [discriminate|].
    rewrite E in H.
    destruct (pointer_node ctx (g_kind n)) eqn:P.
    - apply bind_ok in H as (x & _ & H). apply bind_ok in H as (y & _ & H). discriminate.
    - apply pointer_node_none in P. contradiction.
  Qed.

  Lemma collect_fuel_node : forall f i t,
    collect_fuel f nf a i = Ok (Some t) -> node_at g i = Ok (Some (t_node t)).
  Proof.
    intros f i t H. destruct f as [|f]; simpl in H; [discriminate|].
    unfold node_at. destruct (get a i) as [n|]; [|discriminate].
    destruct (pointer_node ctx (g_kind n)) eqn:P; [|discriminate].
    apply bind_ok in H as (x & _ & H). apply bind_ok in H as (y & _ & H).
    inversion H; subst. reflexivity.
  Qed.

  (* depth 0 *)
  Lemma squash0_collect : forall fuel id t,
    collect_fuel fuel nf a id = Ok (Some t) -> squash0 g fuel id = Ok (expand0 t).
  Proof.
    induction fuel as [|f IH]; intros id t H; simpl in H; [discriminate|].
    simpl. destruct (get a id) as [n|] eqn:E; [|discriminate].
    destruct (pointer_node ctx (g_kind n)) as [nd|] eqn:P; [|discriminate].
    apply bind_ok in H as (ids & Hids & H). apply bind_ok in H as (kids & Hk & H).
    inversion H; subst. rewrite Hids. simpl.
    assert (Hl : Forall (live a) ids).
    { destruct (g_child n); [eapply sibling_ids_live; eauto | inversion Hids; constructor]. }
    rewrite (fold_corr (fun i => collect_fuel f nf a i) _ (fun c => (is_ref c, expand0 c)) ids kids); auto.
    - intros i t Hin Hc. rewrite (collect_fuel_node _ _ _ Hc). simpl.
      rewrite (IH _ _ Hc). simpl. reflexivity.
    - intros i Hin. apply collect_fuel_live. rewrite Forall_forall in Hl. auto.
  Qed.

  (* every note of the library can be collected *)
  Definition Collectable : Prop :=
    forall key root, alookup key (gr_keys g) = Some root ->
      exists doc, collect ctx a root = Ok doc.

  Lemma collect_inv : forall root doc,
    collect ctx a root = Ok doc -> collect_fuel (S (length a)) nf a root = Ok (Some doc).
  Proof.
    intros root doc H. unfold collect in H.
    apply bind_ok in H as (x & Hx & H). destruct x; inversion H; subst. exact Hx.
  Qed.

  Lemma lk_graph_some : forall k root doc,
    alookup k (gr_keys g) = Some root -> collect ctx a root = Ok doc -> lk_graph g k = Some doc.
  Proof. intros k root doc Hk Hc. unfold lk_graph, collect_key. rewrite Hk, Hc. reflexivity. Qed.

  Lemma lk_graph_none : forall k, alookup k (gr_keys g) = None -> lk_graph g k = None.
  Proof. intros k Hk. unfold lk_graph, collect_key. rewrite Hk. reflexivity. Qed.

  (* one child, as [squash_at] treats it *)
  Definition sq_child (d f i : nat) : res (bool * list tree) :=
    do ni <- node_at g i;
    match ni with
    | Some (NRef k _ _) =>
        do t0 <- squash0 g f i;
        match d with
        | S d' =>
            match alookup k (gr_keys g) with
            | Some root => do r <- squash_at g d' (sq_fuel g) root; Ok (true, t_children r)
            | None => Ok (true, [t0])
            end
        | O => Ok (true, [t0])
        end
    | _ => do t <- squash_at g d f i; Ok (false, [t])
    end.

  Lemma squash_at_S : forall d f id,
    squash_at g d (S f) id =
    match get a id with
    | None => Panic "arena index out of bounds"
    | Some n =>
        match pointer_node ctx (g_kind n) with
        | None => Panic "squash_from_pointer: pointer.node().unwrap() on an Empty node"
        | Some nd =>
            do ids <- (match g_child n with None => Ok [] | Some c => sibling_ids f a c end);
            do kids <- fold_right (fun i acc => do r <- acc; do x <- sq_child d f i; Ok (x :: r)) (Ok []) ids;
            Ok (T (Some id) nd (concat (order_tagged kids)))
        end
    end.
  Proof. intros d f id. destruct d; reflexivity. Qed.

  Lemma squash_at_O : forall d id, squash_at g d 0 id = Panic "out of fuel".
  Proof. intros d id. destruct d; reflexivity. Qed.

  Lemma squash_at_collect : Collectable -> forall d fuel id t,
    collect_fuel fuel nf a id = Ok (Some t) -> squash_at g d fuel id = Ok (expand (lk_graph g) d t).
  Proof.
    intros HC. induction d as [|d IHd];
      (induction fuel as [|f IH]; intros id t H; simpl in H; [discriminate|];
       rewrite squash_at_S;
       destruct (get a id) as [n|] eqn:E; [|discriminate];
       destruct (pointer_node ctx (g_kind n)) as [nd|] eqn:P; [|discriminate];
       apply bind_ok in H as (ids & Hids & H); apply bind_ok in H as (kids & Hk & H);
       inversion H; subst; rewrite expand_T, Hids; cbn [bind];
       assert (Hl : Forall (live a) ids)
         by (destruct (g_child n); [eapply sibling_ids_live; eauto | inversion Hids; constructor])).
    - (* depth 0 *)
      rewrite (fold_corr (fun i => collect_fuel f nf a i) _
                 (fun c => (is_ref c, child_spec (lk_graph g) 0 c)) ids kids); auto.
      + intros i t Hin Hc. unfold sq_child. rewrite (collect_fuel_node _ _ _ Hc). cbn [bind].
        unfold child_spec, ref_key, is_ref. destruct (t_node t) eqn:N;
          try (rewrite (IH _ _ Hc); reflexivity).
        rewrite (squash0_collect _ _ _ Hc). reflexivity.
      + intros i Hin. apply collect_fuel_live. rewrite Forall_forall in Hl. auto.
    - (* depth S d *)
      rewrite (fold_corr (fun i => collect_fuel f nf a i) _
                 (fun c => (is_ref c, child_spec (lk_graph g) (S d) c)) ids kids); auto.
      + intros i t Hin Hc. unfold sq_child. rewrite (collect_fuel_node _ _ _ Hc). cbn [bind].
        unfold child_spec, ref_key, is_ref. destruct (t_node t) eqn:N;
          try (rewrite (IH _ _ Hc); reflexivity).
        rewrite (squash0_collect _ _ _ Hc). cbn [bind].
        destruct (alookup key (gr_keys g)) as [root|] eqn:K.
        * destruct (HC _ _ K) as (doc & Hdoc).
          unfold sq_fuel. rewrite (IHd _ _ _ (collect_inv _ _ Hdoc)). cbn [bind].
          rewrite (lk_graph_some _ _ _ K Hdoc). reflexivity.
        * rewrite (lk_graph_none _ K). reflexivity.
      + intros i Hin. apply collect_fuel_live. rewrite Forall_forall in Hl. auto.
  Qed.
End Corr.

(* ---------- the code equals the specification; termination -------------------------------- *)

Lemma alookup_in : forall {A} k (l : list (string * A)) v,
  alookup k l = Some v -> exists k', In (k', v) l.
Proof.
  intros A k l. induction l as [|[k' v'] l IH]; intros v H; simpl in H; [discriminate|].
  destruct (String.eqb k k').
  - inversion H; subst. exists k'. left; reflexivity.
  - destruct (IH _ H) as (k'' & Hin). exists k''. right; exact Hin.
Qed.

Lemma collectable_Collectable : forall g, collectable g = true -> Collectable g.
Proof.
  intros g H key root Hk. unfold collectable in H. rewrite forallb_forall in H.
  destruct (alookup_in _ _ _ Hk) as (k' & Hin). specialize (H _ Hin). simpl in H.
  destruct (collect (get_key_title g) (gr_arena g) root) as [doc|]; [eauto | discriminate].
Qed.

(* C17_equation, top level: on a library whose notes can be collected, what the code
   computes (navigation over the arena with fuel [sq_fuel]) is the recursive expansion of the
   collected trees; in particular it is never the out-of-fuel result nor any other panic. *)
Theorem squash_is_expand : forall g, collectable g = true ->
  forall key d, squash g key d = squash_spec g key d.
Proof.
  intros g H key d. unfold squash, squash_spec, collect_key.
  destruct (alookup key (gr_keys g)) as [root|] eqn:K; [|reflexivity].
  destruct (collectable_Collectable g H _ _ K) as (doc & Hdoc). rewrite Hdoc. simpl.
  apply squash_at_collect; [apply collectable_Collectable; exact H | apply collect_inv; exact Hdoc].
Qed.

Theorem squash_terminates : forall g, collectable g = true ->
  forall key root d, alookup key (gr_keys g) = Some root ->
    exists doc, collect_key g key = Ok doc /\ squash g key d = Ok (expand (lk_graph g) d doc).
Proof.
  intros g H key root d K. rewrite squash_is_expand by exact H.
  unfold squash_spec, collect_key. rewrite K.
  destruct (collectable_Collectable g H _ _ K) as (doc & Hdoc). rewrite Hdoc. simpl. eauto.
Qed.

(* ---------- the CLI path ------------------------------------------------------------------- *)
(* `iwe squash` (squashed tree -> builder -> export) prints a text for every tree: with the
   heading level a usize (projector.rs:38-41, model.rs:129) no nesting overflows.  As found the
   level was a u8 and this failed for every tree that nests sections 256 deep (F-C17-1). *)
Lemma squash_cli_text_total : forall key t,
  squash_cli_text key t = Ok (tree_to_markdown (Opts "") [] (key_parent key) t).
Proof. reflexivity. Qed.

(* ... hence for an existing key the whole CLI path returns, at every depth and on every
   reference graph: the rendering of the expansion *)
Theorem squash_cli_returns : forall g, collectable g = true ->
  forall key root d, alookup key (gr_keys g) = Some root ->
    exists doc, collect_key g key = Ok doc /\
      (do t <- squash g key d; squash_cli_text key t) =
      Ok (tree_to_markdown (Opts "") [] (key_parent key) (expand (lk_graph g) d doc)).
Proof.
  intros g H key root d K.
  destruct (squash_terminates g H key root d K) as (doc & Hdoc & Hsq).
  exists doc. split; [exact Hdoc|]. rewrite Hsq. reflexivity.
Qed.

(* ---------- the order ------------------------------------------------------------------------ *)

Lemma order_tagged_map : forall {A B} (f : A -> bool) (h : A -> B) l,
  order_tagged (map (fun c => (f c, h c)) l) =
  match l with
  | [] => []
  | c :: r => h c :: map h (filter (fun x => negb (f x)) r) ++ map h (filter f r)
  end.
Proof.
  intros A B f h l. destruct l as [|c r]; [reflexivity|]. simpl. f_equal. f_equal.
  - induction r as [|x r IH]; simpl; [reflexivity|]. destruct (f x); simpl; [|f_equal]; exact IH.
  - induction r as [|x r IH]; simpl; [reflexivity|]. destruct (f x); simpl; [f_equal|]; exact IH.
Qed.

Lemma concat_map_single : forall {A B} (h : A -> B) l, concat (map (fun c => [h c]) l) = map h l.
Proof. intros A B h l. induction l; simpl; [reflexivity | f_equal; assumption]. Qed.

Lemma order_tagged_single : forall {A B} (f : A -> bool) (h : A -> B) l,
  concat (order_tagged (map (fun c => (f c, [h c])) l)) = order_tagged (map (fun c => (f c, h c)) l).
Proof.
  intros A B f h l. rewrite (order_tagged_map f (fun c => [h c])), (order_tagged_map f h).
  destruct l as [|c r]; [reflexivity|]. simpl. f_equal.
  rewrite concat_app, !concat_map_single. reflexivity.
Qed.

(* C17_depth0: at depth 0 nothing is expanded *)
Theorem expand_depth0 : forall lk t, expand lk 0 t = expand0 t.
Proof.
  intros lk t. induction t as [i n kids IH] using tree_ind'.
  rewrite expand_T, expand0_T. f_equal.
  rewrite <- (order_tagged_single is_ref expand0). f_equal. f_equal.
  apply map_ext_in. intros c Hc. f_equal.
  unfold child_spec. destruct (ref_key c); [reflexivity|].
  rewrite Forall_forall in IH. rewrite (IH _ Hc). reflexivity.
Qed.

(* ... and when no non-reference follows a reference after the first child, anywhere in the
   tree, nothing moves either: squash at depth 0 is the collected tree itself *)
Lemma refs_last_list_true : forall r, refs_last_list true r = true -> filter (fun x => negb (is_ref x)) r = [] /\ filter is_ref r = r.
Proof.
  induction r as [|c r IH]; simpl; intros H; [auto|].
  destruct (is_ref c) eqn:E; simpl in *; [|discriminate].
  destruct (IH H) as (A & B). rewrite A, B. auto.
Qed.

Lemma refs_last_list_false : forall r, refs_last_list false r = true ->
  filter (fun x => negb (is_ref x)) r ++ filter is_ref r = r.
Proof.
  induction r as [|c r IH]; simpl; intros H; [reflexivity|].
  destruct (is_ref c) eqn:E; simpl in *.
  - destruct (refs_last_list_true _ H) as (A & B). rewrite A, B. reflexivity.
  - f_equal. apply IH. exact H.
Qed.

Lemma refs_last_T : forall i n kids, refs_last (T i n kids) = true ->
  match kids with [] => True | _ :: r => refs_last_list false r = true end /\
  Forall (fun c => refs_last c = true) kids.
Proof.
  intros i n kids H. simpl in H. apply andb_true_iff in H as (A & B). split.
  - destruct kids; auto.
  - clear A. induction kids as [|c r IH]; [constructor|].
    apply andb_true_iff in B as (B1 & B2). constructor; auto.
Qed.

Theorem expand0_id : forall t, refs_last t = true -> expand0 t = t.
Proof.
  induction t as [i n kids IH] using tree_ind'. intros H.
  apply refs_last_T in H as (A & B). rewrite expand0_T. f_equal.
  rewrite (order_tagged_map is_ref expand0).
  destruct kids as [|c r]; [reflexivity|].
  inversion IH as [|? ? IHc IHr]; subst. inversion B as [|? ? Bc Br]; subst.
  rewrite (IHc Bc). f_equal.
  rewrite <- map_app, (refs_last_list_false _ A).
  rewrite <- (map_id r) at 2. apply map_ext_in. intros x Hx.
  rewrite Forall_forall in IHr, Br. auto.
Qed.

(* ---------- content: the non-reference nodes of the root occur once, in order ---------------- *)

Lemma refs_leaf_T : forall i n kids, refs_leaf (T i n kids) = true ->
  (is_ref_node n = true -> kids = []) /\ Forall (fun c => refs_leaf c = true) kids.
Proof.
  intros i n kids H. simpl in H. apply andb_true_iff in H as (A & B). split.
  - intros R. rewrite R in A. destruct kids; [reflexivity | discriminate].
  - clear A. induction kids as [|c r IH]; [constructor|].
    apply andb_true_iff in B as (B1 & B2). constructor; auto.
Qed.

Lemma is_ref_ref_key : forall c, is_ref c = true <-> exists k, ref_key c = Some k.
Proof.
  intros [i n kids]. unfold is_ref, ref_key. simpl. destruct n; simpl; split; intros H;
    try discriminate; try (destruct H; discriminate); eauto.
Qed.

Lemma ref_leaf_shape : forall c, refs_leaf c = true -> is_ref c = true -> expand0 c = c /\ t_children c = [].
Proof.
  intros [i n kids] L R. apply refs_leaf_T in L as (A & _). unfold is_ref in R. simpl in R.
  rewrite (A R). split; reflexivity.
Qed.

Lemma flat_map_concat' : forall {A B} (f : A -> list B) l, flat_map f (concat l) = flat_map (flat_map f) l.
Proof.
  intros A B f l. induction l as [|x l IH]; simpl; [reflexivity|].
  rewrite flat_map_app, IH. reflexivity.
Qed.

Lemma flat_map_map' : forall {A B C} (g : A -> B) (f : B -> list C) l, flat_map f (map g l) = flat_map (fun x => f (g x)) l.
Proof. intros A B C g f l. induction l; simpl; [reflexivity | rewrite IHl; reflexivity]. Qed.

Lemma filter_flat_map : forall {A B} (p : B -> bool) (f : A -> list B) l,
  filter p (flat_map f l) = flat_map (fun x => filter p (f x)) l.
Proof.
  intros A B p f l. induction l as [|x l IH]; simpl; [reflexivity|].
  rewrite filter_app, IH. reflexivity.
Qed.

(* whatever is empty on the references may be summed in either order *)
Lemma order_tagged_flat : forall {X Y} (w : X -> list Y) (l : list (bool * X)),
  (forall x, In x l -> fst x = true -> w (snd x) = []) ->
  flat_map w (order_tagged l) = flat_map (fun x => w (snd x)) l.
Proof.
  intros X Y w l H. destruct l as [|c r]; [reflexivity|]. simpl. f_equal.
  assert (Hr : forall x, In x r -> fst x = true -> w (snd x) = []) by (intros; apply H; [right|]; auto).
  clear H. induction r as [|x r IH]; [reflexivity|]. simpl.
  assert (Hr' : forall y, In y r -> fst y = true -> w (snd y) = []) by (intros; apply Hr; [right|]; auto).
  specialize (IH Hr'). destruct (fst x) eqn:E; simpl.
  - rewrite (Hr x (or_introl eq_refl) E). simpl.
    rewrite flat_map_app in *. simpl. rewrite (Hr x (or_introl eq_refl) E). simpl. exact IH.
  - rewrite IH. reflexivity.
Qed.

Lemma In_order_tagged : forall {A} (l : list (bool * A)) x, In x (order_tagged l) -> In x (map snd l).
Proof.
  intros A l x H. destruct l as [|c r]; [exact H|]. simpl in *. destruct H as [H|H]; [left; exact H|right].
  apply in_app_or in H. destruct H as [H|H]; apply in_map_iff in H as (y & Hy & Hin);
    apply filter_In in Hin as (Hin & _); apply in_map_iff; eauto.
Qed.

Lemma items_T : forall i n kids, items (T i n kids) = (i, n) :: flat_map items kids.
Proof. reflexivity. Qed.

Lemma items_expand0 : forall t it, In it (items (expand0 t)) -> In it (items t).
Proof.
  induction t as [i n kids IH] using tree_ind'. intros it H.
  rewrite expand0_T, items_T in H. rewrite items_T. destruct H as [H|H]; [left; exact H|right].
  apply in_flat_map in H as (x & Hx & Hit). apply In_order_tagged in Hx.
  rewrite map_map in Hx. simpl in Hx. apply in_map_iff in Hx as (c & Hc & Hin). subst x.
  apply in_flat_map. exists c. split; [exact Hin|]. rewrite Forall_forall in IH. auto.
Qed.

(* every node of the result comes from the root note or from a note of the library *)
Lemma items_origin : forall lk d t it, In it (items (expand lk d t)) ->
  In it (items t) \/ exists k doc, lk k = Some doc /\ In it (items doc).
Proof.
  intros lk. induction d as [|d IHd]; (induction t as [i n kids IH] using tree_ind'; intros it H;
    rewrite expand_T, items_T in H; rewrite items_T; destruct H as [H|H]; [left; left; exact H|];
    apply in_flat_map in H as (x & Hx & Hit); apply in_concat in Hx as (xs & Hxs & Hx);
    apply In_order_tagged in Hxs; rewrite map_map in Hxs; simpl in Hxs;
    apply in_map_iff in Hxs as (c & Hc & Hin); subst xs; rewrite Forall_forall in IH;
    unfold child_spec in Hx; destruct (ref_key c) as [k|] eqn:RK).
  - destruct Hx as [Hx|[]]; subst x. left; right. apply in_flat_map. exists c. split; [exact Hin | apply items_expand0; exact Hit].
  - destruct Hx as [Hx|[]]; subst x. destruct (IH _ Hin _ Hit) as [A|A]; [|right; exact A].
    left; right. apply in_flat_map. eauto.
  - destruct (lk k) as [doc|] eqn:L.
    + assert (Hd : In it (items (expand lk d doc))).
      { destruct (expand lk d doc) as [i' n' kids'] eqn:E. simpl in Hx. rewrite items_T. right.
        apply in_flat_map. eauto. }
      destruct (IHd _ _ Hd) as [A|A]; right; [exists k, doc; auto | exact A].
    + destruct Hx as [Hx|[]]; subst x. left; right. apply in_flat_map. exists c. split; [exact Hin | apply items_expand0; exact Hit].
  - destruct Hx as [Hx|[]]; subst x. destruct (IH _ Hin _ Hit) as [A|A]; [|right; exact A].
    left; right. apply in_flat_map. eauto.
Qed.

Lemma filter_cons' : forall {A} (p : A -> bool) x l,
  filter p (x :: l) = (if p x then [x] else []) ++ filter p l.
Proof. intros A p x l. simpl. destruct (p x); reflexivity. Qed.

Section ContentOnce.
  Variable own : option nat -> bool.     (* which ids mark the root note's own nodes *)
  Variable lk : lookup.

  Definition keep (it : item) : bool := own (fst it) && negb (is_ref_node (snd it)).
  Definition foreign (t : tree) : Prop := forall it, In it (items t) -> own (fst it) = false.

  (* the library's notes carry none of the marked ids, and their references are leaves *)
  Hypothesis lk_foreign : forall k doc, lk k = Some doc -> foreign doc.

  Lemma filter_keep_foreign : forall l, (forall it, In it l -> own (fst it) = false) -> filter keep l = [].
  Proof.
    induction l as [|x l IH]; intros H; [reflexivity|]. simpl. unfold keep at 1.
    rewrite (H x (or_introl eq_refl)). simpl. apply IH. intros; apply H; right; auto.
  Qed.

  Lemma foreign_expand : forall d doc, foreign doc -> foreign (expand lk d doc).
  Proof.
    intros d doc F it H. destruct (items_origin _ _ _ _ H) as [A|(k & doc' & L & A)]; [auto|].
    eapply lk_foreign; eauto.
  Qed.

  Theorem content_once : forall d t, refs_leaf t = true ->
    filter keep (items (expand lk d t)) = filter keep (items t).
  Proof.
    intros d. induction t as [i n kids IH] using tree_ind'. intros L.
    apply refs_leaf_T in L as (_ & L).
    rewrite expand_T, !items_T, !filter_cons'. f_equal.
    rewrite !filter_flat_map, flat_map_concat'.
    rewrite (order_tagged_flat (flat_map (fun x => filter keep (items x)))).
    - rewrite flat_map_map'. simpl.
      rewrite Forall_forall in IH, L.
      assert (E : forall c, In c kids ->
                  flat_map (fun x => filter keep (items x)) (child_spec lk d c) = filter keep (items c)).
      { intros c Hc. unfold child_spec. destruct (ref_key c) as [k|] eqn:RK.
        - assert (R : is_ref c = true) by (apply is_ref_ref_key; eauto).
          destruct (ref_leaf_shape c (L _ Hc) R) as (E0 & Ch).
          assert (Fc : filter keep (items c) = []).
          { destruct c as [ci cn ck]. simpl in Ch; subst ck. simpl. unfold keep. simpl.
            unfold is_ref in R; simpl in R. rewrite R. rewrite andb_false_r. reflexivity. }
          rewrite Fc. destruct d as [|d'].
          + simpl. rewrite E0, Fc. reflexivity.
          + destruct (lk k) as [doc|] eqn:LK.
            * rewrite <- filter_flat_map. apply filter_keep_foreign. intros it Hit.
              apply (foreign_expand d' doc (lk_foreign _ _ LK)).
              destruct (expand lk d' doc) as [i' n' kids']. simpl in Hit. rewrite items_T. right. exact Hit.
            * simpl. rewrite E0, Fc. reflexivity.
        - simpl. rewrite app_nil_r. apply IH; auto. }
      clear IH L. induction kids as [|c r IHr]; [reflexivity|]. simpl.
      rewrite (E c (or_introl eq_refl)). f_equal. apply IHr. intros; apply E; right; auto.
    - intros x Hx Fx. apply in_map_iff in Hx as (c & Hc & Hin). subst x. simpl in *.
      rewrite Forall_forall in L.
      destruct (proj1 (is_ref_ref_key c) Fx) as (k & RK).
      destruct (ref_leaf_shape c (L _ Hin) Fx) as (E0 & Ch).
      assert (Fc : filter keep (items c) = []).
      { destruct c as [ci cn ck]. simpl in Ch; subst ck. simpl. unfold keep. simpl.
        unfold is_ref in Fx; simpl in Fx. rewrite Fx. rewrite andb_false_r. reflexivity. }
      unfold child_spec. rewrite RK. destruct d as [|d'].
      + simpl. rewrite E0, Fc. reflexivity.
      + destruct (lk k) as [doc|] eqn:LK.
        * rewrite <- filter_flat_map. apply filter_keep_foreign. intros it Hit.
          apply (foreign_expand d' doc (lk_foreign _ _ LK)).
          destruct (expand lk d' doc) as [i' n' kids']. simpl in Hit. rewrite items_T. right. exact Hit.
        * simpl. rewrite E0, Fc. reflexivity.
  Qed.
End ContentOnce.

(* ---------- the expansion equation, child by child -------------------------------------------- *)

Lemma child_ref_expanded : forall lk d c k doc,
  ref_key c = Some k -> lk k = Some doc -> child_spec lk (S d) c = t_children (expand lk d doc).
Proof. intros lk d c k doc R L. unfold child_spec. rewrite R, L. reflexivity. Qed.

Lemma child_ref_missing : forall lk d c k,
  ref_key c = Some k -> lk k = None -> refs_leaf c = true -> child_spec lk d c = [c].
Proof.
  intros lk d c k R L F. unfold child_spec. rewrite R, L.
  destruct (ref_leaf_shape c F (proj2 (is_ref_ref_key c) (ex_intro _ k R))) as (E & _).
  rewrite E. destruct d; reflexivity.
Qed.

Lemma child_ref_depth0 : forall lk c k,
  ref_key c = Some k -> refs_leaf c = true -> child_spec lk 0 c = [c].
Proof.
  intros lk c k R F. unfold child_spec. rewrite R.
  destruct (ref_leaf_shape c F (proj2 (is_ref_ref_key c) (ex_intro _ k R))) as (E & _).
  rewrite E. reflexivity.
Qed.

Lemma child_nonref : forall lk d c, ref_key c = None -> child_spec lk d c = [expand lk d c].
Proof. intros lk d c R. unfold child_spec. rewrite R. reflexivity. Qed.

(* ---------- size ------------------------------------------------------------------------------ *)

Lemma tsize_T : forall i n kids, tsize (T i n kids) = S (tsize_l kids).
Proof. reflexivity. Qed.

Lemma nrefs_T : forall i n kids,
  nrefs (T i n kids) = (if is_ref_node n then 1 else 0) + fold_right (fun c a => nrefs c + a) 0 kids.
Proof. reflexivity. Qed.

Definition sum_by {X} (w : X -> nat) (l : list X) : nat := fold_right (fun x n => w x + n) 0 l.

Lemma sum_by_app : forall {X} (w : X -> nat) l1 l2, sum_by w (l1 ++ l2) = sum_by w l1 + sum_by w l2.
Proof. intros X w l1 l2. induction l1; simpl; [reflexivity | rewrite IHl1; lia]. Qed.

Lemma sum_by_map : forall {X Y} (g : X -> Y) (w : Y -> nat) l, sum_by w (map g l) = sum_by (fun x => w (g x)) l.
Proof. intros X Y g w l. induction l; simpl; [reflexivity | rewrite IHl; reflexivity]. Qed.

Lemma sum_order_tagged : forall {X} (w : X -> nat) (l : list (bool * X)),
  sum_by w (order_tagged l) = sum_by (fun x => w (snd x)) l.
Proof.
  intros X w l. destruct l as [|c r]; [reflexivity|]. simpl. f_equal.
  rewrite sum_by_app, !sum_by_map. induction r as [|x r IH]; [reflexivity|]. simpl.
  destruct (fst x); simpl; lia.
Qed.

Lemma tsize_l_concat : forall l, tsize_l (concat l) = sum_by tsize_l l.
Proof.
  induction l as [|x l IH]; [reflexivity|]. simpl. unfold tsize_l in *.
  rewrite fold_right_app. rewrite IH. clear IH.
  induction x as [|t x IHx]; simpl; [reflexivity | rewrite IHx; lia].
Qed.

Lemma tsize_expand0 : forall t, tsize (expand0 t) = tsize t.
Proof.
  induction t as [i n kids IH] using tree_ind'. rewrite expand0_T, !tsize_T. f_equal.
  change (tsize_l ?l) with (sum_by tsize l). rewrite sum_order_tagged, sum_by_map. simpl.
  induction kids as [|c r IHr]; [reflexivity|]. inversion IH; subst. simpl. rewrite H1, IHr; auto.
Qed.

Lemma sum_le : forall {X} (f g h : X -> nat) B l,
  (forall x, In x l -> f x <= g x + h x * B) -> sum_by f l <= sum_by g l + sum_by h l * B.
Proof.
  intros X f g h B l H. induction l as [|x l IH]; simpl; [lia|].
  assert (A := H x (or_introl eq_refl)).
  assert (IH' : sum_by f l <= sum_by g l + sum_by h l * B) by (apply IH; intros; apply H; right; auto).
  nia.
Qed.

Lemma nrefs_ref_pos : forall c k, ref_key c = Some k -> 1 <= nrefs c.
Proof.
  intros [i n kids] k H. unfold ref_key in H. simpl in H. rewrite nrefs_T.
  destruct n; try discriminate. simpl. lia.
Qed.

Lemma tsize_children_le : forall t, tsize_l (t_children t) <= tsize t.
Proof. intros [i n kids]. rewrite tsize_T. simpl. lia. Qed.

(* one level: every reference adds at most B, the largest expansion one level below *)
Lemma size_step : forall lk d B,
  (forall k doc, lk k = Some doc -> tsize (expand lk d doc) <= B) ->
  forall t, tsize (expand lk (S d) t) <= tsize t + nrefs t * B.
Proof.
  intros lk d B HB. induction t as [i n kids IH] using tree_ind'.
  rewrite expand_T, !tsize_T, nrefs_T, tsize_l_concat, sum_order_tagged, sum_by_map. simpl.
  assert (S1 : sum_by (fun c => tsize_l (child_spec lk (S d) c)) kids
               <= sum_by tsize kids + sum_by nrefs kids * B).
  { apply sum_le. intros c Hc. unfold child_spec. destruct (ref_key c) as [k|] eqn:RK.
    - assert (P := nrefs_ref_pos _ _ RK). destruct (lk k) as [doc|] eqn:L.
      + assert (A := tsize_children_le (expand lk d doc)). assert (A2 := HB _ _ L).
        assert (B <= nrefs c * B) by nia. lia.
      + unfold tsize_l. cbn [fold_right]. rewrite tsize_expand0. lia.
    - unfold tsize_l. cbn [fold_right]. rewrite Forall_forall in IH. assert (A := IH _ Hc). lia. }
  change (tsize_l kids) with (sum_by tsize kids).
  change (fold_right (fun c a => nrefs c + a) 0 kids) with (sum_by nrefs kids).
  destruct (is_ref_node n); nia.
Qed.

(* C17_size_bound *)
Theorem size_bound : forall lk s r,
  (forall k doc, lk k = Some doc -> tsize doc <= s /\ nrefs doc <= r) ->
  forall d t, tsize t <= s -> nrefs t <= r -> tsize (expand lk d t) <= bound s r d.
Proof.
  intros lk s r HL. induction d as [|d IH]; intros t Hs Hr.
  - rewrite expand_depth0, tsize_expand0. exact Hs.
  - assert (A := size_step lk d (bound s r d)
                  (fun k doc L => IH doc (proj1 (HL _ _ L)) (proj2 (HL _ _ L))) t).
    assert (M : nrefs t * bound s r d <= r * bound s r d) by (apply Nat.mul_le_mono_r; exact Hr).
    cbn [bound]. lia.
Qed.

Lemma bound_pow : forall s r d, bound s r d <= s * (r + 1) ^ d.
Proof.
  intros s r d. induction d as [|d IH]; simpl; [lia|].
  assert (P : 1 <= (r + 1) ^ d) by (assert (Q := Nat.pow_nonzero (r + 1) d); lia).
  nia.
Qed.

(* the bound is linear in the depth when there is at most one reference per note (chains,
   single self-loops, rings): why depth 255 is feasible exactly there *)
Lemma bound_linear : forall s d, bound s 1 d = s * (d + 1).
Proof. intros s d. induction d as [|d IH]; simpl; [lia | rewrite IH; lia]. Qed.
