(* SquashFacts.v — proofs about Squash.v *)
From IweV Require Import Str Text Ast RelPath Arena Project Library Squash.
Local Open Scope string_scope.
Local Open Scope list_scope.

Lemma expand0_T : forall i n kids,
  expand0 (T i n kids) = T i n (order_tagged (map (fun c => (is_ref c, expand0 c)) kids)).
Proof. reflexivity. Qed.
