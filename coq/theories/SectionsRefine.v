(* SectionsRefine.v — refinement "cursor machine = specification" (C01 / C07):
   the tree read back (`collect_raw`) from the arena built by the transliterated
   SectionsBuilder / GraphBuilder (`build_document`, Arena.v) is the pure specification
   `spec_tree` (SectionsSpec.v), for EVERY arena, key and block list; the node ids of that tree
   are length a, length a + 1, ... in pre-order
   (nodes are allocated in document order).  This replaces the per-run check `spec_corr`
   (Check_Norm.v, correspondence stage 7) by a theorem.

   Method: a forest is *laid* in an arena from id [i] when its nodes occupy the ids
   i, i+1, ... in pre-order, a node's child link is the next id (or None for no children), a
   root's next link is the id after its subtree (the last root's: a given value).  Each of
   the five mutually recursive builder functions, run from a cursor (cur, insert), *appends*
   the specified forest: the new ids hold the forest laid out, the only older slot touched is
   the cursor's link (child if insert, else next), which now points at the first new id, and
   the cursor ends on the last new root with insert = false (or nothing changed if the
   forest is empty).  Appending composes; collect on a laid tree returns the tree with its
   pre-order ids; fuel S (length arena) suffices because links only go forward.

   Headlines: sections_refines_label (read back = label (spec_tree key bs) (length a), arena grew by
   tsz nodes), sections_refines (the statement of the task), sections_refines_ids,
   sections_refines_itemlead (the former witness of F-ITEMLEAD, now an instance), and the end-to-end corollaries
   built_conserves (C01) / built_identity (C07): the theorems of SectionsFacts.v about the
   specification hold for the tree the builder builds.  No hypothesis on the old arena [a]. *)
From IweV Require Import Str Ast RelPath Arena ArenaWF ArenaFacts Project SectionsSpec BuilderFacts Check_Norm NormFacts SectionsFacts.
From Coq Require Import Lia.
Local Open Scope string_scope.
Local Open Scope list_scope.

(* ---------- sizes, pre-order labelling ------------------------------------------------------- *)

Fixpoint tsz (t : tree) : nat :=
  match t with
  | T _ _ ts => S ((fix go (l : list tree) : nat := match l with [] => 0 | x :: r => tsz x + go r end) ts)
  end.
Fixpoint fsz (ts : list tree) : nat := match ts with [] => 0 | x :: r => tsz x + fsz r end.

Lemma tsz_T i nd ts : tsz (T i nd ts) = S (fsz ts).
Proof. reflexivity. Qed.

Lemma tsz_pos t : 1 <= tsz t.
Proof. destruct t. rewrite tsz_T. lia. Qed.

Lemma fsz_app a b : fsz (a ++ b) = fsz a + fsz b.
Proof. induction a as [|x a IH]; cbn [app fsz]; [reflexivity | rewrite IH; lia]. Qed.

(* the tree with its nodes numbered id, id+1, ... in pre-order *)
Fixpoint label (t : tree) (id : nat) {struct t} : tree :=
  match t with
  | T _ nd ts =>
      T (Some id) nd
        ((fix go (l : list tree) (i : nat) {struct l} : list tree :=
            match l with [] => [] | x :: r => label x i :: go r (i + tsz x) end) ts (S id))
  end.
Fixpoint labelf (ts : list tree) (id : nat) : list tree :=
  match ts with [] => [] | x :: r => label x id :: labelf r (id + tsz x) end.

Lemma label_T i nd ts id : label (T i nd ts) id = T (Some id) nd (labelf ts (S id)).
Proof. reflexivity. Qed.

(* the ids of a tree in pre-order *)
Fixpoint pre_ids (t : tree) : list (option nat) :=
  match t with
  | T i _ ts => i :: (fix go (l : list tree) : list (option nat) := match l with [] => [] | x :: r => pre_ids x ++ go r end) ts
  end.
Definition pre_idsf (ts : list tree) : list (option nat) := flat_map pre_ids ts.
Lemma pre_ids_T i nd ts : pre_ids (T i nd ts) = i :: pre_idsf ts.
Proof. reflexivity. Qed.

(* the ids of the roots of a forest laid from [id]; the id of its last root *)
Fixpoint roots (ts : list tree) (id : nat) : list nat :=
  match ts with [] => [] | x :: r => id :: roots r (id + tsz x) end.
Fixpoint lastroot (ts : list tree) (id : nat) : nat :=
  match ts with
  | [] => id
  | x :: r => match r with [] => id | _ => lastroot r (id + tsz x) end
  end.

(* ---------- a tree laid out in an arena ------------------------------------------------------ *)

Fixpoint laid (a : arena) (t : tree) (id : nat) (nx : option nat) {struct t} : Prop :=
  match t with
  | T _ nd ts =>
      exists n, get a id = Some n /\ kind_node (g_kind n) = Some nd /\ g_next n = nx /\
                g_child n = match ts with [] => None | _ => Some (S id) end /\
                (fix lf (l : list tree) (i : nat) {struct l} : Prop :=
                   match l with
                   | [] => True
                   | x :: r => laid a x i (match r with [] => None | _ => Some (i + tsz x) end) /\ lf r (i + tsz x)
                   end) ts (S id)
  end.

(* a forest laid from [id]; [fin] is the next link of its last root *)
Fixpoint laidf (a : arena) (ts : list tree) (id : nat) (fin : option nat) {struct ts} : Prop :=
  match ts with
  | [] => True
  | x :: r => laid a x id (match r with [] => fin | _ => Some (id + tsz x) end) /\ laidf a r (id + tsz x) fin
  end.

Lemma laid_T a i nd ts id nx :
  laid a (T i nd ts) id nx <->
  exists n, get a id = Some n /\ kind_node (g_kind n) = Some nd /\ g_next n = nx /\
            g_child n = match ts with [] => None | _ => Some (S id) end /\ laidf a ts (S id) None.
Proof.
  cbn [laid].
  assert (E : forall l k,
    (fix lf (l : list tree) (i : nat) {struct l} : Prop :=
       match l with
       | [] => True
       | x :: r => laid a x i (match r with [] => None | _ => Some (i + tsz x) end) /\ lf r (i + tsz x)
       end) l k = laidf a l k None).
  { induction l as [|x r IH]; intros k; [reflexivity|]. cbn [laidf]. now rewrite IH. }
  rewrite E. reflexivity.
Qed.
Global Opaque laid.

(* ---------- experiments (statement tested before it was proved) ------------------------------ *)

Definition p (s : string) : dblock := DPara (0, 1) [Str s].
Definition hd (n : nat) (s : string) : dblock := DHeader (0, 1) n [Str s].

Definition sample1 : list dblock :=
  [p "a"; DBList [[p "i1"; p "i1b"; DQuote (0,1) [p "q"; hd 2 "qh"; p "x"]]; []; [DOList [[p "n1"]; [hd 1 "n2"; DRule (0,1)]]]; [DBList []]];
   DCode (0,1) None "c"; hd 1 "A"; p "b"; hd 2 "B"; DBList [[]]; hd 3 "C"; hd 1 "D"; DQuote (0,1) []].
Definition sample2 : list dblock := [hd 3 "x"; hd 1 "y"; DBList [[DBList [[DBList [[p "deep"; DBList [[p "z"]]]]]]]]].

Definition read_back (a : arena) (key : string) (bs : list dblock) : res (option tree) :=
  do st <- build_document a key bs; collect_raw (b_arena st) (length a).

Definition old_arena : arena := [GN (KDocument "o") None None (Some 1); GN (KLeaf []) (Some 0) None None].

Example test1 : read_back [] "d/k" sample1 = Ok (Some (label (spec_tree "d/k" sample1) 0)).
Proof. vm_compute. reflexivity. Qed.
Example test2 : read_back old_arena "k" sample2 = Ok (Some (label (spec_tree "k" sample2) 2)).
Proof. vm_compute. reflexivity. Qed.
Example test3 : read_back old_arena "k" [] = Ok (Some (label (spec_tree "k" []) 2)).
Proof. vm_compute. reflexivity. Qed.
(* items that do not start with text (F-LEADPANIC / F-ITEMLEAD before the builder repair) *)
Definition sample3 : list dblock :=
  [DBList [[DQuote (0,1) [p "q"]]; [DCode (0,1) None "c"; p "x"]; [DRule (0,1)]; [DBList [[p "a"; p "b"]]; p "c"; hd 2 "h"; p "d"];
           [DOList [[DTable (0,1) [] [] []]]]]].
Example test4 : read_back old_arena "k" sample3 = Ok (Some (label (spec_tree "k" sample3) 2)).
Proof. vm_compute. reflexivity. Qed.

(* ---------- facts about laid forests ---------------------------------------------------------- *)

Lemma laidf_cons a x r id fin :
  laidf a (x :: r) id fin =
  (laid a x id (match r with [] => fin | _ => Some (id + tsz x) end) /\ laidf a r (id + tsz x) fin).
Proof. reflexivity. Qed.

(* a laid tree lies inside the arena *)
Lemma laid_bound a t : forall id nx, laid a t id nx -> id + tsz t <= length a.
Proof.
  induction t as [i nd ts IH] using tree_ind'. intros id nx H.
  apply laid_T in H as (n & Hg & _ & _ & _ & Hf). rewrite tsz_T.
  pose proof (get_lt _ _ _ Hg) as Hlt.
  assert (G : forall k, k <= length a -> laidf a ts k None -> k + fsz ts <= length a).
  { clear Hf. induction ts as [|x r IHr]; intros k Hk Hf; cbn [fsz]; [lia|].
    inversion IH as [|? ? Hx Hr]; subst. rewrite laidf_cons in Hf. destruct Hf as [H1 H2].
    specialize (Hx _ _ H1). specialize (IHr Hr (k + tsz x) Hx H2). lia. }
  specialize (G (S id) Hlt Hf). lia.
Qed.

Lemma laidf_bound a ts : forall id fin, id <= length a -> laidf a ts id fin -> id + fsz ts <= length a.
Proof.
  induction ts as [|x r IH]; intros id fin Hid H; cbn [fsz]; [lia|].
  rewrite laidf_cons in H. destruct H as [H1 H2]. pose proof (laid_bound _ _ _ _ H1) as Hb.
  specialize (IH _ _ Hb H2). lia.
Qed.

(* only the slots of the tree matter *)
Lemma laid_same a a' t : forall id nx,
  (forall j, id <= j < id + tsz t -> get a' j = get a j) -> laid a t id nx -> laid a' t id nx.
Proof.
  induction t as [i nd ts IH] using tree_ind'. intros id nx Hs H.
  apply laid_T in H as (n & Hg & Hk & Hn & Hc & Hf). apply laid_T. rewrite tsz_T in Hs.
  exists n. rewrite Hs by lia. repeat split; auto.
  assert (G : forall k fin, (forall j, k <= j < k + fsz ts -> get a' j = get a j) -> laidf a ts k fin -> laidf a' ts k fin).
  { clear Hf Hc Hs. induction ts as [|x r IHr]; intros k fin Hj Hf; [exact I|].
    inversion IH as [|? ? Hx Hr]; subst. rewrite laidf_cons in *. destruct Hf as [H1 H2]. cbn [fsz] in Hj.
    split; [apply Hx; auto; intros; apply Hj; lia | apply IHr; auto; intros; apply Hj; lia]. }
  apply G; auto. intros; apply Hs; lia.
Qed.

Lemma laidf_same a a' ts : forall id fin,
  (forall j, id <= j < id + fsz ts -> get a' j = get a j) -> laidf a ts id fin -> laidf a' ts id fin.
Proof.
  induction ts as [|x r IH]; intros id fin Hj H; [exact I|].
  rewrite laidf_cons in *. destruct H as [H1 H2]. cbn [fsz] in Hj. split.
  - eapply laid_same; [|exact H1]. intros; apply Hj; lia.
  - apply IH; auto. intros; apply Hj; lia.
Qed.

(* the root's next link may change *)
Definition relinked (n n' : gnode) (nx : option nat) : Prop :=
  g_kind n' = g_kind n /\ g_child n' = g_child n /\ g_next n' = nx.

Lemma laid_relink a a' t id nx nx' :
  laid a t id nx ->
  (forall n, get a id = Some n -> exists n', get a' id = Some n' /\ relinked n n' nx') ->
  (forall j, id < j < id + tsz t -> get a' j = get a j) ->
  laid a' t id nx'.
Proof.
  destruct t as [i nd ts]. intros H Hr Hs. apply laid_T in H as (n & Hg & Hk & Hn & Hc & Hf).
  destruct (Hr n Hg) as (n' & Hg' & Ek & Ec & En). apply laid_T. rewrite tsz_T in Hs.
  exists n'. rewrite Ek, Ec. repeat split; auto.
  eapply laidf_same; [|exact Hf]. intros; apply Hs; lia.
Qed.

Lemma lastroot_cons x y r id : lastroot (x :: y :: r) id = lastroot (y :: r) (id + tsz x).
Proof. reflexivity. Qed.

Lemma lastroot_range ts : forall id, ts <> [] -> id <= lastroot ts id /\ lastroot ts id + 1 <= id + fsz ts.
Proof.
  induction ts as [|x r IH]; intros id Hne; [congruence|].
  destruct r as [|y r].
  - cbn [lastroot fsz]. pose proof (tsz_pos x). lia.
  - rewrite lastroot_cons. specialize (IH (id + tsz x) ltac:(discriminate)). cbn [fsz] in *. lia.
Qed.

Lemma lastroot_app ts1 ts2 id : ts2 <> [] -> lastroot (ts1 ++ ts2) id = lastroot ts2 (id + fsz ts1).
Proof.
  intros Hne. revert id; induction ts1 as [|x r IH]; intros id.
  - cbn [app fsz]. f_equal. lia.
  - cbn [app]. destruct (r ++ ts2) as [|y l] eqn:E.
    + destruct r; [destruct ts2; [congruence | discriminate] | discriminate].
    + rewrite lastroot_cons, IH. cbn [fsz]. f_equal. lia.
Qed.

(* the last root's next link may change *)
Lemma laidf_relink a a' ts : forall id fin fin',
  ts <> [] -> laidf a ts id fin ->
  (forall n, get a (lastroot ts id) = Some n -> exists n', get a' (lastroot ts id) = Some n' /\ relinked n n' fin') ->
  (forall j, id <= j < id + fsz ts -> j <> lastroot ts id -> get a' j = get a j) ->
  laidf a' ts id fin'.
Proof.
  induction ts as [|x r IH]; intros id fin fin' Hne H Hr Hs; [congruence|].
  rewrite laidf_cons in *. destruct H as [H1 H2]. destruct r as [|y r].
  - cbn [lastroot fsz] in *. split; [|exact I].
    eapply laid_relink; eauto. intros; apply Hs; lia.
  - rewrite lastroot_cons in *. cbn [fsz] in Hs.
    pose proof (lastroot_range (y :: r) (id + tsz x) ltac:(discriminate)) as Hl.
    split.
    + eapply laid_same; [|exact H1]. intros; apply Hs; lia.
    + eapply IH; eauto; [discriminate|]. intros; apply Hs; cbn [fsz] in *; lia.
Qed.

Lemma laidf_app a ts1 ts2 : forall id fin,
  laidf a ts1 id (match ts2 with [] => fin | _ => Some (id + fsz ts1) end) ->
  laidf a ts2 (id + fsz ts1) fin -> laidf a (ts1 ++ ts2) id fin.
Proof.
  induction ts1 as [|x r IH]; intros id fin H1 H2.
  - cbn [app fsz] in *. now rewrite Nat.add_0_r in H2.
  - cbn [app]. rewrite laidf_cons in *. destruct H1 as [Hx Hr]. cbn [fsz] in *. split.
    + destruct r as [|y r]; cbn [app].
      * cbn [fsz] in *. destruct ts2; [exact Hx|]. now rewrite Nat.add_0_r in Hx.
      * exact Hx.
    + apply IH.
      * destruct ts2; [exact Hr|]. now replace (id + tsz x + fsz r) with (id + (tsz x + fsz r)) by lia.
      * now replace (id + tsz x + fsz r) with (id + (tsz x + fsz r)) by lia.
Qed.

Lemma laid_root a t id nx : laid a t id nx -> exists n, get a id = Some n /\ g_next n = nx /\ kind_node (g_kind n) = Some (t_node t).
Proof. destruct t as [i nd ts]. intros H. apply laid_T in H as (n & Hg & Hk & Hn & _). exists n. auto. Qed.

Lemma laidf_last a ts : forall id fin,
  ts <> [] -> laidf a ts id fin -> exists n, get a (lastroot ts id) = Some n /\ g_next n = fin.
Proof.
  induction ts as [|x r IH]; intros id fin Hne H; [congruence|].
  rewrite laidf_cons in H. destruct H as [H1 H2]. destruct r as [|y r].
  - cbn [lastroot]. destruct (laid_root _ _ _ _ H1) as (n & ? & ? & _). exists n. auto.
  - rewrite lastroot_cons. eapply IH; eauto. discriminate.
Qed.

(* ---------- reading a laid tree back: collect ------------------------------------------------- *)

Lemma sibling_ids_S f a id :
  sibling_ids (S f) a id =
  match get a id with
  | None => Panic "arena index out of bounds"
  | Some n =>
      match g_kind n with
      | KEmpty => Panic "next_id of Empty"
      | _ => match g_next n with
             | None => Ok [id]
             | Some nx => do r <- sibling_ids f a nx; Ok (id :: r)
             end
      end
  end.
Proof. reflexivity. Qed.

Lemma collect_fuel_S f nf a id :
  collect_fuel (S f) nf a id =
  match get a id with
  | None => Panic "arena index out of bounds"
  | Some n =>
      match nf id (g_kind n) with
      | None => Ok None
      | Some nd =>
          do ids <- (match g_child n with None => Ok [] | Some c => sibling_ids f a c end);
          do kids <- fold_right (fun i acc => do r <- acc; do t <- collect_fuel f nf a i;
                                    Ok (match t with Some t => t :: r | None => r end)) (Ok []) ids;
          Ok (Some (T (Some id) nd kids))
      end
  end.
Proof. reflexivity. Qed.

Lemma length_le_fsz ts : length ts <= fsz ts.
Proof. induction ts as [|x r IH]; cbn [length fsz]; [lia|]. pose proof (tsz_pos x). lia. Qed.

Lemma sib_read a ts : forall id fuel,
  ts <> [] -> laidf a ts id None -> length ts <= fuel -> sibling_ids fuel a id = Ok (roots ts id).
Proof.
  induction ts as [|x r IH]; intros id fuel Hne H Hf; [congruence|].
  destruct fuel as [|f]; [cbn [length] in Hf; lia|].
  rewrite laidf_cons in H. destruct H as [H1 H2].
  destruct (laid_root _ _ _ _ H1) as (n & Hg & Hn & Hk).
  rewrite sibling_ids_S, Hg, Hn. cbn [roots].
  destruct r as [|y r].
  - destruct (g_kind n); try reflexivity; discriminate.
  - rewrite (IH (id + tsz x) f ltac:(discriminate) H2 ltac:(cbn [length] in *; lia)). cbn [bind].
    destruct (g_kind n); try reflexivity; discriminate.
Qed.

Definition knf : nat -> gkind -> option node := fun _ k => kind_node k.

Lemma collect_read a t : forall id nx fuel,
  laid a t id nx -> length a - id < fuel -> collect_fuel fuel knf a id = Ok (Some (label t id)).
Proof.
  induction t as [i nd ts IH] using tree_ind'. intros id nx fuel H Hfuel.
  pose proof (laid_bound _ _ _ _ H) as Hb. rewrite tsz_T in Hb.
  apply laid_T in H as (n & Hg & Hk & Hn & Hc & Hf).
  destruct fuel as [|f]; [lia|].
  rewrite collect_fuel_S, Hg. unfold knf at 1. rewrite Hk, Hc, label_T.
  assert (G : forall k fin, S id <= k -> laidf a ts k fin ->
            fold_right (fun i acc => do r <- acc; do t <- collect_fuel f knf a i;
                                     Ok (match t with Some t => t :: r | None => r end)) (Ok []) (roots ts k)
            = Ok (labelf ts k)).
  { clear Hf Hc Hb. induction ts as [|x r IHr]; intros k fin Hk' Hl; [reflexivity|].
    inversion IH as [|? ? Hx Hr]; subst. rewrite laidf_cons in Hl. destruct Hl as [H1 H2].
    cbn [roots fold_right labelf]. rewrite (IHr Hr (k + tsz x) fin ltac:(lia) H2). cbn [bind].
    pose proof (laid_bound _ _ _ _ H1) as Hb1. pose proof (tsz_pos x).
    rewrite (Hx k _ f H1 ltac:(lia)). reflexivity. }
  destruct ts as [|x r].
  - cbn [bind fold_right labelf]. reflexivity.
  - rewrite (sib_read a (x :: r) (S id) f ltac:(discriminate) Hf).
    + cbn [bind]. rewrite (G (S id) None (le_n _) Hf). reflexivity.
    + pose proof (length_le_fsz (x :: r)). lia.
Qed.

(* the labelled tree is the tree, ids aside, and its ids are consecutive in pre-order *)
Lemma inline_eqb_refl i : inline_eqb i i = true.
Proof.
  induction i as [s|s|s|l IH|l IH|l IH|u t lt l IH|u t l IH] using inline_ind'; cbn [inline_eqb];
    try apply String.eqb_refl;
    assert (G : (fix go (x y : list inline) {struct x} : bool :=
                   match x, y with
                   | [], [] => true
                   | i :: x', j :: y' => inline_eqb i j && go x' y'
                   | _, _ => false
                   end) l l = true)
      by (induction IH as [|x r Hx _ IHr]; [reflexivity | now rewrite Hx, IHr]);
    rewrite ?G, ?String.eqb_refl; try reflexivity.
  destruct lt; reflexivity.
Qed.

Lemma inlines_eqb_refl l : inlines_eqb l l = true.
Proof. apply list_eqb_refl, inline_eqb_refl. Qed.

Lemma node_eqb_refl n : node_eqb n n = true.
Proof.
  destruct n; cbn [node_eqb]; rewrite ?String.eqb_refl, ?inlines_eqb_refl; try reflexivity.
  - destruct lang; cbn; rewrite ?String.eqb_refl; reflexivity.
  - destruct rt; reflexivity.
  - unfold cells_eqb. rewrite !list_eqb_refl; auto using inlines_eqb_refl, list_eqb_refl.
    all: intros x; try (destruct x; reflexivity); apply list_eqb_refl, inlines_eqb_refl.
Qed.

Lemma tree_eqb_noid_label t : forall id, tree_eqb_noid (label t id) t = true.
Proof.
  induction t as [i nd ts IH] using tree_ind'. intros id. rewrite label_T. cbn [tree_eqb_noid].
  rewrite node_eqb_refl. cbn [andb]. generalize (S id) as k.
  induction IH as [|x r Hx _ IHr]; intros k; cbn [labelf]; [reflexivity|]. now rewrite Hx, IHr.
Qed.

Lemma pre_ids_label t : forall id, pre_ids (label t id) = map Some (seq id (tsz t)).
Proof.
  induction t as [i nd ts IH] using tree_ind'. intros id. rewrite label_T, pre_ids_T, tsz_T. cbn [seq map]. f_equal.
  generalize (S id) as k. unfold pre_idsf.
  induction IH as [|x r Hx _ IHr]; intros k; cbn [labelf flat_map fsz]; [reflexivity|].
  rewrite Hx, IHr, seq_app, map_app. reflexivity.
Qed.

(* ---------- appending a forest at the cursor -------------------------------------------------- *)

(* the cursor's link: child when insert, next otherwise *)
Definition slot_set (n : gnode) (ins : bool) (c : nat) : gnode :=
  if ins then GN (g_kind n) (g_prev n) (g_next n) (Some c)
  else GN (g_kind n) (g_prev n) (Some c) (g_child n).

Definition AppT (a : arena) (cur : nat) (ins : bool) (ts : list tree) (a' : arena) (cur' : nat) (ins' : bool) : Prop :=
  match ts with
  | [] => a' = a /\ cur' = cur /\ ins' = ins
  | _ =>
      length a' = length a + fsz ts /\
      (forall id, id < length a -> id <> cur -> get a' id = get a id) /\
      (forall n, get a cur = Some n -> get a' cur = Some (slot_set n ins (length a))) /\
      laidf a' ts (length a) None /\
      cur' = lastroot ts (length a) /\ ins' = false
  end.

Definition App (st : bst) (ts : list tree) (st' : bst) : Prop :=
  AppT (b_arena st) (b_cur st) (b_insert st) ts (b_arena st') (b_cur st') (b_insert st').

Lemma AppT_nil a cur ins : AppT a cur ins [] a cur ins.
Proof. cbn. auto. Qed.

Lemma AppT_ne a cur ins ts a' cur' ins' :
  ts <> [] ->
  (AppT a cur ins ts a' cur' ins' <->
   (length a' = length a + fsz ts /\
    (forall id, id < length a -> id <> cur -> get a' id = get a id) /\
    (forall n, get a cur = Some n -> get a' cur = Some (slot_set n ins (length a))) /\
    laidf a' ts (length a) None /\
    cur' = lastroot ts (length a) /\ ins' = false)).
Proof. destruct ts; [congruence | reflexivity]. Qed.

Lemma AppT_trans a cur ins ts1 a1 c1 i1 ts2 a2 c2 i2 :
  cur < length a ->
  AppT a cur ins ts1 a1 c1 i1 -> AppT a1 c1 i1 ts2 a2 c2 i2 -> AppT a cur ins (ts1 ++ ts2) a2 c2 i2.
Proof.
  intros Hcur H1 H2.
  destruct ts1 as [|x1 r1]; [destruct H1 as (-> & -> & ->); exact H2|].
  destruct ts2 as [|x2 r2]; [destruct H2 as (-> & -> & ->); rewrite app_nil_r; exact H1|].
  remember (x1 :: r1) as ts1 eqn:E1. remember (x2 :: r2) as ts2 eqn:E2.
  assert (N1 : ts1 <> []) by (subst; discriminate). assert (N2 : ts2 <> []) by (subst; discriminate).
  clear E1 E2.
  apply (AppT_ne _ _ _ _ _ _ _ N1) in H1. apply (AppT_ne _ _ _ _ _ _ _ N2) in H2.
  destruct H1 as (L1 & F1 & S1 & D1 & -> & ->). destruct H2 as (L2 & F2 & S2 & D2 & -> & ->).
  pose proof (lastroot_range ts1 (length a) N1) as R1.
  destruct (laidf_last _ _ _ _ N1 D1) as (nl & Gl & Nl).
  apply AppT_ne; [destruct ts1; [congruence | discriminate]|].
  rewrite fsz_app. repeat split.
  - lia.
  - intros id Hid Hne. rewrite F2 by lia. now apply F1.
  - intros n Hn. rewrite F2 by lia. now apply S1.
  - apply laidf_app.
    + destruct ts2 as [|y2 l2] eqn:E2; [congruence|]. rewrite <- E2 in *. rewrite <- L1.
      eapply (laidf_relink a1 a2 ts1 (length a) None); eauto.
      * intros n Hn. rewrite Hn in Gl. inversion Gl; subst nl.
        exists (slot_set n false (length a1)). split; [now apply S2|]. unfold relinked. cbn. auto.
      * intros j Hj Hne. apply F2; lia.
    + rewrite <- L1. exact D2.
  - rewrite lastroot_app by exact N2. now rewrite L1.
Qed.

Lemma App_nil st : App st [] st.
Proof. apply AppT_nil. Qed.

Definition cur_valid (st : bst) : Prop := b_cur st < length (b_arena st).

Lemma App_trans st ts1 st1 ts2 st2 :
  cur_valid st -> App st ts1 st1 -> App st1 ts2 st2 -> App st (ts1 ++ ts2) st2.
Proof. unfold App, cur_valid. intros. eapply AppT_trans; eauto. Qed.

(* appending keeps the kinds of the older slots *)
Lemma AppT_ext a cur ins ts a' c' i' : cur < length a -> AppT a cur ins ts a' c' i' -> ext a a'.
Proof.
  intros Hcur H. destruct ts as [|x r]; [destruct H as (-> & _); apply ext_refl|].
  destruct H as (L & F & S & _). split; [lia|]. intros id Hid. unfold kind_at.
  destruct (Nat.eq_dec id cur) as [->|Hne]; [|now rewrite F].
  destruct (get a cur) as [n|] eqn:Hn.
  - rewrite (S n eq_refl). unfold slot_set. destruct ins; reflexivity.
  - unfold get in Hn. apply nth_error_None in Hn. lia.
Qed.

Lemma App_ext st ts st' : cur_valid st -> App st ts st' -> ext (b_arena st) (b_arena st').
Proof. unfold App, cur_valid. intros. eapply AppT_ext; eauto. Qed.

Lemma J_valid st : J st -> cur_valid st.
Proof. intros (k & Hk & _). now apply kind_at_lt in Hk. Qed.
Lemma Qb_valid st : Qb st -> cur_valid st.
Proof. intros (k & Hk & _). now apply kind_at_lt in Hk. Qed.
Lemma Q_valid st : Q st -> cur_valid st.
Proof. intros H. apply Qb_valid. now apply Q_Qb. Qed.

(* a node with children: the node is appended, then its children below it *)
Lemma AppT_wrap a cur ins nd a1 c1 ts a2 c2 i2 :
  cur < length a ->
  AppT a cur ins [T None nd []] a1 c1 false -> AppT a1 c1 true ts a2 c2 i2 ->
  AppT a cur ins [T None nd ts] a2 c1 false.
Proof.
  intros Hcur H1 H2.
  destruct ts as [|x r]; [destruct H2 as (-> & _ & _); exact H1|].
  remember (x :: r) as ts eqn:E. assert (N : ts <> []) by (subst; discriminate).
  apply (AppT_ne _ _ _ _ _ _ _ N) in H2.
  destruct H1 as (L1 & F1 & S1 & D1 & -> & _). destruct H2 as (L2 & F2 & S2 & D2 & _ & _).
  cbn [lastroot fsz] in *. rewrite tsz_T in *. cbn [fsz] in L1.
  rewrite laidf_cons in D1. destruct D1 as [D1 _]. apply laid_T in D1 as (n1 & G1 & K1 & N1 & C1 & _).
  apply AppT_ne; [discriminate|]. repeat split.
  - cbn [fsz]. rewrite tsz_T. lia.
  - intros id Hid Hne. rewrite F2 by lia. now apply F1.
  - intros n Hn. rewrite F2 by lia. now apply S1.
  - apply laid_T.
    exists (slot_set n1 true (length a1)). split; [now apply S2|]. cbn [slot_set g_kind g_next g_child].
    repeat split; auto.
    + destruct ts; [congruence|]. f_equal. lia.
    + replace (S (length a)) with (length a1) by lia. exact D2.
Qed.

(* ---------- one node ---------------------------------------------------------------------------- *)

Lemma link_J st c :
  J st -> exists n, get (b_arena st) (b_cur st) = Some n /\
    (if b_insert st then set_child_id (b_arena st) (b_cur st) c else set_next_id (b_arena st) (b_cur st) c)
    = Ok (set_nth (b_arena st) (b_cur st) (slot_set n (b_insert st) c)).
Proof.
  intros (k0 & Hk0 & He & Hi & Hd).
  unfold kind_at in Hk0. destruct (get (b_arena st) (b_cur st)) as [n|] eqn:Hn; [|discriminate].
  cbn in Hk0. inversion Hk0; subst k0; clear Hk0. exists n. split; [reflexivity|].
  destruct (b_insert st).
  - specialize (Hi eq_refl). unfold set_child_id. rewrite Hn. unfold slot_set.
    destruct (g_kind n); try discriminate; reflexivity.
  - specialize (Hd eq_refl). unfold set_next_id. rewrite Hn. unfold slot_set.
    destruct (g_kind n); try discriminate; reflexivity.
Qed.

Lemma add_node_App st k nd :
  J st -> is_emptyk k = false -> is_dock k = false -> kind_node k = Some nd ->
  exists st', add_node st k = Ok st' /\ App st [T None nd []] st' /\
              b_cur st' = length (b_arena st) /\ b_insert st' = false /\
              kind_at (b_arena st') (b_cur st') = Some k /\ b_map st' = b_map st.
Proof.
  intros HJ Hk Hkd Hnd. destruct (link_J st (length (b_arena st)) HJ) as (n & Hn & Hl).
  pose proof (get_lt _ _ _ Hn) as Hlt.
  unfold add_node. rewrite Hl. cbn [bind]. eexists. split; [reflexivity|].
  unfold App. cbn [b_arena b_cur b_insert b_map].
  set (a := b_arena st) in *. set (cur := b_cur st) in *.
  set (n' := slot_set n (b_insert st) (length a)).
  assert (Hnew : get (set_nth a cur n' ++ [GN k (Some cur) None None]) (length a) = Some (GN k (Some cur) None None)).
  { rewrite <- (set_nth_length a cur n'). apply get_app_new. }
  split; [|split; [reflexivity|split; [reflexivity|split; [|reflexivity]]]].
  - apply AppT_ne; [discriminate|]. repeat split.
    + rewrite app_length, set_nth_length. cbn [fsz length]. rewrite tsz_T. cbn [fsz]. lia.
    + intros id Hid Hne. rewrite get_app_l by (now rewrite set_nth_length). now apply get_set_nth_other.
    + intros n0 Hn0. rewrite Hn in Hn0. inversion Hn0; subst n0.
      rewrite get_app_l by (now rewrite set_nth_length). now apply get_set_nth_same.
    + apply laid_T. eexists. split; [exact Hnew|]. cbn [g_kind g_next g_child laidf]. auto.
  - unfold kind_at. rewrite Hnew. reflexivity.
Qed.

Lemma AppT_ins a cur ins ts a' c' i' : ts <> [] -> AppT a cur ins ts a' c' i' -> i' = false.
Proof. intros N H. apply (AppT_ne _ _ _ _ _ _ _ N) in H. now destruct H as (_ & _ & _ & _ & _ & ->). Qed.

(* folding a step that appends a forest and keeps an invariant *)
Lemma fold_App {X} (step : bst -> X -> res bst) (spec : X -> list tree) (Inv : bst -> Prop) (l : list X) :
  (forall s, Inv s -> cur_valid s) ->
  forall st, Inv st ->
  (forall x, In x l -> forall s, Inv s -> exists s', step s x = Ok s' /\ App s (spec x) s' /\ Inv s') ->
  exists st', fold_left (fun acc x => do s <- acc; step s x) l (Ok st) = Ok st' /\
              App st (flat_map spec l) st' /\ Inv st'.
Proof.
  intros Hv. induction l as [|x l IH]; intros st Hinv Hstep; cbn [fold_left flat_map].
  - exists st. repeat split; auto using App_nil.
  - destruct (Hstep x (or_introl eq_refl) st Hinv) as (s1 & H1 & A1 & I1).
    cbn [bind]. rewrite H1.
    assert (Hrest : forall y, In y l -> forall s, Inv s ->
              exists s', step s y = Ok s' /\ App s (spec y) s' /\ Inv s')
      by (intros y Hy; apply Hstep; now right).
    destruct (IH s1 I1 Hrest) as (st' & H2 & A2 & I2).
    exists st'. split; [exact H2|]. split; [eapply App_trans; eauto | exact I2].
Qed.

(* ---------- the main induction ----------------------------------------------------------------- *)

Section Main.
  Variable dir : string.

  Lemma blocks_tree_nil f : blocks_tree dir f [] = [].
  Proof. destruct f; reflexivity. Qed.

  Lemma blocks_tree_ne f bs : bs <> [] -> 2 <= f -> blocks_tree dir f bs <> [].
  Proof.
    intros Hne Hf. destruct f as [|[|f]]; try lia. rewrite blocks_tree_S.
    destruct (span_pre bs) as [pre rest] eqn:Es.
    destruct (span_pre_spec bs pre rest Es) as (-> & Hpre & Hrest).
    destruct pre as [|b pre].
    - cbn [flat_map app] in *. destruct rest as [|h r]; [congruence|].
      cbn [headed] in Hrest. destruct h; try discriminate. cbn [header_level].
      rewrite sections_tree_S. destruct (span_section level r). discriminate.
    - inversion Hpre; subst. cbn [flat_map]. rewrite block_tree_S. destruct b; try discriminate.
  Qed.

  Definition block_ref n :=
    forall fm fs b st, dblock_size b <= n -> 4 * n + 1 <= fm -> 4 * n + 1 <= fs ->
      is_header b = false -> J st ->
      exists st', block dir fm b st = Ok st' /\ App st (block_tree dir fs b) st' /\ J st'.

  (* a section that starts with text: a heading, or the text of an item *)
  Definition hsection_ref n :=
    forall fm fs h body st, dblocks_size (h :: body) <= n -> 4 * n + 2 <= fm -> 4 * n + 1 <= fs ->
      text_lead h = true -> J st ->
      exists st', process_section dir fm (h :: body) st = Ok st' /\ App st (item_tree dir fs (h :: body)) st' /\ Q st'.

  (* any list item *)
  Definition section_ref n :=
    forall fm fs it st, dblocks_size it <= n -> 4 * n + 5 <= fm -> 4 * n + 5 <= fs -> pre_item it st ->
      exists st', process_section dir fm it st = Ok st' /\ App st (item_tree dir fs it) st' /\ (Q st -> Q st').

  Definition sections_ref n :=
    forall fm fs L bs st, dblocks_size bs <= n -> 4 * n + 3 <= fm -> 4 * n + 3 <= fs ->
      headed bs -> J st ->
      exists st', process_sections dir fm L bs st = Ok st' /\ App st (sections_tree dir fs L bs) st'.

  Definition blocks_ref n :=
    forall fm fs bs st, dblocks_size bs <= n -> 4 * n + 4 <= fm -> 4 * n + 4 <= fs ->
      Qb st -> bs <> [] ->
      exists st', process_blocks dir fm bs st = Ok st' /\ App (set_insert st true) (blocks_tree dir fs bs) st'.

  (* a run of blocks below a container, the empty run included *)
  Lemma blocks_any m :
    blocks_ref m ->
    forall fm fs bs st, dblocks_size bs <= m -> 4 * m + 4 <= fm -> 4 * m + 4 <= fs -> Qb st ->
      exists st2, process_blocks dir fm bs st = Ok st2 /\
        (exists c2 i2, AppT (b_arena st) (b_cur st) true (blocks_tree dir fs bs) (b_arena st2) c2 i2) /\
        (b_insert st = false -> b_insert st2 = false).
  Proof.
    intros HB fm fs bs st Hsz Hfm Hfs HQ. destruct bs as [|b0 bs0].
    - destruct fm as [|fm]; [lia|]. rewrite process_blocks_S, blocks_tree_nil.
      exists st. split; [reflexivity|]. split; [|auto]. exists (b_cur st), true. apply AppT_nil.
    - destruct (HB fm fs (b0 :: bs0) st Hsz Hfm Hfs HQ ltac:(discriminate)) as (st2 & H2 & A2).
      exists st2. split; [exact H2|]. unfold App in A2. cbn [set_insert b_arena b_cur b_insert] in A2.
      split; [eauto|]. intros _. eapply AppT_ins; [|exact A2]. apply blocks_tree_ne; [discriminate | lia].
  Qed.

  (* items of a list, one after the other from a container state *)
  Lemma items_ref n fm fs its st :
    section_ref n -> (forall it, In it its -> dblocks_size it <= n) ->
    (its <> [] -> 4 * n + 5 <= fm) -> (its <> [] -> 4 * n + 5 <= fs) -> Q st ->
    exists st', fold_left (fun acc it => do s <- acc; process_section dir fm it s) its (Ok st) = Ok st' /\
                App st (flat_map (item_tree dir fs) its) st' /\ Q st'.
  Proof.
    intros HS Hsz Hfm Hfs HQ.
    apply (fold_App (fun s it => process_section dir fm it s) (item_tree dir fs) Q its Q_valid st HQ).
    intros it Hin s Hs.
    assert (Hne : its <> []) by (intros ->; contradiction).
    assert (Hpre : pre_item it s).
    { destruct it as [|h r]; [exact I|]. cbn [pre_item]. destruct (text_lead h); [now apply Q_J | exact Hs]. }
    destruct (HS fm fs it s (Hsz it Hin) (Hfm Hne) (Hfs Hne) Hpre) as (s' & H1 & A1 & HQ1).
    exists s'. auto.
  Qed.

  (* a leaf block: one node *)
  Lemma leaf_step st k nd lr :
    J st -> is_emptyk k = false -> is_dock k = false -> kind_node k = Some nd ->
    exists st', (do s <- add_node st k; Ok (set_lines_range s lr)) = Ok st' /\ App st [T None nd []] st' /\ J st'.
  Proof.
    intros HJ Hk Hd Hnd. destruct (add_node_App st k nd HJ Hk Hd Hnd) as (st' & H & A & Hc & Hi & Hka & _).
    rewrite H. cbn [bind]. eexists. split; [reflexivity|]. split; [exact A|].
    apply J_set_lines. eapply J_of_new; eauto.
  Qed.

  (* a list block: the list node, its items below it, the cursor back on the list node *)
  Lemma list_step n fm fs its st k nd :
    section_ref n -> (forall it, In it its -> dblocks_size it <= n) ->
    (its <> [] -> 4 * n + 5 <= fm) -> (its <> [] -> 4 * n + 5 <= fs) -> J st ->
    is_emptyk k = false -> is_dock k = false -> insertable k = true -> kind_node k = Some nd ->
    exists st',
      (do st <- add_node st k;
       let st := set_insert st true in
       let id := b_cur st in
       do st <- fold_left (fun acc it => do s <- acc; process_section dir fm it s) its (Ok st);
       Ok (set_insert (set_id st id) false)) = Ok st' /\
      App st [T None nd (flat_map (item_tree dir fs) its)] st' /\ J st'.
  Proof.
    intros HS Hsz Hfm Hfs HJ Hk Hd Hins Hnd.
    destruct (add_node_App st k nd HJ Hk Hd Hnd) as (st1 & H & A1 & Hc & Hi & Hka & _).
    rewrite H. cbn [bind]. cbv zeta.
    assert (HQ : Q (set_insert st1 true)) by (unfold set_insert; apply (Q_at _ _ _ _ k); auto).
    destruct (items_ref n fm fs its (set_insert st1 true) HS Hsz Hfm Hfs HQ) as (st2 & H2 & A2 & Q2).
    rewrite H2. cbn [bind]. eexists. split; [reflexivity|].
    pose proof (App_ext _ _ _ (Q_valid _ HQ) A2) as E2.
    unfold App in *. cbn [set_insert set_id b_arena b_cur b_insert b_map] in *. rewrite Hi in A1.
    split.
    - eapply AppT_wrap; eauto. apply (J_valid _ HJ).
    - exists k. cbn [b_arena b_cur b_insert].
      assert (Hk2 : kind_at (b_arena st2) (b_cur st1) = Some k)
        by (destruct E2 as [_ K2]; rewrite K2; [exact Hka | now apply kind_at_lt in Hka]).
      split; [exact Hk2|]. split; [exact Hk|]. split; [intros; exact Hins | intros; exact Hd].
  Qed.

  Lemma step_block n : (forall m, m < n -> section_ref m /\ blocks_ref m) -> block_ref n.
  Proof.
    intros IH fm fs b st Hsz Hfm Hfs Hnh HJ.
    destruct fm as [|fm]; [lia|]. destruct fs as [|fs]; [lia|]. rewrite block_S, block_tree_S.
    destruct b as [lr l|lr lang text|lr bs|its|its|lr lv l|lr|lr h al rows]; try discriminate.
    - (* paragraph: reference or leaf *)
      destruct (para_is_ref l) eqn:Er.
      + destruct l as [|[| | | | | |url title lt ils|] [|? ?]]; try discriminate.
        cbn [para_is_ref] in Er. cbn [leaf_node]. rewrite Er.
        now apply leaf_step.
      + assert (El : leaf_node dir (DPara lr l) = NLeaf (to_ginlines dir l)).
        { cbn [leaf_node]. destruct l as [|[| | | | | |url title lt ils|] [|? ?]]; try reflexivity.
          cbn [para_is_ref] in Er. now rewrite Er. }
        rewrite El. now apply leaf_step.
    - (* code *) now apply leaf_step.
    - (* quote: a nested run below the quote node *)
      destruct (add_node_App st KQuote NQuote HJ eq_refl eq_refl eq_refl) as (st1 & H & A1 & Hc & Hi & Hk & _).
      rewrite H. cbn [bind]. cbv zeta. cbn [set_lines_range b_arena b_cur b_insert b_map].
      rewrite size_quote in Hsz.
      destruct (IH (dblocks_size bs) ltac:(lia)) as [_ HB].
      assert (HQ : Qb (B (b_arena st1) (b_cur st1) true [])) by (exists KQuote; auto).
      destruct (blocks_any _ HB fm fs bs _ (le_n _) ltac:(lia) ltac:(lia) HQ)
        as (inner & H2 & (c2 & i2 & A2) & _).
      rewrite H2. cbn [bind]. eexists. split; [reflexivity|].
      cbn [b_arena b_cur b_insert] in A2.
      assert (E2 : ext (b_arena st1) (b_arena inner))
        by (eapply AppT_ext; [|exact A2]; now apply kind_at_lt in Hk).
      unfold App in *. cbn [b_arena b_cur b_insert]. rewrite Hi in *.
      split.
      + eapply AppT_wrap; eauto. apply (J_valid _ HJ).
      + exists KQuote. cbn [b_arena b_cur b_insert].
        assert (Hk2 : kind_at (b_arena inner) (b_cur st1) = Some KQuote)
          by (destruct E2 as [_ K2]; rewrite K2; [exact Hk | now apply kind_at_lt in Hk]).
        split; [exact Hk2|]. split; [reflexivity|]. split; intros _; reflexivity.
    - (* ordered list *)
      rewrite size_olist in Hsz. set (n' := items_size its - 1).
      destruct (IH n' ltac:(destruct its; cbn [items_size] in *; lia)) as [HS _].
      apply (list_step n' fm fs its st KOList NOList HS); auto.
      + intros it Hin. pose proof (items_size_in it its Hin). unfold n'. lia.
      + unfold n'. destruct its; [congruence | cbn [items_size] in *; lia].
      + unfold n'. destruct its; [congruence | cbn [items_size] in *; lia].
    - (* bullet list *)
      rewrite size_blist in Hsz. set (n' := items_size its - 1).
      destruct (IH n' ltac:(destruct its; cbn [items_size] in *; lia)) as [HS _].
      apply (list_step n' fm fs its st KBList NBList HS); auto.
      + intros it Hin. pose proof (items_size_in it its Hin). unfold n'. lia.
      + unfold n'. destruct its; [congruence | cbn [items_size] in *; lia].
      + unfold n'. destruct its; [congruence | cbn [items_size] in *; lia].
    - (* rule *) now apply leaf_step.
    - (* table *) now apply leaf_step.
  Qed.

  (* a section node, the run of its blocks below it, the cursor back on it: [first] is what links the
     section node (with or without a line range) *)
  Lemma section_step m fm fs il (first : bst -> res bst) body st :
    (forall st1, add_node st (KSection il) = Ok st1 ->
       exists st1', first st = Ok st1' /\ b_arena st1' = b_arena st1 /\ b_cur st1' = b_cur st1 /\ b_insert st1' = b_insert st1) ->
    blocks_ref m -> dblocks_size body <= m -> 4 * m + 4 <= fm -> 4 * m + 4 <= fs -> J st ->
    exists st',
      (do st1 <- first st;
       do st2 <- process_blocks dir fm body st1;
       Ok (set_id st2 (b_cur st1))) = Ok st' /\
      App st [T None (NSection il) (blocks_tree dir fs body)] st' /\ Q st'.
  Proof.
    intros Hfirst HB Hsz Hfm Hfs HJ.
    destruct (add_node_App st (KSection il) (NSection il) HJ eq_refl eq_refl eq_refl)
      as (st1 & H & A1 & Hc & Hi & Hk & _).
    destruct (Hfirst st1 H) as (st1' & H' & Ea & Ec & Ei).
    rewrite H'. cbn [bind].
    assert (HQ : Qb st1') by (exists (KSection il); rewrite Ea, Ec; auto).
    destruct (blocks_any _ HB fm fs body _ Hsz Hfm Hfs HQ) as (st2 & H2 & (c2 & i2 & A2) & Hi2).
    rewrite H2. cbn [bind]. eexists. split; [reflexivity|].
    rewrite Ea, Ec in A2. rewrite Ei in Hi2.
    assert (E2 : ext (b_arena st1) (b_arena st2))
      by (eapply AppT_ext; [|exact A2]; now apply kind_at_lt in Hk).
    unfold App in *. cbn [set_id b_arena b_cur b_insert]. rewrite Hi in A1. rewrite (Hi2 Hi). rewrite Ec.
    split.
    - eapply AppT_wrap; eauto. apply (J_valid _ HJ).
    - apply (Q_at _ _ _ _ (KSection il)); auto.
      destruct E2 as [_ K2]; rewrite K2; [exact Hk | now apply kind_at_lt in Hk].
  Qed.

  Lemma first_lines st il lr :
    forall st1, add_node st (KSection il) = Ok st1 ->
      exists st1', (do s <- add_node st (KSection il); Ok (set_lines_range s lr)) = Ok st1' /\
                   b_arena st1' = b_arena st1 /\ b_cur st1' = b_cur st1 /\ b_insert st1' = b_insert st1.
  Proof. intros st1 H. rewrite H. cbn [bind]. eexists. split; [reflexivity|]. auto. Qed.

  Lemma first_plain st il :
    forall st1, add_node st (KSection il) = Ok st1 ->
      exists st1', add_node st (KSection il) = Ok st1' /\
                   b_arena st1' = b_arena st1 /\ b_cur st1' = b_cur st1 /\ b_insert st1' = b_insert st1.
  Proof. intros st1 H. exists st1. auto. Qed.

  Lemma step_hsection n : (forall m, m < n -> blocks_ref m) -> hsection_ref n.
  Proof.
    intros IH fm fs h body st Hsz Hfm Hfs Htl HJ.
    destruct fm as [|fm]; [lia|]. destruct fs as [|fs]; [lia|]. rewrite process_section_S, item_tree_S.
    rewrite dblocks_size_cons in Hsz. pose proof (dblock_size_pos h) as Hpos.
    destruct fm as [|fm]; [lia|]. rewrite section_block_S.
    pose proof (IH (dblocks_size body) ltac:(lia)) as HB.
    destruct h as [lr l|lr lang text|lr bs|its|its|lr lv l|lr|lr hh al rows]; try discriminate;
      cbn [starts_with_header lead_inlines].
    - cbv zeta.
      apply (section_step _ (S fm) fs (to_ginlines dir l)
               (fun s => do s1 <- add_node s (KSection (to_ginlines dir l)); Ok (set_lines_range s1 lr))
               body st (first_lines st _ lr) HB (le_n _)); auto; lia.
    - cbv zeta.
      apply (section_step _ (S fm) fs (to_ginlines dir l)
               (fun s => do s1 <- add_node s (KSection (to_ginlines dir l)); Ok (set_lines_range s1 lr))
               body st (first_lines st _ lr) HB (le_n _)); auto; lia.
  Qed.

  Lemma step_section n :
    hsection_ref n -> blocks_ref n -> (forall m, m < n -> section_ref m) -> section_ref n.
  Proof.
    intros HH HBn IH fm fs it st Hsz Hfm Hfs Hpre.
    destruct it as [|h body].
    - destruct fm as [|fm]; [lia|]. destruct fs as [|fs]; [lia|]. rewrite process_section_S, item_tree_S.
      exists st. split; [reflexivity|]. split; [apply App_nil | auto].
    - cbn [pre_item] in Hpre.
      destruct (text_lead h) eqn:Htl.
      + destruct (HH fm fs h body st Hsz ltac:(lia) ltac:(lia) Htl Hpre) as (st' & H & A & HQ).
        exists st'. auto.
      + (* no text: one list alone is merged, anything else is a section without text over all blocks *)
        assert (Hodd : starts_with_header (h :: body) = false ->
                  exists st', process_section dir fm (h :: body) st = Ok st' /\
                              App st [T None (NSection []) (blocks_tree dir (pred fs) (h :: body))] st' /\ (Q st -> Q st')).
        { intros Hs. destruct fm as [|fm]; [lia|]. rewrite process_section_S, Hs. cbv zeta.
          destruct (section_step n fm (pred fs) [] (fun s => add_node s (KSection [])) (h :: body) st (first_plain st [])
                      HBn Hsz ltac:(lia) ltac:(lia) (Q_J _ Hpre)) as (st' & H & A & HQ).
          exists st'. auto. }
        destruct fs as [|fs]; [lia|]. cbn [pred] in Hodd. rewrite item_tree_S.
        pose proof Hsz as Hsz0. rewrite dblocks_size_cons in Hsz. pose proof (dblock_size_pos h) as Hpos.
        destruct h as [lr l|lr lang text|lr bs|its|its|lr lv l|lr|lr hh al rows]; try discriminate;
          try (apply Hodd; reflexivity).
        * (* ordered list lead *)
          destruct body as [|b1 body]; [|apply Hodd; reflexivity].
          destruct fm as [|fm]; [lia|]. rewrite process_section_S. cbn [starts_with_header].
          destruct fm as [|fm]; [lia|]. rewrite section_block_S.
          rewrite size_olist in Hsz. set (n' := items_size its - 1).
          assert (HS : section_ref n') by (apply IH; unfold n'; destruct its; cbn [items_size dblocks_size fold_right] in *; lia).
          destruct (items_ref n' fm fs its st HS) as (st1 & H1 & A1 & Q1); auto.
          { intros it Hin. pose proof (items_size_in it its Hin). unfold n'. lia. }
          { unfold n'. destruct its; [congruence | cbn [items_size dblocks_size fold_right] in *; lia]. }
          { unfold n'. destruct its; [congruence | cbn [items_size dblocks_size fold_right] in *; lia]. }
          rewrite H1. cbn [bind]. cbv zeta. rewrite process_blocks_S. cbn [bind].
          eexists. split; [reflexivity|]. unfold App in *. cbn [set_id b_arena b_cur b_insert].
          split; [exact A1|].
          intros _. destruct Q1 as (k & ? & ? & ?). exists k. cbn [set_id b_arena b_cur]. auto.
        * (* bullet list lead *)
          destruct body as [|b1 body]; [|apply Hodd; reflexivity].
          destruct fm as [|fm]; [lia|]. rewrite process_section_S. cbn [starts_with_header].
          destruct fm as [|fm]; [lia|]. rewrite section_block_S.
          rewrite size_blist in Hsz. set (n' := items_size its - 1).
          assert (HS : section_ref n') by (apply IH; unfold n'; destruct its; cbn [items_size dblocks_size fold_right] in *; lia).
          destruct (items_ref n' fm fs its st HS) as (st1 & H1 & A1 & Q1); auto.
          { intros it Hin. pose proof (items_size_in it its Hin). unfold n'. lia. }
          { unfold n'. destruct its; [congruence | cbn [items_size dblocks_size fold_right] in *; lia]. }
          { unfold n'. destruct its; [congruence | cbn [items_size dblocks_size fold_right] in *; lia]. }
          rewrite H1. cbn [bind]. cbv zeta. rewrite process_blocks_S. cbn [bind].
          eexists. split; [reflexivity|]. unfold App in *. cbn [set_id b_arena b_cur b_insert].
          split; [exact A1|].
          intros _. destruct Q1 as (k & ? & ? & ?). exists k. cbn [set_id b_arena b_cur]. auto.
  Qed.

  Lemma step_sections n :
    hsection_ref n -> (forall m, m < n -> sections_ref m) -> sections_ref n.
  Proof.
    intros HS IH fm fs L bs st Hsz Hfm Hfs Hhd HJ.
    destruct fm as [|fm]; [lia|]. destruct fs as [|fs]; [lia|]. rewrite process_sections_S, sections_tree_S.
    destruct bs as [|h r]; [exists st; split; [reflexivity | apply App_nil]|].
    cbv zeta.
    destruct (span_section L r) as [body rest] eqn:Es.
    destruct (span_section_spec L r body rest Es) as [Hr Hrest]. subst r.
    rewrite dblocks_size_cons, dblocks_size_app in Hsz.
    pose proof (dblock_size_pos h) as Hpos.
    cbn [headed] in Hhd. destruct h as [| | | | |lr lv l| |]; try discriminate.
    destruct (HS fm (S fs) (DHeader lr lv l) body st) as (st1 & H1 & A1 & Q1); auto.
    { rewrite dblocks_size_cons. lia. }
    { lia. }
    { lia. }
    rewrite H1. cbn [bind]. rewrite item_tree_S in A1.
    destruct (IH (dblocks_size rest) ltac:(lia) fm fs L rest st1 (le_n _) ltac:(lia) ltac:(lia) Hrest (Q_J _ Q1))
      as (st2 & H2 & A2).
    exists st2. split; [exact H2|].
    apply (App_trans st [T None (NSection (lead_inlines dir (DHeader lr lv l))) (blocks_tree dir fs body)] st1 _ st2
             (J_valid _ HJ) A1 A2).
  Qed.

  Lemma step_blocks n : block_ref n -> sections_ref n -> blocks_ref n.
  Proof.
    intros HB HSs fm fs bs st Hsz Hfm Hfs HQ Hne.
    destruct fm as [|fm]; [lia|]. destruct fs as [|fs]; [lia|]. rewrite process_blocks_S, blocks_tree_S.
    destruct bs as [|b0 bs0]; [congruence|].
    cbv zeta.
    destruct (span_pre (b0 :: bs0)) as [pre rest] eqn:Es.
    destruct (span_pre_spec _ pre rest Es) as (Hbs & Hpre & Hrest).
    rewrite Hbs in Hsz. rewrite dblocks_size_app in Hsz.
    pose proof (Qb_J_true st HQ) as HJ0.
    destruct (fold_App (fun s b => block dir fm b s) (block_tree dir fs) J pre J_valid (set_insert st true) HJ0)
      as (st1 & H1 & A1 & J1).
    { intros b Hin s Hs. rewrite Forall_forall in Hpre.
      apply (HB fm fs b s); auto.
      - assert (dblock_size b <= dblocks_size pre).
        { clear - Hin. induction pre as [|x l IHl]; [contradiction|]. rewrite dblocks_size_cons.
          destruct Hin as [->|Hin]; [lia | specialize (IHl Hin); lia]. }
        lia.
      - lia.
      - lia. }
    rewrite H1. cbn [bind].
    destruct rest as [|h r]; [exists st1; split; [reflexivity | now rewrite app_nil_r]|].
    cbn [headed] in Hrest.
    destruct (header_level h) as [L|] eqn:EL; [|exists st1; split; [reflexivity | now rewrite app_nil_r]].
    destruct (HSs fm fs L (h :: r) st1 ltac:(lia) ltac:(lia) ltac:(lia) Hrest J1) as (st2 & H2 & A2).
    exists st2. split; [exact H2|]. eapply App_trans; eauto. apply (J_valid _ HJ0).
  Qed.

  (* all five, for every size *)
  Theorem builder_refines n : block_ref n /\ hsection_ref n /\ sections_ref n /\ blocks_ref n /\ section_ref n.
  Proof.
    induction n as [n IH] using lt_wf_ind.
    assert (HB : block_ref n) by (apply step_block; intros m Hm; destruct (IH m Hm) as (_ & _ & _ & ? & ?); auto).
    assert (HH : hsection_ref n) by (apply step_hsection; intros m Hm; now destruct (IH m Hm) as (_ & _ & _ & ? & _)).
    assert (HSs : sections_ref n) by (apply step_sections; [exact HH | intros m Hm; now destruct (IH m Hm) as (_ & _ & ? & _)]).
    assert (HBs : blocks_ref n) by now apply step_blocks.
    repeat split; auto. apply step_section; auto. intros m Hm; now destruct (IH m Hm) as (_ & _ & _ & _ & ?).
  Qed.
End Main.

(* ---------- the headline theorems ---------------------------------------------------------------- *)

Lemma tsz_label t : forall id, tsz (label t id) = tsz t.
Proof.
  induction t as [i nd ts IH] using tree_ind'. intros id. rewrite label_T, !tsz_T. f_equal.
  generalize (S id) as k. induction IH as [|x r Hx _ IHr]; intros k; cbn [labelf fsz]; [reflexivity|].
  now rewrite Hx, IHr.
Qed.

(* the tree read back from the arena is the specified tree, numbered in pre-order from the root's id,
   and the arena grew by exactly the nodes of that tree *)
Theorem sections_refines_label (a : arena) (key : string) (bs : list dblock) :
  exists st, build_document a key bs = Ok st /\
             collect_raw (b_arena st) (length a) = Ok (Some (label (spec_tree key bs) (length a))) /\
             length (b_arena st) = length a + tsz (spec_tree key bs).
Proof.
  unfold build_document, spec_tree, note_tree.
  set (dir := key_parent key). set (doc := GN (KDocument key) None None None).
  destruct (builder_refines dir (dblocks_size bs)) as (_ & _ & _ & HB & _).
  assert (HQ : Qb (build_key a key)).
  { exists (KDocument key). cbn [build_key b_arena b_cur]. split; [|reflexivity].
    unfold kind_at. now rewrite get_app_new. }
  destruct (blocks_any dir _ HB (fuel_for bs) (fuel_for bs) bs (build_key a key) (le_n _)) as (st & H & (c2 & i2 & A) & _);
    auto; try (unfold fuel_for; lia).
  exists st. split; [exact H|]. cbn [build_key b_arena b_cur] in A.
  set (ts := blocks_tree dir (fuel_for bs) bs) in *.
  assert (Hl : laid (b_arena st) (T None (NDocument key) ts) (length a) None /\
               length (b_arena st) = length a + S (fsz ts)).
  { rewrite laid_T. destruct ts as [|x r].
    - destruct A as (-> & _). split; [|rewrite app_length; cbn; lia].
      exists doc. rewrite get_app_new. cbn. auto.
    - remember (x :: r) as ts eqn:E. assert (N : ts <> []) by (subst; discriminate).
      apply (AppT_ne _ _ _ _ _ _ _ N) in A. destruct A as (L & F & Sl & D & _).
      rewrite app_length in *. cbn [length] in *. split; [|lia].
      exists (slot_set doc true (length a + 1)). split; [apply Sl, get_app_new|].
      cbn [slot_set doc g_kind g_next g_child kind_node].
      repeat split.
      + destruct ts; [congruence|]. f_equal. lia.
      + now replace (S (length a)) with (length a + 1) by lia. }
  destruct Hl as [Hl Hlen]. rewrite tsz_T. split; [|exact Hlen].
  unfold collect_raw. apply (collect_read _ _ _ _ _ Hl). lia.
Qed.
Print Assumptions sections_refines_label.

Theorem sections_refines (a : arena) (key : string) (bs : list dblock) :
  exists st t, build_document a key bs = Ok st /\
               collect_raw (b_arena st) (length a) = Ok (Some t) /\
               tree_eqb_noid t (spec_tree key bs) = true.
Proof.
  destruct (sections_refines_label a key bs) as (st & H & C & _).
  exists st, (label (spec_tree key bs) (length a)). repeat split; auto. apply tree_eqb_noid_label.
Qed.
Print Assumptions sections_refines.

(* the id part: nodes are allocated in document order, so the ids of the tree read back are
   length a, length a + 1, ... in pre-order, and they are exactly the slots the builder added *)
Theorem sections_refines_ids (a : arena) (key : string) (bs : list dblock) :
  exists st t, build_document a key bs = Ok st /\
               collect_raw (b_arena st) (length a) = Ok (Some t) /\
               pre_ids t = map Some (seq (length a) (tsz t)) /\
               length (b_arena st) = length a + tsz t.
Proof.
  destruct (sections_refines_label a key bs) as (st & H & C & L).
  exists st, (label (spec_tree key bs) (length a)). rewrite tsz_label. repeat split; auto. apply pre_ids_label.
Qed.
Print Assumptions sections_refines_ids.

(* the former witness of F-ITEMLEAD (an item that starts with a list and holds further blocks: the run
   of the further blocks used to start below the inner list's last item and overwrite its child
   link, losing "b"): the item is now one section without text over the inner list and "c" *)
Definition itemlead_witness : list dblock :=
  [DBList [[DBList [[DPara (0, 1) [Str "a"]; DPara (1, 2) [Str "b"]]]; DPara (2, 3) [Str "c"]]]].

Example sections_refines_itemlead :
  spec_tree "n" itemlead_witness =
  T None (NDocument "n")
    [T None NBList [T None (NSection [])
       [T None NBList [T None (NSection [Str "a"]) [T None (NLeaf [Str "b"]) []]]; T None (NLeaf [Str "c"]) []]]] /\
  read_back [] "n" itemlead_witness = Ok (Some (label (spec_tree "n" itemlead_witness) 0)).
Proof. split; vm_compute; reflexivity. Qed.

(* ---------- C01 / C07 end to end: the theorems about the specification hold for what the builder builds ---- *)
Lemma first_is_leaf_labelf ts k : first_is_leaf (labelf ts k) = first_is_leaf ts.
Proof. destruct ts as [|[i nd c] r]; [reflexivity|]. cbn [labelf]. rewrite label_T. reflexivity. Qed.

(* the projector does not look at ids *)
Lemma project_label dir t :
  (forall hl id, project_node dir hl (label t id) = project_node dir hl t) /\
  (forall hl k, flat_map (project_node dir hl) (labelf (t_children t) k) = flat_map (project_node dir hl) (t_children t)).
Proof.
  induction t as [i nd ts IH] using tree_ind'.
  assert (K : forall hl k, flat_map (project_node dir hl) (labelf ts k) = flat_map (project_node dir hl) ts).
  { intros hl. induction IH as [|x r [Hx _] _ IHr]; intros k; cbn [labelf flat_map]; [reflexivity|].
    now rewrite Hx, IHr. }
  assert (M : forall k,
    map (fun c => match c with T _ cn ck =>
           (if first_is_leaf ck then GPara (out_inlines dir cn) else GPlain (out_inlines dir cn))
             :: flat_map (project_node dir 0) ck end) (labelf ts k) =
    map (fun c => match c with T _ cn ck =>
           (if first_is_leaf ck then GPara (out_inlines dir cn) else GPlain (out_inlines dir cn))
             :: flat_map (project_node dir 0) ck end) ts).
  { clear K. induction IH as [|x r [_ Hx] _ IHr]; intros k; cbn [labelf map]; [reflexivity|].
    rewrite IHr. f_equal. destruct x as [j cn ck]. rewrite label_T. cbn [t_children] in Hx.
    now rewrite first_is_leaf_labelf, Hx. }
  split; [|exact K]. intros hl id. rewrite label_T.
  destruct nd; cbn [project_node]; rewrite ?K, ?M; try reflexivity;
    destruct ts; reflexivity.
Qed.

Theorem built_conserves (a : arena) (key : string) (bs : list dblock) :
  exists st t, build_document a key bs = Ok st /\ collect_raw (b_arena st) (length a) = Ok (Some t) /\
    tcontent (key_parent key) t = bscontent (key_parent key) bs /\
    flat_map gcontent (project (key_parent key) t) = bscontent (key_parent key) bs.
Proof.
  destruct (sections_refines_label a key bs) as (st & H & C & _).
  exists st, (label (spec_tree key bs) (length a)). split; [exact H|]. split; [exact C|].
  rewrite <- project_conserves. unfold project.
  rewrite (proj1 (project_label (key_parent key) (spec_tree key bs))).
  split; now apply spec_written_conserves.
Qed.
Print Assumptions built_conserves.

Theorem built_identity (a : arena) (key : string) (bs : list dblock) :
  well_nested (hlv bs) = true ->
  exists st t, build_document a key bs = Ok st /\ collect_raw (b_arena st) (length a) = Ok (Some t) /\
    glevels (project (key_parent key) t) = hlv bs.
Proof.
  intros Hwn. destruct (sections_refines_label a key bs) as (st & H & C & _).
  exists st, (label (spec_tree key bs) (length a)). split; [exact H|]. split; [exact C|].
  unfold project. rewrite (proj1 (project_label (key_parent key) (spec_tree key bs))).
  now apply note_identity.
Qed.
Print Assumptions built_identity.
