(* LibraryFacts.v — theorems about the library model (Library.v) used by C04:
   the title cache after (re)building a note holds exactly what the note's current first block
   says, whatever the cache held before (no trace of earlier versions), and no other entry
   moves. *)
From IweV Require Import Str Text Ast RelPath Arena Project Library.
Local Open Scope string_scope.
Local Open Scope list_scope.

Lemma alookup_aremove_same {A} k (l : list (string * A)) : alookup k (aremove k l) = None.
Proof.
  induction l as [|[k' v] l IH]; cbn; [reflexivity|].
  destruct (String.eqb k k') eqn:E; [exact IH|]. cbn. now rewrite E.
Qed.

Lemma alookup_aremove_other {A} k k' (l : list (string * A)) :
  String.eqb k' k = false -> alookup k' (aremove k l) = alookup k' l.
Proof.
  intros Hne. induction l as [|[k2 v] l IH]; cbn; [reflexivity|].
  destruct (String.eqb k k2) eqn:E.
  - apply String.eqb_eq in E. subst k2. rewrite Hne. exact IH.
  - cbn. destruct (String.eqb k' k2); [reflexivity | exact IH].
Qed.

Lemma alookup_app {A} k (l1 l2 : list (string * A)) :
  alookup k (l1 ++ l2) = match alookup k l1 with Some v => Some v | None => alookup k l2 end.
Proof.
  induction l1 as [|[k' v] l1 IH]; cbn; [reflexivity|].
  destruct (String.eqb k k'); [reflexivity | exact IH].
Qed.

Lemma alookup_ainsert_same {A} k (v : A) l : alookup k (ainsert k v l) = Some v.
Proof.
  unfold ainsert. rewrite alookup_app, alookup_aremove_same. cbn. now rewrite String.eqb_refl.
Qed.

Lemma alookup_ainsert_other {A} k k' (v : A) l :
  String.eqb k' k = false -> alookup k' (ainsert k v l) = alookup k' l.
Proof.
  intros Hne. unfold ainsert. rewrite alookup_app, alookup_aremove_other by exact Hne.
  cbn. rewrite Hne. now destruct (alookup k' l).
Qed.

(* after the refresh the cache entry of [key] is what the arena says now *)
Theorem refresh_title_exact g key root :
  alookup key (gr_keys g) = Some root ->
  get_key_title (refresh_title g key) key = extract_ref_text (gr_arena g) root.
Proof.
  intros Hk. unfold refresh_title, get_key_title. rewrite Hk.
  destruct (extract_ref_text (gr_arena g) root) as [t|]; cbn [gr_titles].
  - apply alookup_ainsert_same.
  - apply alookup_aremove_same.
Qed.

(* and no other entry moves *)
Theorem refresh_title_frame g key k' :
  String.eqb k' key = false ->
  get_key_title (refresh_title g key) k' = get_key_title g k'.
Proof.
  intros Hne. unfold refresh_title, get_key_title.
  destruct (alookup key (gr_keys g)) as [root|]; [|reflexivity].
  destruct (extract_ref_text (gr_arena g) root) as [t|]; cbn [gr_titles].
  - now apply alookup_ainsert_other.
  - now apply alookup_aremove_other.
Qed.

(* the refresh touches nothing but the title table *)
Lemma refresh_title_arena g key : gr_arena (refresh_title g key) = gr_arena g.
Proof.
  unfold refresh_title. destruct (alookup key (gr_keys g)); [|reflexivity].
  now destruct (extract_ref_text (gr_arena g) n).
Qed.
Lemma refresh_title_keys g key : gr_keys (refresh_title g key) = gr_keys g.
Proof.
  unfold refresh_title. destruct (alookup key (gr_keys g)); [|reflexivity].
  now destruct (extract_ref_text (gr_arena g) n).
Qed.

(* Graph::from_markdown / update_key: whatever the library and its title cache were before, after
   the note is (re)built its title is the plain text of its first block if that is a section, and
   absent otherwise *)
Theorem from_blocks_title g key meta bs g' :
  from_blocks g key meta bs = Ok g' ->
  get_key_title g' key = extract_ref_text (gr_arena g') (length (gr_arena g)).
Proof.
  unfold from_blocks, build_note. intros H.
  destruct (build_document (gr_arena g) key bs) as [st|] eqn:Eb; cbn [bind] in H; [|discriminate].
  inversion H; subst g'; clear H.
  rewrite refresh_title_arena.
  apply refresh_title_exact. cbn [gr_keys]. apply alookup_ainsert_same.
Qed.

Theorem from_blocks_title_frame g key meta bs g' k' :
  from_blocks g key meta bs = Ok g' -> String.eqb k' key = false ->
  get_key_title g' k' = get_key_title g k'.
Proof.
  unfold from_blocks, build_note. intros H Hne.
  destruct (build_document (gr_arena g) key bs) as [st|] eqn:Eb; cbn [bind] in H; [|discriminate].
  inversion H; subst g'; clear H.
  now rewrite refresh_title_frame by exact Hne.
Qed.

(* as found in the pinned tree the entry was never removed: a stale title survived the edit *)
Definition stale_title_witness : graph :=
  refresh_title_as_found
    (G [GN (KDocument "a") None None (Some 1); GN (KLeaf [Str "text"]) (Some 0) None None]
       [("a", 0)] [] [("a", "old title")] []) "a".

Theorem refresh_title_as_found_refuted :
  get_key_title stale_title_witness "a" = Some "old title" /\
  extract_ref_text (gr_arena stale_title_witness) 0 = None.
Proof. split; reflexivity. Qed.
