(* LinksFacts.v — C06 lifted from one inline to whole notes and whole libraries, end to end on the model from
   the reader's blocks to the written blocks (and to the blocks re-read from the written text).

   Link occurrences ([occ]: kind, "inside an image description", destination, text) are listed in document
   order for reader blocks ([dlinks]), trees ([tree_occ]) and written blocks ([glinks]); a paragraph that is one
   note link, not in the place of an item's text, is a block reference.  Three steps, each an equation of
   lists: reading  tree_occ (spec_tree key bs) = map (read_occ dir) (dlinks bs)   (fuel/size induction as in
   SectionsFacts), refresh  tree_occ (tmap (norm_node ctx) t) = map (refresh_occ ctx) (tree_occ t), writing
   glinks (project dir t) = map (write_occ dir) (tree_occ t).  Their composition [written_links] gives
     C06_note_links        one note, every title table: Forall2 (link_rule ctx dir) (dlinks bs) (glinks written)
     C06_library_links     every state reached by import (distinct keys) + any history, ctx = title of each
                           note's current first heading, for the text to_markdown answers
     C06_second_pass_links the re-read of the written text (Reparse.rr) on the decidable class [occ_stable]
   with the examples C06_inline_dir_repaired / C06_library_inline_dir_repaired (F-INLINEDIR, repaired: an inline
   link is kept by the key it names from the note's directory and titled by that note), the witnesses
   C06_inline_kind_refuted, C06_block_kind_refuted, C06_second_pass_kind_refuted, and [links_of_dlinks]: the list
   the per-run check compares (Check_Norm.links_of) is a projection of [dlinks]. *)
From IweV Require Import Str Text Ast RelPath RelPathFacts RelPathLaws Arena Project Library SectionsSpec
  BuilderFacts Check_Norm NormFacts SectionsFacts HistoryWF HistoryText Reparse ReparseFacts.
From Coq Require Import Lia List Permutation.
Local Open Scope string_scope.
Local Open Scope list_scope.

(* ---------- link occurrences ----------------------------------------------------------------------------- *)

Inductive lkind :=
| KNote (lt : link_type)     (* inline link whose destination is a note (is_ref_url) *)
| KExt (lt : link_type)      (* inline link with an external destination *)
| KImage
| KBlock (lt : link_type).   (* block reference: a paragraph that is one note link *)

(* kind, "inside the description of an image", destination, text *)
Record occ := Occ { o_kind : lkind; o_alt : bool; o_dest : string; o_text : list inline }.

Definition inline_kind (lt : link_type) (url : string) : lkind := if is_ref_url url then KNote lt else KExt lt.

(* the occurrences of one inline, in document order; what stands inside a link text belongs to that
   text (it is replaced as a whole by the refresh); the description of an image is walked *)
Fixpoint inline_occ (alt : bool) (i : inline) {struct i} : list occ :=
  let fix go (a : bool) (l : list inline) {struct l} : list occ :=
    match l with [] => [] | x :: r => inline_occ a x ++ go a r end in
  match i with
  | Emph l | Strong l | Strike l => go alt l
  | Link url _ lt l => [Occ (inline_kind lt url) alt url l]
  | Image url _ l => Occ KImage alt url l :: go true l
  | _ => []
  end.
Definition inlines_occ (alt : bool) (l : list inline) : list occ := flat_map (inline_occ alt) l.
Definition cells_occ (h : cells) (rows : list cells) : list occ :=
  flat_map (inlines_occ false) h ++ flat_map (flat_map (inlines_occ false)) rows.

(* a paragraph that is not the text of a list item *)
Definition para_occ (l : list inline) : list occ :=
  match l with
  | [Link url _ lt ils] => if is_ref_url url then [Occ (KBlock lt) false url ils] else inlines_occ false l
  | _ => inlines_occ false l
  end.

(* reader blocks *)
Fixpoint block_occ (b : dblock) {struct b} : list occ :=
  let fix go (l : list dblock) {struct l} : list occ :=
    match l with [] => [] | x :: r => block_occ x ++ go r end in
  let fix goi (l : list (list dblock)) {struct l} : list occ :=
    match l with
    | [] => []
    | it :: r =>
        (match it with
         | (DPara _ l | DHeader _ _ l) :: body => inlines_occ false l ++ go body     (* the item's text *)
         | _ => go it
         end) ++ goi r
    end in
  match b with
  | DPara _ l => para_occ l
  | DHeader _ _ l => inlines_occ false l
  | DQuote _ bs => go bs
  | DOList its | DBList its => goi its
  | DTable _ h _ rows => cells_occ h rows
  | _ => []
  end.
Definition dlinks (bs : list dblock) : list occ := flat_map block_occ bs.

(* written blocks *)
Fixpoint gblock_occ (b : gblock) {struct b} : list occ :=
  let fix go (l : list gblock) {struct l} : list occ :=
    match l with [] => [] | x :: r => gblock_occ x ++ go r end in
  let fix goi (l : list (list gblock)) {struct l} : list occ :=
    match l with
    | [] => []
    | it :: r =>
        (match it with
         | (GPlain l | GPara l) :: rest => inlines_occ false l ++ go rest            (* the item's text *)
         | _ => go it
         end) ++ goi r
    end in
  match b with
  | GPlain l | GPara l => para_occ l       (* GPlain is written only as the text of an item *)
  | GHeader _ l => inlines_occ false l
  | GQuote bs => go bs
  | GOList its | GBList its => goi its
  | GTable h _ rows => cells_occ h rows
  | _ => []
  end.
Definition glinks (g : list gblock) : list occ := flat_map gblock_occ g.

(* trees: a reference node is a block reference, keyed by the note it names *)
Fixpoint tree_occ (t : tree) {struct t} : list occ :=
  match t with
  | T _ n kids =>
      match n with
      | NDocument _ | NQuote => flat_map tree_occ kids
      | NSection l => inlines_occ false l ++ flat_map tree_occ kids
      | NBList | NOList =>
          flat_map (fun c => match c with T _ cn ck => inlines_occ false (node_inlines cn) ++ flat_map tree_occ ck end) kids
      | NLeaf l => inlines_occ false l
      | NRef key text rt => [Occ (KBlock rt) false key [Str text]]
      | NTable h _ rows => cells_occ h rows
      | _ => []
      end
  end.

(* ---------- the three steps, on one occurrence ------------------------------------------------------------- *)

(* reading (to_ginline; SectionsBuilder for block references): a note link is kept by the key it names from
   the note's directory, inline links and block references alike; an inline link whose key reads as an external
   url (`./mailto:x` -> `mailto:x`) is an external link from then on *)
Definition read_occ (dir : string) (o : occ) : occ :=
  match o_kind o with
  | KNote lt =>
      let K := from_rel_link_url (o_dest o) dir in
      Occ (inline_kind lt K) (o_alt o) K (map (to_ginline dir) (o_text o))
  | KBlock lt => Occ (KBlock lt) false (from_rel_link_url (o_dest o) dir) [Str (inlines_plain_text (o_text o))]
  | k => Occ k (o_alt o) (o_dest o) (map (to_ginline dir) (o_text o))
  end.

(* title refresh (GraphInline::normalize, GraphNodePointer::node) *)
Definition refresh_occ (ctx : titles) (o : occ) : occ :=
  match o_kind o with
  | KNote lt =>
      if o_alt o then o
      else Occ (KNote lt) false (o_dest o)
             match lt with
             | Regular => match ctx (key_name (o_dest o)) with Some t => [Str t] | None => o_text o end
             | WikiLink => []
             | WikiLinkPiped => o_text o
             end
  | KBlock rt =>
      Occ (KBlock rt) false (o_dest o)
        [Str match rt with
             | Regular => match ctx (o_dest o) with Some t => t | None => inlines_plain_text (o_text o) end
             | WikiLink => ""
             | WikiLinkPiped => inlines_plain_text (o_text o)
             end]
  | _ => o
  end.

(* writing (Projector): block references and inline note links are written relative to the note
   (`to_rel_link_url`, GraphInline::relative_to), through link and image texts *)
Definition write_occ (parent : string) (o : occ) : occ :=
  match o_kind o with
  | KBlock rt =>
      let u := to_rel_link_url (o_dest o) parent in
      Occ (if is_ref_url u then KBlock rt else KExt rt) false u
          match rt with WikiLink => [] | _ => o_text o end
  | KNote lt =>
      let u := to_rel_link_url (key_name (o_dest o)) parent in
      Occ (inline_kind lt u) (o_alt o) u (map (rel_inline parent) (o_text o))
  | k => Occ k (o_alt o) (o_dest o) (map (rel_inline parent) (o_text o))
  end.

Definition format_occ (ctx : titles) (dir : string) (o : occ) : occ :=
  write_occ dir (refresh_occ ctx (read_occ dir o)).

Definition written (ctx : titles) (key : string) (bs : list dblock) : list gblock :=
  project (key_parent key) (tmap (norm_node ctx) (spec_tree key bs)).

(* ---------- tests ------------------------------------------------------------------------------------------ *)

Definition t_ctx : titles := fun k =>
  if String.eqb k "b" then Some "TOP" else if String.eqb k "d/b" then Some "SUB" else if String.eqb k "a" then Some "A" else None.
Definition t_bs : list dblock :=
  [DPara (0,1) [Link "b.md" "" Regular [Str "x"]];
   DPara (0,1) [Str "see "; Link "b" "" Regular [Str "x"]; Emph [Link "../a.md" "t" Regular [Str "y"]; Link "q" "" WikiLink [Str "q"]];
                Image "i.png" "" [Str "alt"; Link "b.md" "" Regular [Str "in"]]; Link "http://e" "" Regular [Emph [Str "E"]]];
   DHeader (1,2) 2 [Link "b" "" WikiLinkPiped [Str "P"]];
   DBList [[DPara (2,3) [Link "b" "" Regular [Str "lead"]]; DPara (3,4) [Link "b" "" Regular [Str "ref"]];
            DOList [[DCode (4,5) None "c"; DPara (5,6) [Link "./mailto:x" "" Regular [Str "m"]]]; [DBList [[DPara (5,6) [Link "zz" "" WikiLink []]]]]]];
           []];
   DQuote (6,7) [DPara (6,7) [Link "../a" "" WikiLinkPiped [Str "pa"; Str "pb"]]; DTable (7,8) [[Link "b" "" Regular [Str "c"]]] [ANone] [[[Link "nn.md" "" Regular [Str "keep"]]]]];
   DHeader (8,9) 1 [Str "H"];
   DPara (9,10) [Link "b" "" Regular [Str "x"]]].

Example t_note_sub : glinks (written t_ctx "d/n" t_bs) = map (format_occ t_ctx (key_parent "d/n")) (dlinks t_bs).
Proof. vm_compute. reflexivity. Qed.
Example t_note_top : glinks (written t_ctx "n" t_bs) = map (format_occ t_ctx (key_parent "n")) (dlinks t_bs).
Proof. vm_compute. reflexivity. Qed.

(* ---------- strings ------------------------------------------------------------------------------------------ *)

(* what `strip_md` takes off is a suffix *)
Lemma strip_md_decomp s : exists r, s = strip_md s +++ r.
Proof.
  destruct (ends_with MD s) eqn:E.
  - exists MD. now apply strip_suffix_once_some.
  - exists "". rewrite strip_md_none by exact E. now rewrite append_nil_r.
Qed.

Lemma lower_app a b : lower_ascii_str (a +++ b) = lower_ascii_str a +++ lower_ascii_str b.
Proof. induction a as [|c a IH]; cbn; [reflexivity | now rewrite IH]. Qed.

Lemma starts_with_app p a b : starts_with p a = true -> starts_with p (a +++ b) = true.
Proof.
  revert a; induction p as [|c p IH]; intros a H; [reflexivity|].
  destruct a as [|d a]; [discriminate|]. cbn in *. destruct (Ascii.eqb c d); [now apply IH | discriminate].
Qed.

Lemma is_ref_url_prefix a b : is_ref_url (a +++ b) = true -> is_ref_url a = true.
Proof.
  unfold is_ref_url. rewrite lower_app. intros H.
  apply negb_true_iff in H. apply negb_true_iff.
  apply orb_false_iff in H as [H1 H]. apply orb_false_iff in H as [H2 H3].
  repeat (apply orb_false_iff; split);
    match goal with |- starts_with ?p ?x = false =>
      destruct (starts_with p x) eqn:E; [|reflexivity]; apply (starts_with_app p _ (lower_ascii_str b)) in E; congruence end.
Qed.

Lemma is_ref_url_trim url : is_ref_url url = true -> is_ref_url (strip_md url) = true.
Proof.
  intros H. destruct (strip_md_decomp url) as (r & Hr). rewrite Hr in H. now apply is_ref_url_prefix in H.
Qed.

(* ---------- inlines ------------------------------------------------------------------------------------------ *)

Lemma inline_occ_go a l :
  (fix go (a : bool) (l : list inline) {struct l} : list occ :=
     match l with [] => [] | x :: r => inline_occ a x ++ go a r end) a l = inlines_occ a l.
Proof. unfold inlines_occ. induction l as [|x l IH]; cbn; [reflexivity | now rewrite IH]. Qed.

Lemma inline_occ_emph a l : inline_occ a (Emph l) = inlines_occ a l.
Proof. cbn [inline_occ]. apply inline_occ_go. Qed.
Lemma inline_occ_strong a l : inline_occ a (Strong l) = inlines_occ a l.
Proof. cbn [inline_occ]. apply inline_occ_go. Qed.
Lemma inline_occ_strike a l : inline_occ a (Strike l) = inlines_occ a l.
Proof. cbn [inline_occ]. apply inline_occ_go. Qed.
Lemma inline_occ_image a url t l : inline_occ a (Image url t l) = Occ KImage a url l :: inlines_occ true l.
Proof. cbn [inline_occ]. now rewrite inline_occ_go. Qed.
Lemma inline_occ_link a url t lt l : inline_occ a (Link url t lt l) = [Occ (inline_kind lt url) a url l].
Proof. reflexivity. Qed.

Lemma inlines_occ_map (f : inline -> inline) (g : occ -> occ) a l :
  Forall (fun i => inline_occ a (f i) = map g (inline_occ a i)) l ->
  inlines_occ a (map f l) = map g (inlines_occ a l).
Proof.
  unfold inlines_occ. induction 1 as [|x l Hx _ IH]; cbn [map flat_map]; [reflexivity|].
  now rewrite map_app, Hx, IH.
Qed.

(* reading *)
Lemma read_inline dir : forall i a, inline_occ a (to_ginline dir i) = map (read_occ dir) (inline_occ a i).
Proof.
  apply (inline_ind' (fun i => forall a, inline_occ a (to_ginline dir i) = map (read_occ dir) (inline_occ a i)));
    intros; try reflexivity.
  - cbn [to_ginline]. rewrite !inline_occ_emph. apply inlines_occ_map.
    eapply Forall_impl; [|exact H]. intros i Hi. apply Hi.
  - cbn [to_ginline]. rewrite !inline_occ_strong. apply inlines_occ_map.
    eapply Forall_impl; [|exact H]. intros i Hi. apply Hi.
  - cbn [to_ginline]. rewrite !inline_occ_strike. apply inlines_occ_map.
    eapply Forall_impl; [|exact H]. intros i Hi. apply Hi.
  - cbn [to_ginline]. rewrite !inline_occ_link. cbn [map]. unfold inline_kind, read_occ.
    destruct (is_ref_url u) eqn:E; cbn [o_kind o_alt o_dest o_text].
    + reflexivity.
    + now rewrite E.
  - cbn [to_ginline]. rewrite !inline_occ_image. cbn [map]. f_equal.
    apply inlines_occ_map. eapply Forall_impl; [|exact H]. intros i Hi. apply Hi.
Qed.

Lemma read_inlines dir a l : inlines_occ a (to_ginlines dir l) = map (read_occ dir) (inlines_occ a l).
Proof. unfold to_ginlines. apply inlines_occ_map. apply Forall_forall. intros i _. apply read_inline. Qed.

(* occurrences inside an image description are left alone by the refresh *)
Definition inl_kind (o : occ) : Prop := match o_kind o with KBlock _ => False | _ => True end.

Lemma inline_occ_kinds : forall i a, Forall inl_kind (inline_occ a i).
Proof.
  assert (HL : forall a l, Forall (fun i => forall a, Forall inl_kind (inline_occ a i)) l -> Forall inl_kind (inlines_occ a l)).
  { intros a l H. unfold inlines_occ. induction H as [|x l Hx _ IH]; cbn [flat_map]; [constructor|].
    apply Forall_app; split; [apply Hx | exact IH]. }
  apply (inline_ind' (fun i => forall a, Forall inl_kind (inline_occ a i))); intros; [constructor | constructor | constructor | ..].
  - rewrite inline_occ_emph. now apply HL.
  - rewrite inline_occ_strong. now apply HL.
  - rewrite inline_occ_strike. now apply HL.
  - rewrite inline_occ_link. constructor; [|constructor]. unfold inl_kind, inline_kind. cbn. now destruct (is_ref_url u).
  - rewrite inline_occ_image. constructor; [exact I | now apply HL].
Qed.

Lemma inline_occ_alt : forall i, Forall (fun o => o_alt o = true) (inline_occ true i).
Proof.
  assert (HL : forall l, Forall (fun i => Forall (fun o => o_alt o = true) (inline_occ true i)) l ->
                         Forall (fun o => o_alt o = true) (inlines_occ true l)).
  { intros l H. unfold inlines_occ. induction H as [|x l Hx _ IH]; cbn [flat_map]; [constructor|].
    apply Forall_app; split; [apply Hx | exact IH]. }
  apply (inline_ind' (fun i => Forall (fun o => o_alt o = true) (inline_occ true i))); intros; [constructor | constructor | constructor | ..].
  - rewrite inline_occ_emph. now apply HL.
  - rewrite inline_occ_strong. now apply HL.
  - rewrite inline_occ_strike. now apply HL.
  - rewrite inline_occ_link. now repeat constructor.
  - rewrite inline_occ_image. constructor; [reflexivity | now apply HL].
Qed.

Lemma refresh_alt ctx o : o_alt o = true -> inl_kind o -> refresh_occ ctx o = o.
Proof. destruct o as [k a d t]. unfold inl_kind, refresh_occ. cbn. intros -> H. destruct k; tauto. Qed.

Lemma refresh_alt_inlines ctx l : map (refresh_occ ctx) (inlines_occ true l) = inlines_occ true l.
Proof.
  unfold inlines_occ. induction l as [|x l IH]; cbn [flat_map]; [reflexivity|].
  rewrite map_app, IH. f_equal.
  pose proof (inline_occ_alt x) as H1. pose proof (inline_occ_kinds x true) as H2.
  induction (inline_occ true x) as [|o r IHr]; [reflexivity|].
  inversion H1; inversion H2; subst. cbn [map]. rewrite refresh_alt by assumption. f_equal. now apply IHr.
Qed.

(* the refresh *)
Lemma refresh_inline ctx : forall i, inline_occ false (normalize_inline ctx i) = map (refresh_occ ctx) (inline_occ false i).
Proof.
  apply (inline_ind' (fun i => inline_occ false (normalize_inline ctx i) = map (refresh_occ ctx) (inline_occ false i)));
    intros; try reflexivity.
  - cbn [normalize_inline]. rewrite !inline_occ_emph. now apply inlines_occ_map.
  - cbn [normalize_inline]. rewrite !inline_occ_strong. now apply inlines_occ_map.
  - cbn [normalize_inline]. rewrite !inline_occ_strike. now apply inlines_occ_map.
  - cbn [normalize_inline]. rewrite inline_occ_link. cbn [map]. unfold inline_kind, refresh_occ.
    destruct (is_ref_url u) eqn:E; cbn [o_kind o_alt o_dest o_text].
    + rewrite inline_occ_link. unfold inline_kind. now rewrite E.
    + rewrite inline_occ_link. unfold inline_kind. now rewrite E.
  - cbn [normalize_inline]. rewrite inline_occ_image. cbn [map]. now rewrite refresh_alt_inlines.
Qed.

Lemma refresh_inlines ctx l : inlines_occ false (normalize_inlines ctx l) = map (refresh_occ ctx) (inlines_occ false l).
Proof. unfold normalize_inlines. apply inlines_occ_map. apply Forall_forall. intros i _. apply refresh_inline. Qed.

Lemma cells_occ_map (f : list inline -> list inline) (g : occ -> occ) h rows :
  (forall l, inlines_occ false (f l) = map g (inlines_occ false l)) ->
  cells_occ (map f h) (map (map f) rows) = map g (cells_occ h rows).
Proof.
  intros Hf. unfold cells_occ. rewrite map_app. f_equal.
  - induction h as [|c h IH]; cbn [map flat_map]; [reflexivity|]. now rewrite map_app, Hf, IH.
  - induction rows as [|r rows IH]; cbn [map flat_map]; [reflexivity|]. rewrite map_app, IH. f_equal.
    induction r as [|c r IHr]; cbn [map flat_map]; [reflexivity|]. now rewrite map_app, Hf, IHr.
Qed.

(* a paragraph is a block reference before and after *)
Lemma para_is_ref_read dir l : para_is_ref l = false -> para_is_ref (to_ginlines dir l) = false.
Proof.
  unfold to_ginlines. intros E. destruct l as [|i r]; [reflexivity|].
  destruct i; try reflexivity. destruct r; [|reflexivity].
  cbn [map to_ginline para_is_ref] in *. now rewrite E.
Qed.

Lemma para_is_ref_refresh ctx l : para_is_ref (normalize_inlines ctx l) = para_is_ref l.
Proof.
  unfold normalize_inlines. destruct l as [|i r]; [reflexivity|].
  destruct i; try reflexivity. destruct r.
  - cbn [map normalize_inline]. destruct (is_ref_url url) eqn:E; cbn [para_is_ref]; now rewrite ?E.
  - cbn [map normalize_inline]. destruct (is_ref_url url) eqn:E; reflexivity.
Qed.

Lemma para_occ_plain l : para_is_ref l = false -> para_occ l = inlines_occ false l.
Proof.
  intros E. destruct l as [|i r]; [reflexivity|].
  destruct i; try reflexivity. destruct r; [|reflexivity].
  cbn [para_is_ref para_occ] in *. now rewrite E.
Qed.

(* ---------- written blocks: unfoldings ----------------------------------------------------------------------- *)

Definition gitem_occ (it : list gblock) : list occ :=
  match it with
  | (GPlain l | GPara l) :: rest => inlines_occ false l ++ glinks rest
  | _ => glinks it
  end.

Lemma gblock_occ_go l :
  (fix go (l : list gblock) : list occ := match l with [] => [] | x :: r => gblock_occ x ++ go r end) l = glinks l.
Proof. unfold glinks. induction l as [|x l IH]; cbn; [reflexivity | now rewrite IH]. Qed.

Lemma gblock_occ_quote bs : gblock_occ (GQuote bs) = glinks bs.
Proof. cbn [gblock_occ]. apply gblock_occ_go. Qed.

Lemma gblock_occ_lists its :
  gblock_occ (GBList its) = flat_map gitem_occ its /\ gblock_occ (GOList its) = flat_map gitem_occ its.
Proof.
  split; (induction its as [|it r IH]; [reflexivity|]);
    cbn [gblock_occ flat_map] in *; rewrite IH; f_equal;
    destruct it as [|[] rest]; cbn [gitem_occ]; rewrite ?gblock_occ_go; reflexivity.
Qed.

Lemma glinks_app a b : glinks (a ++ b) = glinks a ++ glinks b.
Proof. unfold glinks. apply flat_map_app. Qed.

Lemma glinks_one b : glinks [b] = gblock_occ b.
Proof. unfold glinks. cbn [flat_map]. apply app_nil_r. Qed.

(* ---------- step C: the projector ------------------------------------------------------------------------------ *)

Fixpoint leaf_ok (t : tree) {struct t} : bool :=
  match t with
  | T _ n kids => match n with NLeaf l => negb (para_is_ref l) | _ => true end && forallb leaf_ok kids
  end.

Section Write.
  Variable parent : string.

  Lemma write_inline : forall i a, inline_occ a (rel_inline parent i) = map (write_occ parent) (inline_occ a i).
  Proof.
    apply (inline_ind' (fun i => forall a, inline_occ a (rel_inline parent i) = map (write_occ parent) (inline_occ a i)));
      intros; try reflexivity.
    - cbn [rel_inline]. rewrite !inline_occ_emph. apply inlines_occ_map.
      eapply Forall_impl; [|exact H]. intros i Hi. apply Hi.
    - cbn [rel_inline]. rewrite !inline_occ_strong. apply inlines_occ_map.
      eapply Forall_impl; [|exact H]. intros i Hi. apply Hi.
    - cbn [rel_inline]. rewrite !inline_occ_strike. apply inlines_occ_map.
      eapply Forall_impl; [|exact H]. intros i Hi. apply Hi.
    - cbn [rel_inline]. rewrite !inline_occ_link. cbn [map]. unfold inline_kind at 2, write_occ.
      destruct (is_ref_url u) eqn:E; cbn [o_kind o_alt o_dest o_text].
      + reflexivity.
      + unfold inline_kind. now rewrite E.
    - cbn [rel_inline]. rewrite !inline_occ_image. cbn [map]. f_equal.
      apply inlines_occ_map. eapply Forall_impl; [|exact H]. intros i Hi. apply Hi.
  Qed.

  Lemma write_inlines a l : inlines_occ a (rel_inlines parent l) = map (write_occ parent) (inlines_occ a l).
  Proof. unfold rel_inlines. apply inlines_occ_map. apply Forall_forall. intros i _. apply write_inline. Qed.

  Lemma write_cells h rows :
    cells_occ (map (rel_inlines parent) h) (map (map (rel_inlines parent)) rows) = map (write_occ parent) (cells_occ h rows).
  Proof. apply (cells_occ_map (rel_inlines parent)). intros l. apply write_inlines. Qed.

  (* a paragraph that is not a block reference is not written as one *)
  Lemma para_is_ref_rel l : para_is_ref l = false -> para_is_ref (rel_inlines parent l) = false.
  Proof.
    unfold rel_inlines. intros E. destruct l as [|i r]; [reflexivity|].
    destruct i; try reflexivity. destruct r; [|reflexivity].
    cbn [map rel_inline para_is_ref] in *. now rewrite E.
  Qed.

  Definition W1 (t : tree) : Prop := forall hl, glinks (project_node parent hl t) = map (write_occ parent) (tree_occ t).
  Definition WK (c : list tree) : Prop :=
    forall hl, glinks (flat_map (project_node parent hl) c) = map (write_occ parent) (flat_map tree_occ c).

  Lemma WK_of_W1 c : Forall W1 c -> WK c.
  Proof.
    intros H hl. induction H as [|t c Ht _ IH]; cbn [flat_map]; [reflexivity|].
    now rewrite glinks_app, map_app, (Ht hl), IH.
  Qed.

  Definition titem_occ (c : tree) : list occ :=
    match c with T _ cn ck => inlines_occ false (node_inlines cn) ++ flat_map tree_occ ck end.

  Lemma items_occ c :
    Forall (fun t => WK (t_children t)) c ->
    flat_map gitem_occ (map (item_of parent) c) = map (write_occ parent) (flat_map titem_occ c).
  Proof.
    induction 1 as [|t c Ht _ IH]; cbn [map flat_map]; [reflexivity|].
    rewrite IH, map_app. f_equal. destruct t as [i cn ck]. cbn [item_of t_children titem_occ] in *.
    rewrite map_app, <- write_inlines, <- (Ht 0). unfold out_inlines.
    destruct (first_is_leaf ck); reflexivity.
  Qed.

  Lemma project_occ : forall t, leaf_ok t = true -> W1 t /\ WK (t_children t).
  Proof.
    apply (tree_ind' (fun t => leaf_ok t = true -> W1 t /\ WK (t_children t))).
    intros i n c Hc Hok. cbn [leaf_ok] in Hok. apply andb_prop in Hok as [Hn Hkids].
    assert (Hall : Forall (fun t => W1 t /\ WK (t_children t)) c).
    { rewrite forallb_forall in Hkids. rewrite Forall_forall in Hc |- *. intros t Hin. apply Hc; auto. }
    assert (HS : Forall W1 c) by (eapply Forall_impl; [|exact Hall]; now intros t [? _]).
    assert (HK : Forall (fun t => WK (t_children t)) c) by (eapply Forall_impl; [|exact Hall]; now intros t [_ ?]).
    pose proof (WK_of_W1 c HS) as Kc.
    split; [|exact Kc].
    intros hl. destruct n; cbn [project_node tree_occ].
    - (* document *) apply Kc.
    - (* section *)
      change (GHeader (hl + 1) (rel_inlines parent l) :: flat_map (project_node parent (hl + 1)) c)
        with ([GHeader (hl + 1) (rel_inlines parent l)] ++ flat_map (project_node parent (hl + 1)) c).
      rewrite glinks_app, glinks_one, map_app, <- write_inlines, Kc. reflexivity.
    - (* quote *)
      rewrite <- (Kc 0).
      destruct (flat_map (project_node parent 0) c) as [|g q] eqn:E; [reflexivity|].
      now rewrite glinks_one, gblock_occ_quote.
    - (* bullet list *)
      destruct c as [|c0 c]; [reflexivity|].
      rewrite glinks_one, (proj1 (gblock_occ_lists _)). apply (items_occ (c0 :: c) HK).
    - (* ordered list *)
      destruct c as [|c0 c]; [reflexivity|].
      rewrite glinks_one, (proj2 (gblock_occ_lists _)). apply (items_occ (c0 :: c) HK).
    - (* leaf *)
      rewrite glinks_one, <- write_inlines. cbn [gblock_occ]. apply para_occ_plain.
      apply para_is_ref_rel. now apply negb_true_iff in Hn.
    - reflexivity.
    - reflexivity.
    - (* reference *)
      rewrite glinks_one. cbn [gblock_occ map]. unfold write_occ. cbn [o_kind o_dest o_text para_occ].
      destruct (is_ref_url (to_rel_link_url key parent)) eqn:E.
      + destruct rt; reflexivity.
      + unfold inlines_occ. cbn [flat_map]. rewrite inline_occ_link. unfold inline_kind. rewrite E.
        destruct rt; reflexivity.
    - (* table *)
      rewrite glinks_one, <- write_cells. reflexivity.
  Qed.

  Theorem written_occ (t : tree) : leaf_ok t = true -> glinks (project parent t) = map (write_occ parent) (tree_occ t).
  Proof. intros H. destruct (project_occ t H) as [H1 _]. apply H1. Qed.
End Write.

(* ---------- step B: the title refresh ---------------------------------------------------------------------------- *)

Section Refresh.
  Variable ctx : titles.

  Lemma node_inlines_norm cn :
    inlines_occ false (node_inlines (norm_node ctx cn)) = map (refresh_occ ctx) (inlines_occ false (node_inlines cn)).
  Proof. destruct cn; try reflexivity; cbn [norm_node node_inlines]; apply refresh_inlines. Qed.

  Definition R1 (t : tree) : Prop := tree_occ (tmap (norm_node ctx) t) = map (refresh_occ ctx) (tree_occ t).
  Definition RK (c : list tree) : Prop :=
    flat_map tree_occ (map (tmap (norm_node ctx)) c) = map (refresh_occ ctx) (flat_map tree_occ c).

  Lemma RK_of_R1 c : Forall R1 c -> RK c.
  Proof.
    unfold RK. induction 1 as [|t c Ht _ IH]; cbn [map flat_map]; [reflexivity|]. now rewrite map_app, Ht, IH.
  Qed.

  Lemma refresh_items c :
    Forall (fun t => RK (t_children t)) c ->
    flat_map titem_occ (map (tmap (norm_node ctx)) c) = map (refresh_occ ctx) (flat_map titem_occ c).
  Proof.
    induction 1 as [|t c Ht _ IH]; cbn [map flat_map]; [reflexivity|].
    rewrite IH, map_app. f_equal. destruct t as [i cn ck]. cbn [tmap titem_occ t_children] in *.
    now rewrite map_app, node_inlines_norm, Ht.
  Qed.

  Lemma refresh_tree : forall t, R1 t /\ RK (t_children t).
  Proof.
    apply (tree_ind' (fun t => R1 t /\ RK (t_children t))).
    intros i n c Hc.
    assert (HS : Forall R1 c) by (eapply Forall_impl; [|exact Hc]; now intros t [? _]).
    assert (HK : Forall (fun t => RK (t_children t)) c) by (eapply Forall_impl; [|exact Hc]; now intros t [_ ?]).
    pose proof (RK_of_R1 c HS) as Kc. split; [|exact Kc].
    unfold R1. cbn [tmap]. destruct n; cbn [norm_node tree_occ]; fold titem_occ.
    - exact Kc.
    - now rewrite map_app, refresh_inlines, Kc.
    - exact Kc.
    - apply (refresh_items c HK).
    - apply (refresh_items c HK).
    - apply refresh_inlines.
    - reflexivity.
    - reflexivity.
    - cbn [map]. unfold refresh_occ, inlines_plain_text. cbn [o_kind o_dest o_text map plain_text sconcat].
      rewrite append_nil_r. reflexivity.
    - unfold normalize_inlines. apply (cells_occ_map (map (normalize_inline ctx))). intros l. apply refresh_inlines.
  Qed.

  Theorem refreshed_occ t : tree_occ (tmap (norm_node ctx) t) = map (refresh_occ ctx) (tree_occ t).
  Proof. apply refresh_tree. Qed.

  Lemma leaf_ok_norm : forall t, leaf_ok (tmap (norm_node ctx) t) = leaf_ok t.
  Proof.
    apply (tree_ind' (fun t => leaf_ok (tmap (norm_node ctx) t) = leaf_ok t)).
    intros i n c Hc. cbn [tmap leaf_ok]. f_equal.
    - destruct n; try reflexivity. cbn [norm_node]. now rewrite para_is_ref_refresh.
    - induction Hc as [|t c Ht _ IH]; cbn [map forallb]; [reflexivity | now rewrite Ht, IH].
  Qed.
End Refresh.

(* ---------- reader blocks: unfoldings ---------------------------------------------------------------------------- *)

Definition ditem_occ (it : list dblock) : list occ :=
  match it with
  | (DPara _ l | DHeader _ _ l) :: body => inlines_occ false l ++ dlinks body
  | _ => dlinks it
  end.

Lemma block_occ_go l :
  (fix go (l : list dblock) : list occ := match l with [] => [] | x :: r => block_occ x ++ go r end) l = dlinks l.
Proof. unfold dlinks. induction l as [|x l IH]; cbn; [reflexivity | now rewrite IH]. Qed.

Lemma block_occ_quote lr bs : block_occ (DQuote lr bs) = dlinks bs.
Proof. cbn [block_occ]. apply block_occ_go. Qed.

Lemma block_occ_lists its :
  block_occ (DBList its) = flat_map ditem_occ its /\ block_occ (DOList its) = flat_map ditem_occ its.
Proof.
  split; (induction its as [|it r IH]; [reflexivity|]);
    cbn [block_occ flat_map] in *; rewrite IH; f_equal;
    destruct it as [|[] rest]; cbn [ditem_occ]; rewrite ?block_occ_go; reflexivity.
Qed.

Lemma dlinks_app a b : dlinks (a ++ b) = dlinks a ++ dlinks b.
Proof. unfold dlinks. apply flat_map_app. Qed.

Lemma dlinks_cons b l : dlinks (b :: l) = block_occ b ++ dlinks l.
Proof. reflexivity. Qed.

(* ---------- step A: the tree the builder makes (SectionsSpec) ------------------------------------------------------- *)

Section Read.
  Variable dir : string.

  Definition tsocc (ts : list tree) : list occ := flat_map tree_occ ts.
  Definition items_tocc (ts : list tree) : list occ := flat_map titem_occ ts.

  Lemma tsocc_app a b : tsocc (a ++ b) = tsocc a ++ tsocc b.
  Proof. unfold tsocc. apply flat_map_app. Qed.
  Lemma items_tocc_app a b : items_tocc (a ++ b) = items_tocc a ++ items_tocc b.
  Proof. unfold items_tocc. apply flat_map_app. Qed.

  Lemma read_cells h rows :
    cells_occ (map (to_ginlines dir) h) (map (map (to_ginlines dir)) rows) = map (read_occ dir) (cells_occ h rows).
  Proof. apply (cells_occ_map (to_ginlines dir)). intros l. apply read_inlines. Qed.

  Lemma leaf_para lr l : tree_occ (T None (leaf_node dir (DPara lr l)) []) = map (read_occ dir) (para_occ l).
  Proof.
    assert (Hplain : para_occ l = inlines_occ false l ->
                     tree_occ (T None (NLeaf (to_ginlines dir l)) []) = map (read_occ dir) (para_occ l)).
    { intros ->. cbn [tree_occ]. apply read_inlines. }
    destruct l as [|i r]; [reflexivity|].
    destruct i; try (apply Hplain; reflexivity).
    destruct r; [|apply Hplain; reflexivity].
    cbn [leaf_node]. destruct (is_ref_url url) eqn:E.
    - cbn [tree_occ para_occ]. rewrite E. reflexivity.
    - apply Hplain. cbn [para_occ]. now rewrite E.
  Qed.

  Definition block_ok n :=
    forall f b, dblock_size b <= n -> 4 * n + 1 <= f -> is_header b = false ->
      tsocc (block_tree dir f b) = map (read_occ dir) (block_occ b).
  Definition item_ok n :=
    forall f it, dblocks_size it <= n -> 4 * n + 5 <= f ->
      items_tocc (item_tree dir f it) = map (read_occ dir) (ditem_occ it).
  Definition sections_ok n :=
    forall f L bs, dblocks_size bs <= n -> 4 * n + 3 <= f -> headed bs ->
      tsocc (sections_tree dir f L bs) = map (read_occ dir) (dlinks bs).
  Definition blocks_ok n :=
    forall f bs, dblocks_size bs <= n -> 4 * n + 4 <= f ->
      tsocc (blocks_tree dir f bs) = map (read_occ dir) (dlinks bs).

  Lemma items_fold_occ n f its :
    item_ok n -> (forall it, In it its -> dblocks_size it <= n) -> (its <> [] -> 4 * n + 5 <= f) ->
    items_tocc (flat_map (item_tree dir f) its) = map (read_occ dir) (flat_map ditem_occ its).
  Proof.
    intros HI Hsz Hf. specialize (fun it Hin => HI f it (Hsz it Hin)).
    assert (Hf' : forall it, In it its -> 4 * n + 5 <= f) by (intros it Hin; apply Hf; intros ->; contradiction).
    clear Hf Hsz. induction its as [|it r IH]; [reflexivity|].
    cbn [flat_map]. rewrite items_tocc_app, map_app.
    rewrite (HI it (or_introl eq_refl) (Hf' it (or_introl eq_refl))). f_equal.
    apply IH; intros x Hx; [apply HI | apply (Hf' x)]; now right.
  Qed.

  Lemma tsocc_one t : tsocc [t] = tree_occ t.
  Proof. unfold tsocc. cbn [flat_map]. apply app_nil_r. Qed.

  Lemma step_block_o n : (forall m, m < n -> item_ok m /\ blocks_ok m) -> block_ok n.
  Proof.
    intros IH f b Hsz Hf Hnh. destruct f as [|f]; [lia|]. rewrite block_tree_S'.
    destruct b as [lr l|lr lang text|lr bs|its|its|lr lv l|lr|lr h al rows]; try discriminate; rewrite tsocc_one.
    - apply leaf_para.
    - reflexivity.
    - (* quote *)
      rewrite size_quote in Hsz. destruct (IH (dblocks_size bs) ltac:(lia)) as [_ HB].
      cbn [tree_occ]. rewrite block_occ_quote. apply (HB f bs (le_n _) ltac:(lia)).
    - (* ordered list *)
      rewrite size_olist in Hsz. set (n' := items_size its - 1).
      destruct (IH n' ltac:(destruct its; cbn [items_size] in *; lia)) as [HI _].
      cbn [tree_occ]. rewrite (proj2 (block_occ_lists its)).
      apply (items_fold_occ n' f its HI).
      + intros it Hin. pose proof (items_size_in it its Hin). unfold n'. lia.
      + unfold n'. destruct its; [congruence | cbn [items_size] in *; lia].
    - (* bullet list *)
      rewrite size_blist in Hsz. set (n' := items_size its - 1).
      destruct (IH n' ltac:(destruct its; cbn [items_size] in *; lia)) as [HI _].
      cbn [tree_occ]. rewrite (proj1 (block_occ_lists its)).
      apply (items_fold_occ n' f its HI).
      + intros it Hin. pose proof (items_size_in it its Hin). unfold n'. lia.
      + unfold n'. destruct its; [congruence | cbn [items_size] in *; lia].
    - reflexivity.
    - cbn [leaf_node tree_occ block_occ]. apply read_cells.
  Qed.

  Lemma item_no_text_o n f it :
    blocks_ok n -> dblocks_size it <= n -> 4 * n + 4 <= f ->
    items_tocc [T None (NSection []) (blocks_tree dir f it)] = map (read_occ dir) (dlinks it).
  Proof.
    intros HB Hsz Hf. unfold items_tocc. cbn [flat_map titem_occ node_inlines]. rewrite app_nil_r.
    apply (HB f it Hsz Hf).
  Qed.

  Lemma step_item_o n : (forall m, m < n -> item_ok m /\ blocks_ok m) -> blocks_ok n -> item_ok n.
  Proof.
    intros IH HBn f it Hsz Hf. destruct f as [|f]; [lia|]. rewrite item_tree_S'.
    destruct it as [|h body]; [reflexivity|].
    pose proof Hsz as Hsz0. rewrite dblocks_size_cons in Hsz.
    pose proof (dblock_size_pos h) as Hpos.
    destruct h as [lr l|lr lang text|lr bs|its|its|lr lv l|lr|lr hh al rows];
      try (cbn [ditem_occ]; apply (item_no_text_o n f _ HBn Hsz0); lia).
    - (* paragraph lead *)
      destruct (IH (dblocks_size body) ltac:(lia)) as [_ HB].
      unfold items_tocc. cbn [flat_map titem_occ node_inlines ditem_occ lead_inlines]. rewrite app_nil_r, map_app.
      rewrite read_inlines. f_equal. apply (HB f body (le_n _) ltac:(lia)).
    - (* ordered list lead: alone it is merged into the enclosing list *)
      destruct body as [|b1 body]; [|cbn [ditem_occ]; apply (item_no_text_o n f _ HBn Hsz0); lia].
      rewrite size_olist in Hsz.
      set (n' := items_size its - 1).
      destruct (IH n' ltac:(destruct its; cbn [items_size dblocks_size fold_right] in *; lia)) as [HI _].
      cbn [ditem_occ]. rewrite dlinks_cons. unfold dlinks at 1. cbn [flat_map]. rewrite app_nil_r.
      rewrite (proj2 (block_occ_lists its)).
      apply (items_fold_occ n' f its HI).
      + intros it Hin. pose proof (items_size_in it its Hin). unfold n'. lia.
      + unfold n'. destruct its; [congruence | cbn [items_size dblocks_size fold_right] in *; lia].
    - (* bullet list lead *)
      destruct body as [|b1 body]; [|cbn [ditem_occ]; apply (item_no_text_o n f _ HBn Hsz0); lia].
      rewrite size_blist in Hsz.
      set (n' := items_size its - 1).
      destruct (IH n' ltac:(destruct its; cbn [items_size dblocks_size fold_right] in *; lia)) as [HI _].
      cbn [ditem_occ]. rewrite dlinks_cons. unfold dlinks at 1. cbn [flat_map]. rewrite app_nil_r.
      rewrite (proj1 (block_occ_lists its)).
      apply (items_fold_occ n' f its HI).
      + intros it Hin. pose proof (items_size_in it its Hin). unfold n'. lia.
      + unfold n'. destruct its; [congruence | cbn [items_size dblocks_size fold_right] in *; lia].
    - (* heading lead *)
      destruct (IH (dblocks_size body) ltac:(lia)) as [_ HB].
      unfold items_tocc. cbn [flat_map titem_occ node_inlines ditem_occ lead_inlines]. rewrite app_nil_r, map_app.
      rewrite read_inlines. f_equal. apply (HB f body (le_n _) ltac:(lia)).
  Qed.

  Lemma step_sections_o n :
    (forall m, m < n -> blocks_ok m /\ sections_ok m) -> sections_ok n.
  Proof.
    intros IH f L bs Hsz Hf Hhd. destruct f as [|f]; [lia|]. rewrite sections_tree_S'.
    destruct bs as [|h r]; [reflexivity|].
    destruct (span_section L r) as [body rest] eqn:Es.
    destruct (span_section_spec L r body rest Es) as [-> Hrest].
    rewrite dblocks_size_cons, dblocks_size_app in Hsz.
    pose proof (dblock_size_pos h) as Hpos.
    cbn [headed] in Hhd. destruct h as [| | | | |lr lv l| |]; try discriminate.
    destruct (IH (dblocks_size body) ltac:(lia)) as [HB _].
    destruct (IH (dblocks_size rest) ltac:(lia)) as [_ HS].
    unfold tsocc. cbn [flat_map tree_occ]. fold (tsocc (blocks_tree dir f body)).
    fold (tsocc (sections_tree dir f L rest)).
    rewrite (HB f body (le_n _) ltac:(lia)), (HS f L rest (le_n _) ltac:(lia) Hrest).
    rewrite dlinks_cons, dlinks_app, !map_app. cbn [block_occ lead_inlines]. rewrite read_inlines, app_assoc. reflexivity.
  Qed.

  Lemma step_blocks_o n : block_ok n -> sections_ok n -> blocks_ok n.
  Proof.
    intros HBk HSs f bs Hsz Hf. destruct f as [|f]; [lia|]. rewrite blocks_tree_S'.
    destruct (span_pre bs) as [pre rest] eqn:Es.
    destruct (span_pre_spec bs pre rest Es) as (-> & Hpre & Hrest).
    rewrite dblocks_size_app in Hsz.
    rewrite tsocc_app, dlinks_app, map_app. f_equal.
    - clear - HBk Hpre Hsz Hf. induction pre as [|b l IHl]; [reflexivity|].
      inversion Hpre; subst. rewrite dblocks_size_cons in Hsz.
      cbn [flat_map]. rewrite tsocc_app, dlinks_cons, map_app. f_equal.
      + apply HBk; auto; lia.
      + apply IHl; auto. lia.
    - destruct rest as [|h r]; [reflexivity|].
      cbn [headed] in Hrest. destruct h as [| | | | |lr lv l| |]; try discriminate. cbn [header_level].
      apply HSs; auto; lia.
  Qed.

  Theorem occ_total n : block_ok n /\ item_ok n /\ sections_ok n /\ blocks_ok n.
  Proof.
    induction n as [n IH] using lt_wf_ind.
    assert (HBk : block_ok n) by (apply step_block_o; intros m Hm; destruct (IH m Hm) as (_ & ? & _ & ?); auto).
    assert (HSs : sections_ok n) by (apply step_sections_o; intros m Hm; destruct (IH m Hm) as (_ & _ & ? & ?); auto).
    assert (HBs : blocks_ok n) by now apply step_blocks_o.
    assert (HI : item_ok n) by (apply step_item_o; [intros m Hm; destruct (IH m Hm) as (_ & ? & _ & ?); auto | exact HBs]).
    repeat split; auto.
  Qed.

  (* no leaf of the tree is a paragraph that would be read as a block reference: for every fuel *)
  Lemma leaf_node_ok b : leaf_ok (T None (leaf_node dir b) []) = true.
  Proof.
    destruct b; try reflexivity. cbn [leaf_node].
    assert (H : para_is_ref l = false -> leaf_ok (T None (NLeaf (to_ginlines dir l)) []) = true).
    { intros E. cbn [leaf_ok forallb]. now rewrite (para_is_ref_read dir l E). }
    destruct l as [|i r]; [now apply H|]. destruct i; try (now apply H). destruct r; [|now apply H].
    destruct (is_ref_url url) eqn:E; [reflexivity|]. apply H. cbn [para_is_ref]. exact E.
  Qed.

  Lemma forallb_flat_map {A B} (p : B -> bool) (g : A -> list B) l :
    (forall x, forallb p (g x) = true) -> forallb p (flat_map g l) = true.
  Proof. intros H. induction l as [|x l IH]; cbn [flat_map]; [reflexivity|]. now rewrite forallb_app, H, IH. Qed.

  Lemma leaf_ok_fuel : forall f,
    (forall bs, forallb leaf_ok (blocks_tree dir f bs) = true) /\
    (forall L bs, forallb leaf_ok (sections_tree dir f L bs) = true) /\
    (forall b, forallb leaf_ok (block_tree dir f b) = true) /\
    (forall it, forallb leaf_ok (item_tree dir f it) = true).
  Proof.
    induction f as [|f (HB & HS & HK & HI)]; [repeat split; reflexivity|].
    repeat split.
    - intros bs. rewrite blocks_tree_S'. destruct (span_pre bs) as [pre rest].
      rewrite forallb_app, (forallb_flat_map leaf_ok (block_tree dir f) pre HK). cbn [andb].
      destruct rest as [|h r]; [reflexivity|]. destruct (header_level h); [apply HS | reflexivity].
    - intros L bs. rewrite sections_tree_S'. destruct bs as [|h r]; [reflexivity|].
      destruct (span_section L r) as [body rest]. cbn [forallb leaf_ok]. now rewrite HB, HS.
    - intros b. rewrite block_tree_S'.
      destruct b; cbn [forallb]; rewrite ?andb_true_r; try apply leaf_node_ok; try reflexivity.
      + cbn [leaf_ok]. apply HB.
      + cbn [leaf_ok]. apply (forallb_flat_map leaf_ok (item_tree dir f) items HI).
      + cbn [leaf_ok]. apply (forallb_flat_map leaf_ok (item_tree dir f) items HI).
    - intros it. rewrite item_tree_S'.
      destruct it as [|h body]; [reflexivity|].
      destruct h; try (cbn [forallb leaf_ok]; now rewrite HB).
      + destruct body; [apply (forallb_flat_map leaf_ok (item_tree dir f) items HI) | cbn [forallb leaf_ok]; now rewrite HB].
      + destruct body; [apply (forallb_flat_map leaf_ok (item_tree dir f) items HI) | cbn [forallb leaf_ok]; now rewrite HB].
  Qed.
End Read.

Theorem spec_tree_occ (key : string) (bs : list dblock) :
  tree_occ (spec_tree key bs) = map (read_occ (key_parent key)) (dlinks bs).
Proof.
  unfold spec_tree, note_tree. cbn [tree_occ].
  destruct (occ_total (key_parent key) (dblocks_size bs)) as (_ & _ & _ & HB).
  apply HB; auto. unfold fuel_for. lia.
Qed.

Theorem spec_tree_leaf_ok (key : string) (bs : list dblock) : leaf_ok (spec_tree key bs) = true.
Proof.
  unfold spec_tree, note_tree. cbn [leaf_ok]. apply (leaf_ok_fuel (key_parent key) (fuel_for bs)).
Qed.

(* the blocks written for a note: every occurrence of the reader's blocks, formatted, in order *)
Theorem written_links ctx key bs :
  glinks (written ctx key bs) = map (format_occ ctx (key_parent key)) (dlinks bs).
Proof.
  unfold written. rewrite written_occ by (rewrite leaf_ok_norm; apply spec_tree_leaf_ok).
  rewrite refreshed_occ, spec_tree_occ, !map_map. reflexivity.
Qed.
Print Assumptions written_links.

(* ---------- the rule of C06 for one occurrence ------------------------------------------------------------------------ *)

(* [d]: an occurrence of the reader's blocks of a note in directory [dir]; [g]: the occurrence written for it.
   The destination of [d] is url text as typed (with or without one `.md`); the graph holds the KEY K the url
   names from [dir] (`Key::from_rel_link_url`), for inline links and block references alike, and the projector
   writes the path of K relative to [dir] (`to_rel_link_url`), which the writer turns into url text again with
   `ref_url` (the configured extension, and `.md` all the same where the path ends in `.md`).
   - inline note link: same place; the destination is the path, relative to [dir], of K; it leads from [dir] to
     K again, and what is written for it resolves to K again with either extension - EVERY K (C15_rewrite_key /
     C15_rewrite_written); the link is a note link again unless that path is not a note url;
     the text of a REGULAR link outside an image description is the title [ctx] has for K - the note the link
     resolves to from the note's directory (F-INLINEDIR, repaired: it was the note named by the destination text
     alone) - when there is one, and is kept otherwise; bare wiki links have no text, piped ones keep theirs; the
     refresh does not enter image descriptions.  The one exception is the one block references have: a url that
     does not START with a scheme but whose key does (`./mailto:x` -> `mailto:x`) is an external link from the
     graph on, nothing is refreshed or made relative;
   - external link, image: unchanged; a kept text is written with the note links inside it by key and relative
     again ([kept_text]);
   - block reference: the destination is the path, relative to [dir], of the key K the reference resolves to from
     [dir]; it leads to K again, and what is written for it resolves to K again - EVERY K, also one ending in
     `.md` (C15_rewrite_key / C15_rewrite_written; in the pinned tree a K ending in `.md` was lost); it is written
     as a paragraph of one link, which is a block reference again unless that url is not a note url; the text of
     a regular reference is the title of K when there is one and the plain text otherwise. *)
Definition kept_text (dir : string) (l : list inline) : list inline := map (rel_inline dir) (map (to_ginline dir) l).

Definition link_rule (ctx : titles) (dir : string) (d g : occ) : Prop :=
  match o_kind d with
  | KNote lt =>
      let K := from_rel_link_url (o_dest d) dir in
      o_alt g = o_alt d /\
      o_dest g = (if is_ref_url K then to_rel_link_url K dir else K) /\
      o_kind g = inline_kind lt (o_dest g) /\
      (is_ref_url K = true ->
         join_normalized dir (o_dest g) = K /\
         (forall ext, ext = MD \/ ext = "" -> from_rel_link_url (ref_url (o_dest g) ext) dir = K)) /\
      o_text g =
        if o_alt d || negb (is_ref_url K) then kept_text dir (o_text d)
        else match lt with
             | Regular => match ctx K with
                          | Some t => [Str t]
                          | None => kept_text dir (o_text d)
                          end
             | WikiLink => []
             | WikiLinkPiped => kept_text dir (o_text d)
             end
  | KExt lt => g = Occ (KExt lt) (o_alt d) (o_dest d) (kept_text dir (o_text d))
  | KImage => g = Occ KImage (o_alt d) (o_dest d) (kept_text dir (o_text d))
  | KBlock lt =>
      let K := from_rel_link_url (o_dest d) dir in
      o_alt g = false /\ o_dest g = to_rel_link_url K dir /\
      o_kind g = (if is_ref_url (o_dest g) then KBlock lt else KExt lt) /\
      join_normalized dir (o_dest g) = K /\
      (forall ext, ext = MD \/ ext = "" -> from_rel_link_url (ref_url (o_dest g) ext) dir = K) /\
      o_text g = match lt with
                 | Regular => [Str match ctx K with Some t => t | None => inlines_plain_text (o_text d) end]
                 | WikiLink => []
                 | WikiLinkPiped => [Str (inlines_plain_text (o_text d))]
                 end
  end.

Lemma plain_str s : inlines_plain_text [Str s] = s.
Proof. unfold inlines_plain_text. cbn [map plain_text sconcat]. apply append_nil_r. Qed.

Lemma format_rule ctx dir d : link_rule ctx dir d (format_occ ctx dir d).
Proof.
  destruct d as [k a u l]. unfold link_rule, format_occ. destruct k as [lt|lt| |lt]; cbn [o_kind o_alt o_dest o_text read_occ].
  - (* inline note link *)
    assert (EN : forall x, key_name x = x) by reflexivity.
    destruct (is_ref_url (from_rel_link_url u dir)) eqn:EK.
    + replace (inline_kind lt (from_rel_link_url u dir)) with (KNote lt) by (unfold inline_kind; now rewrite EK).
      rewrite orb_false_r.
      destruct a.
      * unfold refresh_occ. cbn [o_kind o_alt o_dest o_text]. unfold write_occ. cbn [o_kind o_alt o_dest o_text].
        rewrite EN.
        split; [reflexivity|]. split; [reflexivity|]. split; [reflexivity|].
        split; [intros _; split; [apply C15_rewrite_key | intros ext He; now apply C15_rewrite_written]|].
        reflexivity.
      * unfold refresh_occ. cbn [o_kind o_alt o_dest o_text]. unfold write_occ. cbn [o_kind o_alt o_dest o_text].
        rewrite !EN.
        split; [reflexivity|]. split; [reflexivity|]. split; [reflexivity|].
        split; [intros _; split; [apply C15_rewrite_key | intros ext He; now apply C15_rewrite_written]|].
        destruct lt; [destruct (ctx (from_rel_link_url u dir))|..]; reflexivity.
    + replace (inline_kind lt (from_rel_link_url u dir)) with (KExt lt) by (unfold inline_kind; now rewrite EK).
      rewrite orb_true_r.
      unfold refresh_occ. cbn [o_kind o_alt o_dest o_text]. unfold write_occ. cbn [o_kind o_alt o_dest o_text].
      split; [reflexivity|]. split; [reflexivity|]. split; [unfold inline_kind; now rewrite EK|].
      split; [discriminate|]. reflexivity.
  - reflexivity.
  - reflexivity.
  - (* block reference *)
    unfold refresh_occ. cbn [o_kind o_alt o_dest o_text]. unfold write_occ. cbn [o_kind o_alt o_dest o_text].
    rewrite !plain_str.
    repeat split; try reflexivity.
    + apply C15_rewrite_key.
    + intros ext He. now apply C15_rewrite_written.
    + destruct lt; reflexivity.
Qed.

(* what "unchanged" means for a kept text: same plain text (only destinations of nested links move) *)
Lemma plain_text_read dir : forall i, plain_text (to_ginline dir i) = plain_text i.
Proof.
  assert (HL : forall l, Forall (fun i => plain_text (to_ginline dir i) = plain_text i) l ->
    (fix go (l : list inline) : string := match l with [] => "" | x :: r => plain_text x +++ go r end) (map (to_ginline dir) l) =
    (fix go (l : list inline) : string := match l with [] => "" | x :: r => plain_text x +++ go r end) l).
  { induction 1 as [|x l Hx _ IH]; cbn [map]; [reflexivity | now rewrite Hx, IH]. }
  apply (inline_ind' (fun i => plain_text (to_ginline dir i) = plain_text i)); intros; try reflexivity;
    cbn [to_ginline plain_text]; now apply HL.
Qed.

Lemma plain_text_rel dir : forall i, plain_text (rel_inline dir i) = plain_text i.
Proof.
  assert (HL : forall l, Forall (fun i => plain_text (rel_inline dir i) = plain_text i) l ->
    (fix go (l : list inline) : string := match l with [] => "" | x :: r => plain_text x +++ go r end) (map (rel_inline dir) l) =
    (fix go (l : list inline) : string := match l with [] => "" | x :: r => plain_text x +++ go r end) l).
  { induction 1 as [|x l Hx _ IH]; cbn [map]; [reflexivity | now rewrite Hx, IH]. }
  apply (inline_ind' (fun i => plain_text (rel_inline dir i) = plain_text i)); intros; try reflexivity;
    cbn [rel_inline plain_text]; now apply HL.
Qed.

Lemma kept_text_plain dir l : inlines_plain_text (kept_text dir l) = inlines_plain_text l.
Proof.
  unfold inlines_plain_text, kept_text. induction l as [|x l IH]; cbn [map sconcat]; [reflexivity|].
  now rewrite plain_text_rel, plain_text_read, IH.
Qed.

Lemma Forall2_map_fun {A B} (R : A -> B -> Prop) (f : A -> B) l : (forall x, R x (f x)) -> Forall2 R l (map f l).
Proof. intros H. induction l as [|x l IH]; cbn [map]; constructor; auto. Qed.

(* ---------- HEADLINE 1: one note ------------------------------------------------------------------------------------------ *)

(* the blocks written for a note = project (key_parent key) (tmap (norm_node ctx) (spec_tree key bs)): their link
   occurrences correspond one to one, in document order, to those of the reader's blocks, and every pair obeys
   the rule *)
Theorem C06_note_links (ctx : titles) (key : string) (bs : list dblock) :
  Forall2 (link_rule ctx (key_parent key)) (dlinks bs)
          (glinks (project (key_parent key) (tmap (norm_node ctx) (spec_tree key bs)))).
Proof.
  fold (written ctx key bs). rewrite written_links. apply Forall2_map_fun. intros d. apply format_rule.
Qed.
Print Assumptions C06_note_links.

(* the text of a regular inline link is the title of the note the WRITTEN link resolves to from the note's
   directory - every directory, every url (before the repair of F-INLINEDIR: only where the destination text is
   the key it resolves to, i.e. in the library root and for canonical urls) *)
Corollary C06_inline_resolved ctx dir d g :
  link_rule ctx dir d g -> o_kind d = KNote Regular -> o_alt d = false ->
  is_ref_url (from_rel_link_url (o_dest d) dir) = true ->
  o_text g = match ctx (join_normalized dir (o_dest g)) with
             | Some t => [Str t]
             | None => kept_text dir (o_text d)
             end.
Proof.
  unfold link_rule. intros H Hk Ha E. rewrite Hk in H. destruct H as (_ & _ & _ & Hr & Ht).
  rewrite Ha, E in Ht. cbn [orb negb] in Ht. destruct (Hr E) as [Hj _]. now rewrite Hj.
Qed.

(* the rule for an inline note link, spelled out: destination, resolution and text all speak of K, the note the
   typed url names from the note's directory *)
Corollary C06_inline_rule ctx dir d g lt :
  link_rule ctx dir d g -> o_kind d = KNote lt ->
  let K := from_rel_link_url (o_dest d) dir in
  is_ref_url K = true ->
  o_dest g = to_rel_link_url K dir /\
  join_normalized dir (o_dest g) = K /\
  (forall ext, ext = MD \/ ext = "" -> from_rel_link_url (ref_url (o_dest g) ext) dir = K) /\
  (o_alt d = false ->
   o_text g = match lt with
              | Regular => match ctx K with Some t => [Str t] | None => kept_text dir (o_text d) end
              | WikiLink => []
              | WikiLinkPiped => kept_text dir (o_text d)
              end).
Proof.
  unfold link_rule. intros H Hk. cbv zeta. intros E. rewrite Hk in H. cbv zeta in H.
  destruct H as (_ & Hd & _ & Hr & Ht).
  rewrite E in Hd, Ht. destruct (Hr E) as [Hj Hw].
  split; [exact Hd|]. split; [exact Hj|]. split; [exact Hw|].
  intros Ha. rewrite Ha in Ht. exact Ht.
Qed.

(* what is written for a note link or a block reference resolves, from [dir], to the key the typed url resolved
   to: either extension, every key (for an inline link: every key that is a note url, see [link_rule]) *)
Corollary C06_written_resolves ctx dir d g ext :
  link_rule ctx dir d g ->
  match o_kind d with
  | KNote _ => is_ref_url (from_rel_link_url (o_dest d) dir) = true
  | KBlock _ => True
  | _ => False
  end ->
  ext = MD \/ ext = "" ->
  from_rel_link_url (ref_url (o_dest g) ext) dir = from_rel_link_url (o_dest d) dir.
Proof.
  unfold link_rule. intros H Hk He. destruct (o_kind d); try contradiction.
  - destruct H as (_ & _ & _ & Hr & _). destruct (Hr Hk) as [_ Hw]. now apply Hw.
  - destruct H as (_ & _ & _ & _ & Hw & _). now apply Hw.
Qed.

(* F-INLINEDIR (repaired; the witness of the finding is an instance of the rule now): in the note d/n the inline
   link `b.md` resolves to d/b (title SUB) and is given that title, like the block reference with the same
   destination two lines further - in the pinned tree it was given the title of b (TOP) *)
Definition fd_ctx : titles := fun k => if String.eqb k "b" then Some "TOP" else if String.eqb k "d/b" then Some "SUB" else None.
Definition fd_bs : list dblock :=
  [DPara (0, 1) [Str "see "; Link "b.md" "" Regular [Str "x"]]; DPara (2, 3) [Link "b.md" "" Regular [Str "x"]]].

Example C06_inline_dir_repaired :
  glinks (written fd_ctx "d/n" fd_bs) =
    [Occ (KNote Regular) false "b" [Str "SUB"]; Occ (KBlock Regular) false "b" [Str "SUB"]] /\
  glinks (written fd_ctx "n" fd_bs) =
    [Occ (KNote Regular) false "b" [Str "TOP"]; Occ (KBlock Regular) false "b" [Str "TOP"]].
Proof. split; vm_compute; reflexivity. Qed.

(* an inline link whose key reads as an external url is one from the graph on, exactly as for block references
   (next witness): `./mailto:x` is a note url (it does not START with mailto:), its key is `mailto:x` *)
Theorem C06_inline_kind_refuted :
  exists ctx key bs lt, dlinks bs = [Occ (KNote lt) false "./mailto:x" [Str "m"]] /\
    glinks (written ctx key bs) = [Occ (KExt lt) false "mailto:x" [Str "m"]].
Proof.
  exists (fun _ => None), "n", [DPara (0, 1) [Str ""; Link "./mailto:x" "" Regular [Str "m"]]], Regular. split; reflexivity.
Qed.

(* the written paragraph of a block reference is not always a block reference again: `./mailto:x` is a note url
   (it does not START with mailto:), its key is `mailto:x`, and the url written for that key is `mailto:x` *)
Theorem C06_block_kind_refuted :
  exists ctx key bs lt, dlinks bs = [Occ (KBlock lt) false "./mailto:x" [Str "m"]] /\
    glinks (written ctx key bs) = [Occ (KExt lt) false "mailto:x" [Str "m"]].
Proof.
  exists (fun _ => None), "n", [DPara (0, 1) [Link "./mailto:x" "" Regular [Str "m"]]], Regular. split; reflexivity.
Qed.

(* ... the former witness C06_block_md_refuted (a reference that resolves to a key ending in `.md`: it was
   written `a.md` and read back as the note `a`) is an instance of the rule now: the path `a.md` is written
   `a.md.md` where no extension is configured, and resolves to `d/a.md` again *)
Example C06_block_md_kept :
  exists ctx key bs d g, dlinks bs = [d] /\ glinks (written ctx key bs) = [g] /\
    from_rel_link_url (o_dest d) (key_parent key) = "d/a.md" /\ o_dest g = "a.md" /\
    ref_url (o_dest g) "" = "a.md.md" /\
    from_rel_link_url (ref_url (o_dest g) "") (key_parent key) = from_rel_link_url (o_dest d) (key_parent key) /\
    from_rel_link_url (ref_url (o_dest g) MD) (key_parent key) = from_rel_link_url (o_dest d) (key_parent key).
Proof.
  exists (fun _ => None), "d/n", [DPara (0, 1) [Link "a.md/." "" Regular [Str "m"]]].
  eexists. eexists. split; [reflexivity|]. split; [vm_compute; reflexivity|]. vm_compute. repeat split.
Qed.

(* non-vacuity: the test note of the top of this file (16 occurrences of every kind, nested lists with a merged
   item and an item without text, a quote, a table) in a sub-directory *)
Example C06_note_links_nonvacuous :
  length (dlinks t_bs) = 16 /\
  map o_kind (glinks (written t_ctx "d/n" t_bs)) =
    [KBlock Regular; KNote Regular; KNote Regular; KNote WikiLink; KImage; KNote Regular; KExt Regular; KNote WikiLinkPiped;
     KNote Regular; KBlock Regular; KExt Regular; KNote WikiLink; KBlock WikiLinkPiped; KNote Regular; KNote Regular;
     KBlock Regular] /\
  map o_dest (glinks (written t_ctx "d/n" t_bs)) =
    ["b"; "b"; "../a"; "q"; "i.png"; "b"; "http://e"; "b"; "b"; "b"; "mailto:x"; "zz"; "../a"; "b"; "nn"; "b"].
Proof. vm_compute. repeat split. Qed.

(* ---------- HEADLINE 2: every reachable state of a library ------------------------------------------------------------------- *)

(* the title table of a state, in closed form: the plain text of the first block of the note's current text if
   that block is a heading *)
Definition first_heading_title (f : spec) : titles :=
  fun k => match f k with
           | Some (_, DHeader _ _ l :: _) => Some (inlines_plain_text (to_ginlines (key_parent k) l))
           | _ => None
           end.

Lemma spec_title_closed f k : spec_title f k = first_heading_title f k.
Proof.
  unfold spec_title, first_heading_title. destruct (f k) as [[m bs]|]; [|reflexivity].
  rewrite spec_tree_title. destruct bs as [|[] r]; reflexivity.
Qed.

(* a graph that satisfies the invariant of HistoryText for the final texts [f] *)
Theorem C06_state_links (g : graph) (f : spec) : text_inv g f ->
  (forall k, get_key_title g k = first_heading_title f k) /\
  forall o tables k m bs, f k = Some (m, bs) ->
    let G := project (key_parent k) (tmap (norm_node (get_key_title g)) (spec_tree k bs)) in
    to_markdown o tables g k = Ok (wrap_metadata m (fst (blocks_md o LFS tables G))) /\
    Forall2 (link_rule (get_key_title g) (key_parent k)) (dlinks bs) (glinks G).
Proof.
  intros H. pose proof H as [_ Ht]. split.
  - intros k. rewrite Ht. apply spec_title_closed.
  - intros o tables k m bs Hk G. split; [|apply C06_note_links].
    rewrite (to_markdown_spec o tables g f k H). unfold spec_markdown. rewrite Hk.
    unfold tree_to_markdown, spec_tree_t, G.
    rewrite (tmap_ext (norm_node (spec_title f)) (norm_node (get_key_title g))); [reflexivity|].
    apply norm_node_ext. intros k'. symmetry. apply Ht.
Qed.

(* import of notes with distinct keys, then ANY history of updates: for every note, the text to_markdown answers
   is the text of blocks G whose link occurrences correspond one to one, in order, to those of the note's
   current blocks, under the rule, with the title of each note's current first heading *)
Theorem C06_library_links (notes ops : list op) : NoDup (map note_key notes) ->
  exists g, run ops (import notes) = Ok g /\
    let f := over (last_op ops) (last_op (ops_of notes)) in
    (forall k, get_key_title g k = first_heading_title f k) /\
    forall o tables k m bs, f k = Some (m, bs) ->
      let G := project (key_parent k) (tmap (norm_node (get_key_title g)) (spec_tree k bs)) in
      to_markdown o tables g k = Ok (wrap_metadata m (fst (blocks_md o LFS tables G))) /\
      Forall2 (link_rule (get_key_title g) (key_parent k)) (dlinks bs) (glinks G).
Proof.
  intros Hnd. destruct (import_history_text notes ops Hnd) as (g & Hr & Hg).
  exists g. split; [exact Hr|]. apply (C06_state_links g _ Hg).
Qed.
Print Assumptions C06_library_links.

(* the same from the empty graph *)
Theorem C06_history_links (ops : list op) :
  exists g, run ops (Ok empty_graph) = Ok g /\
    (forall k, get_key_title g k = first_heading_title (last_op ops) k) /\
    forall o tables k m bs, last_op ops k = Some (m, bs) ->
      let G := project (key_parent k) (tmap (norm_node (get_key_title g)) (spec_tree k bs)) in
      to_markdown o tables g k = Ok (wrap_metadata m (fst (blocks_md o LFS tables G))) /\
      Forall2 (link_rule (get_key_title g) (key_parent k)) (dlinks bs) (glinks G).
Proof.
  destruct (history_text ops) as (g & Hr & Hg). exists g. split; [exact Hr|]. apply (C06_state_links g _ Hg).
Qed.
Print Assumptions C06_history_links.

(* a 3-note library: b (title TOP), d/b (title SUB), d/n with an inline link and a block reference to `b.md` *)
Definition lib3 : list op :=
  [("b", None, [DHeader (0, 1) 1 [Str "TOP"]]);
   ("d/b", Some ("t: 1" +++ LFS), [DHeader (0, 1) 1 [Str "SUB"]; DPara (2, 3) [Link "../b" "" WikiLink []]]);
   ("d/n", None, DHeader (0, 1) 1 [Str "N"] :: fd_bs)].
Definition lib3_ops : list op :=
  [("d/b", None, [DHeader (0, 1) 2 [Str "SUB"; Emph [Str "2"]]]); ("b", None, [DPara (0, 1) [Str "no title"]])].

Lemma lib3_nodup : NoDup (map note_key lib3).
Proof.
  vm_compute. repeat (constructor; [cbn [In]; intros H; repeat (destruct H as [H|H]; [discriminate H|]); exact H|]). constructor.
Qed.

(* F-INLINEDIR on the library (repaired): both links of d/n have the destination `b.md` and resolve to d/b; both
   are given the title of d/b (in the pinned tree the inline link was given the title of b, TOP) *)
Example C06_library_inline_dir_repaired :
  NoDup (map note_key lib3) /\
    match import lib3 with
    | Ok g =>
        to_markdown (Opts ".md") [] g "d/n"
        = Ok ("# N" +++ LFS +++ LFS +++ "see [SUB](b.md)" +++ LFS +++ LFS +++ "[SUB](b.md)" +++ LFS) /\
        from_rel_link_url "b.md" (key_parent "d/n") = "d/b" /\
        get_key_title g "d/b" = Some "SUB" /\ get_key_title g "b" = Some "TOP"
    | Panic _ => False
    end.
Proof. split; [apply lib3_nodup|]. vm_compute. repeat split. Qed.

(* non-vacuity: after a history that retitles d/b and removes the heading of b, the links of d/n follow *)
Example C06_library_links_nonvacuous :
  match run lib3_ops (import lib3) with
  | Ok g =>
      over (last_op lib3_ops) (last_op (ops_of lib3)) "d/n" = Some (None, DHeader (0, 1) 1 [Str "N"] :: fd_bs) /\
      get_key_title g "d/b" = Some "SUB2" /\ get_key_title g "b" = None /\
      glinks (project (key_parent "d/n") (tmap (norm_node (get_key_title g)) (spec_tree "d/n" (DHeader (0, 1) 1 [Str "N"] :: fd_bs))))
      = [Occ (KNote Regular) false "b" [Str "SUB2"]; Occ (KBlock Regular) false "b" [Str "SUB2"]] /\
      to_markdown (Opts ".md") [] g "d/n"
      = Ok ("# N" +++ LFS +++ LFS +++ "see [SUB2](b.md)" +++ LFS +++ LFS +++ "[SUB2](b.md)" +++ LFS)
  | Panic _ => False
  end.
Proof. vm_compute. repeat split. Qed.

(* ---------- HEADLINE 3: the second pass (Reparse.rr: the reader on the written text) --------------------------------------------- *)

Definition rr_dest (o : opts) (lt : link_type) (u : string) (l : list inline) : string :=
  match lt with Regular => if written_autolink o u l then u else rr_url o u | _ => wiki_url u end.
Definition rr_text (o : opts) (lt : link_type) (u : string) (l : list inline) : list inline :=
  match lt with
  | Regular => if written_autolink o u l then [Str u] else rr_inlines o l
  | WikiLink => [Str (wiki_url u)]
  | WikiLinkPiped => rr_inlines o l
  end.

(* one written occurrence, re-read: a regular note link comes back with the extension it was written with
   (`ref_url`: the configured one, or `.md` where the path ends in `.md`), a wiki note link with `.md` where its
   path ends in `.md`; the text of a bare wiki link and of an autolink is the destination as written; other
   texts are re-read ([rr_inlines]) *)
Definition reread_occ (o : opts) (oc : occ) : occ :=
  match o_kind oc with
  | KImage => Occ KImage (o_alt oc) (o_dest oc) (rr_inlines o (o_text oc))
  | KNote lt | KExt lt =>
      let u' := rr_dest o lt (o_dest oc) (o_text oc) in
      Occ (inline_kind lt u') (o_alt oc) u' (rr_text o lt (o_dest oc) (o_text oc))
  | KBlock lt =>
      let u' := rr_dest o lt (o_dest oc) (o_text oc) in
      Occ (if is_ref_url u' then KBlock lt else KExt lt) (o_alt oc) u' (rr_text o lt (o_dest oc) (o_text oc))
  end.

Lemma rr_inline_link o u t lt l : rr_inline o (Link u t lt l) = Link (rr_dest o lt u l) "" lt (rr_text o lt u l).
Proof. destruct lt; cbn [rr_inline rr_dest rr_text]; try reflexivity. now destruct (written_autolink o u l). Qed.

Lemma inlines_occ_merge a l : inlines_occ a (merge_strs l) = inlines_occ a l.
Proof.
  unfold inlines_occ. induction l as [|x l IH]; [reflexivity|].
  destruct x; cbn [merge_strs]; try (cbn [flat_map]; now rewrite IH).
  cbn [flat_map inline_occ app]. rewrite <- IH.
  destruct (merge_strs l) as [|y r]; [destruct (sempty s); reflexivity|].
  destruct y; destruct (sempty s); reflexivity.
Qed.

Lemma reread_inline o : forall i a, inline_occ a (rr_inline o i) = map (reread_occ o) (inline_occ a i).
Proof.
  apply (inline_ind' (fun i => forall a, inline_occ a (rr_inline o i) = map (reread_occ o) (inline_occ a i)));
    intros; try reflexivity.
  - cbn [rr_inline]. rewrite !inline_occ_emph, inlines_occ_merge. apply inlines_occ_map.
    eapply Forall_impl; [|exact H]. intros i Hi. apply Hi.
  - cbn [rr_inline]. rewrite !inline_occ_strong, inlines_occ_merge. apply inlines_occ_map.
    eapply Forall_impl; [|exact H]. intros i Hi. apply Hi.
  - cbn [rr_inline]. rewrite !inline_occ_strike, inlines_occ_merge. apply inlines_occ_map.
    eapply Forall_impl; [|exact H]. intros i Hi. apply Hi.
  - rewrite rr_inline_link, !inline_occ_link. cbn [map]. unfold reread_occ, inline_kind at 2.
    destruct (is_ref_url u); reflexivity.
  - cbn [rr_inline]. rewrite !inline_occ_image. cbn [map]. unfold reread_occ at 1. cbn [o_kind o_alt o_dest o_text].
    f_equal. rewrite inlines_occ_merge. apply inlines_occ_map.
    eapply Forall_impl; [|exact H]. intros i Hi. apply Hi.
Qed.

Lemma reread_inlines o a l : inlines_occ a (rr_inlines o l) = map (reread_occ o) (inlines_occ a l).
Proof.
  unfold rr_inlines. rewrite inlines_occ_merge. apply inlines_occ_map. apply Forall_forall. intros i _. apply reread_inline.
Qed.

(* the class: (1) a paragraph that is not a block reference is not re-read as one (the writer leaves nothing of an
   empty Str, so [Str ""; Link] would come back as a paragraph of one link); (2) an item whose first line has no
   text is not followed directly by a paragraph (it would be re-read as the item's text); (3) no table (the
   re-read of a table is an oracle, never claimed by rr).  All three hold on the class reparse_safe as far as
   structure goes ([gstruct]); (1) is decided on the blocks. *)
Definition para_stable (o : opts) (l : list inline) : bool := para_is_ref l || negb (para_is_ref (rr_inlines o l)).
Definition item_stable (it : list gblock) : bool :=
  match it with
  | (GPlain [] | GPara []) :: (GPlain _ | GPara _) :: _ => false
  | _ => true
  end.
Fixpoint occ_stable (o : opts) (b : gblock) {struct b} : bool :=
  match b with
  | GPlain l | GPara l => para_stable o l
  | GQuote bs => forallb (occ_stable o) bs
  | GOList its | GBList its => forallb (fun it => item_stable it && forallb (occ_stable o) it) its
  | GTable _ _ _ => false
  | _ => true
  end.

Lemma para_reread o l : para_stable o l = true -> para_occ (rr_inlines o l) = map (reread_occ o) (para_occ l).
Proof.
  unfold para_stable. intros H. destruct (para_is_ref l) eqn:E.
  - destruct l as [|i r]; [discriminate|]. destruct i; try discriminate. destruct r; [|discriminate].
    cbn [para_is_ref] in E. unfold rr_inlines. cbn [map]. rewrite rr_inline_link. cbn [merge_strs para_occ]. rewrite E.
    cbn [map]. unfold reread_occ. cbn [o_kind o_alt o_dest o_text].
    destruct (is_ref_url (rr_dest o lt url l)) eqn:E2; [reflexivity|].
    unfold inlines_occ. cbn [flat_map]. rewrite inline_occ_link. unfold inline_kind. now rewrite E2.
  - cbn [orb] in H. apply negb_true_iff in H.
    rewrite (para_occ_plain _ H), (para_occ_plain _ E). apply reread_inlines.
Qed.

Lemma ditem_occ_nonpara b r : (forall lr l, b <> DPara lr l) -> ditem_occ (b :: r) = dlinks (b :: r).
Proof. intros H. destruct b; try reflexivity. exfalso. now apply (H lr l). Qed.

Section Reread.
  Variable o : opts.

  Definition RB (b : gblock) : Prop :=
    occ_stable o b = true -> forall k, block_occ (rr_block o k b) = map (reread_occ o) (gblock_occ b).

  Lemma reread_seq l : Forall RB l -> forallb (occ_stable o) l = true ->
    forall sep k, dlinks (rr_seq o sep k l) = map (reread_occ o) (glinks l).
  Proof.
    induction 1 as [|x l Hx _ IH]; intros Hs sep k; [reflexivity|].
    cbn [forallb] in Hs. apply andb_prop in Hs as [Hs1 Hs2].
    cbn [rr_seq]. rewrite dlinks_cons. unfold glinks. cbn [flat_map]. rewrite map_app.
    rewrite (Hx Hs1). f_equal. now apply IH.
  Qed.

  Lemma rr_block_nonpara k x : (match x with GPlain _ | GPara _ => False | _ => True end) ->
    forall lr l, rr_block o k x <> DPara lr l.
  Proof.
    intros Hx lr l. destruct x; try contradiction; discriminate.
  Qed.

  Lemma reread_item it : Forall RB it -> item_stable it = true -> forallb (occ_stable o) it = true ->
    forall sp k, ditem_occ (rr_seq o sp k (item_body it)) = map (reread_occ o) (gitem_occ it).
  Proof.
    intros HF Hst Hs sp k.
    destruct it as [|x rest]; [reflexivity|].
    assert (Hother : (match x with GPlain _ | GPara _ => False | _ => True end) ->
              item_body (x :: rest) = x :: rest -> gitem_occ (x :: rest) = glinks (x :: rest) ->
              ditem_occ (rr_seq o sp k (item_body (x :: rest))) = map (reread_occ o) (gitem_occ (x :: rest))).
    { intros Hx -> ->. cbn [rr_seq]. rewrite ditem_occ_nonpara by (now apply rr_block_nonpara).
      exact (reread_seq (x :: rest) HF Hs sp k). }
    assert (Hlead : forall l, (x = GPlain l \/ x = GPara l) ->
              ditem_occ (rr_seq o sp k (item_body (x :: rest))) = map (reread_occ o) (gitem_occ (x :: rest))).
    { intros l Hx. inversion HF as [|? ? _ HFr]; subst.
      assert (Hsr : forallb (occ_stable o) rest = true) by (cbn [forallb] in Hs; now apply andb_prop in Hs as [_ ?]).
      assert (Eg : gitem_occ (x :: rest) = inlines_occ false l ++ glinks rest) by (destruct Hx as [-> | ->]; reflexivity).
      rewrite Eg, map_app.
      destruct l as [|a l].
      - (* a first line without text is not written *)
        assert (Eb : item_body (x :: rest) = rest) by (destruct Hx as [-> | ->]; reflexivity).
        rewrite Eb. cbn [inlines_occ flat_map map app].
        destruct rest as [|y rest']; [reflexivity|].
        cbn [rr_seq]. rewrite ditem_occ_nonpara.
        + exact (reread_seq (y :: rest') HFr Hsr sp k).
        + apply rr_block_nonpara. destruct Hx as [-> | ->]; cbn [item_stable] in Hst; destruct y; try discriminate; exact I.
      - assert (Eb : item_body (x :: rest) = x :: rest) by (destruct Hx as [-> | ->]; reflexivity).
        rewrite Eb. cbn [rr_seq].
        assert (Er : exists lr, rr_block o k x = DPara lr (rr_inlines o (a :: l))) by (destruct Hx as [-> | ->]; eexists; reflexivity).
        destruct Er as (lr & ->). cbn [ditem_occ]. rewrite reread_inlines. f_equal. now apply reread_seq. }
    destruct x; try (apply Hother; [exact I | reflexivity | reflexivity]).
    - apply (Hlead l). now left.
    - apply (Hlead l). now right.
  Qed.

  Lemma reread_items its : Forall (Forall RB) its ->
    forallb (fun it => item_stable it && forallb (occ_stable o) it) its = true ->
    forall sp k, flat_map ditem_occ (rr_items o sp k its) = map (reread_occ o) (flat_map gitem_occ its).
  Proof.
    induction 1 as [|it its Hit _ IH]; intros Hs sp k; [reflexivity|].
    cbn [forallb] in Hs. apply andb_prop in Hs as [Hs1 Hs2]. apply andb_prop in Hs1 as [Hst Hsi].
    cbn [rr_items flat_map]. rewrite map_app, (reread_item it Hit Hst Hsi). f_equal. now apply IH.
  Qed.

  Lemma reread_block : forall b, RB b.
  Proof.
    intros b. induction b as [l|l|la tx|bs IH|its IH|its IH|n l| |h al rows] using gblock_ind'; intros Hs k.
    - cbn [rr_block block_occ gblock_occ]. now apply para_reread.
    - cbn [rr_block block_occ gblock_occ]. now apply para_reread.
    - reflexivity.
    - rewrite rr_quote, block_occ_quote, gblock_occ_quote. cbn [occ_stable] in Hs. now apply reread_seq.
    - rewrite rr_olist, (proj2 (block_occ_lists _)), (proj2 (gblock_occ_lists _)). cbn [occ_stable] in Hs.
      now apply reread_items.
    - rewrite rr_blist, (proj1 (block_occ_lists _)), (proj1 (gblock_occ_lists _)). cbn [occ_stable] in Hs.
      now apply reread_items.
    - cbn [rr_block block_occ gblock_occ]. apply reread_inlines.
    - reflexivity.
    - discriminate.
  Qed.

  Theorem reread_links g : forallb (occ_stable o) g = true -> dlinks (rr o g) = map (reread_occ o) (glinks g).
  Proof.
    intros Hs. unfold rr. rewrite rr_at_seq. apply reread_seq; [|exact Hs].
    apply Forall_forall. intros b _. apply reread_block.
  Qed.
End Reread.
Print Assumptions reread_links.

(* the structural half of the class holds on reparse_safe (through ReparseFacts.gstruct) *)
Fixpoint paras_stable (o : opts) (b : gblock) {struct b} : bool :=
  match b with
  | GPlain l | GPara l => para_stable o l
  | GQuote bs => forallb (paras_stable o) bs
  | GOList its | GBList its => forallb (fun it => forallb (paras_stable o) it) its
  | _ => true
  end.

Lemma led_item_stable it : led it = true -> item_stable it = true.
Proof.
  destruct it as [|[[|]|[|]| | | | | | |] [|x rest]]; cbn [led item_stable]; try congruence; try reflexivity;
    destruct x; cbn [headless_start]; congruence.
Qed.

Lemma gstruct_occ_stable o : forall b, gstruct b = true -> paras_stable o b = true -> occ_stable o b = true.
Proof.
  intros b. induction b as [l|l|la tx|bs IH|its IH|its IH|n l| |h al rows] using gblock_ind'; intros Hg Hp;
    try exact Hp; try reflexivity; try discriminate.
  - cbn [gstruct paras_stable occ_stable] in *. apply andb_prop in Hg as [_ Hg].
    apply forallb_forall. intros x Hx. rewrite Forall_forall in IH. rewrite forallb_forall in Hg, Hp. apply IH; auto.
  - cbn [gstruct paras_stable occ_stable] in *. apply andb_prop in Hg as [_ Hg].
    apply forallb_forall. intros it Hit. rewrite forallb_forall in Hg, Hp.
    specialize (Hg it Hit). specialize (Hp it Hit). apply andb_prop in Hg as [Hl Hg].
    rewrite (led_item_stable it Hl). cbn [andb].
    apply forallb_forall. intros x Hx. rewrite Forall_forall in IH. specialize (IH it Hit). rewrite Forall_forall in IH.
    rewrite forallb_forall in Hg, Hp. apply IH; auto.
  - cbn [gstruct paras_stable occ_stable] in *. apply andb_prop in Hg as [_ Hg].
    apply forallb_forall. intros it Hit. rewrite forallb_forall in Hg, Hp.
    specialize (Hg it Hit). specialize (Hp it Hit). apply andb_prop in Hg as [Hl Hg].
    rewrite (led_item_stable it Hl). cbn [andb].
    apply forallb_forall. intros x Hx. rewrite Forall_forall in IH. specialize (IH it Hit). rewrite Forall_forall in IH.
    rewrite forallb_forall in Hg, Hp. apply IH; auto.
Qed.

Lemma reparse_safe_occ_stable o g :
  reparse_safe o g = true -> forallb (paras_stable o) g = true -> forallb (occ_stable o) g = true.
Proof.
  intros Hs Hp. pose proof (reparse_safe_gstruct o g Hs) as Hg.
  apply forallb_forall. intros b Hb. rewrite forallb_forall in Hg, Hp. apply gstruct_occ_stable; auto.
Qed.

(* the rule of the second pass for one written occurrence [g] and its re-read [r] *)
Definition lk_type (k : lkind) : option link_type :=
  match k with KNote lt | KExt lt | KBlock lt => Some lt | KImage => None end.
Definition regular_note (g : occ) : bool :=
  match lk_type (o_kind g) with Some Regular => is_ref_url (o_dest g) | _ => false end.

Definition reread_rule (o : opts) (dir : string) (g r : occ) : Prop :=
  o_alt r = o_alt g /\
  lk_type (o_kind r) = lk_type (o_kind g) /\
  (* a note destination comes back as it was written: on regular note links and block references with the
     configured extension, on wiki links without, and with `.md` in either case where the path itself ends in
     `.md` (ref_url); nothing else moves *)
  o_dest r = match lk_type (o_kind g) with
             | Some Regular => if is_ref_url (o_dest g) then ref_url (o_dest g) (refs_extension o) else o_dest g
             | Some _ => wiki_url (o_dest g)
             | None => o_dest g
             end /\
  (* ... and, read once more, it names the note the written path leads to: every path, also one ending in `.md` *)
  (refs_extension o = MD \/ refs_extension o = "" -> is_ref_url (o_dest g) = true -> lk_type (o_kind g) <> None ->
   from_rel_link_url (o_dest r) dir = join_normalized dir (o_dest g)) /\
  (* a block reference stays one, an inline link stays inline, as long as the destination stays a note url *)
  o_kind r = match o_kind g with
             | KImage => KImage
             | KNote lt | KExt lt => inline_kind lt (o_dest r)
             | KBlock lt => if is_ref_url (o_dest r) then KBlock lt else KExt lt
             end /\
  (* the text is re-read (rr_inlines: adjacent Strs fused); a bare wiki link and an autolink show their destination *)
  o_text r = match lk_type (o_kind g) with
             | None => rr_inlines o (o_text g)
             | Some lt => rr_text o lt (o_dest g) (o_text g)
             end.

Lemma rr_dest_spec o lt u l :
  rr_dest o lt u l = match lt with
                     | Regular => if is_ref_url u then ref_url u (refs_extension o) else u
                     | _ => wiki_url u
                     end.
Proof.
  destruct lt; try reflexivity. unfold rr_dest, written_autolink, rr_url.
  destruct (is_ref_url u); cbn [negb andb]; [reflexivity|]. now destruct (eq_ignore_ascii_case (inlines_md o l) u).
Qed.

Lemma lk_type_inline_kind lt u : lk_type (inline_kind lt u) = Some lt.
Proof. unfold inline_kind. now destruct (is_ref_url u). Qed.

Lemma reread_rule_holds o dir g : reread_rule o dir g (reread_occ o g).
Proof.
  assert (Hres : forall u ext, ext = MD \/ ext = "" ->
            from_rel_link_url (ref_url u ext) dir = join_normalized dir u).
  { intros u ext He. unfold from_rel_link_url. now rewrite strip_md_ref_url. }
  assert (Hall : forall lt u, refs_extension o = MD \/ refs_extension o = "" -> is_ref_url u = true ->
            from_rel_link_url (match lt with
                               | Regular => if is_ref_url u then ref_url u (refs_extension o) else u
                               | _ => wiki_url u
                               end) dir = join_normalized dir u).
  { intros lt u He Hu. unfold wiki_url. rewrite Hu. destruct lt; apply Hres; auto. }
  destruct g as [k a u l]. unfold reread_rule, reread_occ, regular_note.
  destruct k as [lt|lt| |lt]; cbn [o_kind o_alt o_dest o_text lk_type]; rewrite ?rr_dest_spec.
  - split; [reflexivity|]. split; [apply lk_type_inline_kind|]. split; [destruct lt; reflexivity|].
    split; [intros He Hu _; now apply Hall|]. split; reflexivity.
  - split; [reflexivity|]. split; [apply lk_type_inline_kind|]. split; [destruct lt; reflexivity|].
    split; [intros He Hu _; now apply Hall|]. split; reflexivity.
  - split; [reflexivity|]. split; [reflexivity|]. split; [reflexivity|].
    split; [intros _ _ H; now elim H|]. split; reflexivity.
  - split; [reflexivity|]. split; [now destruct (is_ref_url _)|]. split; [destruct lt; reflexivity|].
    split; [intros He Hu _; now apply Hall|]. split; reflexivity.
Qed.

Corollary C06_reread_resolves o dir g r :
  reread_rule o dir g r ->
  refs_extension o = MD \/ refs_extension o = "" -> is_ref_url (o_dest g) = true ->
  match o_kind g with KImage => False | _ => True end ->
  from_rel_link_url (o_dest r) dir = join_normalized dir (o_dest g).
Proof.
  intros (_ & _ & _ & H & _) He Hu Hk. apply H; auto. destruct (o_kind g); try discriminate. contradiction.
Qed.

(* the blocks the reader returns for the text written for a note (rr of the written blocks, on the class):
   their link occurrences are those of the written blocks, one to one and in order, under the rule of the
   second pass; hence they correspond one to one to the occurrences of the blocks the note was read from *)
Theorem C06_second_pass_links (o : opts) (ctx : titles) (key : string) (bs : list dblock) :
  let g := project (key_parent key) (tmap (norm_node ctx) (spec_tree key bs)) in
  forallb (occ_stable o) g = true ->
  dlinks (rr o g) = map (reread_occ o) (glinks g) /\
  Forall2 (reread_rule o (key_parent key)) (glinks g) (dlinks (rr o g)) /\
  Forall2 (fun d r => exists w, link_rule ctx (key_parent key) d w /\ reread_rule o (key_parent key) w r)
          (dlinks bs) (dlinks (rr o g)).
Proof.
  intros g Hs. pose proof (reread_links o g Hs) as E. split; [exact E|]. split.
  - rewrite E. apply Forall2_map_fun. intros w. apply reread_rule_holds.
  - rewrite E. unfold g. fold (written ctx key bs). rewrite written_links, map_map.
    apply Forall2_map_fun. intros d. exists (format_occ ctx (key_parent key) d). split; [apply format_rule | apply reread_rule_holds].
Qed.
Print Assumptions C06_second_pass_links.

(* on reparse_safe the structural conditions hold; what remains is decided on the paragraphs *)
Corollary C06_second_pass_links_safe (o : opts) (ctx : titles) (key : string) (bs : list dblock) :
  let g := project (key_parent key) (tmap (norm_node ctx) (spec_tree key bs)) in
  reparse_safe o g = true -> forallb (paras_stable o) g = true ->
  Forall2 (fun d r => exists w, link_rule ctx (key_parent key) d w /\ reread_rule o (key_parent key) w r)
          (dlinks bs) (dlinks (rr o g)).
Proof. intros g Hs Hp. apply C06_second_pass_links. now apply reparse_safe_occ_stable. Qed.
Print Assumptions C06_second_pass_links_safe.

(* non-vacuity: the example note of ReparseFacts (sub-directory d, a titled note, a list, a quote) is in the class *)
Example C06_second_pass_nonvacuous :
  forallb (occ_stable ex_opts) ex_written = true /\ reparse_safe ex_opts ex_written = true /\
  forallb (paras_stable ex_opts) ex_written = true /\
  map (fun x => (o_kind x, o_dest x, o_text x)) (dlinks ex_blocks) =
    [(KNote Regular, "a.md", [Str "old title"]); (KBlock Regular, "a", [Str "old"]); (KBlock WikiLink, "../x", [Str "../x"])] /\
  map (fun x => (o_kind x, o_dest x, o_text x)) (dlinks (rr ex_opts ex_written)) =
    [(KNote Regular, "a.md", [Str "Title A"]); (KBlock Regular, "a.md", [Str "Title A"]); (KBlock WikiLink, "../x", [Str "../x"])].
Proof. vm_compute. repeat split. Qed.

(* the class is needed: an item that starts with an EMPTY quote (or any block the projector skips) and goes on
   with a block reference is written `- [SUB](b.md)`: the first line of the item has no text, the quote leaves
   nothing, so the reference is the first thing after the marker and is re-read as the TEXT of the item - an
   inline link (keyed and titled like the reference it was since the repair of F-INLINEDIR, so only the kind moves).  Model level: this block list is
   outside reparse_safe (headless_start), so rr is not validated against the reader there. *)
Definition sp_bs : list dblock := [DBList [[DQuote (0, 1) []; DPara (2, 3) [Link "b" "" Regular [Str "x"]]]]].
Theorem C06_second_pass_kind_refuted :
  exists o ctx key bs, let g := written ctx key bs in
    forallb (occ_stable o) g = false /\
    map o_kind (dlinks bs) = [KBlock Regular] /\ map o_kind (glinks g) = [KBlock Regular] /\
    map o_kind (dlinks (rr o g)) = [KNote Regular].
Proof. exists (Opts ".md"), fd_ctx, "d/n", sp_bs. vm_compute. repeat split. Qed.
Print Assumptions C06_second_pass_kind_refuted.

(* ---------- relation with the per-run check (Check_Norm.p_links) ---------------------------------------------------------------- *)

(* the list the check compares positionally (Check_Norm.links_of: kind tag, destination, normalised plain text) is
   a projection of [dlinks]: same occurrences, same order *)
Definition occ_tag (x : occ) : string * string * string :=
  ((match o_kind x with
    | KImage => "img"
    | KNote lt | KBlock lt => match lt with Regular => "ref" | WikiLink => "wiki" | WikiLinkPiped => "piped" end
    | KExt lt => match lt with Regular => "ext" | WikiLink => "wiki" | WikiLinkPiped => "piped" end
    end), o_dest x, norm_text (inlines_plain_text (o_text x))).

Section DInd.
  Variable P : dblock -> Prop.
  Hypothesis HPara : forall lr l, P (DPara lr l).
  Hypothesis HCode : forall lr la tx, P (DCode lr la tx).
  Hypothesis HQuote : forall lr bs, Forall P bs -> P (DQuote lr bs).
  Hypothesis HOList : forall its, Forall (Forall P) its -> P (DOList its).
  Hypothesis HBList : forall its, Forall (Forall P) its -> P (DBList its).
  Hypothesis HHeader : forall lr n l, P (DHeader lr n l).
  Hypothesis HRule : forall lr, P (DRule lr).
  Hypothesis HTable : forall lr h al rows, P (DTable lr h al rows).

  Fixpoint dblock_ind' (b : dblock) : P b :=
    let fix go (l : list dblock) : Forall P l :=
      match l with
      | [] => Forall_nil P
      | x :: r => Forall_cons x (dblock_ind' x) (go r)
      end in
    let fix goi (its : list (list dblock)) : Forall (Forall P) its :=
      match its with
      | [] => Forall_nil (Forall P)
      | it :: r => Forall_cons it (go it) (goi r)
      end in
    match b with
    | DPara lr l => HPara lr l
    | DCode lr la tx => HCode lr la tx
    | DQuote lr bs => HQuote lr bs (go bs)
    | DOList its => HOList its (goi its)
    | DBList its => HBList its (goi its)
    | DHeader lr n l => HHeader lr n l
    | DRule lr => HRule lr
    | DTable lr h al rows => HTable lr h al rows
    end.
End DInd.

Lemma inline_links_go l :
  (fix go (l : list inline) : list (string * string * string) :=
     match l with [] => [] | x :: r => inline_links x ++ go r end) l = flat_map inline_links l.
Proof. induction l as [|x l IH]; cbn; [reflexivity | now rewrite IH]. Qed.

Lemma tag_inline : forall i a, inline_links i = map occ_tag (inline_occ a i).
Proof.
  assert (HL : forall a l, Forall (fun i => forall a, inline_links i = map occ_tag (inline_occ a i)) l ->
                           flat_map inline_links l = map occ_tag (inlines_occ a l)).
  { intros a l H. unfold inlines_occ. induction H as [|x l Hx _ IH]; cbn [flat_map]; [reflexivity|].
    now rewrite map_app, (Hx a), IH. }
  apply (inline_ind' (fun i => forall a, inline_links i = map occ_tag (inline_occ a i))); intros; try reflexivity.
  - cbn [inline_links]. rewrite inline_links_go, inline_occ_emph. now apply HL.
  - cbn [inline_links]. rewrite inline_links_go, inline_occ_strong. now apply HL.
  - cbn [inline_links]. rewrite inline_links_go, inline_occ_strike. now apply HL.
  - rewrite inline_occ_link. cbn [inline_links map]. unfold occ_tag, inline_kind. cbn [o_kind o_dest o_text].
    destruct lt; destruct (is_ref_url u); reflexivity.
  - rewrite inline_occ_image. cbn [inline_links map]. rewrite inline_links_go. f_equal. now apply HL.
Qed.

Lemma tag_inlines a l : flat_map inline_links l = map occ_tag (inlines_occ a l).
Proof.
  unfold inlines_occ. induction l as [|x l IH]; cbn [flat_map]; [reflexivity|]. now rewrite map_app, (tag_inline x a), IH.
Qed.

Lemma tag_para l : flat_map inline_links l = map occ_tag (para_occ l).
Proof.
  destruct l as [|i r]; [reflexivity|].
  destruct i; try apply (tag_inlines false). destruct r; [|apply (tag_inlines false)].
  cbn [para_occ]. destruct (is_ref_url url) eqn:E; [|apply (tag_inlines false)].
  cbn [flat_map inline_links map app]. unfold occ_tag. cbn [o_kind o_dest o_text]. rewrite E. destruct lt; reflexivity.
Qed.

Lemma tag_cells h rows :
  flat_map (flat_map inline_links) h ++ flat_map (fun r => flat_map (flat_map inline_links) r) rows
  = map occ_tag (cells_occ h rows).
Proof.
  unfold cells_occ. rewrite map_app. f_equal.
  - induction h as [|c h IH]; cbn [flat_map]; [reflexivity|]. now rewrite map_app, (tag_inlines false), IH.
  - induction rows as [|r rows IH]; cbn [flat_map]; [reflexivity|]. rewrite map_app, IH. f_equal.
    induction r as [|c r IHr]; cbn [flat_map]; [reflexivity|]. now rewrite map_app, (tag_inlines false), IHr.
Qed.

Lemma block_links_go l :
  (fix go (l : list dblock) : list (string * string * string) :=
     match l with [] => [] | x :: r => block_links x ++ go r end) l = links_of l.
Proof. unfold links_of. induction l as [|x l IH]; cbn; [reflexivity | now rewrite IH]. Qed.

Lemma block_links_lists its :
  block_links (DBList its) = flat_map links_of its /\ block_links (DOList its) = flat_map links_of its.
Proof.
  split; (induction its as [|it r IH]; [reflexivity|]);
    cbn [block_links flat_map] in *; rewrite IH; f_equal; apply block_links_go.
Qed.

Lemma tag_seq l : Forall (fun b => block_links b = map occ_tag (block_occ b)) l -> links_of l = map occ_tag (dlinks l).
Proof.
  unfold links_of, dlinks. induction 1 as [|x l Hx _ IH]; cbn [flat_map]; [reflexivity|]. now rewrite map_app, Hx, IH.
Qed.

Lemma tag_items its : Forall (Forall (fun b => block_links b = map occ_tag (block_occ b))) its ->
  flat_map links_of its = map occ_tag (flat_map ditem_occ its).
Proof.
  induction 1 as [|it its Hit _ IH]; cbn [flat_map]; [reflexivity|]. rewrite map_app, IH. f_equal.
  destruct it as [|h body]; [reflexivity|].
  assert (Hd : links_of (h :: body) = map occ_tag (dlinks (h :: body))) by now apply tag_seq.
  destruct h; try exact Hd.
  - (* paragraph lead: the item's text, never a block reference for the builder; the check's list is the same *)
    inversion Hit as [|? ? _ Hb]; subst. cbn [ditem_occ]. unfold links_of. cbn [flat_map block_links].
    rewrite map_app, (tag_inlines false). f_equal. now apply tag_seq.
Qed.

Lemma tag_block : forall b, block_links b = map occ_tag (block_occ b).
Proof.
  intros b. induction b as [lr l|lr la tx|lr bs IH|its IH|its IH|lr n l|lr|lr h al rows] using dblock_ind'.
  - apply tag_para.
  - reflexivity.
  - rewrite block_occ_quote. cbn [block_links]. rewrite block_links_go. now apply tag_seq.
  - rewrite (proj2 (block_links_lists its)), (proj2 (block_occ_lists its)). now apply tag_items.
  - rewrite (proj1 (block_links_lists its)), (proj1 (block_occ_lists its)). now apply tag_items.
  - apply (tag_inlines false).
  - reflexivity.
  - apply tag_cells.
Qed.

Theorem links_of_dlinks (bs : list dblock) : links_of bs = map occ_tag (dlinks bs).
Proof. apply tag_seq. apply Forall_forall. intros b _. apply tag_block. Qed.
Print Assumptions links_of_dlinks.
