(* Determinism.v — C16: the order in which the notes of a library arrive (HashMap iteration
   order, order of file reads, rayon's partition of the parse) cannot influence the graph that
   `Graph::import` builds: import sorts the state by name first (`sorted_by(|a, b| a.0.cmp(&b.0))`,
   byte-wise string order) and builds sequentially.  Model: [import_state] = sort, then the
   [import] of Library.v; theorem: any two permutations of the same state give the same graph,
   node ids included. *)
From IweV Require Import Str Text Ast RelPath Arena Project Library.
From Coq Require Import Lia Permutation Sorted.
Local Open Scope string_scope.
Local Open Scope list_scope.

(* Rust's `Ord for str`: byte-wise lexicographic *)
Definition blt (x y : ascii) : bool := Nat.ltb (nat_of_ascii x) (nat_of_ascii y).

Fixpoint str_leb (a b : string) : bool :=
  match a, b with
  | EmptyString, _ => true
  | String _ _, EmptyString => false
  | String x a', String y b' => if blt x y then true else if blt y x then false else str_leb a' b'
  end.

Lemma blt_irrefl x : blt x x = false.
Proof. unfold blt. apply Nat.ltb_irrefl. Qed.

Lemma blt_asym x y : blt x y = true -> blt y x = false.
Proof. unfold blt. intros H. apply Nat.ltb_lt in H. apply Nat.ltb_ge. lia. Qed.

Lemma blt_eq x y : blt x y = false -> blt y x = false -> x = y.
Proof.
  unfold blt. intros H1 H2. apply Nat.ltb_ge in H1, H2.
  assert (Hxy : nat_of_ascii x = nat_of_ascii y) by lia.
  rewrite <- (ascii_nat_embedding x), <- (ascii_nat_embedding y). now rewrite Hxy.
Qed.

Lemma blt_trans x y z : blt x y = true -> blt y z = true -> blt x z = true.
Proof. unfold blt. intros H1 H2. apply Nat.ltb_lt in H1, H2. apply Nat.ltb_lt. lia. Qed.

Lemma str_leb_refl a : str_leb a a = true.
Proof. induction a as [|x a IH]; cbn [str_leb]; [reflexivity|]. now rewrite blt_irrefl. Qed.

Lemma str_leb_total a b : str_leb a b = true \/ str_leb b a = true.
Proof.
  revert b; induction a as [|x a IH]; intros [|y b]; cbn [str_leb]; auto.
  destruct (blt x y) eqn:E1; [auto|].
  destruct (blt y x) eqn:E2; [auto|]. apply IH.
Qed.

Lemma str_leb_antisym a b : str_leb a b = true -> str_leb b a = true -> a = b.
Proof.
  revert b; induction a as [|x a IH]; intros [|y b]; cbn [str_leb]; try discriminate; auto.
  destruct (blt x y) eqn:E1; destruct (blt y x) eqn:E2; try discriminate.
  - rewrite (blt_asym _ _ E1) in E2. discriminate.
  - intros H1 H2. rewrite (blt_eq x y E1 E2). f_equal. now apply IH.
Qed.

Lemma str_leb_trans a b c : str_leb a b = true -> str_leb b c = true -> str_leb a c = true.
Proof.
  revert b c; induction a as [|x a IH]; intros [|y b] [|z c]; cbn [str_leb]; try discriminate; auto.
  destruct (blt x y) eqn:Exy.
  - intros _. destruct (blt y z) eqn:Eyz.
    + intros _. now rewrite (blt_trans x y z Exy Eyz).
    + destruct (blt z y) eqn:Ezy; [discriminate|]. intros _.
      rewrite (blt_eq y z Eyz Ezy) in Exy. now rewrite Exy.
  - destruct (blt y x) eqn:Eyx; [discriminate|]. intros Hab.
    pose proof (blt_eq x y Exy Eyx) as ->.
    destruct (blt y z) eqn:Eyz; [reflexivity|].
    destruct (blt z y) eqn:Ezy; [discriminate|]. intros Hbc. eapply IH; eauto.
Qed.

(* ---------- sorting by key: the result depends only on the multiset ------------------------- *)

Section SortByKey.
  Context {A : Type} (key : A -> string).

  Definition kle (x y : A) : Prop := str_leb (key x) (key y) = true.

  Fixpoint ins (x : A) (l : list A) : list A :=
    match l with
    | [] => [x]
    | y :: r => if str_leb (key x) (key y) then x :: l else y :: ins x r
    end.

  Definition sort_by_key (l : list A) : list A := fold_right ins [] l.

  Lemma ins_perm x l : Permutation (ins x l) (x :: l).
  Proof.
    induction l as [|y r IH]; cbn [ins]; [reflexivity|].
    destruct (str_leb (key x) (key y)); [reflexivity|].
    rewrite IH. apply perm_swap.
  Qed.

  Lemma sort_perm l : Permutation (sort_by_key l) l.
  Proof.
    induction l as [|x l IH]; cbn [sort_by_key fold_right]; [reflexivity|].
    rewrite ins_perm. now constructor.
  Qed.

  Lemma ins_sorted x l : StronglySorted kle l -> StronglySorted kle (ins x l).
  Proof.
    induction 1 as [|y r Hr IH Hy]; cbn [ins]; [repeat constructor|].
    destruct (str_leb (key x) (key y)) eqn:E.
    - constructor; [now constructor|]. constructor; [exact E|].
      eapply Forall_impl; [|exact Hy]. intros z Hz. unfold kle in *. eapply str_leb_trans; eauto.
    - constructor; [exact IH|].
      assert (Hyx : kle y x) by (destruct (str_leb_total (key x) (key y)); [congruence | assumption]).
      eapply Permutation_Forall; [symmetry; apply ins_perm|]. now constructor.
  Qed.

  Lemma sort_sorted l : StronglySorted kle (sort_by_key l).
  Proof.
    induction l as [|x l IH]; cbn [sort_by_key fold_right]; [constructor | now apply ins_sorted].
  Qed.

  Lemma sorted_unique l1 :
    forall l2, StronglySorted kle l1 -> StronglySorted kle l2 -> Permutation l1 l2 ->
               NoDup (map key l1) -> l1 = l2.
  Proof.
    induction l1 as [|x t1 IH]; intros l2 S1 S2 P ND.
    - apply Permutation_nil in P. now subst.
    - destruct l2 as [|y t2]; [apply Permutation_sym, Permutation_nil in P; discriminate|].
      inversion S1 as [|? ? S1t F1]; subst. inversion S2 as [|? ? S2t F2]; subst.
      (* x is below everything of l2, y below everything of l1: same key, hence same element *)
      assert (Hxy : kle x y).
      { assert (Hin : In y (x :: t1)) by (eapply Permutation_in; [symmetry; exact P | now left]).
        destruct Hin as [->|Hin]; [apply str_leb_refl|]. rewrite Forall_forall in F1. now apply F1. }
      assert (Hyx : kle y x).
      { assert (Hin : In x (y :: t2)) by (eapply Permutation_in; [exact P | now left]).
        destruct Hin as [->|Hin]; [apply str_leb_refl|]. rewrite Forall_forall in F2. now apply F2. }
      assert (Hk : key x = key y) by (now apply str_leb_antisym).
      assert (Hin : In y (x :: t1)) by (eapply Permutation_in; [symmetry; exact P | now left]).
      assert (x = y).
      { destruct Hin as [E|Hin]; [exact E|]. exfalso.
        cbn [map] in ND. inversion ND as [|? ? Hnot _]; subst. apply Hnot. rewrite Hk. now apply in_map. }
      subst y. f_equal. apply IH; auto.
      + now apply Permutation_cons_inv in P.
      + cbn [map] in ND. now inversion ND.
  Qed.

  Theorem sort_of_permutation l l' :
    Permutation l l' -> NoDup (map key l) -> sort_by_key l = sort_by_key l'.
  Proof.
    intros P ND. apply sorted_unique; try apply sort_sorted.
    - rewrite sort_perm, P. symmetry. apply sort_perm.
    - eapply Permutation_NoDup; [|exact ND]. apply Permutation_map. symmetry. apply sort_perm.
  Qed.
End SortByKey.

(* ---------- Graph::import from a state in any order ------------------------------------------ *)

Definition note := (string * option string * list dblock)%type.
Definition note_name (n : note) : string := fst (fst n).

(* `content.iter().sorted_by(|a, b| a.0.cmp(&b.0))`, then the sequential build *)
Definition import_state (s : list note) : res graph := import (sort_by_key note_name s).

Theorem import_order_irrelevant (s s' : list note) :
  Permutation s s' -> NoDup (map note_name s) -> import_state s = import_state s'.
Proof. intros P ND. unfold import_state. now rewrite (sort_of_permutation note_name s s' P ND). Qed.

(* the order-preserving parallel map of rayon (`par_iter().map(f).collect()`): whatever the
   partition into chunks, the result is the sequential map *)
Definition par_map {A B} (f : A -> B) (chunks : list (list A)) : list B := concat (map (map f) chunks).

Theorem par_map_is_map {A B} (f : A -> B) (chunks : list (list A)) :
  par_map f chunks = map f (concat chunks).
Proof.
  unfold par_map. induction chunks as [|c r IH]; cbn [map concat]; [reflexivity|].
  now rewrite map_app, IH.
Qed.
