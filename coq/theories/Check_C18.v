(* Check_C18.v — executable side of C18 (outline paths and search): the case type the
   harness fills, the correspondence of Paths.v with the observed paths / search results
   through a short history of updates, and the property predicates evaluated on the
   implementation's own observations against an independent enumeration over the observed
   trees (Graph::collect — a different code path from path.rs). *)
From Coq Require Import ZArith.
From IweV Require Export Str Text Ast RelPath Arena Project Library Index IndexFacts Paths PathsFacts Harness Check_Lib Check_C05.
Local Open Scope string_scope.
Local Open Scope list_scope.

(* scores are written by the harness as [zs negative magnitude] *)
Definition zs (neg : bool) (n : N) : Z := if neg then Z.opp (Z.of_N n) else Z.of_N n.

Record pobs := PO {
  po_arena : res arena;
  po_trees : list (string * res tree);                     (* Graph::collect per key *)
  po_paths : res (list (list nat));                        (* Graph::paths *)
  po_search : res (list spath);                            (* Graph::search_paths *)
  po_queries : list (string * list Z * res (list spath))   (* query, fuzzy score of every search path (oracle), Database::global_search *)
}.

Record upd := UP {
  up_name : string;
  up_meta : option string;
  up_blocks : res (list dblock);    (* reader output for the new text *)
  up_obs : res pobs                 (* after Database::update_document *)
}.

Record c18case := C18 {
  k_lib : libcase;
  k_import : res pobs;
  k_updates : list upd;
  k_symbols : list (string * res (list string))   (* names of handle_workspace_symbols per query *)
}.

(* ---------- correspondence ---------------------------------------------------------------- *)

Definition paths_eqb := list_eqb (list_eqb Nat.eqb).

Definition spath_eqb (x y : spath) : bool :=
  String.eqb (sp_text x) (sp_text y) && Nat.eqb (sp_rank x) (sp_rank y) && String.eqb (sp_key x) (sp_key y) &&
  Bool.eqb (sp_root x) (sp_root y) && Nat.eqb (sp_line x) (sp_line y) && list_eqb Nat.eqb (sp_ids x) (sp_ids y).

Fixpoint zip {A B} (l : list A) (m : list B) : list (A * B) :=
  match l, m with
  | x :: l', y :: m' => (x, y) :: zip l' m'
  | _, _ => []
  end.

Definition model_global_search (msearch : res (list spath)) (q : string) (scores : list Z) : res (list spath) :=
  do sp <- msearch;
  if Nat.eqb (length sp) (length scores) then Ok (global_search (sempty q) (zip sp scores))
  else Panic "score oracle does not line up".

(* stages 1-4 for one state *)
Definition state_corr (filt : bool) (s : gstate) (o : pobs) : bool * bool * bool * bool :=
  let msearch := search_paths filt s in
  (res_eqb arena_eqb (Ok (gr_arena (gs_graph s))) (po_arena o),
   res_eqb paths_eqb (graph_to_paths filt s) (po_paths o),
   res_eqb (list_eqb spath_eqb) msearch (po_search o),
   forallb (fun q => let '(qs, scores, found) := q in
                     res_eqb (list_eqb spath_eqb) (model_global_search msearch qs scores) found) (po_queries o)).

(* replay of the history in the model *)
Fixpoint replay (tbl : bool) (s : res gstate) (ups : list upd) : list (res gstate * upd) :=
  match ups with
  | [] => []
  | u :: r =>
      let s' := do st <- s; do bs <- up_blocks u;
                update_state_v tbl st (key_name (up_name u)) (up_meta u) bs in
      (s', u) :: replay tbl s' r
  end.

Definition c18_corr (tbl filt : bool) (c : c18case) : list N :=
  match model_state tbl (k_lib c), k_import c with
  | Panic _, Panic _ => []
  | Panic _, Ok _ | Ok _, Panic _ => [1%N]
  | Ok s, Ok o =>
      let '(a1, a2, a3, a4) := state_corr filt s o in
      let steps := replay tbl (Ok s) (k_updates c) in
      let per := map (fun su => match fst su, up_obs (snd su) with
                                | Ok s', Ok o' => state_corr filt s' o'
                                | Panic _, Panic _ => (true, true, true, true)
                                | _, _ => (false, true, true, true)
                                end) steps in
      flag 1 a1 ++ flag 2 a2 ++ flag 3 a3 ++ flag 4 a4 ++
      flag 5 (forallb (fun qn => match find (fun q => String.eqb (fst (fst q)) (fst qn)) (po_queries o), snd qn with
                                 | Some (_, _, Ok found), Ok names =>
                                     res_eqb (list_eqb String.eqb) (symbol_names (gr_arena (gs_graph s)) found) (Ok names)
                                 | _, _ => true
                                 end) (k_symbols c)) ++
      flag 6 (forallb (fun r => fst (fst (fst r))) per) ++
      flag 7 (forallb (fun r => snd (fst (fst r))) per) ++
      flag 8 (forallb (fun r => snd (fst r)) per) ++
      flag 9 (forallb (fun r => snd r) per) ++
      flag 10 (match po_arena o with Ok a => wf_arenab a && bwdb a | Panic _ => true end &&
               forallb (fun u => match up_obs u with
                                 | Ok o' => match po_arena o' with Ok a => wf_arenab a && bwdb a | Panic _ => true end
                                 | Panic _ => true
                                 end) (k_updates c) &&
               (* the ids the model's index holds are arena slots *)
               forallb (fun su => match fst su with
                                  | Ok s' => forallb (fun e => forallb (fun x => Nat.ltb x (length (gr_arena (gs_graph s')))) (snd e))
                                                     (ri_block (gs_index s'))
                                  | Panic _ => true
                                  end) ((Ok s, UP "" None (Ok []) (Panic "")) :: steps))
  end.

(* ---------- independent enumeration over the observed trees ------------------------------------- *)

Inductive site := InHeading (note : string) | InDoc (note : string) | Elsewhere (note : string).

Record hd := HD { h_id : nat; h_note : string; h_parent : option nat; h_refs : list string }.

Definition tree_id (t : tree) : nat := match t_id t with Some i => i | None => 0 end.
Definition is_nsection (t : tree) : bool := match t_node t with NSection _ => true | _ => false end.
Definition nref_key (t : tree) : option string := match t_node t with NRef k _ _ => Some k | _ => None end.

(* every reference node of a tree with the kind of place it sits in; [pos]: 0 = directly
   below the document, 1 = directly below a heading, 2 = anywhere else *)
Fixpoint ref_sites (note : string) (pos : nat) (heading : bool) (t : tree) {struct t} : list (string * site) :=
  match t with
  | T _ n kids =>
      match n with
      | NRef k _ _ => [(k, match pos with 0 => InDoc note | 1 => InHeading note | _ => Elsewhere note end)]
      | _ =>
          (* below a heading that is itself in heading position the children are at pos 1 and
             sections among them are headings; below anything else nothing is a heading *)
          let child_pos := match n with
                           | NDocument _ => 0
                           | NSection _ => if heading then 1 else 2
                           | _ => 2
                           end in
          let child_heading := match n with NDocument _ => true | NSection _ => heading | _ => false end in
          (fix go (l : list tree) : list (string * site) :=
             match l with [] => [] | x :: r => ref_sites note child_pos child_heading x ++ go r end) kids
      end
  end.

(* headings: sections all of whose ancestors are sections or the document *)
Fixpoint headings_of (note : string) (parent : option nat) (t : tree) {struct t} : list hd :=
  match t with
  | T id n kids =>
      match n with
      | NDocument _ =>
          (fix go (l : list tree) : list hd :=
             match l with [] => [] | x :: r => headings_of note None x ++ go r end) kids
      | NSection _ =>
          let me := match id with Some i => i | None => 0 end in
          HD me note parent (flat_map (fun k => olist (nref_key k)) kids) ::
          (fix go (l : list tree) : list hd :=
             match l with [] => [] | x :: r => headings_of note (Some me) x ++ go r end) kids
      | _ => []
      end
  end.

Record outline := OL {
  ol_keys : list string;
  ol_heads : list hd;
  ol_sites : list (string * site)
}.

Definition outline_of (o : pobs) : outline :=
  let ts := flat_map (fun kt => match snd kt with Ok t => [(fst kt, t)] | Panic _ => [] end) (po_trees o) in
  OL (map fst ts)
     (flat_map (fun kt => headings_of (fst kt) None (snd kt)) ts)
     (flat_map (fun kt => ref_sites (fst kt) 0 true (snd kt)) ts).

Definition referenced (ol : outline) (k : string) : bool := existsb (fun e => String.eqb (fst e) k) (ol_sites ol).

(* keys a note hands on through references that sit before its first heading *)
Definition doc_refs (ol : outline) (k : string) : list string :=
  flat_map (fun e => match snd e with InDoc n => if String.eqb n k then [fst e] else [] | _ => [] end) (ol_sites ol).

Fixpoint includes_via (fuel : nat) (ol : outline) (from target : string) : bool :=
  String.eqb from target ||
  match fuel with
  | O => false
  | S f => existsb (fun k => includes_via f ol k target) (doc_refs ol from)
  end.

Definition find_head (ol : outline) (id : nat) : option hd := find (fun h => Nat.eqb (h_id h) id) (ol_heads ol).

(* one step of a path: to a sub-heading, or to a top-level heading of a note included by a
   block reference directly below the heading (possibly handed on by heading-less notes) *)
Definition step_ok (ol : outline) (x y : nat) : bool :=
  match find_head ol x, find_head ol y with
  | Some hx, Some hy =>
      match h_parent hy with
      | Some p => Nat.eqb p x
      | None => existsb (fun k => includes_via (length (ol_keys ol)) ol k (h_note hy)) (h_refs hx)
      end
  | _, _ => false
  end.

Fixpoint chain_ok (ol : outline) (p : list nat) : bool :=
  match p with
  | x :: ((y :: _) as r) => step_ok ol x y && chain_ok ol r
  | _ => true
  end.

Definition path_sound (ol : outline) (p : list nat) : bool :=
  negb (match p with [] => true | _ => false end) &&
  forallb (fun id => match find_head ol id with Some _ => true | None => false end) p &&
  chain_ok ol p.

Definition last_of (p : list nat) : option nat := match rev p with x :: _ => Some x | [] => None end.

Definition listed (paths : list (list nat)) (id : nat) : bool :=
  existsb (fun p => onat_eqb (last_of p) (Some id)) paths.

(* which notes the walk of paths_for_node can give paths to: R k = some reference to k sits
   directly below a heading of a note that has paths, or directly below the document of a
   note with R; a note has paths when nobody references it or R holds.  Least fixpoint. *)
Definition has_paths (ol : outline) (R : list string) (k : string) : bool := negb (referenced ol k) || inb k R.

Definition r_step (ol : outline) (R : list string) : list string :=
  filter (fun k => existsb (fun e => String.eqb (fst e) k &&
                                     match snd e with
                                     | InHeading n => has_paths ol R n
                                     | InDoc n => inb n R
                                     | Elsewhere _ => false
                                     end) (ol_sites ol)) (ol_keys ol).

Fixpoint iterate {A} (n : nat) (f : A -> A) (x : A) : A := match n with O => x | S k => iterate k f (f x) end.

Definition rooted (ol : outline) : list string :=
  let R := iterate (S (length (ol_keys ol))) (r_step ol) [] in
  filter (has_paths ol R) (ol_keys ol).

(* notes reachable from an unreferenced note along references in any position *)
Definition reach_step (ol : outline) (S0 : list string) : list string :=
  filter (fun k => inb k S0 || existsb (fun e => String.eqb (fst e) k &&
                                                  inb (match snd e with InHeading n | InDoc n | Elsewhere n => n end) S0)
                                       (ol_sites ol)) (ol_keys ol).
Definition reachable (ol : outline) : list string :=
  iterate (S (length (ol_keys ol))) (reach_step ol) (filter (fun k => negb (referenced ol k)) (ol_keys ol)).

(* names: the search text is the heading texts of the chain, as they stand in the arena *)
Definition text_ok (a : arena) (p : spath) : bool :=
  res_eqb String.eqb (render_search_text a (sp_ids p)) (Ok (sp_text p)).

Fixpoint ranks_desc (l : list spath) : bool :=
  match l with
  | x :: ((y :: _) as r) => Nat.leb (sp_rank y) (sp_rank x) && ranks_desc r
  | _ => true
  end.

Record pverdict := PV { pv_sound : bool; pv_complete : bool; pv_rooted_complete : bool; pv_search : bool;
                        pv_cycle : bool; pv_unrooted : bool; pv_nontriv : bool }.

Definition judge (o : pobs) : pverdict :=
  let ol := outline_of o in
  match po_paths o, po_search o with
  | Ok paths, Ok search =>
      let rt := rooted ol in
      let rc := reachable ol in
      let missing := filter (fun h => negb (listed paths (h_id h))) (ol_heads ol) in
      let sound := forallb (path_sound ol) paths in
      let search_ok :=
        (* one search path per path, names are the chain's heading texts, ranked order *)
        paths_eqb (sort_paths (map sp_ids search)) paths &&
        Nat.eqb (length search) (length paths) &&
        match po_arena o with Ok a => forallb (text_ok a) search | Panic _ => false end &&
        forallb (fun p => Bool.eqb (sp_root p) (Nat.eqb (length (sp_ids p)) 1)) search &&
        ranks_desc search &&
        forallb (fun q => let '(qs, scores, found) := q in
                   match found with
                   | Panic _ => false
                   | Ok f =>
                       Nat.leb (length f) 100 &&
                       Nat.eqb (length scores) (length search) &&
                       list_eqb spath_eqb f (global_search (sempty qs) (zip search scores)) &&
                       (negb (sempty qs) || ranks_desc f)
                   end) (po_queries o) in
      PV sound
         (match missing with [] => true | _ => false end)
         (forallb (fun h => negb (inb (h_note h) rt)) missing)
         search_ok
         (existsb (fun h => negb (inb (h_note h) rc)) (ol_heads ol))
         (existsb (fun h => inb (h_note h) rc && negb (inb (h_note h) rt)) (ol_heads ol))
         (Nat.leb 3 (length (ol_heads ol)) && existsb (fun p => Nat.leb 2 (length p)) paths)
  | _, _ => PV false false false false false false false
  end.

Definition c18_props (c : c18case) : list N * list N * bool :=
  match k_import c with
  | Panic _ => ([], [], false)
  | Ok o =>
      let vs := judge o :: flat_map (fun u => match up_obs u with Ok o' => [judge o'] | Panic _ => [] end) (k_updates c) in
      let all f := forallb f vs in
      let residual := all pv_rooted_complete in
      (flag 1 (all pv_sound) ++ flag 2 (all pv_complete) ++ flag 3 residual ++ flag 4 (all pv_search),
       if residual then
         (if existsb pv_cycle vs then [1%N] else []) ++ (if existsb pv_unrooted vs then [2%N] else [])
       else [],
       existsb pv_nontriv vs)
  end.

Definition run_variant18 (tbl filt : bool) (c : c18case) : verdict :=
  let '(p, cls, nt) := c18_props c in
  (* classes explain incompleteness only: soundness and search failures stay unclassified *)
  let cls' := if existsb (fun x => N.eqb x 1 || N.eqb x 4) p then [] else cls in
  V (c18_corr tbl filt c) p cls' nt.

(* /repo since 7b992d5 (R1) and 81d1287 (R3) corresponds to the repaired walk and the filtered
   index reads; before those commits to [run_C18_as_found] *)
Definition run_C18 : c18case -> verdict := run_variant18 true true.
Definition run_C18_as_found : c18case -> verdict := run_variant18 false false.
