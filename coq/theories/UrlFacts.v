(* UrlFacts.v — proofs about Url.v (C14): the percent codec round trip, the same-note theorem
   for the repaired BasePath, the part of it that holds for the as-found code on URL-safe
   names, and the refutations of the as-found code class by class. *)
From IweV Require Import Str RelPath RelPathFacts Arena Url.
Local Open Scope string_scope.
Local Open Scope list_scope.

(* ---------- the codec ---------------------------------------------------------------- *)

Lemma hex_roundtrip b3 b2 b1 b0 :
  nibble_of_hex (hex_of_nibble b3 b2 b1 b0) = Some (b3, b2, b1, b0).
Proof. destruct b3, b2, b1, b0; reflexivity. Qed.

Lemma pct_decode_byte a r : pct_decode (pct_byte a +++ r) = String a (pct_decode r).
Proof.
  destruct a as [b0 b1 b2 b3 b4 b5 b6 b7].
  unfold pct_byte. cbn [String.append pct_decode].
  change (Ascii.eqb PCT PCT) with true. cbv iota.
  rewrite !hex_roundtrip. reflexivity.
Qed.

Theorem pct_roundtrip_with (set : ascii -> bool) :
  set PCT = true -> forall bytes, pct_decode (pct_encode_with set bytes) = bytes.
Proof.
  intros Hp bytes. induction bytes as [|a r IH]; [reflexivity|].
  cbn [pct_encode_with]. destruct (set a) eqn:E.
  - rewrite pct_decode_byte, IH. reflexivity.
  - cbn [pct_decode]. destruct (Ascii.eqb_spec a PCT) as [->|_]; [congruence|].
    now rewrite IH.
Qed.

Theorem pct_roundtrip : forall bytes, pct_decode (pct_encode_segment bytes) = bytes.
Proof. apply pct_roundtrip_with. reflexivity. Qed.

(* every character of an encoded text is `%`, a hex digit, or a character outside the set *)
Lemma enc_chars (set P : ascii -> bool) :
  P PCT = false ->
  (forall b3 b2 b1 b0, P (hex_of_nibble b3 b2 b1 b0) = false) ->
  (forall a, set a = false -> P a = false) ->
  forall s, sexists P (pct_encode_with set s) = false.
Proof.
  intros H1 H2 H3 s. induction s as [|a r IH]; [reflexivity|].
  cbn [pct_encode_with]. destruct (set a) eqn:E.
  - destruct a as [b0 b1 b2 b3 b4 b5 b6 b7]. unfold pct_byte. cbn [String.append sexists].
    now rewrite H1, !H2, IH.
  - cbn [sexists]. now rewrite (H3 a E), IH.
Qed.

Lemma contains_char_sexists c s : contains_char c s = sexists (fun a => Ascii.eqb a c) s.
Proof. induction s as [|a r IH]; [reflexivity|]. cbn. rewrite IH. now destruct (Ascii.eqb a c). Qed.

Lemma enc_no_sep s : contains_char SEP (pct_encode_segment s) = false.
Proof.
  rewrite contains_char_sexists. apply enc_chars.
  - reflexivity.
  - intros [] [] [] []; reflexivity.
  - intros a Ha. destruct (Ascii.eqb_spec a SEP) as [->|]; [discriminate Ha | reflexivity].
Qed.

Definition is_q (a : ascii) : bool := is_any ["?"; "#"]%char a.

Lemma enc_no_query s : sexists is_q (pct_encode_segment s) = false.
Proof.
  apply enc_chars.
  - reflexivity.
  - intros [] [] [] []; reflexivity.
  - intros a Ha. unfold is_q, is_any. cbn [existsb].
    destruct (Ascii.eqb_spec a "?") as [->|]; [discriminate Ha|].
    destruct (Ascii.eqb_spec a "#") as [->|]; [discriminate Ha|]. reflexivity.
Qed.

Lemma sexists_app P a b : sexists P (a +++ b) = sexists P a || sexists P b.
Proof. induction a as [|x a IH]; [reflexivity|]. cbn. now rewrite IH, orb_assoc. Qed.

Lemma until_query_id s : sexists is_q s = false -> until_query s = s.
Proof.
  induction s as [|a r IH]; [reflexivity|]. cbn [sexists until_query]. fold (is_q a).
  destruct (is_q a); [discriminate|]. cbn. intros H. now rewrite IH.
Qed.

(* ---------- joins and components ------------------------------------------------------ *)

Lemma join_app sep (l1 l2 : list string) :
  l1 <> [] -> l2 <> [] -> join sep (l1 ++ l2) = join sep l1 +++ sep +++ join sep l2.
Proof.
  intros H1 H2. induction l1 as [|x l1 IH]; [congruence|].
  destruct l1 as [|y l1].
  - destruct l2 as [|z l2]; [congruence|]. reflexivity.
  - change (join sep ((x :: y :: l1) ++ l2)) with (x +++ sep +++ join sep ((y :: l1) ++ l2)).
    rewrite IH by congruence.
    change (join sep (x :: y :: l1)) with (x +++ sep +++ join sep (y :: l1)).
    now rewrite !sapp_assoc.
Qed.

Definition keeps (x : string) : bool := negb (sempty x) && negb (String.eqb x ".").

Lemma path_components_join l :
  l <> [] -> Forall (fun x => contains_char SEP x = false) l ->
  path_components (join SEPS l) = filter keeps l.
Proof. intros H1 H2. unfold path_components, SEPS. now rewrite split_join. Qed.

Lemma good_keeps x : good_name x -> keeps x = true.
Proof.
  intros [[H1 _] [H2 _]]. unfold keeps. rewrite H1. apply String.eqb_neq in H2. now rewrite H2.
Qed.

Lemma filter_keeps_good l : Forall good_name l -> filter keeps l = l.
Proof.
  intros H. apply filter_all. intros x Hx. rewrite Forall_forall in H. now apply good_keeps, H.
Qed.

Lemma good_nosep l : Forall good_name l -> Forall (fun x => contains_char SEP x = false) l.
Proof. apply Forall_impl. now intros a [[_ H] _]. Qed.

Lemma concat_segments_join f c r :
  concat_segments f (c :: r) = SEPS +++ join SEPS (map f (c :: r)).
Proof.
  revert c; induction r as [|d r IH]; intros c.
  - cbn. now rewrite append_nil_r.
  - change (concat_segments f (c :: d :: r)) with (SEPS +++ f c +++ concat_segments f (d :: r)).
    rewrite IH. reflexivity.
Qed.

Lemma strip_list_prefix_app p l : strip_list_prefix p (p ++ l) = Some l.
Proof. induction p as [|x p IH]; [reflexivity|]. cbn. now rewrite String.eqb_refl. Qed.

Lemma md_name_snoc dirs stem : md_name (dirs ++ [stem]) = dirs ++ [stem +++ MD].
Proof. unfold md_name. rewrite rev_unit, rev_involutive. reflexivity. Qed.

Lemma length_append a b : String.length (a +++ b) = String.length a + String.length b.
Proof. induction a as [|x a IH]; [reflexivity|]. cbn. now rewrite IH. Qed.

(* ---------- the note, its path, its URI and its key ----------------------------------- *)

(* a library path: `/` + the directory names joined by `/`, optionally with a trailing slash *)
Definition base_path (bs : list string) (slash : bool) : string :=
  join SEPS (EmptyString :: bs ++ (if slash then [EmptyString] else [])).

Lemma nosep_empty : contains_char SEP "" = false. Proof. reflexivity. Qed.

Lemma base_path_components bs slash :
  Forall good_name bs -> path_components (base_path bs slash) = bs.
Proof.
  intros H. unfold base_path. rewrite path_components_join.
  - cbn [filter keeps sempty negb andb]. rewrite filter_app, filter_keeps_good by exact H.
    destruct slash; cbn; now rewrite app_nil_r.
  - discriminate.
  - constructor; [reflexivity|]. apply Forall_app. split; [now apply good_nosep|].
    destruct slash; repeat constructor.
Qed.

Lemma good_md stem : good_name stem -> good_name (stem +++ MD).
Proof.
  intros [[H1 H2] _]. repeat split.
  - destruct stem; [discriminate | reflexivity].
  - rewrite contains_char_app, H2. reflexivity.
  - destruct stem as [|c [|d s]]; cbn; discriminate.
  - destruct stem as [|c [|d [|e s]]]; cbn; discriminate.
Qed.

(* the text of the note's path is the join of  "" :: base dirs (++ "") ++ dirs ++ [stem.md] *)
Lemma note_path_join bs slash dirs stem :
  note_path (base_path bs slash) (dirs ++ [stem]) =
  join SEPS ((EmptyString :: bs ++ (if slash then [EmptyString] else [])) ++ (dirs ++ [stem +++ MD])).
Proof.
  unfold note_path, base_path. rewrite md_name_snoc. symmetry. apply join_app; [discriminate|].
  destruct dirs; discriminate.
Qed.

Lemma note_path_components bs slash dirs stem :
  Forall good_name bs -> Forall good_name (dirs ++ [stem]) ->
  path_components (note_path (base_path bs slash) (dirs ++ [stem])) = bs ++ dirs ++ [stem +++ MD].
Proof.
  intros Hb Hc. apply Forall_app in Hc as [Hd Hs]. inversion Hs as [|? ? Hs' _]; subst.
  assert (Hn : Forall good_name (dirs ++ [stem +++ MD])).
  { apply Forall_app. split; [exact Hd|]. constructor; [now apply good_md | constructor]. }
  rewrite note_path_join, path_components_join.
  - rewrite filter_app. cbn [filter keeps sempty negb andb]. rewrite filter_app.
    rewrite (filter_keeps_good bs Hb), (filter_keeps_good _ Hn).
    destruct slash; cbn; now rewrite ?app_nil_r.
  - discriminate.
  - apply Forall_app. split.
    + constructor; [reflexivity|]. apply Forall_app. split; [now apply good_nosep|].
      destruct slash; repeat constructor.
    + now apply good_nosep.
Qed.

Lemma note_path_abs bs slash comps :
  bs <> [] -> starts_with SEPS (note_path (base_path bs slash) comps) = true.
Proof.
  intros Hb. unfold note_path, base_path. destruct bs as [|b bs]; [congruence|]. reflexivity.
Qed.

Definition uri_of (cs : list string) : string := "file://" +++ concat_segments pct_encode_segment cs.

Lemma file_uri_note bs slash dirs stem :
  bs <> [] -> Forall good_name bs -> Forall good_name (dirs ++ [stem]) ->
  file_uri (note_path (base_path bs slash) (dirs ++ [stem])) = Some (uri_of (bs ++ dirs ++ [stem +++ MD])).
Proof.
  intros Hne Hb Hc. unfold file_uri. rewrite note_path_abs by exact Hne.
  rewrite note_path_components by assumption.
  destruct (bs ++ dirs ++ [stem +++ MD]) eqn:E; [|reflexivity].
  destruct bs; [congruence | discriminate].
Qed.

Lemma concat_decode cs :
  concat_segments pct_decode (map pct_encode_segment cs) = concat_segments (fun x => x) cs.
Proof. induction cs as [|c r IH]; [reflexivity|]. cbn. now rewrite pct_roundtrip, IH. Qed.

Lemma sexists_concat_enc cs : sexists is_q (concat_segments pct_encode_segment cs) = false.
Proof.
  induction cs as [|c r IH]; [reflexivity|].
  cbn [concat_segments]. rewrite !sexists_app, enc_no_query, IH. reflexivity.
Qed.

Lemma concat_id_snoc pre x :
  concat_segments (fun x => x) (pre ++ [x]) = concat_segments (fun x => x) pre +++ SEPS +++ x.
Proof.
  induction pre as [|c r IH]; cbn.
  - now rewrite append_nil_r.
  - rewrite IH. now rewrite !sapp_assoc.
Qed.

(* the file a URI made by from_file_path opens: `/` + the components joined by `/` *)
Lemma to_file_path_uri pre stem :
  Forall (fun x => contains_char SEP x = false) (pre ++ [stem +++ MD]) ->
  to_file_path (uri_of (pre ++ [stem +++ MD])) = Some (join SEPS (EmptyString :: pre ++ [stem +++ MD])).
Proof.
  intros Hc. unfold to_file_path, uri_of. rewrite strip_prefix_app.
  rewrite until_query_id by apply sexists_concat_enc.
  destruct (pre ++ [stem +++ MD]) as [|c r] eqn:E; [destruct pre; discriminate|].
  rewrite concat_segments_join.
  change (SEPS +++ join SEPS (map pct_encode_segment (c :: r)))
    with (String SEP (join SEPS (map pct_encode_segment (c :: r)))).
  cbv beta iota zeta. rewrite Ascii.eqb_refl. unfold SEPS. rewrite split_join.
  - rewrite concat_decode. rewrite <- E.
    assert (D : drive_tail (concat_segments (fun x => x) (pre ++ [stem +++ MD])) = false).
    { unfold drive_tail. rewrite concat_id_snoc, !srev_append.
      change (srev MD) with "dm.". reflexivity. }
    rewrite D. f_equal. rewrite E, concat_segments_join, map_id. reflexivity.
  - discriminate.
  - rewrite Forall_forall. intros x Hx. apply in_map_iff in Hx as (y & <- & _). apply enc_no_sep.
Qed.

(* one extension goes, whatever the stem is (also a stem that itself ends in `.md`) *)
Lemma key_of_md dirs stem :
  key_from_file_name (join SEPS (dirs ++ [stem +++ MD])) = join SEPS (dirs ++ [stem]).
Proof.
  unfold key_from_file_name.
  assert (E : join SEPS (dirs ++ [stem +++ MD]) = join SEPS (dirs ++ [stem]) +++ MD).
  { rewrite !join_snoc. destruct dirs; [reflexivity|]. now rewrite !sapp_assoc. }
  rewrite E. apply strip_md_app.
Qed.

Lemma disk_key_snoc dirs stem : disk_key (dirs ++ [stem]) = join SEPS (dirs ++ [stem]).
Proof.
  unfold disk_key, loader_key. rewrite rev_unit, rev_involutive. now rewrite strip_md_app.
Qed.

(* C14 for the repaired BasePath: for every library path (any directory names, trailing slash
   or not) and every note file <dirs>/<stem>.md with legal names, the editor's URI exists,
   `url_to_key` maps it to the key the disk loader gives the file, `key_to_url` of that key
   is that very URI, and the URI opens exactly that file. *)
Theorem same_note_fixed bs slash dirs stem :
  bs <> [] -> Forall good_name bs -> Forall good_name (dirs ++ [stem]) ->
  let base := base_path bs slash in
  let comps := dirs ++ [stem] in
  exists u p,
    file_uri (note_path base comps) = Some u /\
    url_to_key_fixed base u = disk_key comps /\
    key_to_url_fixed base (disk_key comps) = Ok (Some u) /\
    to_file_path u = Some p /\
    path_components p = path_components (note_path base comps).
Proof.
  intros Hne Hb Hc base comps.
  assert (Hs : good_name stem).
  { apply Forall_app in Hc as [_ Hs]. now inversion Hs. }
  assert (Hd : Forall good_name dirs) by (apply Forall_app in Hc; tauto).
  assert (Hall : Forall good_name (bs ++ dirs ++ [stem +++ MD])).
  { apply Forall_app; split; [exact Hb|]. apply Forall_app; split; [exact Hd|].
    constructor; [now apply good_md | constructor]. }
  exists (uri_of (bs ++ dirs ++ [stem +++ MD])), (join SEPS (EmptyString :: bs ++ dirs ++ [stem +++ MD])).
  assert (TF : to_file_path (uri_of (bs ++ dirs ++ [stem +++ MD])) =
               Some (join SEPS (EmptyString :: bs ++ dirs ++ [stem +++ MD]))).
  { rewrite (app_assoc bs dirs). apply to_file_path_uri. rewrite <- app_assoc. now apply good_nosep. }
  assert (PC : path_components (join SEPS (EmptyString :: bs ++ dirs ++ [stem +++ MD])) = bs ++ dirs ++ [stem +++ MD]).
  { rewrite path_components_join.
    - cbn [filter keeps sempty negb andb]. now apply filter_keeps_good.
    - discriminate.
    - constructor; [reflexivity | now apply good_nosep]. }
  split; [now apply file_uri_note|]. split; [|split; [|split]].
  - unfold url_to_key_fixed. rewrite TF, PC.
    unfold base. rewrite base_path_components by exact Hb.
    rewrite strip_list_prefix_app. unfold comps. rewrite disk_key_snoc.
    apply key_of_md.
  - unfold key_to_url_fixed, comps. rewrite disk_key_snoc.
    assert (E : base +++ SEPS +++ to_path (join SEPS (dirs ++ [stem])) = note_path base (dirs ++ [stem])).
    { unfold note_path, to_path. rewrite md_name_snoc. do 2 f_equal.
      rewrite !join_snoc. destruct dirs; [reflexivity|]. now rewrite !sapp_assoc. }
    rewrite E. unfold base. now rewrite file_uri_note.
  - exact TF.
  - rewrite PC. unfold base, comps. now rewrite note_path_components.
Qed.

(* ---------- what holds for the as-found url_to_key ------------------------------------ *)

Definition url_safe (c : string) : bool := negb (needs_encoding c).

Lemma enc_safe c : url_safe c = true -> pct_encode_segment c = c.
Proof.
  unfold url_safe, needs_encoding, pct_encode_segment. rewrite negb_true_iff.
  induction c as [|a r IH]; [reflexivity|]. cbn [sexists pct_encode_with].
  destruct (in_special_path_segment a); [discriminate|]. cbn. intros H. now rewrite IH.
Qed.

Lemma concat_enc_safe cs :
  forallb url_safe cs = true -> concat_segments pct_encode_segment cs = concat_segments (fun x => x) cs.
Proof.
  induction cs as [|c r IH]; [reflexivity|]. cbn [forallb concat_segments].
  rewrite andb_true_iff. intros [H1 H2]. now rewrite enc_safe, IH.
Qed.

Lemma concat_id_app a b :
  concat_segments (fun x => x) (a ++ b) = concat_segments (fun x => x) a +++ concat_segments (fun x => x) b.
Proof. induction a as [|c r IH]; [reflexivity|]. cbn. now rewrite IH, !sapp_assoc. Qed.

Lemma concat_id_join c r : concat_segments (fun x => x) (c :: r) = SEPS +++ join SEPS (c :: r).
Proof. now rewrite concat_segments_join, map_id. Qed.

Lemma starts_with_app p s : starts_with p (p +++ s) = true.
Proof. rewrite starts_with_strip, strip_prefix_app. reflexivity. Qed.

Lemma trim_start_matches_once p s :
  sempty p = false -> starts_with p s = false -> trim_start_matches p (p +++ s) = s.
Proof.
  intros Hp Hs. unfold trim_start_matches. cbn [trim_start_matches_fuel].
  rewrite strip_prefix_app, Hp.
  destruct (String.length (p +++ s)) as [|f]; [reflexivity|].
  cbn [trim_start_matches_fuel]. rewrite starts_with_strip in Hs.
  now destruct (strip_prefix p s).
Qed.

(* As found, for a library path without trailing slash whose names and the note's names need
   no percent-encoding, and a first note component that does not itself start with `file:`:
   the editor's URI is mapped to the loader's key. *)
Theorem url_to_key_as_found_safe bs dirs stem :
  bs <> [] -> Forall good_name bs -> Forall good_name (dirs ++ [stem]) ->
  forallb url_safe bs = true -> forallb url_safe (dirs ++ [stem]) = true ->
  starts_with "file:" (join SEPS (dirs ++ [stem +++ MD])) = false ->
  let base := base_path bs false in
  let comps := dirs ++ [stem] in
  exists u, file_uri (note_path base comps) = Some u /\
            url_to_key_as_found (server_prefix base) u = disk_key comps.
Proof.
  intros Hne Hb Hc Sb Sc Hf base comps.
  exists (uri_of (bs ++ dirs ++ [stem +++ MD])). split; [now apply file_uri_note|].
  assert (Hs : good_name stem).
  { apply Forall_app in Hc as [_ Hs]. now inversion Hs. }
  assert (Sc' : forallb url_safe (dirs ++ [stem +++ MD]) = true).
  { rewrite forallb_app in Sc |- *. apply andb_true_iff in Sc as [S1 S2]. rewrite S1.
    cbn [forallb] in S2 |- *. rewrite andb_true_r in S2. rewrite andb_true_r.
    unfold url_safe, needs_encoding in S2 |- *. rewrite sexists_app.
    rewrite negb_true_iff in S2. now rewrite S2. }
  assert (U : uri_of (bs ++ dirs ++ [stem +++ MD]) =
              server_prefix base +++ join SEPS (dirs ++ [stem +++ MD])).
  { unfold uri_of, server_prefix, base, base_path. rewrite concat_enc_safe.
    2:{ rewrite forallb_app, Sb. exact Sc'. }
    rewrite concat_id_app. rewrite app_nil_r.
    destruct bs as [|b bs']; [congruence|].
    destruct (dirs ++ [stem +++ MD]) as [|d ds] eqn:E; [destruct dirs; discriminate|].
    rewrite !concat_id_join.
    change (join SEPS ("" :: b :: bs')) with (SEPS +++ join SEPS (b :: bs')).
    now rewrite !sapp_assoc. }
  rewrite U. unfold url_to_key_as_found.
  rewrite trim_start_matches_once.
  - unfold comps. rewrite disk_key_snoc. apply key_of_md.
  - reflexivity.
  - (* the rest cannot start with the prefix again: it does not even start with `file:` *)
    unfold server_prefix.
    change ("file://" +++ base +++ SEPS) with ("file:" +++ ("//" +++ base +++ SEPS)).
    destruct (starts_with ("file:" +++ "//" +++ base +++ SEPS) (join SEPS (dirs ++ [stem +++ MD]))) eqn:X; [|reflexivity].
    rewrite starts_with_strip in X.
    destruct (strip_prefix ("file:" +++ "//" +++ base +++ SEPS) (join SEPS (dirs ++ [stem +++ MD]))) eqn:Y; [|discriminate].
    apply strip_prefix_some in Y. rewrite Y in Hf. cbn in Hf. discriminate Hf.
Qed.

(* ---------- refutations of the as-found code, class by class -------------------------- *)

Definition B0 : string := "/r/lib".
Definition S0 : string := server_prefix B0.

Definition as_found_breaks_key (base : string) (comps : list string) : Prop :=
  exists u, file_uri (note_path base comps) = Some u /\
            url_to_key_as_found (server_prefix base) u <> disk_key comps.

Definition as_found_opens_other (base : string) (comps : list string) : Prop :=
  exists u p, key_to_url_as_found (server_prefix base) (disk_key comps) = Ok (Some u) /\
              to_file_path u = Some p /\
              path_components p <> path_components (note_path base comps).

Ltac refute_key := eexists; split; [vm_compute; reflexivity | vm_compute; discriminate].
Ltac refute_open := do 2 eexists; split; [vm_compute; reflexivity | split; [vm_compute; reflexivity | vm_compute; discriminate]].

(* K1: bytes that file:// URIs percent-encode *)
Lemma space_refuted : as_found_breaks_key B0 ["a b"] /\ needs_encoding "a b" = true.
Proof. split; [refute_key | reflexivity]. Qed.
Lemma non_ascii_refuted : as_found_breaks_key B0 ["é"] /\ needs_encoding "é" = true.
Proof. split; [refute_key | reflexivity]. Qed.
Lemma percent_refuted : as_found_breaks_key B0 ["100%"] /\ needs_encoding "100%" = true.
Proof. split; [refute_key | reflexivity]. Qed.
Lemma question_refuted : as_found_breaks_key B0 ["q?x"] /\ needs_encoding "q?x" = true.
Proof. split; [refute_key | reflexivity]. Qed.
Lemma hash_refuted : as_found_breaks_key B0 ["a#b"] /\ needs_encoding "a#b" = true.
Proof. split; [refute_key | reflexivity]. Qed.

(* K2: keys that Url::join re-reads: the answered URI opens another file *)
Lemma join_percent_refuted : as_found_opens_other B0 ["a%20b"] /\ join_reinterprets ["a%20b"] = true.
Proof. split; [refute_open | reflexivity]. Qed.
Lemma join_question_refuted : as_found_opens_other B0 ["q?x"] /\ join_reinterprets ["q?x"] = true.
Proof. split; [refute_open | reflexivity]. Qed.
Lemma join_hash_refuted : as_found_opens_other B0 ["a#b"] /\ join_reinterprets ["a#b"] = true.
Proof. split; [refute_open | reflexivity]. Qed.
Lemma join_backslash_refuted : as_found_opens_other B0 ["a\b"] /\ join_reinterprets ["a\b"] = true.
Proof. split; [refute_open | reflexivity]. Qed.
Lemma join_leading_space_refuted : as_found_opens_other B0 [" x"] /\ join_reinterprets [" x"] = true.
Proof. split; [refute_open | reflexivity]. Qed.
Lemma join_drive_refuted : as_found_opens_other B0 ["C|"; "x"] /\ join_reinterprets ["C|"; "x"] = true.
Proof. split; [refute_open | reflexivity]. Qed.
(* a scheme-like key leaves the file scheme altogether *)
Lemma join_scheme_refuted :
  key_to_url_as_found S0 (disk_key ["a:b"]) = Ok None /\ join_reinterprets ["a:b"] = true.
Proof. split; reflexivity. Qed.

(* K3 / K4: the library path *)
Lemma base_space_refuted : as_found_breaks_key "/r/my lib" ["a"] /\ base_unsafe "/r/my lib" = true.
Proof. split; [refute_key | reflexivity]. Qed.
Lemma base_hash_refuted : as_found_opens_other "/r/a#b" ["a"] /\ base_unsafe "/r/a#b" = true.
Proof. split; [refute_open | reflexivity]. Qed.
Lemma trailing_slash_refuted : as_found_breaks_key "/r/lib/" ["a"] /\ base_trailing_slash "/r/lib/" = true.
Proof. split; [refute_key | reflexivity]. Qed.

(* former K5 (F-C14-5, repaired): ONE trailing `.md` is stripped: the files x.md.md and x.md are two
   notes, `x.md` and `x`, and the URI answered for the note `x.md` opens x.md.md (an instance of
   same_note_fixed, which no longer excludes stems ending in `.md`) *)
Lemma md_md_distinct :
  disk_key ["x.md"] = "x.md" /\ disk_key ["x"] = "x" /\ loaded ["x.md"] = true /\ loaded ["x"] = true /\
  url_to_key_fixed B0 "file:///r/lib/x.md.md" = "x.md" /\ url_to_key_fixed B0 "file:///r/lib/x.md" = "x" /\
  exists u p, key_to_url_fixed B0 (disk_key ["x.md"]) = Ok (Some u) /\ to_file_path u = Some p /\
              u = "file:///r/lib/x.md.md" /\
              path_components p = path_components (note_path B0 ["x.md"]).
Proof. repeat split; try reflexivity. do 2 eexists. repeat split; vm_compute; reflexivity. Qed.

(* K6: trim_start_matches strips the prefix as often as it repeats *)
Lemma prefix_once_refuted :
  let u := S0 +++ S0 +++ "x.md" in
  url_to_key_as_found S0 u = "x" /\ to_file_path u = Some "/r/lib/file:///r/lib/x.md" /\
  url_to_key_fixed B0 u = "file:/r/lib/x" /\ prefix_repeats S0 u = true.
Proof. repeat split; reflexivity. Qed.

(* K7 / K8: URIs as other clients spell them *)
Lemma escape_refuted :
  let u := S0 +++ "a%3Ab.md" in
  to_file_path u = Some "/r/lib/a:b.md" /\ url_to_key_as_found S0 u = "a%3Ab" /\
  url_to_key_fixed B0 u = "a:b" /\ disk_key ["a:b"] = "a:b" /\ uri_has_escape u = true.
Proof. repeat split; reflexivity. Qed.
Lemma query_refuted :
  let u := S0 +++ "x.md?q#f" in
  to_file_path u = Some "/r/lib/x.md" /\ url_to_key_as_found S0 u = "x.md?q#f" /\
  url_to_key_fixed B0 u = "x" /\ uri_has_query u = true.
Proof. repeat split; reflexivity. Qed.
