(* PathsHistory.v — C04, the outline paths: the listing of `iwe paths` / workspace symbols, read as
   chains of heading TEXTS, does not depend on the edit history.

   Two runs (import + any history of updates) whose final text per key is the same end in arenas that
   are isomorphic, not equal: every note's tree is laid out in pre-order from its own root id
   (HistoryText.text_inv: `laid (spec_tree key last_blocks) root`), and the roots depend on the history.
   Method.
     1. [Sim]: a generic simulation.  If a relation R between the node ids of two states is a
        bijection between their live nodes that preserves the kind, the prev link and the child link,
        and the block references of every key correspond, then every path [graph_to_paths] lists in one
        state has an R-image in the listing of the other (to_parent, is_in_list, Graph::node_key,
        paths_for_node with its cycle guard, the root filter, sort+dedup commute with R).
     2. [Laid]: two layouts of the SAME tree at two roots agree slot by slot up to the shift of the
        ids (kind, child, next); in a well-formed arena the prev link is the unique incoming link, so
        it shifts too; the ranges of the notes partition the live nodes.
     3. the relation "i-th node of note k here ~ i-th node of note k there" therefore satisfies 1.,
        both ways; R-related paths have the same texts; the listings have no duplicates, so the
        R-images form a bijection between them: the text chains are the same MULTISET.
   The ORDER of the listing is by node ids and is NOT history free: [C04_paths_order_refuted]. *)
From Coq Require Import Lia List Permutation Sorted.
From IweV Require Import Str Text Ast RelPath Arena ArenaWF ArenaFacts ForestFacts Project Library LibraryFacts
  SectionsSpec Check_Norm BuilderFacts SectionsFacts SectionsRefine BuilderWF HistoryWF HistoryClosed
  Index IndexFacts IndexHistory Paths PathsFacts PathsComplete Determinism2 HistoryText Reachable.
Import ListNotations.
Local Open Scope string_scope.
Local Open Scope list_scope.

(* ================================================================================================ *)
(* 0 — small tools                                                                                    *)
(* ================================================================================================ *)

Definition orel (R : nat -> nat -> Prop) (o o' : option nat) : Prop :=
  match o, o' with
  | None, None => True
  | Some x, Some x' => R x x'
  | _, _ => False
  end.

(* the `child` expression of NodePointer::to_parent *)
Definition cchild (n : gnode) : option nat :=
  match g_kind n with
  | KDocument _ | KSection _ | KQuote | KBList | KOList => g_child n
  | _ => None
  end.

Lemma to_parent_S f a id :
  to_parent (S f) a id =
  match get a id with
  | None => Panic "arena index out of bounds"
  | Some n =>
      match prev_of n with
      | None => Ok None
      | Some p =>
          match get a p with
          | None => Panic "arena index out of bounds"
          | Some pn => if onat_eqb (cchild pn) (Some id) then Ok (Some p) else to_parent f a p
          end
      end
  end.
Proof. reflexivity. Qed.

Lemma graph_node_key_S f a id :
  graph_node_key (S f) a id =
  match get a id with
  | None => Panic "arena index out of bounds"
  | Some n =>
      match g_kind n with
      | KDocument k => Ok k
      | _ => match prev_of n with
             | Some p => graph_node_key f a p
             | None => Panic "to have a prev_id"
             end
      end
  end.
Proof. reflexivity. Qed.

Lemma paths_for_node_S filt f s id visited :
  paths_for_node filt (S f) s id visited =
  if mem id visited then Ok []
  else
    do k <- Paths.kind_at (gr_arena (gs_graph s)) id;
    match k with
    | KDocument key =>
        do refs <- path_refs filt s key;
        concat_res (map (fun r => do p <- parent_of (gr_arena (gs_graph s)) r;
                                  match p with
                                  | Some p => paths_for_node filt f s p (id :: visited)
                                  | None => Ok []
                                  end) refs)
    | KSection _ =>
        do p <- parent_of (gr_arena (gs_graph s)) id;
        do ps <- match p with
                 | Some p => paths_for_node filt f s p (id :: visited)
                 | None => Ok []
                 end;
        Ok (map (fun q => q ++ [id]) ps ++ [[id]])
    | _ => Ok []
    end.
Proof. reflexivity. Qed.

Lemma filter_res_all_ok {A} (f : A -> res bool) l ys :
  filter_res f l = Ok ys -> forall x, In x l -> exists b, f x = Ok b.
Proof.
  revert ys. induction l as [|y l IH]; intros ys H x Hx; [destruct Hx|].
  cbn in H. apply PathsFacts.bind_ok in H as [r [Hr H]]. apply PathsFacts.bind_ok in H as [b [Hb H]].
  destruct Hx as [<-|Hx]; [eauto | eapply IH; eauto].
Qed.

Lemma Forall2_app_one {A B} (Q : A -> B -> Prop) l l' x x' :
  Forall2 Q l l' -> Q x x' -> Forall2 Q (l ++ [x]) (l' ++ [x']).
Proof. intros H Hx. apply Forall2_app; [exact H | constructor; [exact Hx | constructor]]. Qed.

Lemma Forall2_swap {A B} (Q : A -> B -> Prop) (Q' : B -> A -> Prop) l m :
  Forall2 Q l m -> (forall x y, Q x y -> Q' y x) -> Forall2 Q' m l.
Proof. intros H F. induction H; constructor; auto. Qed.

Lemma Forall2_fun {A B} (Q : A -> B -> Prop) :
  (forall x y y', Q x y -> Q x y' -> y = y') ->
  forall l m m', Forall2 Q l m -> Forall2 Q l m' -> m = m'.
Proof.
  intros F l m m' H. revert m'. induction H as [|x y l m Hxy _ IH]; intros m' H'; inversion H'; subst; [reflexivity|].
  f_equal; [eapply F; eauto | now apply IH].
Qed.

Lemma Forall2_inj {A B} (Q : A -> B -> Prop) :
  (forall x x' y, Q x y -> Q x' y -> x = x') ->
  forall l l' m, Forall2 Q l m -> Forall2 Q l' m -> l = l'.
Proof.
  intros F l l' m H. revert l'. induction H as [|x y l m Hxy _ IH]; intros l' H'; inversion H'; subst; [reflexivity|].
  f_equal; [eapply F; eauto | now apply IH].
Qed.

(* a bijection between two duplicate-free lists that preserves an observation: the observations are
   the same multiset *)
Lemma perm_of_bijection {A A' B} (Q : A -> A' -> Prop) (g : A -> B) (g' : A' -> B) :
  (forall x y y', Q x y -> Q x y' -> y = y') ->
  (forall x x' y, Q x y -> Q x' y -> x = x') ->
  (forall x y, Q x y -> g x = g' y) ->
  forall l l', NoDup l -> NoDup l' ->
    (forall x, In x l -> exists y, In y l' /\ Q x y) ->
    (forall y, In y l' -> exists x, In x l /\ Q x y) ->
    Permutation (map g l) (map g' l').
Proof.
  intros Qf Qi Qg. induction l as [|x l IH]; intros l' ND ND' H1 H2.
  - destruct l' as [|y l']; [constructor|]. destruct (H2 y (or_introl eq_refl)) as (x & [] & _).
  - destruct (H1 x (or_introl eq_refl)) as (y & Hy & Hxy).
    apply in_split in Hy as (l1 & l2 & ->). rewrite map_app. cbn [map].
    rewrite (Qg _ _ Hxy). apply Permutation_cons_app. rewrite <- map_app.
    inversion ND as [|? ? Hx NDl]; subst.
    pose proof (NoDup_remove_1 _ _ _ ND') as ND1. pose proof (NoDup_remove_2 _ _ _ ND') as Hy.
    apply IH; auto.
    + intros x0 Hx0. destruct (H1 x0 (or_intror Hx0)) as (y0 & Hy0 & Hq). exists y0. split; [|exact Hq].
      apply in_app_iff in Hy0. apply in_app_iff. destruct Hy0 as [H|[<-|H]]; auto.
      exfalso. apply Hx. now rewrite (Qi _ _ _ Hxy Hq).
    + intros y0 Hy0. assert (Hin : In y0 (l1 ++ y :: l2)).
      { apply in_app_iff in Hy0. apply in_app_iff. destruct Hy0; [left | right; right]; assumption. }
      destruct (H2 y0 Hin) as (x0 & [<-|Hx0] & Hq); [|eauto].
      exfalso. apply Hy. now rewrite (Qf _ _ _ Hxy Hq).
Qed.

Lemma plt_irrefl p : ~ plt p p.
Proof. unfold plt. rewrite path_cmp_refl. discriminate. Qed.

Lemma sorted_plt_nodup l : StronglySorted plt l -> NoDup l.
Proof.
  induction 1 as [|x l _ IH Hx]; constructor; [|exact IH].
  intros Hin. rewrite Forall_forall in Hx. exact (plt_irrefl x (Hx x Hin)).
Qed.

(* ================================================================================================ *)
(* 1 — the simulation: an isomorphism of the live parts of two states carries the listing over       *)
(* ================================================================================================ *)

Section Sim.
  Variable R : nat -> nat -> Prop.
  Variables s s' : gstate.
  Let a := gr_arena (gs_graph s).
  Let a' := gr_arena (gs_graph s').

  Hypothesis Rfun : forall x y y', R x y -> R x y' -> y = y'.
  Hypothesis Rinj : forall x x' y, R x y -> R x' y -> x = x'.
  (* related ids are live nodes of the same kind, their prev and child links are related *)
  Hypothesis Hnode : forall x x', R x x' ->
    exists n n', get a x = Some n /\ get a' x' = Some n' /\ g_kind n = g_kind n' /\
      is_emptyk (g_kind n) = false /\
      orel R (prev_of n) (prev_of n') /\ orel R (g_child n) (g_child n').
  (* every live node of the first state has an image *)
  Hypothesis Htot : forall x n, get a x = Some n -> is_emptyk (g_kind n) = false -> exists x', R x x'.
  (* the block references of every key correspond *)
  Hypothesis Hrefs : forall k, exists l l', path_refs true s k = Ok l /\ path_refs true s' k = Ok l' /\
    (forall x, In x l -> exists x', In x' l' /\ R x x') /\
    (forall x', In x' l' -> exists x, In x l /\ R x x').
  Hypothesis B : bwd a.
  Hypothesis B' : bwd a'.

  Lemma R_lt x x' : R x x' -> x < length a /\ x' < length a'.
  Proof.
    intros H. destruct (Hnode x x' H) as (n & n' & Hg & Hg' & _).
    split; eapply ArenaFacts.get_lt; eauto.
  Qed.

  Lemma R_kind x x' : R x x' ->
    exists k, Paths.kind_at a x = Ok k /\ Paths.kind_at a' x' = Ok k /\ is_emptyk k = false.
  Proof.
    intros H. destruct (Hnode x x' H) as (n & n' & Hg & Hg' & Hk & He & _).
    exists (g_kind n). unfold Paths.kind_at. rewrite Hg, Hg', Hk. rewrite Hk in He. auto.
  Qed.

  Lemma cchild_rel n n' : g_kind n = g_kind n' -> orel R (g_child n) (g_child n') -> orel R (cchild n) (cchild n').
  Proof. intros Hk Hc. unfold cchild. rewrite Hk. destruct (g_kind n'); cbn; auto. Qed.

  Lemma onat_eqb_rel c c' x x' : orel R c c' -> R x x' -> onat_eqb c (Some x) = onat_eqb c' (Some x').
  Proof.
    intros Hc Hx. destruct c as [y|], c' as [y'|]; cbn in Hc; try contradiction; [|reflexivity].
    unfold onat_eqb, option_eqb. destruct (Nat.eqb y x) eqn:E.
    - apply Nat.eqb_eq in E. subst y. rewrite (Rfun _ _ _ Hc Hx). symmetry. apply Nat.eqb_refl.
    - destruct (Nat.eqb y' x') eqn:E'; [|reflexivity]. apply Nat.eqb_eq in E'. subst y'.
      apply Nat.eqb_neq in E. exfalso. apply E. eapply Rinj; eauto.
  Qed.

  Lemma mem_rel x x' vis vis' : R x x' -> Forall2 R vis vis' -> mem x vis = mem x' vis'.
  Proof.
    intros Hx H. induction H as [|y y' l l' Hy _ IH]; [reflexivity|].
    unfold mem in *. cbn [existsb]. rewrite IH. f_equal.
    destruct (Nat.eqb x y) eqn:E.
    - apply Nat.eqb_eq in E. subst y. rewrite (Rfun _ _ _ Hx Hy). symmetry. apply Nat.eqb_refl.
    - destruct (Nat.eqb x' y') eqn:E'; [|reflexivity]. apply Nat.eqb_eq in E'. subst y'.
      apply Nat.eqb_neq in E. exfalso. apply E. eapply Rinj; eauto.
  Qed.

  (* NodePointer::to_parent *)
  Lemma to_parent_sim : forall f f' x x', R x x' -> x < f -> x' < f' ->
    exists po po', to_parent f a x = Ok po /\ to_parent f' a' x' = Ok po' /\ orel R po po'.
  Proof.
    induction f as [|f IH]; intros f' x x' Hx Hf Hf'; [lia|]. destruct f' as [|f']; [lia|].
    rewrite !to_parent_S. destruct (Hnode x x' Hx) as (n & n' & Hg & Hg' & _ & _ & Hp & _).
    rewrite Hg, Hg'. destruct (prev_of n) as [p|] eqn:Ep, (prev_of n') as [p'|] eqn:Ep'; cbn in Hp; try contradiction.
    - destruct (Hnode p p' Hp) as (pn & pn' & Hgp & Hgp' & Hkp & _ & _ & Hcp).
      rewrite Hgp, Hgp'. rewrite (onat_eqb_rel _ _ x x' (cchild_rel _ _ Hkp Hcp) Hx).
      destruct (onat_eqb (cchild pn') (Some x')).
      + exists (Some p), (Some p'). auto.
      + pose proof (B _ _ _ Hg Ep). pose proof (B' _ _ _ Hg' Ep'). apply IH; auto; lia.
    - exists None, None. cbn. auto.
  Qed.

  Lemma parent_of_sim x x' : R x x' ->
    exists po po', parent_of a x = Ok po /\ parent_of a' x' = Ok po' /\ orel R po po' /\
      (forall p, po = Some p -> p < x) /\ (forall p', po' = Some p' -> p' < x').
  Proof.
    intros Hx. destruct (R_lt _ _ Hx) as [Hl Hl'].
    destruct (to_parent_sim (nav_fuel a) (nav_fuel a') x x' Hx) as (po & po' & E & E' & Hr);
      try (unfold nav_fuel; lia).
    exists po, po'. unfold parent_of. repeat split; auto.
    - destruct (parent_of_ok a x B Hl) as (r & Er & Hr'). unfold parent_of in Er. rewrite E in Er. injection Er as <-. exact Hr'.
    - destruct (parent_of_ok a' x' B' Hl') as (r & Er & Hr'). unfold parent_of in Er. rewrite E' in Er. injection Er as <-. exact Hr'.
  Qed.

  (* NodePointer::is_in_list *)
  Lemma is_in_list_sim : forall f f' x x', R x x' -> x < f -> x' < f' ->
    exists b, is_in_list f a x = Ok b /\ is_in_list f' a' x' = Ok b.
  Proof.
    induction f as [|f IH]; intros f' x x' Hx Hf Hf'; [lia|]. destruct f' as [|f']; [lia|].
    rewrite !is_in_list_S. destruct (R_kind _ _ Hx) as (k & -> & -> & _). cbn [bind].
    destruct (is_listk k); [eauto|]. destruct (is_documentk k); [eauto|].
    destruct (parent_of_sim _ _ Hx) as (po & po' & -> & -> & Hr & Hlt & Hlt'). cbn [bind].
    destruct po as [p|], po' as [p'|]; cbn in Hr; try contradiction; [|eauto].
    specialize (Hlt p eq_refl). specialize (Hlt' p' eq_refl). apply IH; auto; lia.
  Qed.

  (* Graph::node_key *)
  Lemma graph_node_key_sim : forall f f' x x', R x x' -> x < f -> x' < f' ->
    graph_node_key f a x = graph_node_key f' a' x'.
  Proof.
    induction f as [|f IH]; intros f' x x' Hx Hf Hf'; [lia|]. destruct f' as [|f']; [lia|].
    rewrite !graph_node_key_S. destruct (Hnode x x' Hx) as (n & n' & Hg & Hg' & Hk & _ & Hp & _).
    rewrite Hg, Hg', Hk.
    destruct (prev_of n) as [p|] eqn:Ep, (prev_of n') as [p'|] eqn:Ep'; cbn in Hp; try contradiction.
    - pose proof (B _ _ _ Hg Ep). pose proof (B' _ _ _ Hg' Ep').
      rewrite (IH f' p p' Hp) by lia. reflexivity.
    - reflexivity.
  Qed.

  (* paths_for_node, cycle guard included: every path found here has an image found there *)
  Lemma paths_for_node_sim : forall f f' x x' vis vis' ps ps',
    R x x' -> Forall2 R vis vis' ->
    paths_for_node true f s x vis = Ok ps -> paths_for_node true f' s' x' vis' = Ok ps' ->
    forall p, In p ps -> exists p', In p' ps' /\ Forall2 R p p'.
  Proof.
    induction f as [|f IH]; intros f' x x' vis vis' ps ps' Hx Hv H H' p Hp; [discriminate|].
    destruct f' as [|f']; [discriminate|].
    rewrite paths_for_node_S in H, H'. fold a in H. fold a' in H'.
    rewrite <- (mem_rel _ _ _ _ Hx Hv) in H'.
    destruct (mem x vis); [injection H as <-; destruct Hp|].
    destruct (R_kind _ _ Hx) as (k & Ek & Ek' & _). rewrite Ek in H. rewrite Ek' in H'. cbn [bind] in H, H'.
    assert (Hv2 : Forall2 R (x :: vis) (x' :: vis')) by (constructor; assumption).
    destruct k; try (injection H as <-; destruct Hp).
    - (* Document *)
      destruct (Hrefs key) as (l & l' & El & El' & Hl & _). rewrite El in H. rewrite El' in H'. cbn [bind] in H, H'.
      destruct (concat_res_In _ _ _ H Hp) as (xs & Hin & Hpx).
      apply in_map_iff in Hin as (r & Hr & Hrin).
      destruct (Hl r Hrin) as (r' & Hrin' & Hrr).
      destruct (concat_res_mem _ _ _ H' (in_map _ _ _ Hrin')) as (xs' & Hr' & Hincl).
      destruct (parent_of_sim _ _ Hrr) as (po & po' & E & E' & Hpo & _). rewrite E in Hr. rewrite E' in Hr'.
      cbn [bind] in Hr, Hr'.
      destruct po as [q|], po' as [q'|]; cbn in Hpo; try contradiction; [|injection Hr as <-; destruct Hpx].
      destruct (IH _ _ _ _ _ _ _ Hpo Hv2 Hr Hr' p Hpx) as (p' & Hp' & Hpp). exists p'. split; [now apply Hincl | exact Hpp].
    - (* Section *)
      destruct (parent_of_sim _ _ Hx) as (po & po' & E & E' & Hpo & _). rewrite E in H. rewrite E' in H'.
      cbn [bind] in H, H'.
      apply PathsFacts.bind_ok in H as (ps0 & H0 & H). injection H as <-.
      apply PathsFacts.bind_ok in H' as (ps0' & H0' & H'). injection H' as <-.
      apply in_app_iff in Hp as [Hp|[<-|[]]].
      + apply in_map_iff in Hp as (q & <- & Hq).
        destruct po as [y|], po' as [y'|]; cbn in Hpo; try contradiction; [|injection H0 as <-; destruct Hq].
        destruct (IH _ _ _ _ _ _ _ Hpo Hv2 H0 H0' q Hq) as (q' & Hq' & Hqq).
        exists (q' ++ [x']). split; [|now apply Forall2_app_one].
        apply in_app_iff. left. apply in_map_iff. eauto.
      + exists [x']. split; [apply in_app_iff; right; now left | constructor; [exact Hx | constructor]].
  Qed.

  (* the filter on the first id of a path *)
  Lemma root_ok_sim p p' : Forall2 R p p' -> root_ok true s p = root_ok true s' p'.
  Proof.
    intros H. destruct H as [|x x' r r' Hx _]; [reflexivity|]. unfold root_ok. fold a a'.
    destruct (R_lt _ _ Hx) as [Hl Hl'].
    rewrite (graph_node_key_sim (nav_fuel a) (nav_fuel a') x x' Hx) by (unfold nav_fuel; lia).
    destruct (graph_node_key (nav_fuel a') a' x') as [key|]; [|reflexivity]. cbn [bind].
    destruct (Hrefs key) as (l & l' & -> & -> & Hl1 & Hl2). cbn [bind].
    destruct l as [|y l], l' as [|y' l']; try reflexivity.
    - destruct (parent_of_sim _ _ Hx) as (po & po' & -> & -> & Hpo & _). cbn [bind].
      destruct po as [d|], po' as [d'|]; cbn in Hpo; try contradiction; [|reflexivity].
      destruct (R_kind _ _ Hpo) as (k & -> & -> & _). reflexivity.
    - destruct (Hl2 y' (or_introl eq_refl)) as (? & [] & _).
    - destruct (Hl1 y (or_introl eq_refl)) as (? & [] & _).
  Qed.

  (* graph_to_paths: every listed path has an image in the other listing *)
  Theorem graph_to_paths_sim ps ps' :
    graph_to_paths true s = Ok ps -> graph_to_paths true s' = Ok ps' ->
    forall p, In p ps -> exists p', In p' ps' /\ Forall2 R p p'.
  Proof.
    unfold graph_to_paths. fold a a'. intros H H' p Hp.
    apply PathsFacts.bind_ok in H as (starts & Hst & H). apply PathsFacts.bind_ok in H as (all & Hall & H).
    apply PathsFacts.bind_ok in H as (kept & Hkept & H). injection H as <-.
    apply PathsFacts.bind_ok in H' as (starts' & Hst' & H'). apply PathsFacts.bind_ok in H' as (all' & Hall' & H').
    apply PathsFacts.bind_ok in H' as (kept' & Hkept' & H'). injection H' as <-.
    apply (proj1 (sort_paths_iff _ _)) in Hp. destruct (filter_res_In _ _ _ _ Hkept Hp) as [Hin Hroot].
    destruct (concat_res_In _ _ _ Hall Hin) as (xs & Hxs & Hpx).
    apply in_map_iff in Hxs as (x & Hx & Hxin).
    (* the start node and its image *)
    destruct (filter_res_In _ _ _ _ Hst Hxin) as [Hseq Hfx].
    apply PathsFacts.bind_ok in Hfx as (k & Hk & Hfx).
    unfold Paths.kind_at in Hk. destruct (get a x) as [n|] eqn:Hg; [|discriminate]. injection Hk as <-.
    destruct (is_emptyk (g_kind n)) eqn:He; [discriminate|].
    apply PathsFacts.bind_ok in Hfx as (il & Hil & Hfx). injection Hfx as Hfx.
    destruct (Htot x n Hg He) as (x' & Hxx). destruct (R_lt _ _ Hxx) as [Hl Hl'].
    assert (Hxin' : In x' starts').
    { eapply filter_res_mem; [exact Hst' | apply in_seq; lia |].
      destruct (R_kind _ _ Hxx) as (k & _ & -> & Hke). cbn [bind]. rewrite Hke.
      destruct (is_in_list_sim (nav_fuel a) (nav_fuel a') x x' Hxx) as (b & Eb & ->); try (unfold nav_fuel; lia).
      rewrite Eb in Hil. injection Hil as ->. cbn [bind]. now rewrite Hfx. }
    destruct (concat_res_mem _ _ _ Hall' (in_map _ _ _ Hxin')) as (xs' & Hx' & Hincl).
    destruct (paths_for_node_sim _ _ _ _ _ _ _ _ Hxx (Forall2_nil R) Hx Hx' p Hpx) as (p' & Hp' & Hpp).
    exists p'. split; [|exact Hpp].
    apply sort_paths_iff. eapply filter_res_mem; [exact Hkept' | now apply Hincl |].
    now rewrite <- (root_ok_sim _ _ Hpp).
  Qed.

  (* related paths read the same texts *)
  Lemma texts_of_sim p p' : Forall2 R p p' -> texts_of a p = texts_of a' p'.
  Proof.
    induction 1 as [|x x' r r' Hx _ IH]; [reflexivity|]. unfold texts_of in *. cbn [fold_right].
    rewrite IH. unfold get_text. destruct (R_kind _ _ Hx) as (k & -> & -> & _). reflexivity.
  Qed.
End Sim.

(* ================================================================================================ *)
(* 2 — two layouts of one tree agree up to the shift of the ids                                      *)
(* ================================================================================================ *)

(* [o] and [o'] are the same offset inside two ranges of length [sz] that start at [r] and [r'] *)
Definition sh (r r' sz : nat) (o o' : option nat) : Prop :=
  (o = None /\ o' = None) \/ exists j, j < sz /\ o = Some (r + j) /\ o' = Some (r' + j).

(* slot r+i of [a] and slot r'+i of [a']: the same live kind, child and next at the same offsets
   (the next link of the outermost root is whatever the layouts were given: [nx], [nx']) *)
Definition slot2 (a a' : arena) (r r' sz : nat) (nx nx' : option nat) (i : nat) : Prop :=
  exists n n', get a (r + i) = Some n /\ get a' (r' + i) = Some n' /\ g_kind n = g_kind n' /\
    is_emptyk (g_kind n) = false /\ sh r r' sz (g_child n) (g_child n') /\
    (sh r r' sz (g_next n) (g_next n') \/ (g_next n = nx /\ g_next n' = nx')).

Lemma sh_weaken r r' d sz SZ o o' : sh (r + d) (r' + d) sz o o' -> d + sz <= SZ -> sh r r' SZ o o'.
Proof.
  intros [H|(j & Hj & -> & ->)] Hle; [now left|]. right. exists (d + j).
  split; [lia|]. split; f_equal; lia.
Qed.

Lemma slot2_weaken a a' r r' d sz SZ nx nx' i :
  slot2 a a' (r + d) (r' + d) sz nx nx' i -> d + sz <= SZ -> slot2 a a' r r' SZ nx nx' (d + i).
Proof.
  intros (n & n' & Hg & Hg' & Hk & He & Hc & Hn) Hle. exists n, n'.
  rewrite !Nat.add_assoc. repeat split; auto; [eapply sh_weaken; eauto|].
  destruct Hn as [Hn|Hn]; [left; eapply sh_weaken; eauto | now right].
Qed.

Lemma slot2_none a a' r r' sz nx nx' i : slot2 a a' r r' sz None None i -> slot2 a a' r r' sz nx nx' i.
Proof.
  intros (n & n' & Hg & Hg' & Hk & He & Hc & Hn). exists n, n'. repeat split; auto.
  left. destruct Hn as [Hn|Hn]; [exact Hn | now left].
Qed.

Lemma kind_node_inj k k' nd : kind_node k = Some nd -> kind_node k' = Some nd -> k = k'.
Proof. destruct k, k'; cbn; intros H H'; try discriminate; congruence. Qed.

Lemma kind_node_live k nd : kind_node k = Some nd -> is_emptyk k = false.
Proof. destruct k; cbn; intros; try reflexivity; discriminate. Qed.

Lemma fsz_pos ts : ts <> [] -> 1 <= fsz ts.
Proof. destruct ts as [|x r]; [congruence|]. intros _. cbn [fsz]. pose proof (tsz_pos x). lia. Qed.

Section Laid2.
  Variables a a' : arena.

  Lemma laid2 t : forall id id' nx nx', laid a t id nx -> laid a' t id' nx' ->
    forall i, i < tsz t -> slot2 a a' id id' (tsz t) nx nx' i.
  Proof.
    induction t as [i0 nd ts IH] using tree_ind'. intros id id' nx nx' H H' i Hi.
    apply laid_T in H as (n & Hg & Hk & Hn & Hc & Hf). apply laid_T in H' as (n' & Hg' & Hk' & Hn' & Hc' & Hf').
    rewrite tsz_T in *.
    assert (G : forall k k' fin fin', laidf a ts k fin -> laidf a' ts k' fin' ->
              forall i, i < fsz ts -> slot2 a a' k k' (fsz ts) fin fin' i).
    { clear Hf Hf' Hc Hc' Hi i. induction ts as [|x r IHr]; intros k k' fin fin' Hl Hl' i Hi; cbn [fsz] in Hi; [lia|].
      inversion IH as [|? ? Hx Hr]; subst. rewrite laidf_cons in Hl, Hl'. destruct Hl as [H1 H2], Hl' as [H1' H2'].
      cbn [fsz]. destruct (Nat.lt_ge_cases i (tsz x)) as [Hlt|Hge].
      - destruct (Hx _ _ _ _ H1 H1' i Hlt) as (m & m' & Hm & Hm' & Hmk & Hme & Hmc & Hmn).
        exists m, m'. repeat split; auto.
        + apply (sh_weaken k k' 0 (tsz x)); [now rewrite !Nat.add_0_r | lia].
        + destruct Hmn as [Hmn|[E E']].
          * left. apply (sh_weaken k k' 0 (tsz x)); [now rewrite !Nat.add_0_r | lia].
          * destruct r as [|y r]; [right; auto|]. left. right. exists (tsz x).
            pose proof (fsz_pos (y :: r) ltac:(discriminate)). split; [lia | auto].
      - replace i with (tsz x + (i - tsz x)) by lia.
        apply slot2_weaken with (sz := fsz r); [|lia]. apply (IHr Hr); auto. lia. }
    destruct i as [|i].
    - exists n, n'. rewrite !Nat.add_0_r. repeat split; auto.
      + eapply kind_node_inj; eauto.
      + eapply kind_node_live; eauto.
      + rewrite Hc, Hc'. destruct ts as [|x r]; [now left|]. right. exists 1.
        pose proof (fsz_pos (x :: r) ltac:(discriminate)). split; [lia|]. split; f_equal; lia.
    - apply slot2_none. change (S i) with (1 + i). apply slot2_weaken with (sz := fsz ts); [|lia].
      replace (id + 1) with (S id) by lia. replace (id' + 1) with (S id') by lia.
      apply (G _ _ None None); auto. lia.
  Qed.
End Laid2.

(* every slot of a layout but the root is the target of a child or next link from an earlier slot of it *)
Definition pointed (a : arena) (lo x : nat) : Prop :=
  exists j pn, lo <= j < x /\ get a j = Some pn /\ (g_child pn = Some x \/ g_next pn = Some x).

Lemma pointed_weaken a lo lo' x : pointed a lo x -> lo' <= lo -> pointed a lo' x.
Proof. intros (j & pn & Hj & H) Hle. exists j, pn. split; [lia | exact H]. Qed.

Lemma laid_pointed a t : forall id nx, laid a t id nx -> forall x, id < x < id + tsz t -> pointed a id x.
Proof.
  induction t as [i0 nd ts IH] using tree_ind'. intros id nx H x Hx.
  apply laid_T in H as (n & Hg & Hk & Hn & Hc & Hf). rewrite tsz_T in Hx.
  assert (G : forall k fin, laidf a ts k fin -> forall x, k < x < k + fsz ts -> pointed a k x).
  { clear Hf Hc Hx x. induction ts as [|y r IHr]; intros k fin Hl x Hx; cbn [fsz] in Hx; [lia|].
    inversion IH as [|? ? Hy Hr]; subst. rewrite laidf_cons in Hl. destruct Hl as [H1 H2].
    destruct (Nat.lt_trichotomy x (k + tsz y)) as [Hlt|[->|Hgt]].
    - eapply Hy; eauto. lia.
    - destruct (laid_root _ _ _ _ H1) as (m & Hm & Hmn & _).
      destruct r as [|z r]; [cbn [fsz] in Hx; lia|]. exists k, m. pose proof (tsz_pos y). split; [lia|]. auto.
    - eapply pointed_weaken; [eapply (IHr Hr); eauto; lia | lia]. }
  destruct (Nat.eq_dec x (S id)) as [->|Hne].
  - exists id, n. split; [lia|]. split; [exact Hg|]. left. rewrite Hc.
    destruct ts; [cbn [fsz] in Hx; lia | reflexivity].
  - eapply pointed_weaken; [eapply (G (S id) None); eauto; lia | lia].
Qed.

Lemma prev_of_live n : is_dock (g_kind n) = false -> is_emptyk (g_kind n) = false -> prev_of n = g_prev n.
Proof. unfold prev_of. destruct (g_kind n); intros; try reflexivity; discriminate. Qed.

(* in two well-formed arenas the prev links of the two layouts sit at the same offset *)
Lemma laid2_prev a a' t r r' :
  arena_ok a = true -> arena_ok a' = true -> laid a t r None -> laid a' t r' None ->
  forall i, 0 < i < tsz t ->
    exists j n n', j < i /\ get a (r + i) = Some n /\ get a' (r' + i) = Some n' /\
                   prev_of n = Some (r + j) /\ prev_of n' = Some (r' + j).
Proof.
  intros Hok Hok' H H' i Hi.
  destruct (laid_pointed a t r None H (r + i) ltac:(lia)) as (jj & pn & Hjj & Hg & Hlink).
  assert (Ej : jj = r + (jj - r)) by lia. set (j := jj - r) in *. rewrite Ej in *. clear Ej.
  destruct (laid2 a a' t r r' None None H H' j ltac:(lia)) as (m & m' & Hm & Hm' & Hmk & Hme & Hmc & Hmn).
  rewrite Hg in Hm. injection Hm as <-.
  assert (Hlink' : g_child m' = Some (r' + i) \/ g_next m' = Some (r' + i)).
  { destruct Hlink as [Hc|Hn].
    - left. destruct Hmc as [[E _]|(j2 & _ & E & E')]; [congruence|]. rewrite Hc in E. injection E as E.
      rewrite E'. f_equal. lia.
    - right. destruct Hmn as [[[E _]|(j2 & _ & E & E')]|[E _]]; try congruence. rewrite Hn in E. injection E as E.
      rewrite E'. f_equal. lia. }
  assert (Hme' : is_emptyk (g_kind m') = false) by (now rewrite <- Hmk).
  destruct (link_down a Hok _ _ _ Hg Hme Hlink) as (_ & cn & Hcn & Hce & Hcp).
  destruct (link_down a' Hok' _ _ _ Hm' Hme' Hlink') as (_ & cn' & Hcn' & Hce' & Hcp').
  destruct (link_up a Hok _ _ _ Hcn Hce Hcp) as (Hd & _). destruct (link_up a' Hok' _ _ _ Hcn' Hce' Hcp') as (Hd' & _).
  exists j, cn, cn'. split; [lia|]. rewrite (prev_of_live _ Hd Hce), (prev_of_live _ Hd' Hce'). auto.
Qed.

(* ================================================================================================ *)
(* 3 — positions: every live node is the i-th node (pre-order) of exactly one note                    *)
(* ================================================================================================ *)

Section One.
  Variable g : graph.
  Variable f : spec.
  Hypothesis Hinv : tree_inv g f.
  Let a := gr_arena g.

  Definition pos (x : nat) (k : string) (i : nat) : Prop :=
    exists m bs root, f k = Some (m, bs) /\ alookup k (gr_keys g) = Some root /\
                      i < tsz (spec_tree k bs) /\ x = root + i.

  Lemma inv_ok : arena_ok a = true.
  Proof. destruct Hinv as [[Hwf _] _]. now apply wf_b_spec in Hwf as (Hok & _). Qed.

  Lemma note_laid k m bs root : f k = Some (m, bs) -> alookup k (gr_keys g) = Some root ->
    laid a (spec_tree k bs) root None.
  Proof.
    intros Hf Hr. destruct Hinv as [_ Hn]. specialize (Hn k). rewrite Hf in Hn.
    destruct Hn as (root' & Hr' & Hl & _). rewrite Hr in Hr'. now injection Hr' as <-.
  Qed.

  Lemma note_root k m bs : f k = Some (m, bs) -> exists root, alookup k (gr_keys g) = Some root.
  Proof.
    intros Hf. destruct Hinv as [_ Hn]. specialize (Hn k). rewrite Hf in Hn. destruct Hn as (root & Hr & _). eauto.
  Qed.

  Lemma root_doc k m bs root : f k = Some (m, bs) -> alookup k (gr_keys g) = Some root ->
    exists n, get a root = Some n /\ g_kind n = KDocument k.
  Proof.
    intros Hf Hr. destruct (laid_root _ _ _ _ (note_laid _ _ _ _ Hf Hr)) as (n & Hg & _ & Hk).
    exists n. split; [exact Hg|]. unfold spec_tree, note_tree in Hk. cbn [t_node] in Hk.
    destruct (g_kind n); cbn in Hk; try discriminate. now injection Hk as ->.
  Qed.

  Lemma pos_inj x y k i : pos x k i -> pos y k i -> x = y.
  Proof.
    intros (m & bs & root & Hf & Hr & _ & ->) (m2 & bs2 & root2 & Hf2 & Hr2 & _ & ->). congruence.
  Qed.

  (* the ranges of two notes share no slot *)
  Lemma pos_fun x k i k2 i2 : pos x k i -> pos x k2 i2 -> k = k2 /\ i = i2.
  Proof.
    intros (m & bs & root & Hf & Hr & Hi & Ex) (m2 & bs2 & root2 & Hf2 & Hr2 & Hi2 & Ex2).
    pose proof inv_ok as Hok.
    pose proof (laid_desc a Hok _ _ _ (note_laid _ _ _ _ Hf Hr) x ltac:(lia)) as D.
    pose proof (laid_desc a Hok _ _ _ (note_laid _ _ _ _ Hf2 Hr2) x ltac:(lia)) as D2.
    destruct (root_doc _ _ _ _ Hf Hr) as (n & Hg & Hk). destruct (root_doc _ _ _ _ Hf2 Hr2) as (n2 & Hg2 & Hk2).
    assert (E : root = root2).
    { destruct (Nat.eq_dec root root2) as [E|Hne]; [exact E|]. exfalso.
      eapply (roots_disjoint a root root2 n n2 x); eauto; [now rewrite Hk | now rewrite Hk2]. }
    subst root2. rewrite Hg in Hg2. injection Hg2 as <-. rewrite Hk in Hk2. injection Hk2 as <-.
    split; [reflexivity | lia].
  Qed.

  (* the child and next links of a note's slot stay inside the note *)
  Lemma pos_links p k j pn c : pos p k j -> get a p = Some pn ->
    (g_child pn = Some c \/ g_next pn = Some c) -> exists i, pos c k i.
  Proof.
    intros (m & bs & root & Hf & Hr & Hj & ->) Hg Hc.
    pose proof (note_laid _ _ _ _ Hf Hr) as Hl.
    destruct (laid2 a a _ _ _ _ _ Hl Hl j Hj) as (n & n' & Hn & _ & _ & _ & Hch & Hnx).
    rewrite Hg in Hn. injection Hn as <-.
    assert (S : exists i, i < tsz (spec_tree k bs) /\ c = root + i).
    { destruct Hc as [Hc|Hc].
      - destruct Hch as [[E _]|(i & Hi & E & _)]; [congruence|]. exists i. split; [exact Hi | congruence].
      - destruct Hnx as [[[E _]|(i & Hi & E & _)]|[E _]]; try congruence. exists i. split; [exact Hi | congruence]. }
    destruct S as (i & Hi & ->). exists i, m, bs, root. auto.
  Qed.

  (* no orphans: every live slot belongs to a note *)
  Lemma pos_total : forall x n, get a x = Some n -> is_emptyk (g_kind n) = false -> exists k i, pos x k i.
  Proof.
    pose proof inv_ok as Hok. destruct Hinv as [[Hwf Hnd] Hnotes].
    apply wf_b_spec in Hwf as (_ & Hkeys & _ & Hdocs).
    induction x as [x IH] using lt_wf_ind. intros n Hg He.
    destruct (is_dock (g_kind n)) eqn:Hd.
    - destruct (Hdocs x n Hg Hd) as ([k root] & Hin & Ex). cbn [snd] in Ex. subst root.
      pose proof (alookup_NoDup k (gr_keys g) x Hnd Hin) as Hr.
      specialize (Hnotes k). destruct (f k) as [[m bs]|] eqn:Hf; cbn [note_ok] in Hnotes; [|congruence].
      exists k, 0, m, bs, x. pose proof (tsz_pos (spec_tree k bs)). repeat split; auto; lia.
    - destruct (node_ok_prev a x n (proj1 (arena_ok_spec a) Hok x n Hg) He Hd) as (p & pn & Hp & Hlt & Hgp & Hpe).
      destruct (IH p Hlt pn Hgp Hpe) as (k & j & Hpos).
      destruct (link_up a Hok x n p Hg He Hp) as (_ & _ & pn' & Hgp' & _ & Hlink & _).
      rewrite Hgp in Hgp'. injection Hgp' as <-.
      destruct (pos_links p k j pn x Hpos Hgp) as (i & Hi); [tauto|]. eauto.
  Qed.
End One.

(* ================================================================================================ *)
(* 4 — two graphs that hold the same final blocks: "same note, same pre-order index"                 *)
(* ================================================================================================ *)

(* the final blocks of a note (the outline does not read the metadata) *)
Definition blocks_of (f : spec) (k : string) : option (list dblock) := option_map snd (f k).

Definition same_pos (g : graph) (f : spec) (g' : graph) (f' : spec) (x x' : nat) : Prop :=
  exists k i, pos g f x k i /\ pos g' f' x' k i.

Lemma same_pos_flip g f g' f' x x' : same_pos g f g' f' x x' -> same_pos g' f' g f x' x.
Proof. intros (k & i & H & H'). exists k, i. auto. Qed.

Section Two.
  Variables g g' : graph.
  Variables f f' : spec.
  Hypothesis Hinv : tree_inv g f.
  Hypothesis Hinv' : tree_inv g' f'.
  Hypothesis Hff : forall k, blocks_of f k = blocks_of f' k.
  Let a := gr_arena g.
  Let a' := gr_arena g'.
  Let R := same_pos g f g' f'.

  Lemma R_fun x y y' : R x y -> R x y' -> y = y'.
  Proof.
    intros (k & i & H & H') (k2 & i2 & H2 & H2'). destruct (pos_fun g f Hinv x k i k2 i2 H H2) as [<- <-].
    eapply pos_inj; eauto.
  Qed.

  Lemma pos_other x k i : pos g f x k i -> exists x', pos g' f' x' k i.
  Proof.
    intros (m & bs & root & Hf & Hr & Hi & ->). pose proof (Hff k) as E. unfold blocks_of in E. rewrite Hf in E.
    destruct (f' k) as [[m' bs']|] eqn:Hf'; cbn in E; [|discriminate]. injection E as <-.
    destruct (note_root g' f' Hinv' k m' bs Hf') as (root' & Hr').
    exists (root' + i), m', bs, root'. auto.
  Qed.

  Lemma R_total x n : get a x = Some n -> is_emptyk (g_kind n) = false -> exists x', R x x'.
  Proof.
    intros Hg He. destruct (pos_total g f Hinv x n Hg He) as (k & i & H).
    destruct (pos_other x k i H) as (x' & H'). exists x', k, i. auto.
  Qed.

  Lemma R_node x x' : R x x' ->
    exists n n', get a x = Some n /\ get a' x' = Some n' /\ g_kind n = g_kind n' /\
      is_emptyk (g_kind n) = false /\
      orel R (prev_of n) (prev_of n') /\ orel R (g_child n) (g_child n').
  Proof.
    intros (k & i & (m & bs & root & Hf & Hr & Hi & ->) & (m' & bs' & root' & Hf' & Hr' & Hi' & ->)).
    pose proof (Hff k) as E. unfold blocks_of in E. rewrite Hf, Hf' in E. cbn in E. injection E as <-.
    pose proof (note_laid g f Hinv _ _ _ _ Hf Hr) as Hl. pose proof (note_laid g' f' Hinv' _ _ _ _ Hf' Hr') as Hl'.
    fold a in Hl. fold a' in Hl'.
    assert (Hpos : forall j, j < tsz (spec_tree k bs) -> R (root + j) (root' + j)).
    { intros j Hj. exists k, j. split; [exists m, bs, root | exists m', bs, root']; auto. }
    destruct (laid2 a a' _ _ _ _ _ Hl Hl' i Hi) as (n & n' & Hg & Hg' & Hk & He & Hc & _).
    exists n, n'. repeat split; auto.
    - destruct i as [|i].
      + destruct (root_doc g f Hinv _ _ _ _ Hf Hr) as (n0 & Hg0 & Hk0). fold a in Hg0.
        rewrite Nat.add_0_r in Hg. rewrite Hg0 in Hg. injection Hg as <-.
        unfold prev_of. rewrite <- Hk, Hk0. exact I.
      + destruct (laid2_prev a a' _ root root' (inv_ok g f Hinv) (inv_ok g' f' Hinv') Hl Hl' (S i) ltac:(lia))
          as (j & m0 & m0' & Hj & Hm0 & Hm0' & Hp & Hp').
        rewrite Hg in Hm0. injection Hm0 as <-. rewrite Hg' in Hm0'. injection Hm0' as <-.
        rewrite Hp, Hp'. apply Hpos. lia.
    - destruct Hc as [[-> ->]|(j & Hj & -> & ->)]; [exact I | now apply Hpos].
  Qed.
End Two.

(* ================================================================================================ *)
(* 5 — states: the listings of two states with the same final blocks                                 *)
(* ================================================================================================ *)

Lemma Inv_path_refs s k : Inv s -> path_refs true s k = Ok (exact_refs (arena_of s) k).
Proof. intros (_ & _ & HI). unfold path_refs. exact (proj1 (getters_exact s HI k)). Qed.

Lemma graph_to_paths_nodup filt s ps : graph_to_paths filt s = Ok ps -> NoDup ps.
Proof.
  unfold graph_to_paths. intros H.
  apply PathsFacts.bind_ok in H as (starts & _ & H). apply PathsFacts.bind_ok in H as (all & _ & H).
  apply PathsFacts.bind_ok in H as (kept & _ & H). injection H as <-.
  apply sorted_plt_nodup, sort_paths_sorted.
Qed.

Section States.
  Variables s s' : gstate.
  Variables f f' : spec.
  Hypothesis HI : Inv s.
  Hypothesis HI' : Inv s'.
  Hypothesis Ht : tree_inv (gs_graph s) f.
  Hypothesis Ht' : tree_inv (gs_graph s') f'.
  Hypothesis Hff : forall k, blocks_of f k = blocks_of f' k.

  Let R := same_pos (gs_graph s) f (gs_graph s') f'.

  Lemma refs_rel k : exists l l', path_refs true s k = Ok l /\ path_refs true s' k = Ok l' /\
    (forall x, In x l -> exists x', In x' l' /\ R x x') /\
    (forall x', In x' l' -> exists x, In x l /\ R x x').
  Proof.
    exists (exact_refs (arena_of s) k), (exact_refs (arena_of s') k).
    split; [now apply Inv_path_refs|]. split; [now apply Inv_path_refs|]. split.
    - intros x Hx. apply exact_refs_In in Hx. destruct Hx as (n & t & rt & Hg & Hk).
      destruct (R_total _ _ f f' Ht Ht' Hff x n Hg) as (x' & Hxx); [now rewrite Hk|].
      exists x'. split; [|exact Hxx]. apply exact_refs_In.
      destruct (R_node _ _ f f' Ht Ht' Hff x x' Hxx) as (m & m' & Hm & Hm' & Hmk & _).
      unfold arena_of in Hg. rewrite Hg in Hm. injection Hm as <-.
      exists m', t, rt. split; [exact Hm' | now rewrite <- Hmk].
    - intros x' Hx'. apply exact_refs_In in Hx'. destruct Hx' as (n' & t & rt & Hg' & Hk').
      assert (Hff' : forall k, blocks_of f' k = blocks_of f k) by (intros; symmetry; apply Hff).
      destruct (R_total _ _ f' f Ht' Ht Hff' x' n' Hg') as (x & Hxx); [now rewrite Hk'|].
      apply same_pos_flip in Hxx. exists x. split; [|exact Hxx]. apply exact_refs_In.
      destruct (R_node _ _ f f' Ht Ht' Hff x x' Hxx) as (m & m' & Hm & Hm' & Hmk & _).
      unfold arena_of in Hg'. rewrite Hg' in Hm'. injection Hm' as <-.
      exists m, t, rt. split; [exact Hm | now rewrite Hmk].
  Qed.

  Lemma R_inj x x' y : R x y -> R x' y -> x = x'.
  Proof.
    intros H H'. apply same_pos_flip in H, H'.
    exact (R_fun (gs_graph s') (gs_graph s) f' f Ht' y x x' H H').
  Qed.

  (* one direction: every listed path has its image listed, and reads the same texts *)
  Lemma listing_half ps ps' :
    graph_to_paths true s = Ok ps -> graph_to_paths true s' = Ok ps' ->
    forall p, In p ps -> exists p', In p' ps' /\ Forall2 R p p'.
  Proof.
    apply (graph_to_paths_sim R s s').
    - exact (R_fun _ _ f f' Ht).
    - exact R_inj.
    - exact (R_node _ _ f f' Ht Ht' Hff).
    - exact (R_total _ _ f f' Ht Ht' Hff).
    - exact refs_rel.
    - apply arena_ok_bwd. exact (Inv_arena_ok s HI).
    - apply arena_ok_bwd. exact (Inv_arena_ok s' HI').
  Qed.
End States.

(* two states of the invariant whose notes hold the same final blocks list the same multiset of
   heading-text chains *)
Theorem paths_iso s s' f f' ps ps' :
  Inv s -> Inv s' -> tree_inv (gs_graph s) f -> tree_inv (gs_graph s') f' ->
  (forall k, blocks_of f k = blocks_of f' k) ->
  graph_to_paths true s = Ok ps -> graph_to_paths true s' = Ok ps' ->
  Permutation (map (texts_of (arena_of s)) ps) (map (texts_of (arena_of s')) ps').
Proof.
  intros HI HI' Ht Ht' Hff H H'.
  assert (Hff' : forall k, blocks_of f' k = blocks_of f k) by (intros; symmetry; apply Hff).
  set (R := same_pos (gs_graph s) f (gs_graph s') f').
  apply (perm_of_bijection (Forall2 R)).
  - apply Forall2_fun. exact (R_fun _ _ f f' Ht).
  - apply Forall2_inj. exact (R_inj s s' f f' Ht').
  - intros p p' Hpp. apply (texts_of_sim R s s'); [|exact Hpp]. exact (R_node _ _ f f' Ht Ht' Hff).
  - eapply graph_to_paths_nodup; eauto.
  - eapply graph_to_paths_nodup; eauto.
  - exact (listing_half s s' f f' HI HI' Ht Ht' Hff ps ps' H H').
  - intros p' Hp'. destruct (listing_half s' s f' f HI' HI Ht' Ht Hff' ps' ps H' H p' Hp') as (p & Hp & Hpp).
    exists p. split; [exact Hp|]. eapply Forall2_swap; [exact Hpp|]. intros x' x Hx. now apply same_pos_flip.
Qed.

(* ================================================================================================ *)
(* 6 — HEADLINES                                                                                      *)
(* ================================================================================================ *)

(* the final text of every key after `import notes` followed by the updates [ops] *)
Definition final_texts (notes ops : list op) : spec := over (last_op ops) (last_op (ops_of notes)).

Lemma reached_text notes ops s : distinct_keys notes -> reached notes ops s ->
  Inv s /\ text_inv (gs_graph s) (final_texts notes ops).
Proof.
  intros Hd Hr. split; [eapply reached_Inv; eauto|].
  destruct (reachable_total notes ops Hd) as (s2 & (s0 & H0 & H) & _ & Hg).
  destruct Hr as (s0' & H0' & H'). rewrite H0 in H0'. injection H0' as <-. rewrite H in H'. injection H' as <-.
  destruct (import_history_text notes ops Hd) as (g & Hrun & Hinv). unfold run in Hrun.
  rewrite Hg in Hrun. injection Hrun as <-. exact Hinv.
Qed.

(* every path of the listing reads heading texts (texts_of does not panic) *)
Lemma listed_texts_ok s ps : graph_to_paths true s = Ok ps ->
  forall p, In p ps -> exists ts, texts_of (arena_of s) p = Ok ts.
Proof.
  intros H p Hp. destruct (graph_to_paths_sound true s ps p H Hp) as (_ & Hh & _).
  clear H Hp. induction Hh as [|x r Hx _ IH]; [eexists; reflexivity|].
  destruct IH as (ts & E). unfold texts_of in *. cbn [fold_right]. rewrite E. cbn [bind].
  assert (Hs : sec s x) by (destruct Hx; assumption). destruct Hs as (l & Hl).
  unfold get_text, arena_of. rewrite Hl. cbn [bind]. eauto.
Qed.

(* C04 for the outline paths.  Two runs — each an import of notes with pairwise distinct keys followed by ANY
   history of updates — in which every key ends with the same blocks (metadata may differ): both runs and both
   path enumerations return, and the two listings, read as chains of heading texts (what render_path /
   render_search_text print), are the same MULTISET: the same chains, each the same number of times. *)
Theorem C04_paths_no_history notes ops notes' ops' s s' ps ps' :
  distinct_keys notes -> distinct_keys notes' ->
  (forall k, blocks_of (final_texts notes ops) k = blocks_of (final_texts notes' ops') k) ->
  reached notes ops s -> reached notes' ops' s' ->
  graph_to_paths true s = Ok ps -> graph_to_paths true s' = Ok ps' ->
  Permutation (map (texts_of (arena_of s)) ps) (map (texts_of (arena_of s')) ps').
Proof.
  intros Hd Hd' Hff Hr Hr' H H'.
  destruct (reached_text _ _ _ Hd Hr) as (HI & Ht & _). destruct (reached_text _ _ _ Hd' Hr') as (HI' & Ht' & _).
  eapply paths_iso; eauto.
Qed.
Print Assumptions C04_paths_no_history.

(* the same with the existence of the runs and of the listings stated (nothing panics, every listed chain
   reads texts, no id chain is listed twice) *)
Theorem C04_paths_no_history_runs notes ops notes' ops' :
  distinct_keys notes -> distinct_keys notes' ->
  (forall k, blocks_of (final_texts notes ops) k = blocks_of (final_texts notes' ops') k) ->
  exists s s' ps ps',
    reached notes ops s /\ reached notes' ops' s' /\
    graph_to_paths true s = Ok ps /\ graph_to_paths true s' = Ok ps' /\
    NoDup ps /\ NoDup ps' /\
    (forall p, In p ps -> exists ts, texts_of (arena_of s) p = Ok ts) /\
    (forall p, In p ps' -> exists ts, texts_of (arena_of s') p = Ok ts) /\
    Permutation (map (texts_of (arena_of s)) ps) (map (texts_of (arena_of s')) ps').
Proof.
  intros Hd Hd' Hff.
  destruct (reachable_total notes ops Hd) as (s & Hr & HI & _).
  destruct (reachable_total notes' ops' Hd') as (s' & Hr' & HI' & _).
  destruct (graph_to_paths_total true s (Inv_arena_ok s HI) (Inv_idx_in_range s HI)) as (ps & H).
  destruct (graph_to_paths_total true s' (Inv_arena_ok s' HI') (Inv_idx_in_range s' HI')) as (ps' & H').
  exists s, s', ps, ps'.
  split; [exact Hr|]. split; [exact Hr'|]. split; [exact H|]. split; [exact H'|].
  split; [eapply graph_to_paths_nodup; eauto|]. split; [eapply graph_to_paths_nodup; eauto|].
  split; [now apply listed_texts_ok|]. split; [now apply listed_texts_ok|].
  exact (C04_paths_no_history notes ops notes' ops' s s' ps ps' Hd Hd' Hff Hr Hr' H H').
Qed.
Print Assumptions C04_paths_no_history_runs.

(* incremental = fresh start: any history against Graph::import of files that hold the final texts *)
Theorem C04_paths_fresh_import notes ops fresh :
  distinct_keys notes -> distinct_keys fresh ->
  (forall k, blocks_of (last_op (ops_of fresh)) k = blocks_of (final_texts notes ops) k) ->
  exists s s' ps ps',
    reached notes ops s /\ import_state_v true fresh = Ok s' /\
    graph_to_paths true s = Ok ps /\ graph_to_paths true s' = Ok ps' /\
    Permutation (map (texts_of (arena_of s)) ps) (map (texts_of (arena_of s')) ps').
Proof.
  intros Hd Hd' Hff.
  destruct (C04_paths_no_history_runs notes ops fresh [] Hd Hd') as (s & s' & ps & ps' & Hr & Hr' & H & H' & _ & _ & _ & _ & P).
  - intros k. rewrite <- Hff. unfold final_texts, blocks_of, over. cbn [last_op]. reflexivity.
  - exists s, s', ps, ps'. repeat split; auto. destruct Hr' as (s0 & H0 & E). cbn [run_updates] in E. congruence.
Qed.
Print Assumptions C04_paths_fresh_import.

(* ================================================================================================ *)
(* 7 — what is NOT history free: the order of the listing                                             *)
(* ================================================================================================ *)

(* graph_to_paths sorts by node ids (sorted().dedup() on Vec<NodeId>); ids inside a note are in document
   order whatever the history, but the roots of different notes are ordered by the time of their last
   rebuild.  Two notes `x`, `y`; the history rewrites `x` with the text it already has: the final texts are
   those of the import, the listing changes from X, Y to Y, X. *)
Definition ph_h (n : nat) (t : string) : dblock := DHeader (0, 1) n [Str t].
Definition ph_ref (k : string) : dblock := DPara (0, 1) [Link k "" Regular [Str k]].
Definition ph_p (t : string) : dblock := DPara (0, 1) [Str t].

Definition order_notes : list op := [("x", None, [ph_h 1 "X"]); ("y", None, [ph_h 1 "Y"])].
Definition order_ops : list op := [("x", None, [ph_h 1 "X"])].

Lemma order_same_texts k : final_texts order_notes order_ops k = final_texts order_notes [] k.
Proof.
  unfold final_texts, over, order_ops. cbn [last_op]. destruct (String.eqb k "x") eqn:E; [|reflexivity].
  apply String.eqb_eq in E. subst k. vm_compute. reflexivity.
Qed.

Theorem C04_paths_order_refuted :
  exists notes ops notes' ops' s s' ps ps',
    distinct_keys notes /\ distinct_keys notes' /\
    (forall k, final_texts notes ops k = final_texts notes' ops' k) /\
    reached notes ops s /\ reached notes' ops' s' /\
    graph_to_paths true s = Ok ps /\ graph_to_paths true s' = Ok ps' /\
    map (texts_of (arena_of s)) ps = [Ok ["Y"]; Ok ["X"]] /\
    map (texts_of (arena_of s')) ps' = [Ok ["X"]; Ok ["Y"]].
Proof.
  assert (Hd : distinct_keys order_notes).
  { unfold distinct_keys. vm_compute. repeat constructor; cbn; intuition discriminate. }
  exists order_notes, order_ops, order_notes, []. do 4 eexists.
  split; [exact Hd|]. split; [exact Hd|]. split; [exact order_same_texts|].
  split; [eexists; split; vm_compute; reflexivity|].
  split; [eexists; split; vm_compute; reflexivity|].
  split; [vm_compute; reflexivity|]. split; [vm_compute; reflexivity|].
  split; vm_compute; reflexivity.
Qed.
Print Assumptions C04_paths_order_refuted.

(* ================================================================================================ *)
(* 8 — non-vacuity: three notes, block references between them, a heading inside a list, equal         *)
(*     heading texts; two different histories against the fresh import of the final files             *)
(* ================================================================================================ *)

Definition ph_A : list dblock :=
  [ph_h 1 "A"; ph_p "x"; ph_h 2 "A2"; ph_ref "b"; DBList [[ph_p "i1"; ph_ref "c"]; [ph_h 1 "inlist"]]; ph_h 2 "A3"; ph_ref "c"].
Definition ph_B : list dblock := [ph_h 1 "B"; ph_h 2 "B2"; ph_h 3 "B3"; DQuote (0, 1) [ph_h 1 "q"]; ph_h 2 "B2"].
Definition ph_C : list dblock := [ph_p "pre"; ph_h 2 "C"; ph_h 1 "C1"; ph_ref "b"].

Definition ph_fresh : list op := [("a", None, ph_A); ("b", None, ph_B); ("c", None, ph_C)].
Definition ph_start : list op := [("a", Some "m: 0", [ph_h 1 "Z"; ph_ref "c"])].
Definition ph_ops : list op :=
  [("c", None, [ph_ref "a"]); ("c", None, ph_C); ("a", None, [ph_h 1 "Z"]); ("a", None, ph_A);
   ("b", None, [ph_h 1 "old"]); ("b", Some "m", ph_B)].

Example ph_distinct : distinct_keys ph_start /\ distinct_keys ph_fresh.
Proof. unfold distinct_keys. split; vm_compute; repeat constructor; cbn; intuition discriminate. Qed.

(* same final blocks (the metadata of `b` differs: it is not read by the outline) *)
Lemma ph_same_blocks k : blocks_of (last_op (ops_of ph_fresh)) k = blocks_of (final_texts ph_start ph_ops) k.
Proof.
  unfold final_texts, blocks_of, over, ph_ops. cbn [last_op].
  destruct (String.eqb k "b") eqn:Eb; [apply String.eqb_eq in Eb; subst k; vm_compute; reflexivity|].
  destruct (String.eqb k "a") eqn:Ea; [apply String.eqb_eq in Ea; subst k; vm_compute; reflexivity|].
  destruct (String.eqb k "c") eqn:Ec; [apply String.eqb_eq in Ec; subst k; vm_compute; reflexivity|].
  change (ops_of ph_fresh) with ([("a", None, ph_A); ("b", None, ph_B); ("c", None, ph_C)] : list op).
  change (ops_of ph_start) with ([("a", Some "m: 0", [ph_h 1 "Z"; ph_ref "c"])] : list op).
  cbn [last_op]. rewrite Ea, Eb, Ec. reflexivity.
Qed.

(* the theorem applies; the two arenas differ (32 slots, 9 of them tombstones / 23 slots); 13 chains,
   "A • A2 • B • B2" twice (two headings with the same text): the multiset statement counts them *)
Example ph_no_history :
  exists s s' ps ps',
    reached ph_start ph_ops s /\ import_state_v true ph_fresh = Ok s' /\
    graph_to_paths true s = Ok ps /\ graph_to_paths true s' = Ok ps' /\
    Permutation (map (texts_of (arena_of s)) ps) (map (texts_of (arena_of s')) ps') /\
    length (arena_of s) = 32 /\ length (arena_of s') = 23 /\ length ps = 13 /\
    ps <> ps' /\
    count_occ (list_eq_dec string_dec) (map (fun p => match texts_of (arena_of s') p with Ok t => t | Panic _ => [] end) ps')
              ["A"; "A2"; "B"; "B2"] = 2.
Proof.
  destruct (C04_paths_fresh_import ph_start ph_ops ph_fresh (proj1 ph_distinct) (proj2 ph_distinct) ph_same_blocks)
    as (s & s' & ps & ps' & Hr & Hs' & H & H' & P).
  exists s, s', ps, ps'. do 5 (split; [assumption|]).
  destruct Hr as (s0 & H0 & Hr).
  assert (E : (do s0 <- import_state_v true ph_start; run_updates true s0 ph_ops) = Ok s) by (now rewrite H0).
  clear H0 Hr P s0. vm_compute in E. injection E as <-. vm_compute in Hs'. injection Hs' as <-.
  vm_compute in H. injection H as <-. vm_compute in H'. injection H' as <-.
  repeat split; try (vm_compute; reflexivity). discriminate.
Qed.

Print Assumptions graph_to_paths_sim.
Print Assumptions laid2.
Print Assumptions laid2_prev.
Print Assumptions pos_total.
Print Assumptions pos_fun.
Print Assumptions paths_iso.
Print Assumptions ph_no_history.
