(* TreeOpsFacts.v — theorems about the tree operations of the code actions (TreeOps.v,
   Actions.v), by induction over trees of any size and nesting (tree_ind').
   Contexts: a tree is `plug C x` — the subtree x in a one-hole context C (list of frames, the
   innermost first); "changes only the selected subtree" is an equation between plugs over the
   same context, so every other child list is literally the same term. *)
From IweV Require Import Check_Norm NormFacts TreeOps Actions.
From Coq Require Import Lia Permutation.
Local Open Scope string_scope.
Local Open Scope list_scope.

(* ---------- contexts ------------------------------------------------------------------------ *)

Inductive frame := F (i : option nat) (n : node) (l r : list tree).

Fixpoint plug (C : list frame) (x : tree) : tree :=
  match C with
  | [] => x
  | F i n l r :: C' => plug C' (T i n (l ++ x :: r))
  end.

Definition oid_is (i : option nat) (id : nat) : bool :=
  match i with Some j => Nat.eqb j id | None => false end.

(* no node of the context carries [id]: not the frames themselves, nothing in the siblings *)
Definition frame_free (id : nat) (f : frame) : Prop :=
  match f with
  | F i _ l r => oid_is i id = false /\ Forall (fun t => contains t id = false) l /\ Forall (fun t => contains t id = false) r
  end.
Definition ctx_free (id : nat) (C : list frame) : Prop := Forall (frame_free id) C.

Lemma id_eq_T i n c id : id_eq (T i n c) id = oid_is i id.
Proof. reflexivity. Qed.

Lemma map_id_forall {A} (f : A -> A) l : Forall (fun x => f x = x) l -> map f l = l.
Proof. induction 1 as [|x l Hx _ IH]; cbn; [reflexivity | now rewrite Hx, IH]. Qed.

Lemma contains_children i n c id :
  contains (T i n c) id = false -> oid_is i id = false /\ Forall (fun t => contains t id = false) c.
Proof.
  cbn [contains]. rewrite id_eq_T. intros H. apply Bool.orb_false_iff in H as [H1 H2]. split; [exact H1|].
  induction c as [|x c IH]; [constructor|]. cbn [existsb] in H2. apply Bool.orb_false_iff in H2 as [Hx Hc].
  constructor; [exact Hx | now apply IH].
Qed.

Lemma existsb_id_eq_false c id :
  Forall (fun t => contains t id = false) c -> existsb (fun ch => id_eq ch id) c = false.
Proof.
  induction 1 as [|x c Hx _ IH]; [reflexivity|]. cbn [existsb]. rewrite IH.
  destruct x as [i n k]. apply contains_children in Hx as [Hx _]. rewrite id_eq_T, Hx. reflexivity.
Qed.

(* ---------- an operation is the identity on a tree that does not hold the id ----------------- *)

Lemma change_list_type_notin id : forall t, contains t id = false -> change_list_type id t = t.
Proof.
  apply (tree_ind' (fun t => contains t id = false -> change_list_type id t = t)).
  intros i n c IH H. apply contains_children in H as [Hi Hc]. cbn [change_list_type]. rewrite id_eq_T, Hi.
  f_equal. apply map_id_forall. rewrite Forall_forall in *. intros x Hx. apply IH; auto.
Qed.

Lemma wrap_into_list_notin id : forall t, contains t id = false -> wrap_into_list id t = t.
Proof.
  apply (tree_ind' (fun t => contains t id = false -> wrap_into_list id t = t)).
  intros i n c IH H. apply contains_children in H as [Hi Hc]. cbn [wrap_into_list]. rewrite id_eq_T, Hi.
  f_equal. apply map_id_forall. rewrite Forall_forall in *. intros x Hx. apply IH; auto.
Qed.

Lemma unwrap_list_notin id : forall t, contains t id = false -> unwrap_list id t = t.
Proof.
  apply (tree_ind' (fun t => contains t id = false -> unwrap_list id t = t)).
  intros i n c IH H. apply contains_children in H as [Hi Hc]. cbn [unwrap_list].
  rewrite (existsb_id_eq_false c id Hc).
  f_equal. apply map_id_forall. rewrite Forall_forall in *. intros x Hx. apply IH; auto.
Qed.

Lemma replace_notin id new : forall t, contains t id = false -> replace id new t = t.
Proof.
  apply (tree_ind' (fun t => contains t id = false -> replace id new t = t)).
  intros i n c IH H. apply contains_children in H as [Hi Hc]. cbn [replace]. rewrite id_eq_T, Hi.
  f_equal. apply map_id_forall. rewrite Forall_forall in *. intros x Hx. apply IH; auto.
Qed.

Lemma map_middle {A} (f : A -> A) l x r :
  Forall (fun y => f y = y) l -> Forall (fun y => f y = y) r -> map f (l ++ x :: r) = l ++ f x :: r.
Proof. intros Hl Hr. rewrite map_app. cbn [map]. now rewrite (map_id_forall f l Hl), (map_id_forall f r Hr). Qed.

Lemma forall_notin (f : tree -> tree) id l :
  (forall t, contains t id = false -> f t = t) ->
  Forall (fun t => contains t id = false) l -> Forall (fun y => f y = y) l.
Proof. intros Hf H. eapply Forall_impl; [|exact H]. intros t Ht. now apply Hf. Qed.

(* ---------- C10 scope: the operations commute with every context that is free of the id ------- *)

Lemma change_list_type_plug id C : ctx_free id C -> forall y,
  change_list_type id (plug C y) = plug C (change_list_type id y).
Proof.
  induction 1 as [|f C Hf _ IH]; intros y; [reflexivity|].
  destruct f as [i n l r]. destruct Hf as (Hi & Hl & Hr). cbn [plug]. rewrite IH. f_equal.
  cbn [change_list_type]. rewrite id_eq_T, Hi. f_equal.
  apply map_middle; eapply forall_notin; eauto using change_list_type_notin.
Qed.

Lemma wrap_into_list_plug id C : ctx_free id C -> forall y,
  wrap_into_list id (plug C y) = plug C (wrap_into_list id y).
Proof.
  induction 1 as [|f C Hf _ IH]; intros y; [reflexivity|].
  destruct f as [i n l r]. destruct Hf as (Hi & Hl & Hr). cbn [plug]. rewrite IH. f_equal.
  cbn [wrap_into_list]. rewrite id_eq_T, Hi. f_equal.
  apply map_middle; eapply forall_notin; eauto using wrap_into_list_notin.
Qed.

Lemma existsb_middle_false l (y : tree) r id :
  Forall (fun t => contains t id = false) l -> Forall (fun t => contains t id = false) r ->
  existsb (fun ch => id_eq ch id) (l ++ y :: r) = id_eq y id.
Proof.
  intros Hl Hr. rewrite existsb_app. cbn [existsb].
  rewrite (existsb_id_eq_false l id Hl), (existsb_id_eq_false r id Hr). cbn. now rewrite Bool.orb_false_r.
Qed.

Lemma unwrap_list_plug id C : ctx_free id C -> forall y, id_eq y id = false ->
  unwrap_list id (plug C y) = plug C (unwrap_list id y).
Proof.
  induction 1 as [|f C Hf _ IH]; intros y Hy; [reflexivity|].
  destruct f as [i n l r]. destruct Hf as (Hi & Hl & Hr). cbn [plug]. rewrite IH by (now rewrite id_eq_T). f_equal.
  cbn [unwrap_list]. rewrite (existsb_middle_false l y r id Hl Hr), Hy. f_equal.
  apply map_middle; eapply forall_notin; eauto using unwrap_list_notin.
Qed.

Lemma flat_map_unwrap_notin id l :
  Forall (fun t => contains t id = false) l ->
  flat_map (fun ch => if id_eq ch id then t_children ch else [unwrap_list id ch]) l = l.
Proof.
  induction 1 as [|x l Hx _ IH]; [reflexivity|]. cbn [flat_map]. rewrite IH.
  rewrite (unwrap_list_notin id x Hx). destruct x as [i n k]. apply contains_children in Hx as [Hx _].
  now rewrite id_eq_T, Hx.
Qed.

(* C10_scope: each operation rewrites the selected node in place; the context (every ancestor
   with all its other children, on every level) is the same before and after. *)
Theorem scope_change_list_type id C i n c :
  ctx_free id C -> oid_is i id = true ->
  change_list_type id (plug C (T i n c)) = plug C (T i (flip_list n) c).
Proof.
  intros HC Hi. rewrite change_list_type_plug by exact HC. cbn [change_list_type]. now rewrite id_eq_T, Hi.
Qed.

Theorem scope_wrap_into_list id C i n c :
  ctx_free id C -> oid_is i id = true ->
  wrap_into_list id (plug C (T i n c)) = plug C (T i NBList [T i n c]).
Proof.
  intros HC Hi. rewrite wrap_into_list_plug by exact HC. cbn [wrap_into_list]. now rewrite id_eq_T, Hi.
Qed.

Theorem scope_unwrap_list id C pi pn l r i n items :
  ctx_free id (F pi pn l r :: C) -> oid_is i id = true ->
  unwrap_list id (plug (F pi pn l r :: C) (T i n items)) = plug C (T pi pn (l ++ items ++ r)).
Proof.
  intros HC Hi. inversion HC as [|f C' Hf HC']; subst. destruct Hf as (Hpi & Hl & Hr).
  cbn [plug]. rewrite unwrap_list_plug by (auto; now rewrite id_eq_T). f_equal.
  cbn [unwrap_list]. rewrite (existsb_middle_false l (T i n items) r id Hl Hr), id_eq_T, Hi.
  f_equal. rewrite flat_map_app. cbn [flat_map]. rewrite id_eq_T, Hi. cbn [t_children].
  now rewrite (flat_map_unwrap_notin id l Hl), (flat_map_unwrap_notin id r Hr).
Qed.

(* ---------- C10 involution ------------------------------------------------------------------ *)

Lemma flip_list_involutive n : flip_list (flip_list n) = n.
Proof. destruct n; reflexivity. Qed.

Theorem change_list_type_involutive id : forall t, change_list_type id (change_list_type id t) = t.
Proof.
  apply (tree_ind' (fun t => change_list_type id (change_list_type id t) = t)).
  intros i n c IH. cbn [change_list_type]. rewrite id_eq_T. destruct (oid_is i id) eqn:E.
  - cbn [change_list_type]. rewrite id_eq_T, E. now rewrite flip_list_involutive.
  - cbn [change_list_type]. rewrite id_eq_T, E. f_equal. rewrite map_map. now apply map_id_forall.
Qed.

(* ---------- C10 wrap / unwrap ------------------------------------------------------------------ *)

Lemma wrap_root_id id t : id_eq (wrap_into_list id t) id = id_eq t id.
Proof.
  destruct t as [i n c]. cbn [wrap_into_list]. rewrite id_eq_T. destruct (oid_is i id) eqn:E; now rewrite id_eq_T.
Qed.

Lemma existsb_map_wrap id c :
  existsb (fun ch => id_eq ch id) (map (fun ch => wrap_into_list id ch) c) = existsb (fun ch => id_eq ch id) c.
Proof. induction c as [|x c IH]; cbn [map existsb]; [reflexivity|]. now rewrite wrap_root_id, IH. Qed.

(* list -> sections undoes section -> list at the same id, whatever else the tree holds
   (the new list node carries the id of the section it wraps) *)
Theorem unwrap_wrap id : forall t, id_eq t id = false -> unwrap_list id (wrap_into_list id t) = t.
Proof.
  apply (tree_ind' (fun t => id_eq t id = false -> unwrap_list id (wrap_into_list id t) = t)).
  intros i n c IH Hi. rewrite id_eq_T in Hi. cbn [wrap_into_list]. rewrite id_eq_T, Hi. cbn [unwrap_list].
  assert (HE : existsb (fun ch => id_eq ch id) (map (fun ch => wrap_into_list id ch) c) = existsb (fun ch => id_eq ch id) c).
  { rewrite existsb_map_wrap. reflexivity. }
  assert (HF : flat_map (fun ch => if id_eq ch id then t_children ch else [unwrap_list id ch])
                 (map (fun ch => wrap_into_list id ch) c) = c).
  { clear HE Hi. induction IH as [|x c Hx _ IHc]; [reflexivity|]. cbn [map flat_map]. rewrite IHc.
    rewrite wrap_root_id. destruct (id_eq x id) eqn:E.
    - destruct x as [xi xn xc]. cbn [wrap_into_list]. rewrite E. reflexivity.
    - now rewrite (Hx eq_refl). }
  rewrite HE. destruct (existsb (fun ch => id_eq ch id) c) eqn:E.
  - now rewrite HF.
  - f_equal. rewrite map_map. apply map_id_forall.
    clear HF HE. induction IH as [|x c Hx _ IHc]; [constructor|].
    cbn [existsb] in E. apply Bool.orb_false_iff in E as [Ex Ec]. constructor; [now apply Hx | now apply IHc].
Qed.

(* ---------- C10 conservation: the content sequence of NormFacts.tcontent ------------------------ *)

Lemma flat_map_map_ext {A B} (g : A -> list B) (f : A -> A) c :
  Forall (fun x => g (f x) = g x) c -> flat_map g (map f c) = flat_map g c.
Proof. induction 1 as [|x c Hx _ IH]; cbn [map flat_map]; [reflexivity | now rewrite Hx, IH]. Qed.

Section Conserve.
  Variable parent : string.
  Notation tc := (tcontent parent).

  (* what a tree contributes when it stands as a list item *)
  Definition ic (t : tree) : list citem := CI (out_inlines parent (t_node t)) :: flat_map tc (t_children t).

  Lemma tc_list_items n c : node_is_list n = true -> forall i, tc (T i n c) = flat_map ic c.
  Proof.
    intros Hn i. destruct n; try discriminate; cbn [tcontent];
      apply flat_ext_forall, Forall_forall; intros [xi xn xk] _; reflexivity.
  Qed.

  Lemma ic_section i l k : ic (T i (NSection l) k) = tc (T i (NSection l) k).
  Proof. reflexivity. Qed.

  (* content of a node from the contents of its children, for a children list rewritten pointwise *)
  Lemma content_children (f : tree -> tree) i n c :
    Forall (fun x => tc (f x) = tc x /\ ic (f x) = ic x) c ->
    tc (T i n (map f c)) = tc (T i n c) /\ ic (T i n (map f c)) = ic (T i n c).
  Proof.
    intros H.
    assert (H1 : flat_map tc (map f c) = flat_map tc c).
    { apply flat_map_map_ext. eapply Forall_impl; [|exact H]. now intros x [? _]. }
    assert (H2 : flat_map ic (map f c) = flat_map ic c).
    { apply flat_map_map_ext. eapply Forall_impl; [|exact H]. now intros x [_ ?]. }
    split.
    - destruct n; try reflexivity; try (cbn [tcontent]; now rewrite H1);
        rewrite !tc_list_items by reflexivity; exact H2.
    - unfold ic. cbn [t_node t_children]. now rewrite H1.
  Qed.

  (* change list type: the content sequence is the same for every tree and id *)
  Lemma change_list_type_content_both id :
    forall t, tc (change_list_type id t) = tc t /\ ic (change_list_type id t) = ic t.
  Proof.
    apply (tree_ind' (fun t => tc (change_list_type id t) = tc t /\ ic (change_list_type id t) = ic t)).
    intros i n c IH. cbn [change_list_type]. destruct (id_eq (T i n c) id).
    - split; [|unfold ic; cbn [t_node t_children]]; destruct n; reflexivity.
    - apply content_children. exact IH.
  Qed.

  Theorem change_list_type_content id t : tc (change_list_type id t) = tc t.
  Proof. apply change_list_type_content_both. Qed.

  (* section -> list.  Domain: the nodes carrying the id are sections and none of them is an item
     of a list (the action offers the conversion only for headers outside lists) *)
  Fixpoint wrap_dom (id : nat) (t : tree) {struct t} : bool :=
    match t with
    | T i n c =>
        if id_eq t id then node_is_section n
        else negb (node_is_list n && existsb (fun ch => id_eq ch id) c) && forallb (fun ch => wrap_dom id ch) c
    end.

  Lemma wrap_content_both id :
    forall t, wrap_dom id t = true ->
      tc (wrap_into_list id t) = tc t /\ (id_eq t id = false -> ic (wrap_into_list id t) = ic t).
  Proof.
    apply (tree_ind' (fun t => wrap_dom id t = true ->
      tc (wrap_into_list id t) = tc t /\ (id_eq t id = false -> ic (wrap_into_list id t) = ic t))).
    intros i n c IH D. cbn [wrap_dom wrap_into_list] in *. destruct (id_eq (T i n c) id) eqn:E.
    - split; [|discriminate]. destruct n; try discriminate. cbn [tcontent flat_map]. now rewrite app_nil_r.
    - apply andb_prop in D as [D1 D2]. rewrite forallb_forall in D2.
      destruct (node_is_list n) eqn:L.
      + (* a list: no child carries the id, so the item contents are those of the wrapped children *)
        cbn [andb negb] in D1. apply Bool.negb_true_iff in D1.
        assert (HC : Forall (fun x => tc (wrap_into_list id x) = tc x /\ ic (wrap_into_list id x) = ic x) c).
        { rewrite Forall_forall in *. intros x Hx. destruct (IH x Hx (D2 x Hx)) as [A B]. split; [exact A|].
          apply B. destruct (id_eq x id) eqn:Ex; [|reflexivity].
          exfalso. assert (existsb (fun ch => id_eq ch id) c = true) by (apply existsb_exists; eauto). congruence. }
        destruct (content_children (fun ch => wrap_into_list id ch) i n c HC) as [A B]. split; [exact A | intros _; exact B].
      + (* not a list: only tc of the children matters *)
        assert (H1 : flat_map tc (map (fun ch => wrap_into_list id ch) c) = flat_map tc c).
        { apply flat_map_map_ext. rewrite Forall_forall in *. intros x Hx. apply (IH x Hx (D2 x Hx)). }
        split; [|intros _; unfold ic; cbn [t_node t_children]; now rewrite H1].
        destruct n; try discriminate; try reflexivity; cbn [tcontent]; now rewrite H1.
  Qed.

  Theorem wrap_into_list_content id t : wrap_dom id t = true -> tc (wrap_into_list id t) = tc t.
  Proof. intros D. now apply wrap_content_both. Qed.

  (* list -> sections.  Domain: the nodes carrying the id are lists whose items are sections, and
     their parents are not lists (the action passes the top-level surrounding list) *)
  Fixpoint unwrap_dom (id : nat) (t : tree) {struct t} : bool :=
    match t with
    | T i n c =>
        negb (node_is_list n && existsb (fun ch => id_eq ch id) c) &&
        forallb (fun ch => if id_eq ch id then node_is_list (t_node ch) && forallb is_section (t_children ch)
                           else unwrap_dom id ch) c
    end.

  Lemma items_sections_content k : forallb is_section k = true -> flat_map ic k = flat_map tc k.
  Proof.
    intros H. apply flat_ext_forall. rewrite forallb_forall in H. apply Forall_forall. intros [xi xn xk] Hx.
    specialize (H _ Hx). unfold is_section in H. cbn [t_node] in H. destruct xn; try discriminate. reflexivity.
  Qed.

  Lemma unwrap_content_both id :
    forall t, unwrap_dom id t = true -> tc (unwrap_list id t) = tc t /\ ic (unwrap_list id t) = ic t.
  Proof.
    apply (tree_ind' (fun t => unwrap_dom id t = true -> tc (unwrap_list id t) = tc t /\ ic (unwrap_list id t) = ic t)).
    intros i n c IH D. cbn [unwrap_dom] in D. apply andb_prop in D as [D1 D2]. rewrite forallb_forall in D2.
    cbn [unwrap_list]. destruct (existsb (fun ch => id_eq ch id) c) eqn:E.
    - rewrite Bool.andb_true_r in D1. apply Bool.negb_true_iff in D1.
      assert (H1 : flat_map tc (flat_map (fun ch => if id_eq ch id then t_children ch else [unwrap_list id ch]) c) = flat_map tc c).
      { rewrite flat_flat. apply flat_ext_forall. rewrite Forall_forall in *. intros x Hx. specialize (D2 x Hx).
        destruct (id_eq x id).
        - apply andb_prop in D2 as [L S]. destruct x as [xi xn xk]. cbn [t_node t_children] in *.
          rewrite (tc_list_items xn xk L). symmetry. now apply items_sections_content.
        - cbn [flat_map]. rewrite app_nil_r. apply (IH x Hx D2). }
      split; [|unfold ic; cbn [t_node t_children]; now rewrite H1].
      destruct n; try discriminate; try reflexivity; cbn [tcontent]; now rewrite H1.
    - apply content_children. rewrite Forall_forall in *. intros x Hx. specialize (D2 x Hx).
      destruct (id_eq x id) eqn:Ex.
      + exfalso. assert (existsb (fun ch => id_eq ch id) c = true) by (apply existsb_exists; eauto). congruence.
      + apply (IH x Hx D2).
  Qed.

  Theorem unwrap_list_content id t : unwrap_dom id t = true -> tc (unwrap_list id t) = tc t.
  Proof. intros D. now apply unwrap_content_both. Qed.
End Conserve.

(* ================================ C09: extract / inline ========================================== *)

Lemma find_map_none {A B} (f : A -> option B) l : Forall (fun x => f x = None) l -> find_map f l = None.
Proof. induction 1 as [|x l Hx _ IH]; cbn; [reflexivity | now rewrite Hx]. Qed.

Lemma find_map_app_none {A B} (f : A -> option B) l r :
  Forall (fun x => f x = None) l -> find_map f (l ++ r) = find_map f r.
Proof. induction 1 as [|x l Hx _ IH]; cbn; [reflexivity | now rewrite Hx]. Qed.

Lemma tfind_notin id : forall t, contains t id = false -> tfind id t = None.
Proof.
  apply (tree_ind' (fun t => contains t id = false -> tfind id t = None)).
  intros i n c IH H. apply contains_children in H as [Hi Hc]. cbn [tfind]. rewrite id_eq_T, Hi.
  apply find_map_none. rewrite Forall_forall in *. intros x Hx. apply IH; auto.
Qed.

Lemma tfind_root id t : id_eq t id = true -> tfind id t = Some t.
Proof. destruct t as [i n c]. intros H. cbn [tfind]. now rewrite H. Qed.

(* a node found below a context that is free of the id is found in the whole tree *)
Lemma tfind_plug id C : ctx_free id C -> forall y z, tfind id y = Some z -> tfind id (plug C y) = Some z.
Proof.
  induction 1 as [|f C Hf _ IH]; intros y z Hy; [exact Hy|].
  destruct f as [i n l r]. destruct Hf as (Hi & Hl & Hr). cbn [plug]. apply IH.
  cbn [tfind]. rewrite id_eq_T, Hi. rewrite find_map_app_none.
  - cbn. now rewrite Hy.
  - eapply Forall_impl; [|exact Hl]. intros t Ht. now apply tfind_notin.
Qed.

Lemma take_while_app_stop {A} (p : A -> bool) l x r :
  forallb p l = true -> p x = false -> take_while p (l ++ x :: r) = l.
Proof.
  induction l as [|a l IH]; cbn; intros Hl Hx; [now rewrite Hx|].
  apply andb_prop in Hl as [Ha Hl]. rewrite Ha. now rewrite IH.
Qed.

Lemma take_while_all {A} (p : A -> bool) l : forallb p l = true -> take_while p l = l.
Proof. induction l as [|a l IH]; cbn; [reflexivity|]. intros H. apply andb_prop in H as [Ha Hl]. rewrite Ha. now rewrite IH. Qed.

Lemma insert_at_length {A} (l r : list A) x : insert_at (length l) x (l ++ r) = l ++ x :: r.
Proof. induction l as [|a l IH]; cbn; [destruct r; reflexivity | now rewrite IH]. Qed.

Lemma filter_notid id l :
  Forall (fun t => id_eq t id = false) l -> filter (fun ch => negb (id_eq ch id)) l = l.
Proof. induction 1 as [|x l Hx _ IH]; cbn; [reflexivity | now rewrite Hx, IH]. Qed.

Definition nonsec (t : tree) : bool := negb (is_section t).

(* ---------- extract ----------------------------------------------------------------------------- *)

Lemma fold_ok_id (f : tree -> res tree) c :
  Forall (fun x => f x = Ok x) c ->
  fold_right (fun ch acc => do r <- acc; do x <- f ch; Ok (x :: r)) (Ok []) c = Ok c.
Proof. induction 1 as [|x c Hx _ IH]; cbn [fold_right]; [reflexivity|]. rewrite IH. cbn [bind]. now rewrite Hx. Qed.

Lemma fold_ok_middle (f : tree -> res tree) l y y' r :
  Forall (fun x => f x = Ok x) l -> Forall (fun x => f x = Ok x) r -> f y = Ok y' ->
  fold_right (fun ch acc => do r <- acc; do x <- f ch; Ok (x :: r)) (Ok []) (l ++ y :: r) = Ok (l ++ y' :: r).
Proof.
  intros Hl Hr Hy. induction Hl as [|x l Hx _ IH]; cbn [app fold_right].
  - rewrite (fold_ok_id f r Hr). cbn [bind]. now rewrite Hy.
  - rewrite IH. cbn [bind]. now rewrite Hx.
Qed.

Lemma extract_rec_notin e p k : forall t, contains t p = false -> extract_rec e p k t = Ok t.
Proof.
  apply (tree_ind' (fun t => contains t p = false -> extract_rec e p k t = Ok t)).
  intros i n c IH H. apply contains_children in H as [Hi Hc]. cbn [extract_rec]. rewrite id_eq_T, Hi.
  rewrite (fold_ok_id (fun ch => extract_rec e p k ch) c); [reflexivity|].
  rewrite Forall_forall in *. intros x Hx. apply IH; auto.
Qed.

Lemma extract_rec_plug e p k C : ctx_free p C -> forall y y',
  extract_rec e p k y = Ok y' -> extract_rec e p k (plug C y) = Ok (plug C y').
Proof.
  induction 1 as [|f C Hf _ IH]; intros y y' Hy; [exact Hy|].
  destruct f as [i n l r]. destruct Hf as (Hi & Hl & Hr). cbn [plug]. apply IH.
  cbn [extract_rec]. rewrite id_eq_T, Hi.
  rewrite (fold_ok_middle (fun ch => extract_rec e p k ch) l y y' r); [reflexivity| | |exact Hy];
    (eapply Forall_impl; [|eassumption]); intros t Ht; now apply extract_rec_notin.
Qed.

(* the parent of the extracted section: non-section children [l1], sections [m] before the
   extracted one [x], the rest [r] *)
Lemma extract_at_parent e p k i n l1 m x r :
  oid_is i p = true -> oid_is i e = false ->
  forallb nonsec l1 = true -> forallb is_section m = true -> is_section x = true -> id_eq x e = true ->
  Forall (fun t => contains t e = false) l1 -> Forall (fun t => contains t e = false) m ->
  Forall (fun t => id_eq t e = false) r ->
  extract_rec e p k (T i n (l1 ++ m ++ x :: r)) =
  Ok (T i n (l1 ++ ref_tree k (node_plain_text (t_node x)) :: m ++ r)).
Proof.
  intros Hp He Hl1 Hm Hx Hxe Nl1 Nm Nr. cbn [extract_rec]. rewrite id_eq_T, Hp.
  assert (Hf : tfind e (T i n (l1 ++ m ++ x :: r)) = Some x).
  { cbn [tfind]. rewrite id_eq_T, He. rewrite find_map_app_none, find_map_app_none.
    - cbn. now rewrite (tfind_root e x Hxe).
    - eapply Forall_impl; [|exact Nm]. intros t Ht. now apply tfind_notin.
    - eapply Forall_impl; [|exact Nl1]. intros t Ht. now apply tfind_notin. }
  rewrite Hf. f_equal. f_equal.
  assert (Hpos : pre_sub_header_position (T i n (l1 ++ m ++ x :: r)) = length l1).
  { unfold pre_sub_header_position. cbn [t_children]. destruct m as [|m0 m'].
    - cbn [app]. rewrite take_while_app_stop; [reflexivity | exact Hl1 | now rewrite Hx].
    - cbn [app]. cbn [forallb] in Hm. apply andb_prop in Hm as [Hm0 _].
      rewrite take_while_app_stop; [reflexivity | exact Hl1 | now rewrite Hm0]. }
  rewrite Hpos.
  assert (Hfil : filter (fun ch => negb (id_eq ch e)) (l1 ++ m ++ x :: r) = l1 ++ m ++ r).
  { rewrite !filter_app. cbn [filter]. rewrite Hxe. cbn [negb].
    rewrite !filter_notid; [reflexivity|exact Nr| |].
    - eapply Forall_impl; [|exact Nm]. intros [ti tn tc] Ht. apply contains_children in Ht as [Ht _]. now rewrite id_eq_T.
    - eapply Forall_impl; [|exact Nl1]. intros [ti tn tc] Ht. apply contains_children in Ht as [Ht _]. now rewrite id_eq_T. }
  rewrite Hfil. apply insert_at_length.
Qed.

(* C09_extract, tree level: the source differs from the original only at the parent of the
   extracted section, where that section is taken out and one reference, titled with the plain
   text of its heading, stands at the pre-sub-header position; the new note is the section. *)
Theorem extract_spec e p k C i n l1 m x r :
  ctx_free p C -> ctx_free e C ->
  oid_is i p = true -> oid_is i e = false ->
  forallb nonsec l1 = true -> forallb is_section m = true -> is_section x = true -> id_eq x e = true ->
  Forall (fun t => contains t e = false) l1 -> Forall (fun t => contains t e = false) m ->
  Forall (fun t => id_eq t e = false) r ->
  let src := plug C (T i n (l1 ++ m ++ x :: r)) in
  extract_rec e p k src = Ok (plug C (T i n (l1 ++ ref_tree k (node_plain_text (t_node x)) :: m ++ r))) /\
  tget src e = Ok x.
Proof.
  intros HCp HCe Hp He Hl1 Hm Hx Hxe Nl1 Nm Nr src. split.
  - apply extract_rec_plug; [exact HCp|]. now apply extract_at_parent.
  - unfold tget, src. erewrite tfind_plug; [reflexivity | exact HCe |].
    cbn [tfind]. rewrite id_eq_T, He. rewrite find_map_app_none, find_map_app_none.
    + cbn. now rewrite (tfind_root e x Hxe).
    + eapply Forall_impl; [|exact Nm]. intros t Ht. now apply tfind_notin.
    + eapply Forall_impl; [|exact Nl1]. intros t Ht. now apply tfind_notin.
Qed.

(* ---------- content through a context whose frames are documents, sections and quotes ----------- *)

Definition flat_node (n : node) : bool :=
  match n with NDocument _ | NSection _ | NQuote => true | _ => false end.
Definition flat_ctx (C : list frame) : Prop := Forall (fun f => match f with F _ n _ _ => flat_node n = true end) C.

Section ExtractContent.
  Variable parent : string.
  Notation tc := (tcontent parent).

  Definition node_head (n : node) : list citem := match n with NSection l => [CI (rel_inlines parent l)] | _ => [] end.

  Lemma tc_flat i n c : flat_node n = true -> tc (T i n c) = node_head n ++ flat_map tc c.
  Proof. destruct n; try discriminate; reflexivity. Qed.

  Fixpoint cpre (C : list frame) : list citem :=
    match C with [] => [] | F _ n l _ :: C' => cpre C' ++ node_head n ++ flat_map tc l end.
  Fixpoint cpost (C : list frame) : list citem :=
    match C with [] => [] | F _ _ _ r :: C' => flat_map tc r ++ cpost C' end.

  Lemma tc_plug C : flat_ctx C -> forall y, tc (plug C y) = cpre C ++ tc y ++ cpost C.
  Proof.
    induction 1 as [|f C Hf _ IH]; intros y; cbn [plug cpre cpost]; [now rewrite app_nil_r|].
    destruct f as [i n l r]. rewrite IH. rewrite (tc_flat i n _ Hf). rewrite flat_map_app. cbn [flat_map].
    now rewrite <- !app_assoc.
  Qed.

  Lemma perm_move (A M X R : list citem) (ref : citem) :
    Permutation ((A ++ ref :: M ++ R) ++ X) (ref :: A ++ M ++ X ++ R).
  Proof.
    rewrite <- app_assoc. cbn [app]. apply Permutation_sym, Permutation_cons_app.
    apply Permutation_app_head. rewrite <- app_assoc. apply Permutation_app_head. apply Permutation_app_comm.
  Qed.

  (* C09_extract, content: the source after the extraction together with the new note holds
     every content line of the original exactly once, plus the one reference line *)
  Theorem extract_content C i n l1 m x r k text :
    flat_ctx C -> flat_node n = true ->
    Permutation
      (tc (plug C (T i n (l1 ++ ref_tree k text :: m ++ r))) ++ tc x)
      (CI (ref_inlines parent k text Regular) :: tc (plug C (T i n (l1 ++ m ++ x :: r)))).
  Proof.
    intros HC Hn. rewrite !tc_plug by exact HC. rewrite !(tc_flat i n _ Hn).
    rewrite !flat_map_app. cbn [flat_map ref_tree tcontent]. rewrite !flat_map_app. cbn [app].
    rewrite <- !app_assoc. cbn [app].
    rewrite (app_assoc (cpre C)), (app_assoc (cpre C ++ node_head n)).
    rewrite (app_assoc (cpre C) (node_head n) (flat_map tc l1 ++ flat_map tc m ++ tc x ++ flat_map tc r ++ cpost C)),
            (app_assoc (cpre C ++ node_head n) (flat_map tc l1)).
    apply Permutation_sym, Permutation_cons_app. apply Permutation_app_head.
    rewrite <- app_assoc. apply Permutation_app_head.
    rewrite (app_assoc (flat_map tc r)). apply Permutation_app_comm.
  Qed.
End ExtractContent.

(* ---------- inline ---------------------------------------------------------------------------- *)

Lemma remove_node_spec id i n c :
  remove_node id (T i n c) = T i n (map (fun ch => remove_node id ch) (filter (fun ch => negb (id_eq ch id)) c)).
Proof.
  cbn [remove_node]. f_equal. induction c as [|x c IH]; [reflexivity|].
  cbn [filter]. destruct (id_eq x id); cbn [negb map]; now rewrite IH.
Qed.

Lemma remove_node_notin id : forall t, contains t id = false -> remove_node id t = t.
Proof.
  apply (tree_ind' (fun t => contains t id = false -> remove_node id t = t)).
  intros i n c IH H. apply contains_children in H as [Hi Hc]. rewrite remove_node_spec.
  rewrite filter_notid.
  - f_equal. apply map_id_forall. rewrite Forall_forall in *. intros x Hx. apply IH; auto.
  - eapply Forall_impl; [|exact Hc]. intros [ti tn tk] Ht. apply contains_children in Ht as [Ht _]. now rewrite id_eq_T.
Qed.

Lemma remove_node_plug id C : ctx_free id C -> forall y, id_eq y id = false ->
  remove_node id (plug C y) = plug C (remove_node id y).
Proof.
  induction 1 as [|f C Hf _ IH]; intros y Hy; [reflexivity|].
  destruct f as [i n l r]. destruct Hf as (Hi & Hl & Hr). cbn [plug]. rewrite IH by (now rewrite id_eq_T). f_equal.
  rewrite remove_node_spec. f_equal.
  assert (Hnl : forall q, Forall (fun t => contains t id = false) q -> Forall (fun t => id_eq t id = false) q).
  { intros q Hq. eapply Forall_impl; [|exact Hq]. intros [ti tn tk] Ht. apply contains_children in Ht as [Ht _]. now rewrite id_eq_T. }
  rewrite filter_app. cbn [filter]. rewrite Hy. cbn [negb]. rewrite !filter_notid by auto.
  apply map_middle; eapply forall_notin; eauto using remove_node_notin.
Qed.

Lemma aph_notin id new : forall t, contains t id = false -> append_pre_header id new t = t.
Proof.
  apply (tree_ind' (fun t => contains t id = false -> append_pre_header id new t = t)).
  intros i n c IH H. apply contains_children in H as [Hi Hc]. cbn [append_pre_header]. rewrite id_eq_T, Hi.
  f_equal. apply map_id_forall. rewrite Forall_forall in *. intros x Hx. apply IH; auto.
Qed.

Lemma aph_plug id new C : ctx_free id C -> forall y,
  append_pre_header id new (plug C y) = plug C (append_pre_header id new y).
Proof.
  induction 1 as [|f C Hf _ IH]; intros y; [reflexivity|].
  destruct f as [i n l r]. destruct Hf as (Hi & Hl & Hr). cbn [plug]. rewrite IH. f_equal.
  cbn [append_pre_header]. rewrite id_eq_T, Hi. f_equal.
  apply map_middle; eapply forall_notin; eauto using aph_notin.
Qed.

(* C09_inline_section, tree level: the reference [R] (id tid) is removed from the section (id sid)
   that holds it and the referenced note's tree [inl] stands, as it is, at the pre-sub-header
   position of that section; everything else is the same term. *)
Theorem inline_section_spec sid tid inl C i n a R b :
  ctx_free tid C -> ctx_free sid C ->
  oid_is i sid = true -> oid_is i tid = false -> id_eq R tid = true ->
  Forall (fun t => contains t tid = false) a -> Forall (fun t => contains t tid = false) b ->
  Forall (fun t => contains t sid = false) a -> Forall (fun t => contains t sid = false) b ->
  append_pre_header sid inl (remove_node tid (plug C (T i n (a ++ R :: b)))) =
  plug C (T i n (insert_at (pre_sub_header_position (T i n (a ++ b))) inl (a ++ b))).
Proof.
  intros HCt HCs Hs Ht HR Ta Tb Sa Sb.
  rewrite remove_node_plug by (auto; now rewrite id_eq_T). rewrite aph_plug by exact HCs. f_equal.
  rewrite remove_node_spec.
  assert (Hnl : forall q, Forall (fun t => contains t tid = false) q -> Forall (fun t => id_eq t tid = false) q).
  { intros q Hq. eapply Forall_impl; [|exact Hq]. intros [ti tn tk] Hc. apply contains_children in Hc as [Hc _]. now rewrite id_eq_T. }
  rewrite filter_app. cbn [filter]. rewrite HR. cbn [negb]. rewrite !filter_notid by auto. rewrite <- filter_notid with (id := tid) (l := a) at 1 by auto.
  rewrite filter_notid by auto.
  rewrite (map_id_forall (fun ch => remove_node tid ch) (a ++ b)).
  2:{ apply Forall_app. split; eapply forall_notin; eauto using remove_node_notin. }
  cbn [append_pre_header]. rewrite id_eq_T, Hs.
  rewrite (map_id_forall (fun ch => append_pre_header sid inl ch) (a ++ b)).
  2:{ apply Forall_app. split; eapply forall_notin; eauto using aph_notin. }
  reflexivity.
Qed.

(* C09_inline_quote, tree level: the reference is replaced, in place, by a quote holding the
   children of the referenced note's tree *)
Theorem inline_quote_spec tid inl C i n c :
  ctx_free tid C -> oid_is i tid = true ->
  replace tid (T None NQuote (t_children inl)) (plug C (T i n c)) = plug C (T None NQuote (t_children inl)).
Proof.
  intros HC Hi. revert HC. generalize (T None NQuote (t_children inl)) as q. intros q HC.
  assert (H : forall y, replace tid q (plug C y) = plug C (replace tid q y)).
  { induction HC as [|f C Hf _ IH]; intros y; [reflexivity|].
    destruct f as [fi fn l r]. destruct Hf as (Hfi & Hl & Hr). cbn [plug]. rewrite IH. f_equal.
    cbn [replace]. rewrite id_eq_T, Hfi. f_equal.
    apply map_middle; eapply forall_notin; eauto using replace_notin. }
  rewrite H. cbn [replace]. now rewrite id_eq_T, Hi.
Qed.

(* C09_roundtrip, tree level: extract the first sub-section [x] (reference at its place), then
   inline that reference (re-read with id tid) with the new note's tree (a document node over
   [x]): the section holds the document node exactly where [x] was, and a document node is
   transparent to the projector, so what is written is what was written for the original. *)
Theorem roundtrip_spec sid tid C i n l1 x r R dk di :
  ctx_free tid C -> ctx_free sid C ->
  oid_is i sid = true -> oid_is i tid = false -> id_eq R tid = true ->
  forallb nonsec l1 = true -> (match r with [] => true | y :: _ => is_section y end) = true ->
  Forall (fun t => contains t tid = false) l1 -> Forall (fun t => contains t tid = false) r ->
  Forall (fun t => contains t sid = false) l1 -> Forall (fun t => contains t sid = false) r ->
  append_pre_header sid (T di (NDocument dk) [x]) (remove_node tid (plug C (T i n (l1 ++ R :: r)))) =
  plug C (T i n (l1 ++ T di (NDocument dk) [x] :: r)).
Proof.
  intros HCt HCs Hs Ht HR Hl1 Hr Tl Tr Sl Sr.
  rewrite (inline_section_spec sid tid _ C i n l1 R r) by assumption. f_equal. f_equal.
  assert (Hpos : pre_sub_header_position (T i n (l1 ++ r)) = length l1).
  { unfold pre_sub_header_position. cbn [t_children]. destruct r as [|y r'].
    - rewrite app_nil_r. now rewrite take_while_all.
    - rewrite take_while_app_stop; [reflexivity | exact Hl1 | now rewrite Hr]. }
  rewrite Hpos. apply insert_at_length.
Qed.

Lemma project_document_transparent parent hl i n l di dk x r :
  flat_node n = true ->
  project_node parent hl (T i n (l ++ T di (NDocument dk) [x] :: r)) = project_node parent hl (T i n (l ++ x :: r)).
Proof.
  intros Hn. destruct n; try discriminate; cbn [project_node];
    rewrite !flat_map_app; cbn [flat_map project_node]; now rewrite app_nil_r.
Qed.
