(* Check_C16.v — results do not depend on thread count, load order or hash seeds: the id-free
   view of everything the server answers, dumped by several separate processes that loaded the
   same library with different rayon pool sizes and insertion orders, must be identical; the
   first dump is also compared with the model's import of the same notes.
   A LARGE library (d_big <> 0: >= 1100 tiny notes with many equal titles and sub-headings, so that the
   path list is cut into several rayon slices and tied hits lie in different slices) carries only the
   cheap part of the dump: if_paths = [number of outline paths], if_search = "query|key|text" of the
   first 100 hits of a few queries, in order; the other fields are empty and there is no model run
   (d_notes = []), so sub-properties 5 and 6 are the ones that can fire on it. *)
From IweV Require Export Check_Hist Determinism.
Local Open Scope string_scope.
Local Open Scope list_scope.

Record c16case := C16C {
  d_ext : string;
  d_notes : list note_in;
  d_tables : list (string * list string);
  d_dumps : list (option idfree);
  d_exports : list (list (string * string));
  d_big : N   (* 0 for an ordinary library; number of outline paths (first process) of a large one *)
}.

Definition idfree_diff (a b : idfree) : list N :=
  flag 1 (texts_eqb (if_texts a) (if_texts b)) ++
  flag 2 (titles_eqb (if_titles a) (if_titles b)) ++
  flag 3 (lines_eqb (if_lines a) (if_lines b)) ++
  flag 4 (back_eqb (if_back a) (if_back b)) ++
  flag 5 (strs_eqb (if_paths a) (if_paths b)) ++
  flag 6 (strs_eqb (if_search a) (if_search b)).

Definition export_eqb (a b : list (string * string)) : bool :=
  list_eqb (fun x y => String.eqb (fst x) (fst y) && String.eqb (snd x) (snd y)) a b.

(* sub-property 8: some process panicked or timed out while another one answered *)
Definition c16_props (c : c16case) : list N :=
  dedup_stages
    (match d_dumps c with
     | Some d0 :: rest =>
         flat_map (fun o => match o with Some d => idfree_diff d0 d | None => [8%N] end) rest
     | None :: rest =>
         (* every process panicked alike (a library that cannot be loaded: C03 owns that) *)
         flag 8 (forallb (fun o => match o with None => true | Some _ => false end) rest)
     | [] => [8%N]
     end ++
     match d_exports c with
     | e0 :: rest => flag 7 (forallb (export_eqb e0) rest)
     | [] => []
     end).

(* the model: import the notes (sorted by name), format every note, read the titles *)
Definition c16_model (c : c16case) : res graph :=
  do ns <- fold_right (fun n acc => do r <- acc; do bs <- ni_blocks n; Ok ((ni_name n, ni_meta n, bs) :: r))
                      (Ok []) (d_notes c);
  import_state ns.

Definition c16_corr (c : c16case) : list N :=
  match c16_model c, d_dumps c with
  | Ok g, Some d0 :: _ =>
      flag 1 (forallb (fun kt => res_eqb String.eqb
                         (to_markdown (Opts (d_ext c)) (tables_of_key (d_tables c) (fst kt)) g (fst kt)) (snd kt))
                      (if_texts d0)) ++
      flag 2 (forallb (fun kt => ostring_eqb (get_key_title g (fst kt)) (snd kt)) (if_titles d0))
  | Panic _, None :: _ => []
  | Panic _, [] => []
  | Panic _, Some _ :: _ => [1%N]
  | Ok _, _ => [1%N]
  end.

(* a large library is non-trivial when its path list is long enough for four slices of 256 entries
   and the first process dumped more than 100 hits (more than one query answered in full) *)
Definition c16_big_nontriv (c : c16case) : bool :=
  N.leb 1024 (d_big c) &&
  match d_dumps c with Some d0 :: _ => Nat.ltb 100 (length (if_search d0)) | _ => false end.

Definition run_C16 (c : c16case) : verdict :=
  V (if N.eqb (d_big c) 0 then c16_corr c else [])
    (c16_props c) []
    (if N.eqb (d_big c) 0 then Nat.ltb 1 (length (d_notes c)) else c16_big_nontriv c).
