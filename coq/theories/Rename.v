(* Rename.v — C08: `Tree::change_key` (liwe/src/model/tree.rs:272-303),
   `GraphInline::change_key` (liwe/src/model/graph.rs:307-360), the reference scan that
   `handle_rename` takes from the index, `handle_rename` itself
   (iwes/src/router/server.rs:395-502) and the editor's side, `apply_edits`.
   No proofs here (RenameFacts.v).

   Variants: [fixes] switches four repairs on and off; [as_found] is the unchanged tree.
   fx_meta = fix-rename-front-matter.patch (dae68d5), fx_dangling = fix-rename-dangling.patch
   (b92b513), fx_subdir = "rename reads the new name from the directory of the note that holds
   the cursor" (one key for the whole of handle_rename);
   fx_label (keep the link text) is modelled but not delivered: it fails the unedited suite. *)
From IweV Require Import Str Text Ast RelPath Arena Project Library.
Local Open Scope string_scope.
Local Open Scope list_scope.

Record fixes := FX {
  fx_label : bool;      (* GraphInline::change_key keeps the link text (no patch: see above) *)
  fx_meta : bool;       (* the front matter moves with the note *)
  fx_dangling : bool;   (* a link to no note under the cursor: no edit instead of a panic *)
  fx_subdir : bool      (* the new name is read once, from the directory of the cursor's note *)
}.
Definition as_found : fixes := FX false false false false.
Definition repaired : fixes := FX true true true true.

(* ---------- GraphInline::change_key ------------------------------------------------------- *)

(* `self.is_ref() && self.ref_key().map_or(false, |key| key.eq(target_key))`:
   the key of an inline link is `Key::name(url)` — the url the graph holds IS the key the link names
   from the directory of the note that holds it (Arena.to_ginline: `Key::from_rel_link_url`; in the
   pinned tree it was the url as typed, F-C08-rawurl) *)
Definition link_hits (old url : string) : bool :=
  is_ref_url url && String.eqb (key_name url) old.

(* Emph/Strong/Strikeout are mapped; a link is rewritten as a whole (its text is not
   visited); `_ => self.clone()` covers Image, whose text is therefore not visited either *)
Fixpoint change_key_inline (fx : fixes) (old new : string) (i : inline) : inline :=
  match i with
  | Emph l => Emph (map (change_key_inline fx old new) l)
  | Strong l => Strong (map (change_key_inline fx old new) l)
  | Strike l => Strike (map (change_key_inline fx old new) l)
  | Link url title lt l =>
      if link_hits old url
      then Link new title lt (if fx_label fx then l else [])      (* graph.rs:350-355: `vec![]` *)
      else i
  | _ => i
  end.

Definition change_key_inlines (fx : fixes) (old new : string) (l : list inline) : list inline :=
  map (change_key_inline fx old new) l.

(* ---------- Tree::change_key --------------------------------------------------------------- *)

(* Section and Leaf lines are mapped, a Reference compares its (already resolved) key;
   `_ => self.node.clone()` covers Table: links in table cells are never rewritten *)
Definition change_key_node (fx : fixes) (old new : string) (n : node) : node :=
  match n with
  | NSection l => NSection (change_key_inlines fx old new l)
  | NLeaf l => NLeaf (change_key_inlines fx old new l)
  | NRef k text rt => NRef (if String.eqb k old then new else k) text rt
  | _ => n
  end.

Fixpoint change_key_tree (fx : fixes) (old new : string) (t : tree) : tree :=
  match t with
  | T i n c => T i (change_key_node fx old new n) (map (change_key_tree fx old new) c)
  end.

(* ---------- the reference scan -------------------------------------------------------------
   `get_block_references_to(key) ++ get_inline_references_to(key)` mapped to the owning notes.
   After `Graph::import` the index holds, for every arena node: a Reference node under its
   key; a Section/Leaf node under every `ref_keys()` of its line (graph.rs:211-246: through
   Emph/Strong/Strikeout and Image texts, a Link under `Key::name(url)` whether or not it
   is a note link); nothing for Table nodes (index.rs).  Modelled on the collected tree (title
   refresh does not touch urls), valid for a freshly imported library. *)
Fixpoint inline_ref_keys (i : inline) : list string :=
  match i with
  | Emph l | Strong l | Strike l => flat_map inline_ref_keys l
  | Link url _ _ _ => [key_name url]
  | Image _ _ l => flat_map inline_ref_keys l
  | _ => []
  end.

Definition node_ref_keys (n : node) : list string :=
  match n with
  | NSection l | NLeaf l => flat_map inline_ref_keys l
  | NRef k _ _ => [k]
  | _ => []
  end.

Fixpoint tree_ref_keys (t : tree) : list string :=
  match t with T _ n c => node_ref_keys n ++ flat_map tree_ref_keys c end.

Definition tree_refers (key : string) (t : tree) : bool :=
  existsb (String.eqb key) (tree_ref_keys t).

(* ---------- the library as handle_rename sees it ---------------------------------------------- *)

Record tnote := TN {
  tn_key : string;
  tn_meta : option string;      (* Graph.metadata *)
  tn_tree : tree;               (* Graph::collect(key): titles refreshed *)
  tn_tables : list string       (* oracle: text of the note's tables, as they are written where the note is
                                   exported (the renamed note: in the directory of its new key) *)
}.
Definition tlib := list tnote.

Definition tl_find (L : tlib) (k : string) : option tnote :=
  find (fun n => String.eqb (tn_key n) k) L.
Definition tl_keys (L : tlib) : list string := map tn_key L.

(* `.sorted()` on keys: byte-wise string order *)
Fixpoint insert_sorted (k : string) (l : list string) : list string :=
  match l with
  | [] => [k]
  | x :: r => if String.leb k x then k :: l else x :: insert_sorted k r
  end.
Definition sort_keys (l : list string) : list string := fold_right insert_sorted [] l.

(* `collect` inside the patch graph (`new_patch`: no title table): GraphNodePointer::node
   with a context that knows no title *)
Definition no_titles : titles := fun _ => None.
Definition renorm_node (n : node) : node :=
  match n with
  | NSection l => NSection (normalize_inlines no_titles l)
  | NLeaf l => NLeaf (normalize_inlines no_titles l)
  | NRef key text rt =>
      NRef key match rt with Regular => text | WikiLink => "" | WikiLinkPiped => text end rt
  | NTable h al rows =>
      NTable (map (normalize_inlines no_titles) h) al (map (map (normalize_inlines no_titles)) rows)
  | _ => n
  end.
Fixpoint renorm_tree (t : tree) : tree :=
  match t with T i n c => T i (renorm_node n) (map renorm_tree c) end.

(* `patch.build_key(k).insert_from_iter(tree.iter())` then `patch.export_key(k)`:
   tree -> arena -> tree is the identity on the shape (builder.rs:326-362), so the text is
   that of the re-normalised tree, under the front matter the patch graph holds for [k] *)
Definition export_tree (o : opts) (meta : option string) (tables : list string) (key : string) (t : tree) : string :=
  wrap_metadata meta (tree_to_markdown o tables (key_parent key) (renorm_tree t)).

(* ---------- handle_rename ----------------------------------------------------------------------- *)

(* files are named by their stem: uri = base_path + stem + ".md" (key_to_url, name_to_url) *)
Inductive op :=
| OpOverride (stem text : string)     (* TextDocumentEdit, range (0,0)-(u32::MAX,0) *)
| OpDelete (stem : string)
| OpCreate (stem : string)            (* overwrite = false, ignore_if_exists = false *)
| OpInsert (stem text : string)       (* TextDocumentEdit, range (0,0)-(0,0) *)
| OpOther (what : string).            (* anything else the harness sees; never produced by the model *)

Inductive rresult :=
| RErr (msg : string)                 (* ResponseError, no edit *)
| RNone                               (* Ok(None) *)
| REdits (ops : list op).

Definition taken_msg (new_name : string) : string :=
  "The file name " +++ new_name +++ " is already taken".

(* the answer of the reference index for one key: does this note own a reference to it? *)
Definition scan_t := string -> res (tnote -> bool).

(* on the collected trees *)
Definition tree_scan : scan_t := fun key => Ok (fun n => tree_refers key (tn_tree n)).

Definition affected_notes (refers : tnote -> bool) (L : tlib) (key : string) : list tnote :=
  filter (fun n => negb (String.eqb (tn_key n) key) && refers n) L.

Definition note_by_key (L : tlib) (k : string) (dflt : tnote) : tnote :=
  match tl_find L k with Some n => n | None => dflt end.

(* [site]: what `parser.url_at(position)` returned for the document [doc] (an oracle: the
   reader and its positions belong to C13); [Panic] when the reader panicked.

   server.rs:395-502.  `relative_to` (399-404) is the directory of the note that holds the cursor;
   `new_key = Key::from_rel_link_url(&params.new_name, relative_to)` (408) is the new name read
   from that directory, like the url under the cursor (the placeholder of prepare-rename is that
   url as written).  It is the one key of the function: the "already taken" test (410),
   `move_metadata` (450), `build_key` (452), both `change_key` calls (456, 465), `export_key` (490)
   and - through `to_full_url`, like the delete operation - the create / insert operations (484-492).
   As found ([fx_subdir] = false) only `export_key` used it; everything else used
   `params.new_name.into()` = `Key::from_file_name(new_name)`, the name read from the library root,
   and the new file was `name_to_url(new_name)`: from a sub-directory (or with a name not spelled
   like its key, `./x`) the patch was built under one key and exported under another. *)
(* the key the note is filed under in the patch *)
Definition new_key_of (fx : fixes) (doc new_name : string) : string :=
  if fx_subdir fx then from_rel_link_url new_name (key_parent doc)   (* server.rs:408 *)
  else key_from_file_name new_name.                                  (* as found: `new_name.into()` *)

Definition rename_core (fx : fixes) (o : opts) (scan : scan_t) (L : tlib) (doc : string)
           (site : res (option string)) (new_name : string) : res rresult :=
  let rel := key_parent doc in                                       (* server.rs:399-404 *)
  let new_key := from_rel_link_url new_name rel in                   (* server.rs:408 *)
  let new := new_key_of fx doc new_name in
  match tl_find L new with
  | Some _ => Ok (RErr (taken_msg new_name))                         (* server.rs:410-416 *)
  | None =>
      do s <- site;
      match s with
      | None => Ok RNone
      | Some url =>
          let key := from_rel_link_url url rel in
          match tl_find L key with
          | None => if fx_dangling fx then Ok RNone                  (* `.filter(..)`, server.rs:427-432 *)
                    else Panic "to have key"                         (* graph().collect(&key) *)
          | Some nk =>
              do refers <- scan key;                                 (* the two index queries *)
              let aff := affected_notes refers L key in
              let aff_keys := sort_keys (map tn_key aff) in
              (* the patch graph: key -> (tree, tables of the note the tree came from) *)
              let patch :=
                (new, (change_key_tree fx key new (tn_tree nk), tn_tables nk)) ::
                map (fun a => (tn_key a, (change_key_tree fx key new (tn_tree a), tn_tables a))) aff in
              (* patch.metadata = graph.metadata *)
              let meta_of := fun k =>
                if fx_meta fx && String.eqb k new then tn_meta nk
                else match tl_find L k with Some n => tn_meta n | None => None end in
              let export := fun k =>
                match alookup k patch with
                | Some (t, tb) => Ok (export_tree o (meta_of k) tb k t)
                | None => Panic "to have key"                        (* patch.export_key(..).expect *)
                end in
              do overrides <- fold_right (fun k acc => do r <- acc; do t <- export k; Ok (OpOverride k t :: r))
                                         (Ok []) aff_keys;
              do new_text <- export new_key;
              (* the new file: `new_key.to_full_url` = base + key + ".md" (server.rs:484-492); as found
                 name_to_url: the name as typed, without its one `.md` (strip_md) *)
              let stem := if fx_subdir fx then new_key else strip_md new_name in
              Ok (REdits (overrides ++ [OpDelete key; OpCreate stem; OpInsert stem new_text]))
          end
      end
  end.

(* the library of a graph *)
Definition tlib_of_graph (g : graph) (tables : string -> list string) : res tlib :=
  fold_right (fun kv acc => do r <- acc; do t <- collect_key g (fst kv);
                Ok (TN (fst kv) (alookup (fst kv) (gr_meta g)) t (tables (fst kv)) :: r))
             (Ok []) (gr_keys g).

(* The index as `Graph::import` builds it: `index_node` is called for EVERY arena slot, so a
   node that the builder left unreachable from its document (an item that starts with a list
   and goes on: C07/C20 findings) is indexed all the same; its owner is found by walking the
   `prev` links up to a Document node (`NodePointer::node_key`). *)
Fixpoint owner_fuel (fuel : nat) (a : arena) (id : nat) : res string :=
  match fuel with
  | O => Panic "out of fuel"
  | S f =>
      match get a id with
      | None => Panic "arena index out of bounds"
      | Some n =>
          match g_kind n with
          | KDocument k => Ok k
          | KEmpty => Panic "prev_id of Empty"
          | _ => match g_prev n with
                 | Some p => owner_fuel f a p
                 | None => Panic "node_key: no document"      (* `.unwrap()` in node_key *)
                 end
          end
      end
  end.

Definition kind_ref_keys (k : gkind) : list string :=
  match k with
  | KSection l | KLeaf l => flat_map inline_ref_keys l
  | KRef key _ _ => [key]
  | _ => []
  end.

(* keys of the notes that own an indexed reference to [key] *)
Definition arena_owners (a : arena) (key : string) : res (list string) :=
  fold_right (fun idn acc =>
                do r <- acc;
                if existsb (String.eqb key) (kind_ref_keys (g_kind (snd idn)))
                then do k <- owner_fuel (S (length a)) a (fst idn); Ok (k :: r)
                else Ok r)
             (Ok []) (combine (seq 0 (length a)) a).

Definition index_scan (a : arena) : scan_t :=
  fun key => do own <- arena_owners a key;
             Ok (fun n => existsb (String.eqb (tn_key n)) own).

Definition handle_rename (fx : fixes) (o : opts) (g : graph) (tables : string -> list string)
           (doc : string) (site : res (option string)) (new_name : string) : res rresult :=
  do L <- tlib_of_graph g tables;
  rename_core fx o (index_scan (gr_arena g)) L doc site new_name.

(* ---------- the editor's side -------------------------------------------------------------------- *)

Definition store := string -> option string.     (* stem -> text *)

Definition upd (s : store) (k : string) (v : option string) : store :=
  fun q => if String.eqb q k then v else s q.

Definition apply_op (s : store) (o : op) : option store :=
  match o with
  | OpOverride k t => match s k with Some _ => Some (upd s k (Some t)) | None => None end
  | OpDelete k => match s k with Some _ => Some (upd s k None) | None => None end
  | OpCreate k => match s k with Some _ => None | None => Some (upd s k (Some "")) end
  | OpInsert k t => match s k with Some old => Some (upd s k (Some (t +++ old))) | None => None end
  | OpOther _ => None
  end.

Fixpoint apply_edits (ops : list op) (s : store) : option store :=
  match ops with
  | [] => Some s
  | o :: r => match apply_op s o with Some s' => apply_edits r s' | None => None end
  end.

Definition store_of (files : list (string * string)) : store := fun k => alookup k files.

(* ---------- reference occurrences of a tree, for the statements ---------------------------------- *)

Inductive occ :=
| OBlock (key text : string) (rt : link_type)
| OInline (url title : string) (lt : link_type) (l : list inline).

(* the occurrences change_key looks at: links of Section/Leaf lines outside link and image
   texts, and Reference nodes; document order *)
Fixpoint inline_occs (i : inline) : list occ :=
  match i with
  | Emph l | Strong l | Strike l => flat_map inline_occs l
  | Link url title lt l => [OInline url title lt l]
  | _ => []
  end.
Definition node_occs (n : node) : list occ :=
  match n with
  | NSection l | NLeaf l => flat_map inline_occs l
  | NRef k text rt => [OBlock k text rt]
  | _ => []
  end.
Fixpoint tree_occs (t : tree) : list occ :=
  match t with T _ n c => node_occs n ++ flat_map tree_occs c end.

(* the key iwe gives an occurrence *)
Definition occ_key (o : occ) : option string :=
  match o with
  | OBlock k _ _ => Some k
  | OInline url _ _ _ => if is_ref_url url then Some (key_name url) else None
  end.

Definition occ_hits (old : string) (o : occ) : bool :=
  match occ_key o with Some k => String.eqb k old | None => false end.

Definition retarget (fx : fixes) (old new : string) (o : occ) : occ :=
  if occ_hits old o then
    match o with
    | OBlock _ text rt => OBlock new text rt
    | OInline _ title lt l => OInline new title lt (if fx_label fx then l else [])
    end
  else o.

(* everything but the destinations (and, as found, the texts) of note links *)
Fixpoint erase_inline (i : inline) : inline :=
  match i with
  | Emph l => Emph (map erase_inline l)
  | Strong l => Strong (map erase_inline l)
  | Strike l => Strike (map erase_inline l)
  | Link url title lt l => if is_ref_url url then Link "" title lt [] else i
  | _ => i
  end.
Definition erase_node (n : node) : node :=
  match n with
  | NSection l => NSection (map erase_inline l)
  | NLeaf l => NLeaf (map erase_inline l)
  | NRef _ text rt => NRef "" text rt
  | _ => n
  end.
Fixpoint erase_tree (t : tree) : tree :=
  match t with T i n c => T i (erase_node n) (map erase_tree c) end.

(* known-defect classifier at the tree level: an inline note link to [old] that carries a text *)
Definition occ_has_label (old : string) (o : occ) : bool :=
  match o with
  | OInline _ _ _ (_ :: _) => occ_hits old o
  | _ => false
  end.
