(* Check_C08.v — executable side of C08 (rename): the case type the harness fills, the
   correspondence of the model (Rename.v) with the observed `handle_rename`, and the property
   predicates evaluated on the implementation's own observations: the workspace edit it
   returned, applied to a copy of the library, every resulting note re-read by the real reader. *)
From IweV Require Export Check_Norm Rename.
Local Open Scope string_scope.
Local Open Scope list_scope.

(* which variant of the model the implementation under test is expected to follow:
   [as_found] for the unchanged tree.  /repo has the repairs fx_meta (dae68d5, the front matter
   moves with the note), fx_dangling (b92b513, a link to no note is refused) and fx_subdir (the
   new name is read once, from the directory of the note that holds the cursor; findings
   F-C08-frontmatter / F-C08-dangling / F-C08-subdir are `fixed:`).
   fx_label has no patch: the obvious repair (keep the text in GraphInline::change_key) fails
   the unedited test rename_inline_references, which pins `[](1) text` -> `[](new_name) text`
   after the text was refreshed to the title. *)
Definition impl_fixes : fixes := FX false true true true.

Definition after_note := (string * string * res (option string * list dblock))%type.   (* stem, text, re-read *)

Record attempt := AT {
  at_doc : string;                        (* key of the note that holds the cursor *)
  at_site : res (option string);          (* parser.url_at(position) *)
  at_prepare : res (option string);       (* placeholder of handle_prepare_rename *)
  at_new : string;                        (* new name as typed *)
  at_tables : list string;                (* oracle: the text of the tables of the note under the cursor as they are
                                             written in the directory the new name puts it in (the note links of
                                             table cells are written relative to the note, like all others) *)
  at_result : res rresult;                (* handle_rename *)
  at_after : option (list after_note)     (* files after applying the edit; None: an operation failed *)
}.

Record rcase := RC {
  rc_lib : libcase;
  rc_texts : list (string * string);      (* stem, source text, sorted by stem *)
  rc_server : bool;                       (* Server::new returned *)
  rc_attempts : list attempt
}.

(* ---------- equalities ------------------------------------------------------------------------ *)

Definition op_eqb (a b : op) : bool :=
  match a, b with
  | OpOverride s t, OpOverride s' t' => String.eqb s s' && String.eqb t t'
  | OpDelete s, OpDelete s' => String.eqb s s'
  | OpCreate s, OpCreate s' => String.eqb s s'
  | OpInsert s t, OpInsert s' t' => String.eqb s s' && String.eqb t t'
  | _, _ => false
  end.

Definition rresult_eqb (a b : rresult) : bool :=
  match a, b with
  | RErr m, RErr m' => String.eqb m m'
  | RNone, RNone => true
  | REdits x, REdits y => list_eqb op_eqb x y
  | _, _ => false
  end.

Definition osite_eqb (a b : res (option string)) : bool := res_eqb ostring_eqb a b.

(* ---------- correspondence ---------------------------------------------------------------------- *)

(* handle_rename = tlib_of_graph, then rename_core; the library is computed once per case *)
Definition model_tlib (c : rcase) (g : graph) : res tlib := tlib_of_graph g (tables_for (rc_lib c)).
(* the table oracle of the renamed note is the one of the place it is written to *)
Definition moved_tables (a : attempt) (L : tlib) : tlib :=
  match at_site a with
  | Ok (Some u) =>
      let k := from_rel_link_url u (key_parent (at_doc a)) in
      map (fun n => if String.eqb (tn_key n) k then TN (tn_key n) (tn_meta n) (tn_tree n) (at_tables a) else n) L
  | _ => L
  end.
Definition model_rename (c : rcase) (g : graph) (L : res tlib) (a : attempt) : res rresult :=
  do L <- L; rename_core impl_fixes (o_of (rc_lib c)) (index_scan (gr_arena g)) (moved_tables a L) (at_doc a) (at_site a) (at_new a).

(* the model's apply_edits on the observed operations against what the harness's editor did *)
Definition apply_agrees (c : rcase) (a : attempt) : bool :=
  match at_result a with
  | Ok (REdits ops) =>
      match apply_edits ops (store_of (rc_texts c)), at_after a with
      | None, None => true
      | Some st, Some A =>
          forallb (fun n => let '(s, t, _) := n in ostring_eqb (st s) (Some t)) A &&
          forallb (fun st_t => match st (fst st_t) with
                               | Some _ => existsb (fun n => String.eqb (fst (fst n)) (fst st_t)) A
                               | None => true
                               end) (rc_texts c)
      | _, _ => false
      end
  | _ => true
  end.

Definition c08_corr (c : rcase) : list N :=
  match model_graph (rc_lib c) with
  | Panic _ => flag 4 (negb (rc_server c))
  | Ok g =>
      let L := model_tlib c g in
      flag 4 (rc_server c) ++
      flag 1 (forallb (fun a => res_eqb rresult_eqb (model_rename c g L a) (at_result a)) (rc_attempts c)) ++
      (* a panic of prepare_rename (key_range arithmetic) is C13's business, not compared here *)
      flag 2 (forallb (fun a => match at_prepare a with
                                | Ok _ => osite_eqb (at_site a) (at_prepare a)
                                | Panic _ => true
                                end) (rc_attempts c)) ++
      flag 3 (forallb (apply_agrees c) (rc_attempts c))
  end.

(* ---------- what the library looked like before -------------------------------------------------- *)

Record bnote := BN { bn_stem : string; bn_key : string; bn_meta : option string; bn_blocks : list dblock; bn_text : string }.

Definition before_notes (c : rcase) : list bnote :=
  flat_map (fun n => match ni_blocks n with
                     | Ok bs => [BN (ni_name n) (key_name (ni_name n)) (ni_meta n) bs
                                    (match alookup (ni_name n) (rc_texts c) with Some t => t | None => "" end)]
                     | Panic _ => []
                     end) (lc_notes (rc_lib c)).

Definition mem (k : string) (l : list string) : bool := existsb (String.eqb k) l.

(* ---------- links of reader blocks, with where they stand ------------------------------------------ *)

Definition lnk := (string * string * string)%type.       (* kind, url, text: Check_Norm.inline_links *)

(* how iwe stores the occurrence: a block reference (a paragraph that is one note link, except
   as the first block of a list item, which is a section line), a link inside a table cell, or
   an inline link of a section/leaf line *)
Inductive where_ := WBlock | WInline | WTable.
Definition where_eqb (a b : where_) : bool :=
  match a, b with WBlock, WBlock | WInline, WInline | WTable, WTable => true | _, _ => false end.

Definition tag (w : where_) (l : list lnk) : list (where_ * lnk) := map (fun x => (w, x)) l.

Fixpoint tlinks (b : dblock) {struct b} : list (where_ * lnk) :=
  let fix go (l : list dblock) : list (where_ * lnk) :=
    match l with [] => [] | x :: r => tlinks x ++ go r end in
  let fix goi (l : list (list dblock)) : list (where_ * lnk) :=
    match l with
    | [] => []
    | it :: r =>
        (match it with
         | DPara _ l :: rest => tag WInline (flat_map inline_links l) ++ go rest
         | _ => go it
         end) ++ goi r
    end in
  match b with
  | DPara _ l => tag (if para_is_ref l then WBlock else WInline) (flat_map inline_links l)
  | DHeader _ _ l => tag WInline (flat_map inline_links l)
  | DQuote _ bs => go bs
  | DOList its | DBList its => goi its
  | DTable _ h _ rows =>
      tag WTable (flat_map (flat_map inline_links) h ++ flat_map (fun r => flat_map (flat_map inline_links) r) rows)
  | _ => []
  end.
Definition note_links (bs : list dblock) : list (where_ * lnk) := flat_map tlinks bs.

Definition lnk_kind (l : lnk) := fst (fst l).
Definition lnk_url (l : lnk) := snd (fst l).
Definition lnk_text (l : lnk) := snd l.
(* a link to a note: a wiki link whose destination is an external url (`[[http://e|t]]`) is not one - its
   destination is compared as text, whatever directory the note moves to *)
Definition lnk_is_note (l : lnk) : bool := is_note_kind (lnk_kind l) && is_ref_url (lnk_url l).
Definition resolve (d : string) (l : lnk) : string := from_rel_link_url (lnk_url l) d.

(* ---------- the property on one attempt ------------------------------------------------------------- *)

(* a failed check: the sub-property, and the known class that accounts for this very failure
   (None: nothing known does) *)
Definition failure := (N * option N)%type.
Definition fail_if (ok : bool) (p : N) (cls : option N) : list failure := if ok then [] else [(p, cls)].
Definition first_class (l : list (bool * N)) : option N :=
  match find fst l with Some (_, c) => Some c | None => None end.

(* the format-safe class of the normalization family: outside it formatting itself changes
   content (findings of C01/C02/C06/C07), and rename formats every note it touches *)
Definition format_safe (bs : list dblock) : bool :=
  inert_blocks bs.

Section Attempt.
  Variable c : rcase.
  Variable a : attempt.

  Let B := before_notes c.
  Let keys := map bn_key B.
  Let rel := key_parent (at_doc a).
  (* the key the new name stands for: the name is typed over the placeholder of prepare-rename,
     which is the url of the link as written, so it is read like that url - from the directory
     of the note that holds the cursor (one `.md` off, joined, normalised) *)
  Let newk := from_rel_link_url (at_new a) rel.
  Let taken := mem newk keys.
  (* titles that formatting copies into link texts: none contains a link, all are inert text *)
  Let lib_titles_plain :=
    negb (existsb title_has_link (lc_notes (rc_lib c))) &&
    forallb (fun kt => match snd kt with Some t => inert_str t | None => true end) (lo_titles (rc_lib c)).

  Definition target : option string :=
    match at_site a with
    | Ok (Some u) => Some (from_rel_link_url u rel)
    | _ => None
    end.

  Definition unchanged : bool :=
    match at_after a with
    | Some A => list_eqb (fun x y => String.eqb (fst x) (fst y) && String.eqb (snd x) (snd y)) (rc_texts c) (map fst A)
    | None => false
    end.

  Definition is_panic : bool := match at_result a with Panic _ => true | _ => false end.
  Definition no_edits : bool :=
    match at_result a with Ok (REdits (_ :: _)) => false | Panic _ => false | _ => unchanged end.

  Definition find_after (A : list after_note) (key : string) : option after_note :=
    find (fun n => String.eqb (key_name (fst (fst n))) key) A.

  Definition title_norm (key : string) : option string :=
    match title_of (rc_lib c) key with Some t => Some (norm_text t) | None => None end.

  Definition reread_of (n : after_note) : option (option string * list dblock) :=
    match snd n with Ok r => Some r | Panic _ => None end.

  (* ----- classifiers of the call: (library, site, new name) ----- *)
  (* 5: the link under the cursor names no note *)
  Definition k_dangling : bool := match target with Some k => negb (mem k keys) | None => false end.
  (* (class 1, the cursor in a note of a sub-directory, and class 7a, a new name not written the
     way its key is, are gone with their defect: handle_rename reads the new name once) *)
  Definition call_class : option N :=
    first_class [(k_dangling, 5%N)].

  (* ----- classifiers of one occurrence [x] (before) in note [b], for the rename of [k] ----- *)
  Definition touches (k : string) (b : bnote) (x : lnk) : bool :=
    lnk_is_note x && String.eqb (resolve (key_parent (bn_key b)) x) k.
  (* 2: an inline link to the note that carries a text (regular or piped) *)
  Definition k_label (k : string) (b : bnote) (wx : where_ * lnk) : bool :=
    where_eqb (fst wx) WInline && touches k b (snd wx) &&
    negb (String.eqb (lnk_kind (snd wx)) "wiki") && negb (sempty (lnk_text (snd wx))).
  (* (3, F-C08-rawurl - an inline link whose raw url is not the key it resolves to - is repaired: the graph
     holds an inline note link by the key it names from the note's directory, so it is retargeted exactly
     when it resolves to the renamed note and titled by the note it resolves to) *)
  (* 4: a link to the note inside a table cell *)
  Definition k_table (k : string) (b : bnote) (wx : where_ * lnk) : bool :=
    where_eqb (fst wx) WTable && touches k b (snd wx).
  (* (7b, the second half of F-C08-newname - the note moves to another directory and its inline and
     table-cell links, and inline links to it, were written without regard to the directory they are read
     from - is repaired: the projector writes every inline note link relative to the note it is written into) *)
  (* 10: the note is outside the format-safe class of C01/C02/C06/C07 *)
  Definition k_unsafe (b : bnote) : bool := negb (format_safe (bn_blocks b) && lib_titles_plain).

  (* 2, collateral: a piped link that lost its text is written `[[new|]]`, which the reader
     takes as a piped link whose text runs to the next `]]`: every later occurrence of the
     note is displaced *)
  Definition k_piped_label (k : string) (b : bnote) : bool :=
    existsb (fun wx => k_label k b wx && String.eqb (lnk_kind (snd wx)) "piped") (note_links (bn_blocks b)).

  Definition occ_class_target (k : string) (b : bnote) (wx : where_ * lnk) : option N :=
    first_class [(k_table k b wx, 4%N); (k_piped_label k b, 2%N); (k_unsafe b, 10%N)].
  Definition occ_class_text (k : string) (b : bnote) (wx : where_ * lnk) : option N :=
    first_class [(k_label k b wx, 2%N); (k_piped_label k b, 2%N); (k_unsafe b, 10%N)].

  (* one occurrence before (in directory d) and after (in directory d') *)
  Definition target_ok (k d d' : string) (x y : lnk) : bool :=
    String.eqb (lnk_kind x) (lnk_kind y) &&
    (if lnk_is_note x then
       let rx := resolve d x in
       String.eqb (resolve d' y) (if String.eqb rx k then newk else rx)
     else String.eqb (lnk_url x) (lnk_url y)).

  Definition text_ok (d : string) (x y : lnk) : bool :=
    if String.eqb (lnk_kind x) "wiki" then true
    else if String.eqb (lnk_kind x) "ref" then
      String.eqb (lnk_text y) (lnk_text x) ||
      match title_norm (resolve d x) with Some t => String.eqb (lnk_text y) t | None => false end
    else String.eqb (lnk_text y) (lnk_text x).

  Definition ren_atom (k : string) (s : string) : string :=
    if String.eqb s ("u:" +++ k) then "u:" +++ newk else s.

  (* the sub-properties that speak about a successful rename of the existing note [k] *)
  Definition success_fails (k : string) : list failure :=
    match at_result a, at_after a with
    | Ok (REdits _), Some A =>
        let stems_ok :=
          (* the files are those of before, minus k, plus exactly one for the new key *)
          forallb (fun b => if String.eqb (bn_key b) k then true
                            else existsb (fun n => String.eqb (fst (fst n)) (bn_stem b)) A) B &&
          Nat.eqb (length A) (length B) &&
          Nat.eqb (length (filter (fun n => String.eqb (key_name (fst (fst n))) newk) A)) 1 in
        let gone := negb (existsb (fun n => String.eqb (key_name (fst (fst n))) k) A) in
        let pairs :=      (* before note, its key after, its note after, that note re-read *)
          flat_map (fun b =>
            let key' := if String.eqb (bn_key b) k then newk else bn_key b in
            match (if String.eqb (bn_key b) k then find_after A newk
                   else find (fun n => String.eqb (fst (fst n)) (bn_stem b)) A) with
            | Some n => match reread_of n with Some r => [(b, key', n, r)] | None => [] end
            | None => []
            end) B in
        let all_paired := Nat.eqb (length pairs) (length B) in
        fail_if (stems_ok && all_paired) 4 None ++
        fail_if gone 9 None ++
        flat_map (fun p =>
          let '(b, key', n, (m', bs')) := p in
          let d := key_parent (bn_key b) in let d' := key_parent key' in
          let ls := note_links (bn_blocks b) in let ls' := note_links bs' in
          let is_moved := String.eqb (bn_key b) k in
          (* 5: content and front matter of the moved note *)
          (if is_moved then
             fail_if (ostring_eqb (bn_meta b) m') 5
                     (match bn_meta b with Some _ => Some 6%N | None => None end) ++
             fail_if (if format_safe (bn_blocks b)
                      then list_eqb String.eqb (map (ren_atom k) (atoms d (bn_blocks b))) (atoms d' bs')
                      else negb (Nat.eqb (length bs') 0) || Nat.eqb (length (bn_blocks b)) 0) 5
                     (first_class [(existsb (k_label k b) ls && existsb (fun wx => String.eqb (lnk_kind (snd wx)) "piped" && k_label k b wx) ls, 2%N);
                                   (existsb (k_table k b) ls, 4%N);
                                   (k_unsafe b, 10%N)])
           else []) ++
          (* 6 / 7: occurrence by occurrence *)
          (if Nat.eqb (length ls) (length ls')
           then flat_map (fun xy => let '(wx, wy) := xy in
                            fail_if (target_ok k d d' (snd wx) (snd wy)) 6 (occ_class_target k b wx) ++
                            fail_if (text_ok d (snd wx) (snd wy)) 7 (occ_class_text k b wx)) (combine ls ls')
           else [(6%N, first_class [(k_piped_label k b, 2%N); (k_unsafe b, 10%N)])]) ++
          (* 8: a note without any link to k is byte-identical *)
          (if is_moved || existsb (fun wx => lnk_is_note (snd wx) && String.eqb (resolve d (snd wx)) k) ls then []
           else fail_if (String.eqb (snd (fst n)) (bn_text b)) 8 None)) pairs
    | _, _ => [(4%N, call_class)]
    end.

  Definition attempt_fails : list failure :=
    match at_site a with
    | Panic _ => []                                   (* the reader panicked under the cursor: no site (C03/C13) *)
    | Ok s =>
        (if taken then fail_if (match at_result a with Ok (RErr _) => unchanged | _ => false end) 1 None
         else fail_if (negb is_panic) 2 call_class ++
              match s with
              | None => fail_if (match at_result a with Ok RNone => true | _ => false end) 3 None
              | Some _ =>
                  match target with
                  | Some k => if mem k keys then success_fails k else fail_if no_edits 3 call_class
                  | None => []
                  end
              end)
    end.

  (* (failing sub-properties, classes): no class at all when some failure is unaccounted for *)
  Definition attempt_verdict : list N * list N :=
    let fs := attempt_fails in
    let props := dedup_N (map fst fs) in
    if existsb (fun f => match snd f with None => true | Some _ => false end) fs then (props, [])
    else (props, dedup_N (flat_map (fun f => match snd f with Some k => [k] | None => [] end) fs)).
End Attempt.

(* a case is non-trivial when some attempt renamed an existing note: edits with at least the
   three operations delete / create / insert *)
Definition attempt_nontrivial (a : attempt) : bool :=
  match at_result a with Ok (REdits (_ :: _ :: _ :: _)) => true | _ => false end.

Definition run_C08 (c : rcase) : verdict :=
  let per := map (attempt_verdict c) (rc_attempts c) in
  let '(f, k) := combine_notes per in
  V (c08_corr c) f k (existsb attempt_nontrivial (rc_attempts c)).

(* diagnosis: per attempt, the failures *)
Definition debug_C08 (c : rcase) := map (attempt_fails c) (rc_attempts c).

(* diagnosis: occurrences whose target or text check fails without a class *)
Definition debug_occ (c : rcase) (a : attempt) :=
  match target a, at_after a with
  | Some k, Some A =>
      flat_map (fun b =>
        let key' := if String.eqb (bn_key b) k then from_rel_link_url (at_new a) (key_parent (at_doc a)) else bn_key b in
        match find_after A key' with
        | Some n => match reread_of n with
                    | Some (_, bs') =>
                        let d := key_parent (bn_key b) in
                        flat_map (fun xy => let '(wx, wy) := xy in
                          if (negb (target_ok a k d (key_parent key') (snd wx) (snd wy)) && match occ_class_target c k b wx with None => true | _ => false end)
                             || (negb (text_ok c d (snd wx) (snd wy)) && match occ_class_text c k b wx with None => true | _ => false end)
                          then [(bn_key b, wx, wy)] else [])
                          (combine (note_links (bn_blocks b)) (note_links bs'))
                    | None => []
                    end
        | None => []
        end) (before_notes c)
  | _, _ => []
  end.
