(* Check_Lib.v — the library case: what the harness observed when it imported a set of
   notes with the real code, and the correspondence of the model with every observation.
   Property predicates over the same case type live in Check_C01.v, Check_C02.v, ... *)
From IweV Require Export Str Text Ast RelPath Arena Project Library Harness.
Local Open Scope string_scope.
Local Open Scope list_scope.

Record note_in := NI {
  ni_name : string;                   (* state name (file stem) *)
  ni_meta : option string;            (* front matter as the reader returned it *)
  ni_blocks : res (list dblock);      (* reader output *)
  ni_tables : list string             (* oracle: text of the note's tables (pulldown-cmark-to-cmark) *)
}.

Record note_obs := NO {
  no_key : string;
  no_tree : res tree;                                  (* Graph::collect *)
  no_text : res string;                                (* Graph::to_markdown *)
  no_map : list (option nat);                          (* get_node_id_at for line 0,1,2,... *)
  no_reread : res (option string * list dblock);       (* reader on no_text *)
  no_text2 : res string;                               (* update_key(no_text) then to_markdown *)
  no_tables2 : list string
}.

Record libcase := LC {
  lc_ext : string;
  lc_notes : list note_in;
  lo_arena : res arena;
  lo_titles : list (string * option string);
  lo_notes : list note_obs
}.

(* ---------- equalities on results -------------------------------------------------- *)

Definition res_eqb {A} (eq : A -> A -> bool) (a b : res A) : bool :=
  match a, b with
  | Ok x, Ok y => eq x y
  | Panic _, Panic _ => true      (* both panic; the site text is not compared *)
  | _, _ => false
  end.

Definition gkind_eqb (a b : gkind) : bool :=
  match a, b with
  | KEmpty, KEmpty => true
  | KEmpty, _ | _, KEmpty => false
  | _, _ => match kind_node a, kind_node b with
            | Some x, Some y => node_eqb x y
            | _, _ => false
            end
  end.

Definition gnode_eqb (a b : gnode) : bool :=
  gkind_eqb (g_kind a) (g_kind b) && onat_eqb (g_prev a) (g_prev b) &&
  onat_eqb (g_next a) (g_next b) && onat_eqb (g_child a) (g_child b).

Definition arena_eqb := list_eqb gnode_eqb.

Definition is_ok {A} (r : res A) : bool := match r with Ok _ => true | Panic _ => false end.

(* ---------- the model run on the case's inputs ----------------------------------------- *)

Definition all_blocks (c : libcase) : res (list (string * option string * list dblock)) :=
  fold_right (fun n acc => do r <- acc; do bs <- ni_blocks n; Ok ((ni_name n, ni_meta n, bs) :: r))
             (Ok []) (lc_notes c).

Definition model_graph (c : libcase) : res graph := do ns <- all_blocks c; import ns.

Definition tables_for (c : libcase) (key : string) : list string :=
  match find (fun n => String.eqb (key_name (ni_name n)) key) (lc_notes c) with
  | Some n => ni_tables n
  | None => []
  end.

Definition o_of (c : libcase) : opts := Opts (lc_ext c).

Definition map_obs (g : graph) (key : string) (n : nat) : list (option nat) :=
  map (fun line => match get_node_id_at g key line with Ok r => r | Panic _ => None end) (seq 0 n).

(* formatting the re-read text inside the same library (update_key then to_markdown) *)
Definition model_text2 (c : libcase) (g : graph) (o : note_obs) : res string :=
  do rr <- no_reread o;
  do g2 <- update_key g (no_key o) (fst rr) (snd rr);
  to_markdown (o_of c) (no_tables2 o) g2 (no_key o).

Definition lib_corr (c : libcase) : list N :=
  match model_graph c with
  | Panic _ => flag 1 (negb (is_ok (lo_arena c)))
  | Ok g =>
      flag 1 (res_eqb arena_eqb (Ok (gr_arena g)) (lo_arena c)) ++
      flag 2 (list_eqb (fun a b => String.eqb (fst a) (fst b) && ostring_eqb (snd a) (snd b))
                (map (fun kv => (fst kv, get_key_title g (fst kv))) (lo_titles c)) (lo_titles c)) ++
      flag 3 (forallb (fun o => res_eqb tree_eqb (collect_key g (no_key o)) (no_tree o)) (lo_notes c)) ++
      flag 4 (forallb (fun o => res_eqb String.eqb (to_markdown (o_of c) (tables_for c (no_key o)) g (no_key o)) (no_text o)) (lo_notes c)) ++
      flag 5 (forallb (fun o => list_eqb onat_eqb (map_obs g (no_key o) (length (no_map o))) (no_map o)) (lo_notes c)) ++
      flag 6 (forallb (fun o => match no_reread o with
                                | Ok _ => res_eqb String.eqb (model_text2 c g o) (no_text2 o)
                                | Panic _ => true
                                end) (lo_notes c))
  end.

(* a library case is non-trivial when some note has >= 2 kinds of blocks or nesting *)
Definition block_kind (b : dblock) : nat :=
  match b with
  | DPara _ _ => 0 | DCode _ _ _ => 1 | DQuote _ _ => 2 | DOList _ => 3 | DBList _ => 4
  | DHeader _ _ _ => 5 | DRule _ => 6 | DTable _ _ _ _ => 7
  end.
Definition nontrivial_note (n : note_in) : bool :=
  match ni_blocks n with
  | Ok bs => Nat.ltb 1 (length (nodup Nat.eq_dec (map block_kind bs)))
  | Panic _ => false
  end.
Definition lib_nontrivial (c : libcase) : bool := existsb nontrivial_note (lc_notes c).

(* correspondence only (used while a property has no predicate of its own) *)
Definition run_corr (c : libcase) : verdict := V (lib_corr c) [] [] (lib_nontrivial c).

(* diagnosis: (key, model text, observed text) for the notes whose text differs *)
Definition lib_debug_text (c : libcase) : list (string * res string * res string) :=
  match model_graph c with
  | Panic s => [("<import>", Panic s, Panic "")]
  | Ok g =>
      flat_map (fun o =>
        let m := to_markdown (o_of c) (tables_for c (no_key o)) g (no_key o) in
        if res_eqb String.eqb m (no_text o) then [] else [(no_key o, m, no_text o)]) (lo_notes c)
  end.
