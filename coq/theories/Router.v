(* Router.v — iwes::router (crates/iwes/src/router.rs) as a labelled transition system.

   One loop thread takes messages from the inbox (router.rs:79-101, `run`); every request is
   handled on a freshly spawned worker thread that owns a clone of the `Router`, i.e. of the
   `Arc<Server>` (router.rs:103-110); notifications mutate the server on the loop thread through
   `Arc::get_mut(&mut self.server).unwrap()` (router.rs:116-140), which succeeds iff the strong
   count is 1.  The model keeps the strong count explicitly ([arc]); a worker goes through the
   four phases the property names (request started / result computed / response sent / worker
   finished) and drops its clone with the last one.

   The server, the notifications, the requests and the result values are parameters
   (Section variables, so every theorem of RouterFacts.v is universally quantified over them):
     apply   : server -> note -> server        handle_did_change/_save_text_document
     handler : server -> req  -> res val       the request handlers; [Panic] = a reachable
                                               unwrap/expect/panic! in a handler
   Two rules exist in two variants ([variant]):
     notification rule  AsFound : get_mut fails (arc > 1) => unwrap panics => caught by
                                   catch_unwind in `run` (router.rs:83-94) => message dropped
                        Repaired: the loop waits until arc = 1 and then mutates (R10); the wait
                                   is the state [waiting = Some n], left by label [LoopResume]
     worker rule        AsFound : a handler panic kills the worker thread, nothing is sent;
                                   workspace/executeCommand sends workspace/applyEdit and never
                                   answers its own id (router.rs:153-164)
                        Repaired: the worker body runs under catch_unwind and answers
                                   InternalError; executeCommand answers its id with null (R9)
   No proofs here; see RouterFacts.v. *)
From IweV Require Import Str Arena.
Local Open Scope list_scope.

Inductive variant := AsFound | Repaired.

Inductive label :=
| LoopTake                 (* the loop receives the next message and handles it *)
| LoopResume               (* Repaired only: the wait for arc = 1 ends, the notification is applied *)
| WStart (p : nat)         (* worker of the request at inbox position p: request started *)
| WCompute (p : nat)       (* result computed (reads the server through its clone) *)
| WRespond (p : nat)       (* response(s) sent *)
| WExit (p : nat).         (* worker finished: its clone is dropped *)

Section Router.
  Variable server : Type.
  Variable note : Type.
  Variable req : Type.
  Variable val : Type.
  Variable apply : server -> note -> server.
  Variable handler : server -> req -> res val.

  (* requests by the three paths of `on_request` (router.rs:142-230) *)
  Inductive kind :=
  | KShutdown               (* "shutdown": answered null at once *)
  | KCmd (r : req)          (* "workspace/executeCommand" *)
  | KPlain (r : req).       (* every other method, incl. unknown ones (handler = Panic) *)

  Record request := Rq { r_id : N; r_kind : kind }.

  Inductive msg :=
  | MReq (q : request)
  | MNote (n : note)        (* textDocument/didChange, textDocument/didSave *)
  | MOther                  (* any other notification, a client response: ignored *)
  | MExit.                  (* "exit": `run` returns Ok *)

  Inductive body := BNull | BResult (v : val) | BError.

  (* what the client receives; [pos] is ghost (inbox position of the request it belongs to) *)
  Inductive out :=
  | Resp (pos : nat) (id : N) (b : body)
  | ApplyEdit (pos : nat) (v : val).     (* server-to-client request workspace/applyEdit *)

  Inductive phase :=
  | Spawned | Started | Computed (r : res (option val)) | Responded.

  Record worker := Wk { w_pos : nat; w_req : request; w_phase : phase }.

  Record state := St {
    inbox : list msg;          (* messages not yet taken *)
    taken : nat;               (* ghost: number of messages taken *)
    srv : server;
    waiting : option note;     (* Repaired: the loop holds this notification and waits for arc = 1 *)
    live : list worker;
    arc : nat;                 (* Arc::strong_count(&self.server) *)
    outbox : list out;
    dropped : list nat;        (* ghost: positions of notifications dropped by the caught panic *)
    stopped : bool             (* `run` has returned *)
  }.

  Definition init (msgs : list msg) (s0 : server) : state :=
    St msgs 0 s0 None [] 1 [] [] false.

  (* the value a worker computes: None = JSON null *)
  Definition compute (sv : server) (q : request) : res (option val) :=
    match r_kind q with
    | KShutdown => Ok None
    | KCmd r | KPlain r =>
        match handler sv r with Ok v => Ok (Some v) | Panic s => Panic s end
    end.

  (* what a worker sends once it has computed [r] *)
  Definition emit (wv : variant) (pos : nat) (q : request) (r : res (option val)) : list out :=
    match r with
    | Ok None => [Resp pos (r_id q) BNull]
    | Ok (Some v) =>
        match r_kind q with
        | KCmd _ =>
            match wv with
            | Repaired => [ApplyEdit pos v; Resp pos (r_id q) BNull]
            | AsFound => [ApplyEdit pos v]
            end
        | _ => [Resp pos (r_id q) (BResult v)]
        end
    | Panic _ =>
        match wv with
        | Repaired => [Resp pos (r_id q) BError]     (* InternalError *)
        | AsFound => []                              (* the thread is gone *)
        end
    end.

  (* first live worker with position p, with the workers before and after it *)
  Fixpoint split_w (p : nat) (l : list worker) : option (list worker * worker * list worker) :=
    match l with
    | [] => None
    | w :: r =>
        if Nat.eqb (w_pos w) p then Some ([], w, r)
        else match split_w p r with
             | Some (a, x, b) => Some (w :: a, x, b)
             | None => None
             end
    end.

  Definition set_phase (w : worker) (ph : phase) : worker := Wk (w_pos w) (w_req w) ph.

  Definition loop_take (nv : variant) (s : state) : option state :=
    if stopped s then None else
    match waiting s with
    | Some _ => None
    | None =>
      match inbox s with
      | [] => None
      | m :: rest =>
        let t := taken s in
        match m with
        | MReq q =>       (* router.rs:105-110: clone, then spawn *)
            Some (St rest (S t) (srv s) None (live s ++ [Wk t q Spawned]) (S (arc s))
                     (outbox s) (dropped s) false)
        | MNote n =>      (* router.rs:121-133 *)
            if Nat.eqb (arc s) 1
            then Some (St rest (S t) (apply (srv s) n) None (live s) (arc s) (outbox s) (dropped s) false)
            else match nv with
                 | Repaired => Some (St rest (S t) (srv s) (Some n) (live s) (arc s) (outbox s) (dropped s) false)
                 | AsFound => Some (St rest (S t) (srv s) None (live s) (arc s) (outbox s) (t :: dropped s) false)
                 end
        | MOther => Some (St rest (S t) (srv s) None (live s) (arc s) (outbox s) (dropped s) false)
        | MExit => Some (St rest (S t) (srv s) None (live s) (arc s) (outbox s) (dropped s) true)
        end
      end
    end.

  Definition loop_resume (s : state) : option state :=
    match waiting s with
    | Some n =>
        if Nat.eqb (arc s) 1
        then Some (St (inbox s) (taken s) (apply (srv s) n) None (live s) (arc s) (outbox s) (dropped s) (stopped s))
        else None
    | None => None
    end.

  Inductive wlabel := LStart | LCompute | LRespond | LExit.

  Definition with_live (s : state) (l : list worker) : state :=
    St (inbox s) (taken s) (srv s) (waiting s) l (arc s) (outbox s) (dropped s) (stopped s).

  Definition wstep (wv : variant) (s : state) (p : nat) (wl : wlabel) : option state :=
    match split_w p (live s) with
    | None => None
    | Some (a, w, b) =>
        match wl, w_phase w with
        | LStart, Spawned => Some (with_live s (a ++ set_phase w Started :: b))
        | LCompute, Started =>
            Some (with_live s (a ++ set_phase w (Computed (compute (srv s) (w_req w))) :: b))
        | LRespond, Computed r =>
            Some (St (inbox s) (taken s) (srv s) (waiting s) (a ++ set_phase w Responded :: b) (arc s)
                     (outbox s ++ emit wv (w_pos w) (w_req w) r) (dropped s) (stopped s))
        | LExit, Responded =>
            Some (St (inbox s) (taken s) (srv s) (waiting s) (a ++ b) (pred (arc s))
                     (outbox s) (dropped s) (stopped s))
        | _, _ => None
        end
    end.

  (* nv: notification rule, wv: worker rule.  None = the label is not enabled. *)
  Definition step (nv wv : variant) (s : state) (l : label) : option state :=
    match l with
    | LoopTake => loop_take nv s
    | LoopResume => loop_resume s
    | WStart p => wstep wv s p LStart
    | WCompute p => wstep wv s p LCompute
    | WRespond p => wstep wv s p LRespond
    | WExit p => wstep wv s p LExit
    end.

  (* a schedule, executed *)
  Fixpoint run (nv wv : variant) (s : state) (tr : list label) : option state :=
    match tr with
    | [] => Some s
    | l :: r => match step nv wv s l with Some s' => run nv wv s' r | None => None end
    end.

  Inductive steps (nv wv : variant) : state -> list label -> state -> Prop :=
  | steps_nil : forall s, steps nv wv s [] s
  | steps_cons : forall s l s' tr s'',
      step nv wv s l = Some s' -> steps nv wv s' tr s'' -> steps nv wv s (l :: tr) s''.

  (* nothing is enabled *)
  Definition quiescent (nv wv : variant) (s : state) : Prop :=
    forall l, step nv wv s l = None.

  Definition quiescentb (s : state) : bool :=
    match live s, waiting s with
    | [], None => stopped s || match inbox s with [] => true | _ => false end
    | _, _ => false
    end.

  (* the label a live worker can take next *)
  Definition next_label (w : worker) : label :=
    match w_phase w with
    | Spawned => WStart (w_pos w)
    | Started => WCompute (w_pos w)
    | Computed _ => WRespond (w_pos w)
    | Responded => WExit (w_pos w)
    end.

  (* every enabled label, loop first *)
  Definition enabled (nv wv : variant) (s : state) : list label :=
    filter (fun l => match step nv wv s l with Some _ => true | None => false end)
           ([LoopTake; LoopResume] ++ map next_label (live s)).

  (* ---- the specification side -------------------------------------------------------- *)

  Fixpoint notes_of (l : list msg) : list note :=
    match l with
    | [] => []
    | MNote n :: r => n :: notes_of r
    | _ :: r => notes_of r
    end.

  (* the server after the first p messages: every notification among them, in order *)
  Definition server_at (msgs : list msg) (s0 : server) (p : nat) : server :=
    fold_left apply (notes_of (firstn p msgs)) s0.

  (* the messages the loop serves: up to and including the first `exit` *)
  Fixpoint served (l : list msg) : list msg :=
    match l with
    | [] => []
    | MExit :: _ => [MExit]
    | m :: r => m :: served r
    end.

  (* (position, id) of every request of l, positions counted from base *)
  Fixpoint req_keys (base : nat) (l : list msg) : list (nat * N) :=
    match l with
    | [] => []
    | MReq q :: r => (base, r_id q) :: req_keys (S base) r
    | _ :: r => req_keys (S base) r
    end.

  Definition resp_keys (o : list out) : list (nat * N) :=
    flat_map (fun x => match x with Resp p id _ => [(p, id)] | ApplyEdit _ _ => [] end) o.

  Definition pending_keys (l : list worker) : list (nat * N) :=
    flat_map (fun w => match w_phase w with
                       | Responded => []
                       | _ => [(w_pos w, r_id (w_req w))]
                       end) l.

  Definition out_pos (o : out) : nat :=
    match o with Resp p _ _ => p | ApplyEdit p _ => p end.

  (* the body of the one response the repaired worker sends for q once it has computed r *)
  Definition resp_body (q : request) (r : res (option val)) : body :=
    match r with
    | Ok None => BNull
    | Ok (Some v) => match r_kind q with KCmd _ => BNull | _ => BResult v end
    | Panic _ => BError
    end.

  Definition is_exit (m : msg) : bool := match m with MExit => true | _ => false end.
  Definition no_exit (l : list msg) : Prop := Forall (fun m => is_exit m = false) l.

  (* the repaired worker's answer to request q taken at position p *)
  Definition answer (msgs : list msg) (s0 : server) (p : nat) (q : request) : list out :=
    emit Repaired p q (compute (server_at msgs s0 p) q).
End Router.

Arguments r_id {req} _.
Arguments r_kind {req} _.
Arguments w_pos {req val} _.
Arguments w_req {req val} _.
Arguments w_phase {req val} _.
Arguments Wk {req val} _ _ _.
Arguments Spawned {val}.
Arguments Started {val}.
Arguments Computed {val} _.
Arguments Responded {val}.
Arguments St {server note req val} _ _ _ _ _ _ _ _ _.
Arguments inbox {server note req val} _.
Arguments taken {server note req val} _.
Arguments srv {server note req val} _.
Arguments waiting {server note req val} _.
Arguments live {server note req val} _.
Arguments arc {server note req val} _.
Arguments outbox {server note req val} _.
Arguments dropped {server note req val} _.
Arguments stopped {server note req val} _.
Arguments init {server note req val} _ _.
Arguments compute {server req val} _ _ _.
Arguments emit {req val} _ _ _ _.
Arguments split_w {req val} _ _.
Arguments set_phase {req val} _ _.
Arguments loop_take {server note req val} _ _ _.
Arguments loop_resume {server note req val} _ _.
Arguments with_live {server note req val} _ _.
Arguments wstep {server note req val} _ _ _ _ _.
Arguments step {server note req val} _ _ _ _ _ _.
Arguments run {server note req val} _ _ _ _ _ _.
Arguments steps {server note req val} _ _ _ _ _ _ _.
Arguments quiescent {server note req val} _ _ _ _ _.
Arguments quiescentb {server note req val} _.
Arguments next_label {req val} _.
Arguments enabled {server note req val} _ _ _ _ _.
Arguments notes_of {note req} _.
Arguments server_at {server note req} _ _ _ _.
Arguments served {note req} _.
Arguments req_keys {note req} _ _.
Arguments resp_keys {val} _.
Arguments pending_keys {req val} _.
Arguments out_pos {val} _.
Arguments resp_body {req val} _ _.
Arguments is_exit {note req} _.
Arguments no_exit {note req} _.
Arguments answer {server note req val} _ _ _ _ _ _.
Arguments Rq {req} _ _.
Arguments KShutdown {req}.
Arguments KCmd {req} _.
Arguments KPlain {req} _.
Arguments MReq {note req} _.
Arguments MNote {note req} _.
Arguments MOther {note req}.
Arguments MExit {note req}.
Arguments BNull {val}.
Arguments BResult {val} _.
Arguments BError {val}.
Arguments Resp {val} _ _ _.
Arguments ApplyEdit {val} _ _.
