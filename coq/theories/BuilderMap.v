(* BuilderMap.v — the line map (`nodes_map`) that SectionsBuilder leaves behind, as a function of the
   reader's blocks: one entry per block that has a line range, in pre-order, under the id of the node
   built for it — for the blocks inside a block quote too (sections_builder.rs:192-205 appends the
   nested builder's entries after the quote's own; before that repair they were dropped and every node
   below a quote had no line range: finding F-C05-quote-line).
   `bmap` is the specification: it numbers the nodes the way the builder allocates them (a list is a
   node unless it is the whole of a list item, an item that does not start with text is a section node
   without an entry) and pairs each ranged block with its node.  `build_map_spec` proves that the
   cursor machine of Arena.v produces exactly that map and that many nodes, for every block list on
   which it returns; `from_blocks_map` / `get_node_id_at_built` carry it to the library: the node found
   at a line of a freshly built note is the last block of the pre-order that covers the line, i.e. the
   innermost one (the paragraph inside the quote, not the quote). *)
From IweV Require Import Str Ast RelPath Arena ArenaWF ArenaFacts BuilderFacts Library LibraryFacts.
From Coq Require Import Lia.
Local Open Scope string_scope.
Local Open Scope list_scope.

(* ---------- the specification ------------------------------------------------------------------ *)

(* entries, next free node id *)
Definition mres := (list (nat * lrange) * nat)%type.

Definition mseq (r : mres) (f : nat -> mres) : mres :=
  let '(m1, n1) := r in let '(m2, n2) := f n1 in (m1 ++ m2, n2).

Fixpoint list_spec {A} (spec : nat -> A -> mres) (n : nat) (l : list A) : mres :=
  match l with
  | [] => ([], n)
  | x :: r => mseq (spec n x) (fun k => list_spec spec k r)
  end.

(* [head]: the block is the first one of a section (heading, item text, or the list an item consists
   of, which is merged into the enclosing list: no node of its own) *)
Fixpoint bmap (head : bool) (n : nat) (b : dblock) {struct b} : mres :=
  let fix blocks (n : nat) (l : list dblock) {struct l} : mres :=
    match l with
    | [] => ([], n)
    | x :: r => mseq (bmap false n x) (fun k => blocks k r)
    end in
  let fix items (n : nat) (its : list (list dblock)) {struct its} : mres :=
    match its with
    | [] => ([], n)
    | it :: r =>
        mseq (match it with
              | [] => ([], n)
              | h :: body =>
                  if starts_with_header it then mseq (bmap true n h) (fun k => blocks k body)
                  else blocks (S n) it
              end) (fun k => items k r)
    end in
  match b with
  | DPara lr _ | DCode lr _ _ | DRule lr | DTable lr _ _ _ | DHeader lr _ _ => ([(n, lr)], S n)
  | DQuote lr bs => let '(m, k) := blocks (S n) bs in ((n, lr) :: m, k)
  | DBList its | DOList its => items (if head then n else S n) its
  end.

Definition blocks_map : nat -> list dblock -> mres := list_spec (bmap false).

(* a list item: a section under its first block, or a section without text over all its blocks *)
Definition item_map (n : nat) (it : list dblock) : mres :=
  match it with
  | [] => ([], n)
  | h :: body =>
      if starts_with_header it then mseq (bmap true n h) (fun k => blocks_map k body)
      else blocks_map (S n) it
  end.

Definition items_map : nat -> list (list dblock) -> mres := list_spec item_map.

(* the line map of a note built into an arena of [n] slots: the root is slot [n] *)
Definition note_map (n : nat) (bs : list dblock) : list (nat * lrange) := fst (blocks_map (S n) bs).

(* ---------- equations of the specification ----------------------------------------------------- *)

Lemma mseq_ext r f g : (forall k, f k = g k) -> mseq r f = mseq r g.
Proof. intros H. unfold mseq. destruct r as [m1 n1]. now rewrite H. Qed.

Lemma blocks_fix bs : forall n,
  (fix blocks (n : nat) (l : list dblock) {struct l} : mres :=
     match l with
     | [] => ([], n)
     | x :: r => mseq (bmap false n x) (fun k => blocks k r)
     end) n bs = blocks_map n bs.
Proof.
  induction bs as [|x r IH]; intros n; [reflexivity|].
  unfold blocks_map. cbn [list_spec]. unfold mseq at 1 3. destruct (bmap false n x) as [m1 n1].
  rewrite (IH n1). reflexivity.
Qed.

Lemma bmap_quote head n lr bs :
  bmap head n (DQuote lr bs) = let '(m, k) := blocks_map (S n) bs in ((n, lr) :: m, k).
Proof. cbn [bmap]. rewrite (blocks_fix bs (S n)). reflexivity. Qed.

Lemma items_fix its : forall n,
  (fix items (n : nat) (its : list (list dblock)) {struct its} : mres :=
    match its with
    | [] => ([], n)
    | it :: r =>
        mseq (match it with
              | [] => ([], n)
              | h :: body =>
                  if starts_with_header it
                  then mseq (bmap true n h)
                         (fun k => (fix blocks (n : nat) (l : list dblock) {struct l} : mres :=
                                      match l with
                                      | [] => ([], n)
                                      | x :: r => mseq (bmap false n x) (fun k => blocks k r)
                                      end) k body)
                  else (fix blocks (n : nat) (l : list dblock) {struct l} : mres :=
                          match l with
                          | [] => ([], n)
                          | x :: r => mseq (bmap false n x) (fun k => blocks k r)
                          end) (S n) it
              end) (fun k => items k r)
    end) n its = items_map n its.
Proof.
  induction its as [|it r IH]; intros n; [reflexivity|].
  unfold items_map. cbn [list_spec].
  assert (E : match it with
              | [] => ([], n)
              | h :: body =>
                  if starts_with_header it
                  then mseq (bmap true n h)
                         (fun k => (fix blocks (n : nat) (l : list dblock) {struct l} : mres :=
                                      match l with
                                      | [] => ([], n)
                                      | x :: r => mseq (bmap false n x) (fun k => blocks k r)
                                      end) k body)
                  else (fix blocks (n : nat) (l : list dblock) {struct l} : mres :=
                          match l with
                          | [] => ([], n)
                          | x :: r => mseq (bmap false n x) (fun k => blocks k r)
                          end) (S n) it
              end = item_map n it).
  { unfold item_map. destruct it as [|h body]; [reflexivity|].
    destruct (starts_with_header (h :: body)).
    - apply mseq_ext. intros k. apply blocks_fix.
    - now rewrite (blocks_fix (h :: body) (S n)). }
  rewrite <- E. apply mseq_ext. intros k. apply IH.
Qed.

Lemma bmap_blist head n its : bmap head n (DBList its) = items_map (if head then n else S n) its.
Proof. cbn [bmap]. now rewrite (items_fix its (if head then n else S n)). Qed.
Lemma bmap_olist head n its : bmap head n (DOList its) = items_map (if head then n else S n) its.
Proof. cbn [bmap]. now rewrite (items_fix its (if head then n else S n)). Qed.

Lemma mseq_assoc r f g : mseq (mseq r f) g = mseq r (fun k => mseq (f k) g).
Proof.
  unfold mseq. destruct r as [m1 n1]. destruct (f n1) as [m2 n2]. destruct (g n2) as [m3 n3].
  now rewrite app_assoc.
Qed.

Lemma list_spec_app {A} (spec : nat -> A -> mres) l1 l2 n :
  list_spec spec n (l1 ++ l2) = mseq (list_spec spec n l1) (fun k => list_spec spec k l2).
Proof.
  revert n. induction l1 as [|x r IH]; intros n; cbn [app list_spec].
  - unfold mseq. now destruct (list_spec spec n l2).
  - rewrite mseq_assoc. apply mseq_ext. intros k. apply IH.
Qed.

(* a section that starts with a heading reads like its blocks in a row *)
Lemma item_map_header n h body :
  is_header h = true -> item_map n (h :: body) = blocks_map n (h :: body).
Proof. destruct h; try discriminate. intros _. reflexivity. Qed.

(* ---------- the cursor machine produces the specified map ---------------------------------------- *)

Definition post (st st' : bst) (r : mres) : Prop :=
  b_map st' = b_map st ++ fst r /\ length (b_arena st') = snd r.

Lemma post_seq st st1 st2 r f :
  post st st1 r -> post st1 st2 (f (length (b_arena st1))) -> post st st2 (mseq r f).
Proof.
  unfold post, mseq. destruct r as [m1 n1]. cbn [fst snd]. intros [Hm Hn] [Hm2 Hn2].
  rewrite Hn in *. destruct (f n1) as [m2 n2]. cbn [fst snd] in *.
  split; [now rewrite Hm2, Hm, app_assoc | exact Hn2].
Qed.

Lemma post_nil st n : n = length (b_arena st) -> post st st ([], n).
Proof. intros ->. split; [cbn; now rewrite app_nil_r | reflexivity]. Qed.

Lemma set_child_id_length a id c a' : set_child_id a id c = Ok a' -> length a' = length a.
Proof.
  unfold set_child_id. destruct (get a id) as [n|]; [|discriminate].
  destruct (g_kind n); try discriminate; intros H; inversion H; apply set_nth_length.
Qed.
Lemma set_next_id_length a id c a' : set_next_id a id c = Ok a' -> length a' = length a.
Proof.
  unfold set_next_id. destruct (get a id) as [n|]; [|discriminate].
  destruct (g_kind n); try discriminate; intros H; inversion H; apply set_nth_length.
Qed.

Lemma add_node_map st k st' :
  add_node st k = Ok st' ->
  b_map st' = b_map st /\ length (b_arena st') = S (length (b_arena st)) /\ b_cur st' = length (b_arena st).
Proof.
  unfold add_node.
  destruct (if b_insert st then set_child_id (b_arena st) (b_cur st) (length (b_arena st))
            else set_next_id (b_arena st) (b_cur st) (length (b_arena st))) as [a'|e] eqn:E;
    cbn [bind]; [|discriminate].
  intros H. inversion H; subst st'; clear H. cbn [b_map b_arena b_cur].
  assert (length a' = length (b_arena st)).
  { destruct (b_insert st); [eapply set_child_id_length | eapply set_next_id_length]; exact E. }
  rewrite app_length. cbn [length]. repeat split; lia.
Qed.

(* a node with a line range: the one entry (its id, its range) *)
Lemma add_ranged st k lr st' :
  add_node st k = Ok st' ->
  post st (set_lines_range st' lr) ([(length (b_arena st), lr)], S (length (b_arena st))).
Proof.
  intros H. destruct (add_node_map _ _ _ H) as (Hm & Hl & Hc).
  unfold post, set_lines_range. cbn [b_map b_arena fst snd]. now rewrite Hm, Hc, Hl.
Qed.

Lemma fold_res_panic {X} (step : X -> bst -> res bst) l e :
  fold_left (fun acc x => do s <- acc; step x s) l (Panic e) = Panic e.
Proof. induction l as [|x r IH]; [reflexivity | cbn [fold_left bind]; exact IH]. Qed.

Lemma fold_post {X} (step : X -> bst -> res bst) (spec : nat -> X -> mres) l :
  (forall x st st', In x l -> step x st = Ok st' -> post st st' (spec (length (b_arena st)) x)) ->
  forall st st', fold_left (fun acc x => do s <- acc; step x s) l (Ok st) = Ok st' ->
                 post st st' (list_spec spec (length (b_arena st)) l).
Proof.
  induction l as [|x r IH]; intros Hs st st' H.
  - cbn in H. inversion H; subst. now apply post_nil.
  - cbn [fold_left bind] in H. destruct (step x st) as [s1|e] eqn:E.
    + cbn [list_spec]. eapply post_seq.
      * apply Hs; [now left | exact E].
      * apply IH; [intros; apply Hs; [now right | assumption] | exact H].
    + now rewrite fold_res_panic in H.
Qed.

Lemma span_pre_rest bs pre rest :
  span_pre bs = (pre, rest) ->
  bs = pre ++ rest /\ (rest = [] \/ exists h t, rest = h :: t /\ is_header h = true).
Proof.
  revert pre rest. induction bs as [|b r IH]; intros pre rest H; cbn [span_pre] in H.
  - inversion H. split; [reflexivity | now left].
  - destruct (is_header b) eqn:Hb.
    + inversion H; subst. split; [reflexivity|]. right. now exists b, r.
    + destruct (span_pre r) as [x y]. inversion H; subst. destruct (IH x rest eq_refl) as [-> Hr].
      split; [reflexivity | exact Hr].
Qed.

Lemma span_section_rest L bs body rest :
  span_section L bs = (body, rest) ->
  bs = body ++ rest /\ (rest = [] \/ exists h t, rest = h :: t /\ is_header h = true).
Proof.
  revert body rest. induction bs as [|b r IH]; intros body rest H; cbn [span_section] in H.
  - inversion H. split; [reflexivity | now left].
  - destruct (is_split L b) eqn:Hb.
    + inversion H; subst. split; [reflexivity|]. right. exists b, r. split; [reflexivity|].
      destruct b; try discriminate; reflexivity.
    + destruct (span_section L r) as [x y]. inversion H; subst. destruct (IH x rest eq_refl) as [-> Hr].
      split; [reflexivity | exact Hr].
Qed.

Section Map.
  Variable dir : string.

  Definition headed (bs : list dblock) : Prop :=
    bs = [] \/ exists h t, bs = h :: t /\ is_header h = true.

  Definition map_inv (f : nat) : Prop :=
    (forall bs st st', process_blocks dir f bs st = Ok st' ->
       post st st' (blocks_map (length (b_arena st)) bs)) /\
    (forall L bs st st', headed bs -> process_sections dir f L bs st = Ok st' ->
       post st st' (blocks_map (length (b_arena st)) bs)) /\
    (forall bs st st', process_section dir f bs st = Ok st' ->
       post st st' (item_map (length (b_arena st)) bs)) /\
    (forall b st st', section_block dir f b st = Ok st' ->
       post st st' (bmap true (length (b_arena st)) b)) /\
    (forall b st st', block dir f b st = Ok st' ->
       post st st' (bmap false (length (b_arena st)) b)).

  Lemma map_inv_all f : map_inv f.
  Proof.
    induction f as [|f (IPB & IPSS & IPS & ISB & IBL)].
    { repeat split; intros; discriminate. }
    split; [|split; [|split; [|split]]].
    - (* process_blocks *)
      intros bs st st' H. rewrite process_blocks_S in H.
      destruct bs as [|b0 bs0]; [inversion H; subst; now apply post_nil|].
      cbv iota in H. set (l := b0 :: bs0) in *. clearbody l. clear b0 bs0.
      destruct (span_pre l) as [pre rest] eqn:Esp.
      destruct (span_pre_rest _ _ _ Esp) as [-> Hrest]. cbv beta iota zeta in H.
      destruct (fold_left (fun acc b => do s <- acc; block dir f b s) pre (Ok (set_insert st true))) as [st1|e] eqn:Ef;
        cbn [bind] in H; [|discriminate].
      assert (P1 : post st st1 (blocks_map (length (b_arena st)) pre)).
      { apply (fold_post (block dir f) (bmap false) pre (fun x s s' _ Hx => IBL x s s' Hx)) in Ef. exact Ef. }
      unfold blocks_map. rewrite list_spec_app.
      destruct Hrest as [-> | (h & t & -> & Hh)].
      + inversion H; subst st'. eapply post_seq; [exact P1 | now apply post_nil].
      + destruct h; try discriminate. cbn [header_level] in H.
        eapply post_seq; [exact P1|]. eapply IPSS; [|exact H]. right. eauto.
    - (* process_sections *)
      intros L bs st st' Hhd H. rewrite process_sections_S in H.
      destruct bs as [|h r]; [inversion H; subst; now apply post_nil|].
      destruct Hhd as [Hn | (h' & t' & E & Hh)]; [discriminate|]. inversion E; subst h' t'; clear E.
      destruct (span_section L r) as [body rest] eqn:Esp.
      destruct (span_section_rest _ _ _ _ Esp) as [-> Hrest].
      destruct (process_section dir f (h :: body) st) as [st1|e] eqn:E1; cbn [bind] in H; [|discriminate].
      change (h :: body ++ rest) with ((h :: body) ++ rest).
      unfold blocks_map. rewrite list_spec_app.
      eapply post_seq.
      + rewrite <- (item_map_header _ h body Hh). eapply IPS. exact E1.
      + eapply IPSS; [exact Hrest | exact H].
    - (* process_section *)
      intros bs st st' H. rewrite process_section_S in H.
      destruct bs as [|h body]; [inversion H; subst; now apply post_nil|].
      unfold item_map. destruct (starts_with_header (h :: body)).
      + destruct (section_block dir f h st) as [st1|e] eqn:E1; cbn [bind] in H; [|discriminate].
        cbv zeta in H.
        destruct (process_blocks dir f body st1) as [st2|e] eqn:E2; cbn [bind] in H; [|discriminate].
        inversion H; subst st'.
        assert (P : post st st2 (mseq (bmap true (length (b_arena st)) h) (fun k => blocks_map k body))).
        { eapply post_seq; [eapply ISB; exact E1 | eapply IPB; exact E2]. }
        exact P.
      + destruct (add_node st (KSection [])) as [st1|e] eqn:E1; cbn [bind] in H; [|discriminate].
        cbv zeta in H.
        destruct (process_blocks dir f (h :: body) st1) as [st2|e] eqn:E2; cbn [bind] in H; [|discriminate].
        inversion H; subst st'.
        destruct (add_node_map _ _ _ E1) as (Hm & Hl & _).
        pose proof (IPB _ _ _ E2) as [Pm Pl]. rewrite Hl, Hm in *.
        split; assumption.
    - (* section_block *)
      intros b st st' H. rewrite section_block_S in H.
      destruct b; try discriminate.
      + destruct (add_node st (KSection (to_ginlines dir l))) as [st1|e] eqn:E1; cbn [bind] in H; [|discriminate].
        inversion H; subst st'. now apply add_ranged with (k := KSection (to_ginlines dir l)).
      + rewrite bmap_olist.
        apply (fold_post (process_section dir f) item_map items (fun x s s' _ Hx => IPS x s s' Hx)) in H. exact H.
      + rewrite bmap_blist.
        apply (fold_post (process_section dir f) item_map items (fun x s s' _ Hx => IPS x s s' Hx)) in H. exact H.
      + destruct (add_node st (KSection (to_ginlines dir l))) as [st1|e] eqn:E1; cbn [bind] in H; [|discriminate].
        inversion H; subst st'. now apply add_ranged with (k := KSection (to_ginlines dir l)).
    - (* block *)
      intros b st st' H. rewrite block_S in H.
      destruct b.
      + (* paragraph: a reference or a leaf *)
        destruct (para_is_ref l).
        * destruct l as [|[] [|? ?]]; try discriminate.
          match type of H with (do st <- add_node ?s ?k; _) = _ =>
            destruct (add_node s k) as [st1|e] eqn:E1; cbn [bind] in H; [|discriminate] end.
          inversion H; subst st'. eapply add_ranged; exact E1.
        * destruct (add_node st (KLeaf (to_ginlines dir l))) as [st1|e] eqn:E1; cbn [bind] in H; [|discriminate].
          inversion H; subst st'. eapply add_ranged; exact E1.
      + destruct (add_node st (KRaw lang text)) as [st1|e] eqn:E1; cbn [bind] in H; [|discriminate].
        inversion H; subst st'. eapply add_ranged; exact E1.
      + (* quote: its own entry, then the entries of the nested builder *)
        destruct (add_node st KQuote) as [st1|e] eqn:E1; cbn [bind] in H; [|discriminate].
        cbv zeta in H.
        destruct (process_blocks dir f bs (B (b_arena (set_lines_range st1 lr)) (b_cur (set_lines_range st1 lr)) true []))
          as [inner|e] eqn:E2; cbn [bind] in H; [|discriminate].
        inversion H; subst st'; clear H.
        destruct (add_node_map _ _ _ E1) as (Hm & Hl & Hc).
        pose proof (IPB _ _ _ E2) as [Pm Pl]. cbn [set_lines_range b_arena b_map b_cur app] in Pm, Pl.
        rewrite bmap_quote. rewrite Hl in Pl, Pm.
        destruct (blocks_map (S (length (b_arena st))) bs) as [m k]. cbn [fst snd] in *.
        unfold post. cbn [set_lines_range b_map b_arena fst snd].
        rewrite Pm, Hm, Hc, <- app_assoc. split; [reflexivity | exact Pl].
      + (* ordered list *)
        destruct (add_node st KOList) as [st1|e] eqn:E1; cbn [bind] in H; [|discriminate].
        cbv zeta in H.
        destruct (fold_left (fun acc it => do s <- acc; process_section dir f it s) items (Ok (set_insert st1 true)))
          as [st2|e] eqn:E2; cbn [bind] in H; [|discriminate].
        inversion H; subst st'; clear H.
        destruct (add_node_map _ _ _ E1) as (Hm & Hl & _).
        apply (fold_post (process_section dir f) item_map items (fun x s s' _ Hx => IPS x s s' Hx)) in E2.
        destruct E2 as [Pm Pl]. cbn [set_insert b_arena b_map] in Pm, Pl.
        rewrite bmap_olist. unfold post. cbn [set_insert set_id b_map b_arena].
        rewrite Hl, Hm in *. fold items_map in Pm, Pl. split; assumption.
      + (* bullet list *)
        destruct (add_node st KBList) as [st1|e] eqn:E1; cbn [bind] in H; [|discriminate].
        cbv zeta in H.
        destruct (fold_left (fun acc it => do s <- acc; process_section dir f it s) items (Ok (set_insert st1 true)))
          as [st2|e] eqn:E2; cbn [bind] in H; [|discriminate].
        inversion H; subst st'; clear H.
        destruct (add_node_map _ _ _ E1) as (Hm & Hl & _).
        apply (fold_post (process_section dir f) item_map items (fun x s s' _ Hx => IPS x s s' Hx)) in E2.
        destruct E2 as [Pm Pl]. cbn [set_insert b_arena b_map] in Pm, Pl.
        rewrite bmap_blist. unfold post. cbn [set_insert set_id b_map b_arena].
        rewrite Hl, Hm in *. fold items_map in Pm, Pl. split; assumption.
      + discriminate.
      + destruct (add_node st KRule) as [st1|e] eqn:E1; cbn [bind] in H; [|discriminate].
        inversion H; subst st'. eapply add_ranged; exact E1.
      + match type of H with (do st <- add_node ?s ?k; _) = _ =>
          destruct (add_node s k) as [st1|e] eqn:E1; cbn [bind] in H; [|discriminate] end.
        inversion H; subst st'. eapply add_ranged; exact E1.
  Qed.
End Map.

(* SectionsBuilder::new(..).nodes_map() *)
Theorem build_map_spec a key bs st :
  build_document a key bs = Ok st ->
  b_map st = note_map (length a) bs /\ length (b_arena st) = snd (blocks_map (S (length a)) bs).
Proof.
  unfold build_document. intros H.
  destruct (map_inv_all (key_parent key) (fuel_for bs)) as (IPB & _).
  apply IPB in H. destruct H as [Hm Hl]. unfold build_key in Hm, Hl. cbn [b_map b_arena app] in Hm, Hl.
  rewrite app_length in Hm, Hl. cbn [length] in Hm, Hl. rewrite Nat.add_1_r in Hm, Hl.
  split; [exact Hm | exact Hl].
Qed.

(* Graph::from_markdown / update_key: the map stored for the note *)
Theorem from_blocks_map g key meta bs g' :
  from_blocks g key meta bs = Ok g' ->
  alookup key (gr_maps g') = Some (note_map (length (gr_arena g)) bs).
Proof.
  unfold from_blocks, build_note. intros H.
  destruct (build_document (gr_arena g) key bs) as [st|e] eqn:Eb; cbn [bind] in H; [|discriminate].
  inversion H; subst g'; clear H.
  destruct (build_map_spec _ _ _ _ Eb) as [Hm _].
  assert (E : forall g0, gr_maps (refresh_title g0 key) = gr_maps g0).
  { intros g0. unfold refresh_title. destruct (alookup key (gr_keys g0)); [|reflexivity].
    destruct (extract_ref_text (gr_arena g0) n); reflexivity. }
  rewrite E. cbn [gr_maps]. rewrite <- Hm. apply alookup_ainsert_same.
Qed.

(* Arena::delete_branch leaves tombstones: the arena keeps its length, so the ids of the rebuilt
   note start where the arena ended *)
Lemma delete_branch_length f : forall a id a', delete_branch f a id = Ok a' -> length a' = length a.
Proof.
  induction f as [|f IH]; intros a id a' H; [discriminate|].
  cbn [delete_branch] in H. destruct (get a id) as [n|]; [|discriminate].
  destruct (match g_child n with Some c => delete_branch f a c | None => Ok a end) as [a1|e] eqn:E1;
    cbn [bind] in H; [|discriminate].
  assert (L1 : length a1 = length a).
  { destruct (g_child n); [eapply IH; exact E1 | now inversion E1]. }
  destruct (get a1 id) as [n1|]; [|discriminate].
  destruct (match g_kind n1 with
            | KEmpty => Panic "next_id of Empty"
            | _ => match g_next n1 with Some nx => delete_branch f a1 nx | None => Ok a1 end
            end) as [a2|e] eqn:E2; cbn [bind] in H; [|discriminate].
  assert (L2 : length a2 = length a1).
  { destruct (g_kind n1); try discriminate;
      (destruct (g_next n1); [eapply IH; exact E2 | now inversion E2]). }
  inversion H. rewrite set_nth_length. congruence.
Qed.

(* Graph::update_key: the same map, whatever the note held before *)
Theorem update_key_map g key meta bs g' :
  update_key g key meta bs = Ok g' ->
  alookup key (gr_maps g') = Some (note_map (length (gr_arena g)) bs).
Proof.
  unfold update_key. intros H.
  destruct (match alookup key (gr_keys g) with
            | Some root => delete_branch (S (length (gr_arena g))) (gr_arena g) root
            | None => Ok (gr_arena g)
            end) as [a|e] eqn:Ea; cbn [bind] in H; [|discriminate].
  assert (L : length a = length (gr_arena g)).
  { destruct (alookup key (gr_keys g)); [eapply delete_branch_length; exact Ea | now inversion Ea]. }
  apply from_blocks_map in H. cbn [gr_arena] in H. now rewrite L in H.
Qed.

(* the innermost block: the last entry of the pre-order map whose range contains the line *)
Definition innermost (m : list (nat * lrange)) (line : nat) : option nat :=
  match find (fun e => range_contains (snd e) line) (rev m) with
  | Some e => Some (fst e)
  | None => None
  end.

(* GraphContext::get_node_id_at on a freshly built note (code actions at a line) *)
Theorem get_node_id_at_built g key meta bs g' line :
  from_blocks g key meta bs = Ok g' ->
  get_node_id_at g' key line = Ok (innermost (note_map (length (gr_arena g)) bs) line).
Proof.
  intros H. unfold get_node_id_at. rewrite (from_blocks_map _ _ _ _ _ H). reflexivity.
Qed.

Theorem get_node_id_at_updated g key meta bs g' line :
  update_key g key meta bs = Ok g' ->
  get_node_id_at g' key line = Ok (innermost (note_map (length (gr_arena g)) bs) line).
Proof.
  intros H. unfold get_node_id_at. rewrite (update_key_map _ _ _ _ _ H). reflexivity.
Qed.

(* a block inside a quote has its entry, after the quote's own: on a line of the quote the node found
   is the paragraph, not the quote (as found, the map was [(1, 0..3)] and the answer node 1 on every
   line: F-C05-quote-line) *)
Example quote_inner_lines :
  let bs := [DQuote (0, 3) [DPara (0, 1) [Str "first"]; DPara (2, 3) [Link "b" "" Regular [Str "b"]; Str "x"]];
             DPara (4, 5) [Str "after"]] in
  note_map 0 bs = [(1, (0, 3)); (2, (0, 1)); (3, (2, 3)); (4, (4, 5))] /\
  (exists st, build_document [] "a" bs = Ok st /\ b_map st = note_map 0 bs) /\
  map (innermost (note_map 0 bs)) [0; 1; 2; 3; 4] = [Some 2; Some 1; Some 3; None; Some 4].
Proof.
  cbv zeta. split; [reflexivity|]. split; [|reflexivity].
  eexists. split; [vm_compute; reflexivity | reflexivity].
Qed.
