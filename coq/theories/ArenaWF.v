(* ArenaWF.v — the well-formed-forest invariant of the arena (C20), executable.
   [wf_b a keys] is what the property demands of `Graph.arena` + `Graph.keys` at every
   moment; it is evaluated on the implementation's own arena dump after every operation, and
   it is the invariant of the theorems in ArenaFacts.v. *)
From IweV Require Import Str Ast Arena.
Local Open Scope string_scope.
Local Open Scope list_scope.

Definition live (a : arena) (id : nat) : bool :=
  match get a id with
  | Some n => negb (is_emptyk (g_kind n))
  | None => false
  end.

Definition is_dock (k : gkind) : bool := match k with KDocument _ => true | _ => false end.

Definition oeqb (o : option nat) (id : nat) : bool :=
  match o with Some x => Nat.eqb x id | None => false end.

(* a downward link (child or next) of node [id]: points at a later live node that points back *)
Definition back_ok (a : arena) (id : nat) (o : option nat) : bool :=
  match o with
  | None => true
  | Some c => Nat.ltb id c &&
              match get a c with
              | Some cn => negb (is_emptyk (g_kind cn)) && oeqb (g_prev cn) id
              | None => false
              end
  end.

(* the upward link: documents are roots; every other node hangs below an earlier live node, as
   its child or as its next sibling, never both *)
Definition up_ok (a : arena) (id : nat) (n : gnode) : bool :=
  match g_prev n with
  | None => is_dock (g_kind n)
  | Some p =>
      negb (is_dock (g_kind n)) && Nat.ltb p id &&
      match get a p with
      | Some pn => negb (is_emptyk (g_kind pn)) && xorb (oeqb (g_child pn) id) (oeqb (g_next pn) id)
      | None => false
      end
  end.

Definition is_some {A} (o : option A) : bool := match o with Some _ => true | None => false end.

(* one slot is well formed *)
Definition node_ok (a : arena) (id : nat) (n : gnode) : bool :=
  if is_emptyk (g_kind n) then true
  else up_ok a id n &&
       implb (is_some (g_child n)) (insertable (g_kind n)) && back_ok a id (g_child n) &&
       implb (is_some (g_next n)) (negb (is_dock (g_kind n))) && back_ok a id (g_next n).

Fixpoint nodes_ok_from (a : arena) (id : nat) (l : list gnode) : bool :=
  match l with
  | [] => true
  | n :: r => node_ok a id n && nodes_ok_from a (S id) r
  end.

Definition arena_ok (a : arena) : bool := nodes_ok_from a 0 a.

(* the key map: every key names a live document node carrying that key, different keys name
   different roots, and every live document node is the root of its key *)
Definition key_ok (a : arena) (kv : string * nat) : bool :=
  match get a (snd kv) with
  | Some n => match g_kind n with KDocument k => String.eqb k (fst kv) | _ => false end
  | None => false
  end.

Fixpoint nodup_nat (l : list nat) : bool :=
  match l with
  | [] => true
  | x :: r => negb (existsb (Nat.eqb x) r) && nodup_nat r
  end.

Fixpoint docs_rooted_from (keys : list (string * nat)) (id : nat) (l : list gnode) : bool :=
  match l with
  | [] => true
  | n :: r => (match g_kind n with
               | KDocument _ => existsb (fun kv => Nat.eqb (snd kv) id) keys
               | _ => true
               end) && docs_rooted_from keys (S id) r
  end.

Definition wf_b (a : arena) (keys : list (string * nat)) : bool :=
  arena_ok a && forallb (key_ok a) keys && nodup_nat (map snd keys) &&
  docs_rooted_from keys 0 a.

(* GraphNodePointer::to_document / Graph::node_key: walk the prev links up to the root *)
Fixpoint to_document (fuel : nat) (a : arena) (id : nat) : res nat :=
  match fuel with
  | O => Panic "out of fuel"
  | S f =>
      match get a id with
      | None => Panic "arena index out of bounds"
      | Some n =>
          match g_kind n with
          | KEmpty => Panic "prev_id of Empty"
          | KDocument _ => Ok id
          | _ => match g_prev n with
                 | Some p => to_document f a p
                 | None => Panic "to have a prev_id"
                 end
          end
      end
  end.

(* every node id in the subtree below [id] (its child chain and their subtrees), pre-order;
   this is the set `collect`, `delete_branch` and `index_node` walk *)
Fixpoint subtree_ids (fuel : nat) (a : arena) (id : nat) : list nat :=
  match fuel with
  | O => []
  | S f =>
      match get a id with
      | None => []
      | Some n =>
          id :: (match g_child n with Some c => subtree_ids f a c | None => [] end)
             ++ (match g_kind n with
                 | KDocument _ => []
                 | _ => match g_next n with Some x => subtree_ids f a x | None => [] end
                 end)
      end
  end.

(* the live ids, and the live ids reachable from the roots *)
Definition live_ids (a : arena) : list nat := filter (live a) (seq 0 (length a)).
Definition reachable_ids (a : arena) (keys : list (string * nat)) : list nat :=
  flat_map (fun kv => subtree_ids (S (length a)) a (snd kv)) keys.

Fixpoint insert_sorted (x : nat) (l : list nat) : list nat :=
  match l with
  | [] => [x]
  | y :: r => if Nat.leb x y then x :: l else y :: insert_sorted x r
  end.
Definition sort_nat (l : list nat) : list nat := fold_right insert_sorted [] l.

(* every live node is reached exactly once from exactly one root (disjoint trees, no orphan) *)
Definition partition_ok (a : arena) (keys : list (string * nat)) : bool :=
  list_eqb Nat.eqb (sort_nat (reachable_ids a keys)) (live_ids a).

(* the owner of every node of a note's tree is that note (navigation is consistent) *)
Definition owners_ok (a : arena) (keys : list (string * nat)) : bool :=
  forallb (fun kv =>
    forallb (fun id => match to_document (S (length a)) a id with
                       | Ok r => Nat.eqb r (snd kv)
                       | Panic _ => false
                       end) (subtree_ids (S (length a)) a (snd kv))) keys.
