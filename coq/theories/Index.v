(* Index.v — liwe::graph::index::RefIndex and the way Graph maintains it:
     index.rs:7-10     two maps  Key -> HashSet<NodeId>  (block references, inline references)
     index.rs:17-30    merge (per key union: ids recorded once stay for ever)
     index.rs:32-44    raw getters
     index.rs:46-128   index_node: the walk over child / next
     model/graph.rs:211-246,369-374 + graph_line.rs:30-32   ref_keys of a line
     graph.rs:384-402,414-422   Graph::get_{block,inline}_references_to (tombstones filtered)
     graph.rs:290-326  import: a fresh index, index_node started at EVERY arena slot
     graph.rs:236-262  from_markdown / update_key: a fresh index from the new root only, merged
     graph.rs:194-212  build_key_and (GraphPatch::add_key): same as from_markdown
   Sets are duplicate-free lists; every comparison with the implementation is made on the
   sorted list.  No proofs in this file. *)
From IweV Require Import Str Text Ast RelPath Arena Project Library.
Local Open Scope string_scope.
Local Open Scope list_scope.

(* ---------- sets of node ids, maps from keys ------------------------------------------- *)

Definition mem (x : nat) (l : list nat) : bool := existsb (Nat.eqb x) l.
Definition set_add (x : nat) (l : list nat) : list nat := if mem x l then l else l ++ [x].
Definition set_union (l m : list nat) : list nat := fold_left (fun acc x => set_add x acc) m l.

Fixpoint insert_sorted (x : nat) (l : list nat) : list nat :=
  match l with
  | [] => [x]
  | y :: r => if Nat.ltb x y then x :: l else if Nat.eqb x y then l else y :: insert_sorted x r
  end.
(* ascending, duplicate-free *)
Definition sort_ids (l : list nat) : list nat := fold_right insert_sorted [] l.

Definition kmap := list (string * list nat).    (* HashMap<Key, HashSet<NodeId>> *)

Definition kget (k : string) (m : kmap) : list nat :=
  match alookup k m with Some s => s | None => [] end.

(* entry(key).or_insert_with(HashSet::new).insert(id) *)
Fixpoint kadd (k : string) (id : nat) (m : kmap) : kmap :=
  match m with
  | [] => [(k, [id])]
  | (k', s) :: r => if String.eqb k k' then (k', set_add id s) :: r else (k', s) :: kadd k id r
  end.

Record refindex := RI { ri_block : kmap; ri_inline : kmap }.

Definition empty_index : refindex := RI [] [].

(* ---------- ref_keys of a line ----------------------------------------------------------- *)

(* GraphInline::ref_keys: a Link contributes Key::name(url) (model/graph.rs ref_key) - the url the graph holds
   for a note link IS the key the link names from the directory of its note (the reader resolved it:
   Arena.to_ginline, `Key::from_rel_link_url`; IndexFacts.inline_keys_resolved) - every link, also an
   external one (its url as text); an image
   contributes the links of its alt text; the label of a link is not searched *)
Fixpoint inline_ref_keys (i : inline) : list string :=
  match i with
  | Emph l | Strong l | Strike l => flat_map inline_ref_keys l
  | Link url _ _ _ => [key_name url]
  | Image _ _ l => flat_map inline_ref_keys l
  | _ => []
  end.
(* Line::ref_keys *)
Definition ref_keys (l : list inline) : list string := flat_map inline_ref_keys l.

(* ---------- index_node --------------------------------------------------------------------- *)

Definition olist {A} (o : option A) : list A := match o with Some x => [x] | None => [] end.

(* which links the walk follows out of a node, in the order of the code.
   [tbl] selects the variant: false = as found (`GraphNode::Table(_) => {}`: the walk ends
   at a table), true = repaired R1 (the table arm continues with next_id like Raw / Rule). *)
Definition succs (tbl : bool) (n : gnode) : list nat :=
  match g_kind n with
  | KRef _ _ _ => olist (g_next n)                       (* index.rs:48-57 *)
  | KSection _ => olist (g_child n) ++ olist (g_next n)  (* :58-73 *)
  | KLeaf _ => olist (g_next n)                          (* :74-86 *)
  | KDocument _ => olist (g_child n)                     (* :87-91 *)
  | KQuote | KBList | KOList => olist (g_child n) ++ olist (g_next n)   (* :92-115 *)
  | KEmpty => []                                         (* :116 *)
  | KRaw _ _ | KRule => olist (g_next n)                 (* :117-126 *)
  | KTable _ _ _ => if tbl then olist (g_next n) else [] (* :127 *)
  end.

(* what is recorded at a node *)
Definition record (id : nat) (n : gnode) (ri : refindex) : refindex :=
  match g_kind n with
  | KRef key _ _ => RI (kadd key id (ri_block ri)) (ri_inline ri)
  | KSection l | KLeaf l =>
      RI (ri_block ri) (fold_left (fun m k => kadd k id m) (ref_keys l) (ri_inline ri))
  | _ => ri
  end.

(* RefIndex::index_node.  The Rust function recurses over child and next without a guard;
   on a cyclic arena it would not return: out of fuel is that case. *)
Fixpoint index_node (tbl : bool) (fuel : nat) (a : arena) (id : nat) (ri : refindex) : res refindex :=
  match fuel with
  | O => Panic "out of fuel"
  | S f =>
      match get a id with
      | None => Panic "arena index out of bounds"
      | Some n =>
          fold_left (fun acc j => do r <- acc; index_node tbl f a j r) (succs tbl n) (Ok (record id n ri))
      end
  end.

Definition index_fuel (a : arena) : nat := S (length a).

(* index of the sub-forest hanging from [id] *)
Definition index_from (tbl : bool) (a : arena) (id : nat) : res refindex :=
  index_node tbl (index_fuel a) a id empty_index.

(* ---------- merge, getters ------------------------------------------------------------------- *)

Definition kmerge (m other : kmap) : kmap :=
  fold_left (fun acc ks => fold_left (fun acc' id => kadd (fst ks) id acc') (snd ks) acc) other m.

Definition merge (ri other : refindex) : refindex :=
  RI (kmerge (ri_block ri) (ri_block other)) (kmerge (ri_inline ri) (ri_inline other)).

(* RefIndex::get_*: raw, tombstones included *)
Definition raw_block_refs (ri : refindex) (k : string) : list nat := kget k (ri_block ri).
Definition raw_inline_refs (ri : refindex) (k : string) : list nat := kget k (ri_inline ri).

(* `!self.graph_node(id).is_empty()`; graph_node indexes the vector *)
Definition live (a : arena) (id : nat) : res bool :=
  match get a id with
  | None => Panic "arena index out of bounds"
  | Some n => Ok (negb (is_emptyk (g_kind n)))
  end.

Definition filter_live (a : arena) (ids : list nat) : res (list nat) :=
  fold_right (fun id acc => do r <- acc; do b <- live a id; Ok (if b then id :: r else r)) (Ok []) ids.

(* Graph::get_block_references_to / get_inline_references_to, as sorted lists *)
Definition get_block_references_to (a : arena) (ri : refindex) (k : string) : res (list nat) :=
  do l <- filter_live a (raw_block_refs ri k); Ok (sort_ids l).
Definition get_inline_references_to (a : arena) (ri : refindex) (k : string) : res (list nat) :=
  do l <- filter_live a (raw_inline_refs ri k); Ok (sort_ids l).

(* ---------- how Graph maintains the index ------------------------------------------------------ *)

(* Graph::import: `for node in arena.nodes() { index.index_node(&graph, node.id()) }` —
   a walk is started at every slot (so on this path a table hides nothing);
   `GraphNode::id` panics on Empty (there is none right after an import) *)
Definition index_all (tbl : bool) (a : arena) : res refindex :=
  fold_left (fun acc id => do ri <- acc;
               match get a id with
               | Some n => if is_emptyk (g_kind n) then Panic "id of Empty" else index_node tbl (index_fuel a) a id ri
               | None => Panic "arena index out of bounds"
               end) (seq 0 (length a)) (Ok empty_index).

Definition index_after_import_v (tbl : bool) (g : graph) : res refindex := index_all tbl (gr_arena g).

(* from_markdown / update_key / build_key_and: `index_node(self, id)` of the new root into a
   fresh index, merged into the old one.  [g] is the graph AFTER the note was rebuilt. *)
Definition index_after_update_v (tbl : bool) (g : graph) (ri : refindex) (key : string) : res refindex :=
  match alookup key (gr_keys g) with
  | None => Panic "to have key"
  | Some root => do fresh <- index_from tbl (gr_arena g) root; Ok (merge ri fresh)
  end.

(* the pinned tree *)
Definition index_after_import := index_after_import_v false.
Definition index_after_update := index_after_update_v false.

(* ---------- whole-graph state threaded through a history ------------------------------------------ *)

(* [gs_lines] is Graph::global_nodes_map: `extend`ed with every nodes_map ever built and
   never pruned (ids are never reused, so entries of deleted nodes are only dead weight —
   except for nodes that survive the deletion of their note, see Check_C05 class 4) *)
Record gstate := GS { gs_graph : graph; gs_index : refindex; gs_lines : list (nat * lrange) }.

Definition key_map (g : graph) (key : string) : list (nat * lrange) :=
  match alookup key (gr_maps g) with Some m => m | None => [] end.

Definition import_state_v (tbl : bool) (notes : list (string * option string * list dblock)) : res gstate :=
  do g <- import notes; do ri <- index_after_import_v tbl g;
  Ok (GS g ri (flat_map snd (gr_maps g))).

Definition update_state_v (tbl : bool) (s : gstate) (key : string) (meta : option string) (bs : list dblock) : res gstate :=
  do g <- update_key (gs_graph s) key meta bs;
  do ri <- index_after_update_v tbl g (gs_index s) key;
  Ok (GS g ri (gs_lines s ++ key_map g key)).

Definition import_state := import_state_v false.
Definition update_state := update_state_v false.

Definition block_refs_to (s : gstate) (k : string) : res (list nat) :=
  get_block_references_to (gr_arena (gs_graph s)) (gs_index s) k.
Definition inline_refs_to (s : gstate) (k : string) : res (list nat) :=
  get_inline_references_to (gr_arena (gs_graph s)) (gs_index s) k.

(* ---------- locations: what the handlers make of a node id ---------------------------------------- *)

Definition prev_of (n : gnode) : option nat :=
  match g_kind n with KDocument _ | KEmpty => None | _ => g_prev n end.

(* NodePointer::to_document (node.rs:383-389) then document_key: the note a node belongs to;
   None for a tombstone *)
Fixpoint to_document (fuel : nat) (a : arena) (id : nat) : res (option nat) :=
  match fuel with
  | O => Panic "out of fuel"
  | S f =>
      match get a id with
      | None => Panic "arena index out of bounds"
      | Some n =>
          match g_kind n with
          | KDocument _ => Ok (Some id)
          | _ => match prev_of n with Some p => to_document f a p | None => Ok None end
          end
      end
  end.

(* NodePointer::node_key (node.rs:278-280): `.unwrap()` *)
Definition node_key (a : arena) (id : nat) : res string :=
  do d <- to_document (S (length a)) a id;
  match d with
  | Some d => match get a d with
              | Some (GN (KDocument k) _ _ _) => Ok k
              | _ => Panic "unwrap on None"
              end
  | None => Panic "unwrap on None"
  end.

(* Graph::node_line_range: a lookup in global_nodes_map (later insertions win) *)
Definition node_line_range (s : gstate) (id : nat) : option lrange :=
  match find (fun e => Nat.eqb (fst e) id) (rev (gs_lines s)) with
  | Some e => Some (snd e)
  | None => None
  end.

(* server.rs:505-549 handle_references: (note key, start line, end line) per reported id,
   `unwrap_or(0)` where the node has no range *)
Definition location_of (s : gstate) (id : nat) : res (string * lrange) :=
  do k <- node_key (gr_arena (gs_graph s)) id;
  Ok (k, match node_line_range s id with Some r => r | None => (0, 0) end).
