(* HistoryClosed.v - the whole-history invariant of C20 with its builder premise discharged:
   HistoryWF.v proves update / history / import well-formedness from a statement about the builder,
   BuilderWF.v proves that statement; here the two are put together. *)
From Coq Require Import List.
From IweV Require Import Str Ast RelPath Arena ArenaWF ArenaFacts Project Library Check_Norm BuilderWF HistoryWF.
Local Open Scope string_scope.
Local Open Scope list_scope.

Definition update_key_wf_closed := HistoryWF.update_key_wf BuilderWF.build_document_wf.
Definition history_wf_closed := HistoryWF.history_wf BuilderWF.build_document_wf.
Definition import_wf_closed := HistoryWF.import_wf BuilderWF.build_document_wf.
Definition history_from_import_wf_closed := HistoryWF.history_from_import_wf BuilderWF.build_document_wf.
