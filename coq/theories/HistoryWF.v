(* HistoryWF.v — C20, the deletion half and the whole-history invariant.
   - [delete_branch] on the root of a note in a well-formed arena terminates, does not panic,
     tombstones exactly the ids of [subtree_ids] of that root, touches nothing else and leaves a
     well-formed arena ([delete_branch_wf]);
   - the builder never writes below the arena it was started on ([build_document_frame], for
     every input on which it returns);
   - under the builder fact (a premise: [build_document_wf], proved in BuilderWF.v for every block
     list; HistoryClosed.v puts the two together) [update_key] keeps
     the invariant "wf_b + the keys of the key map are pairwise distinct" ([update_key_wf]), so does
     every history of updates from the empty graph or from an import ([history_wf],
     [history_from_import_wf]);
   - an operation on one note never disturbs another note's blocks ([update_frame], no premise on
     the builder at all). *)
From IweV Require Import Str Text Ast RelPath Arena Project Library ArenaWF ArenaFacts Check_Norm.
From Coq Require Import Lia List.
Local Open Scope string_scope.
Local Open Scope list_scope.

(* ---------- tests of the statements on concrete arenas (before proving them) ------------------ *)

Definition ex_arena : arena :=
  [GN (KDocument "a") None None (Some 1); GN (KSection [Str "t"]) (Some 0) (Some 6) (Some 2);
   GN (KLeaf [Str "p"]) (Some 1) (Some 7) None; GN KEmpty None None None;
   GN (KDocument "b") None None (Some 5); GN (KSection [Str "u"]) (Some 4) None None;
   GN (KSection [Str "t2"]) (Some 1) None (Some 9); GN KBList (Some 2) None (Some 8);
   GN (KSection [Str "i"]) (Some 7) None None; GN (KLeaf [Str "q"]) (Some 6) None None].
Definition ex_keys : list (string * nat) := [("a", 0); ("b", 4)].

Example ex_arena_wf : wf_b ex_arena ex_keys = true /\ partition_ok ex_arena ex_keys = true.
Proof. split; vm_compute; reflexivity. Qed.

Example ex_subtree : subtree_ids (S (length ex_arena)) ex_arena 0 = [0; 1; 2; 7; 8; 6; 9].
Proof. vm_compute. reflexivity. Qed.

Example ex_delete :
  match delete_branch (S (length ex_arena)) ex_arena 0 with
  | Ok a' => length a' = length ex_arena /\ arena_ok a' = true /\
             forallb (fun id => match get a' id with Some (GN KEmpty None None None) => true | _ => false end)
                     [0; 1; 2; 7; 8; 6; 9] = true /\
             map (get a') [3; 4; 5] = map (get ex_arena) [3; 4; 5]
  | Panic _ => False
  end.
Proof. vm_compute. repeat split; reflexivity. Qed.

(* a branch that is not a whole note: the links into it dangle afterwards, the statement is
   about roots only *)
Example ex_delete_inner :
  match delete_branch (S (length ex_arena)) ex_arena 2 with
  | Ok a' => arena_ok a' = false
  | Panic _ => False
  end.
Proof. vm_compute. reflexivity. Qed.

(* ---------- small facts ---------------------------------------------------------------------- *)

Lemma subtree_ids_S f a id :
  subtree_ids (S f) a id =
  match get a id with
  | None => []
  | Some n =>
      id :: (match g_child n with Some c => subtree_ids f a c | None => [] end)
         ++ (match g_kind n with
             | KDocument _ => []
             | _ => match g_next n with Some x => subtree_ids f a x | None => [] end
             end)
  end.
Proof. reflexivity. Qed.

Lemma delete_branch_S f a id :
  delete_branch (S f) a id =
  match get a id with
  | None => Panic "arena index out of bounds"
  | Some n =>
      do a1 <- (match g_child n with Some c => delete_branch f a c | None => Ok a end);
      do a2 <- (match get a1 id with
                | None => Panic "arena index out of bounds"
                | Some n1 =>
                    match g_kind n1 with
                    | KEmpty => Panic "next_id of Empty"
                    | _ => match g_next n1 with Some nx => delete_branch f a1 nx | None => Ok a1 end
                    end
                end);
      Ok (set_nth a2 id empty_node)
  end.
Proof. reflexivity. Qed.

Lemma nonempty_match {A} (k : gkind) (P Q : A) :
  is_emptyk k = false -> match k with KEmpty => P | _ => Q end = Q.
Proof. destruct k; try reflexivity; discriminate. Qed.

Lemma nondoc_match {A} (k : gkind) (P Q : A) :
  is_dock k = false -> match k with KDocument _ => P | _ => Q end = Q.
Proof. destruct k; try reflexivity; discriminate. Qed.

Lemma is_dock_key k : is_dock k = true -> exists key, k = KDocument key.
Proof. destruct k; try discriminate. eexists; reflexivity. Qed.

Lemma dock_not_empty k : is_dock k = true -> is_emptyk k = false.
Proof. destruct k; try discriminate. reflexivity. Qed.

(* ---------- descendants: the prev chain of x passes through r --------------------------------- *)

Inductive desc (a : arena) (r : nat) : nat -> Prop :=
| desc_refl : desc a r r
| desc_step x n p :
    get a x = Some n -> is_emptyk (g_kind n) = false -> g_prev n = Some p ->
    desc a r p -> desc a r x.

Section Desc.
  Variable a : arena.
  Hypothesis Hok : arena_ok a = true.

  Let Hall : forall id m, get a id = Some m -> node_ok a id m = true.
  Proof. now apply arena_ok_spec. Qed.

  Lemma node_facts id n :
    get a id = Some n -> is_emptyk (g_kind n) = false ->
    up_ok a id n = true /\
    implb (is_some (g_child n)) (insertable (g_kind n)) = true /\ back_ok a id (g_child n) = true /\
    implb (is_some (g_next n)) (negb (is_dock (g_kind n))) = true /\ back_ok a id (g_next n) = true.
  Proof. intros Hg He. apply node_ok_live; auto. Qed.

  (* the target of a link of a live node: later, live, pointing back *)
  Lemma link_target id n c :
    get a id = Some n -> is_emptyk (g_kind n) = false ->
    (g_child n = Some c \/ g_next n = Some c) ->
    id < c /\ exists cn, get a c = Some cn /\ is_emptyk (g_kind cn) = false /\ g_prev cn = Some id.
  Proof.
    intros Hg He Hc. destruct (node_facts id n Hg He) as (_ & _ & Hcb & _ & Hnb).
    destruct Hc as [Hc|Hc]; rewrite Hc in *; now apply back_ok_some.
  Qed.

  (* the source of the prev link of a live node: earlier, live, linking to it *)
  Lemma prev_source x n p :
    get a x = Some n -> is_emptyk (g_kind n) = false -> g_prev n = Some p ->
    is_dock (g_kind n) = false /\ p < x /\
    exists pn, get a p = Some pn /\ is_emptyk (g_kind pn) = false /\
               (g_child pn = Some x \/ g_next pn = Some x).
  Proof.
    intros Hg He Hp. destruct (node_facts x n Hg He) as (Hup & _).
    destruct (up_ok_some a x n p Hup Hp) as (Hd & Hlt & pn & Hgp & Hpe & Hx).
    split; [exact Hd|]. split; [exact Hlt|]. exists pn. split; [exact Hgp|]. split; [exact Hpe|].
    destruct (oeqb (g_child pn) x) eqn:E1.
    - left. now apply oeqb_true.
    - destruct (oeqb (g_next pn) x) eqn:E2; [|discriminate]. right. now apply oeqb_true.
  Qed.

  Lemma doc_no_prev x n :
    get a x = Some n -> is_dock (g_kind n) = true -> g_prev n = None.
  Proof.
    intros Hg Hd. destruct (g_prev n) as [p|] eqn:Hp; [|reflexivity].
    destruct (prev_source x n p Hg (dock_not_empty _ Hd) Hp) as (Hnd & _). congruence.
  Qed.

  Lemma doc_no_next x n :
    get a x = Some n -> is_dock (g_kind n) = true -> g_next n = None.
  Proof.
    intros Hg Hd. destruct (node_facts x n Hg (dock_not_empty _ Hd)) as (_ & _ & _ & Hni & _).
    rewrite Hd in Hni. destruct (g_next n); [discriminate | reflexivity].
  Qed.

  Lemma desc_le r x : desc a r x -> r <= x.
  Proof.
    induction 1 as [|x n p Hg He Hp _ IH]; [lia|].
    destruct (prev_source x n p Hg He Hp) as (_ & Hlt & _). lia.
  Qed.

  Lemma desc_trans r m x : desc a r m -> desc a m x -> desc a r x.
  Proof.
    intros Hrm. induction 1 as [|x n p Hg He Hp _ IH]; [exact Hrm|].
    eapply desc_step; eauto.
  Qed.

  Lemma desc_link id n c :
    get a id = Some n -> is_emptyk (g_kind n) = false ->
    (g_child n = Some c \/ g_next n = Some c) -> desc a id c.
  Proof.
    intros Hg He Hc. destruct (link_target id n c Hg He Hc) as (_ & cn & Hgc & Hce & Hcp).
    eapply desc_step; eauto. apply desc_refl.
  Qed.

  (* the prev chain of a node is one chain *)
  Lemma desc_comparable u v x : desc a u x -> desc a v x -> desc a u v \/ desc a v u.
  Proof.
    induction 1 as [|x n p Hg He Hp Hup IH]; intros Hv.
    - now right.
    - inversion Hv as [|x' n' p' Hg' He' Hp' Hvp]; subst.
      + left. eapply desc_step; eauto.
      + rewrite Hg in Hg'. inversion Hg'; subst n'. rewrite Hp in Hp'. inversion Hp'; subst p'.
        now apply IH.
  Qed.

  (* a proper descendant of r hangs below a link of r *)
  Lemma desc_top r n x :
    get a r = Some n -> desc a r x ->
    x = r \/ exists c, (g_child n = Some c \/ g_next n = Some c) /\ desc a c x.
  Proof.
    intros Hr. induction 1 as [|x m p Hg He Hp Hdp IH]; [now left|]. right.
    destruct IH as [->|(c & Hc & Hcx)].
    - exists x. split; [|apply desc_refl].
      destruct (prev_source x m r Hg He Hp) as (_ & _ & pn & Hgp & _ & Hl).
      rewrite Hr in Hgp. inversion Hgp; subst pn. exact Hl.
    - exists c. split; [exact Hc|]. eapply desc_step; eauto.
  Qed.

  (* the branches below the child and below the next sibling of a node share nothing *)
  Lemma branches_disjoint id n c nx x :
    get a id = Some n -> is_emptyk (g_kind n) = false ->
    g_child n = Some c -> g_next n = Some nx ->
    desc a c x -> desc a nx x -> False.
  Proof.
    intros Hg He Hc Hnx Hcx Hnxx.
    destruct (link_target id n c Hg He (or_introl Hc)) as (Hlc & cn & Hgc & Hce & Hcp).
    destruct (link_target id n nx Hg He (or_intror Hnx)) as (Hlnx & nn & Hgn & Hne & Hnp).
    assert (Hneq : c <> nx).
    { intros ->. destruct (node_facts nx cn Hgc Hce) as (Hup & _).
      destruct (up_ok_some a nx cn id Hup Hcp) as (_ & _ & pn & Hgp & _ & Hx).
      rewrite Hg in Hgp. inversion Hgp; subst pn. rewrite Hc, Hnx in Hx. cbn [oeqb] in Hx.
      rewrite Nat.eqb_refl in Hx. discriminate. }
    destruct (desc_comparable c nx x Hcx Hnxx) as [H|H].
    - inversion H as [|x' n' p' Hg' He' Hp' Hd]; subst; [congruence|].
      rewrite Hgn in Hg'. inversion Hg'; subst n'. rewrite Hnp in Hp'. inversion Hp'; subst p'.
      apply desc_le in Hd. lia.
    - inversion H as [|x' n' p' Hg' He' Hp' Hd]; subst; [congruence|].
      rewrite Hgc in Hg'. inversion Hg'; subst n'. rewrite Hcp in Hp'. inversion Hp'; subst p'.
      apply desc_le in Hd. lia.
  Qed.

  (* the next part of [subtree_ids]: a document has no next sibling in a well-formed arena *)
  Lemma next_part f id n :
    get a id = Some n -> is_emptyk (g_kind n) = false ->
    (match g_kind n with
     | KDocument _ => []
     | _ => match g_next n with Some x => subtree_ids f a x | None => [] end
     end) = match g_next n with Some x => subtree_ids f a x | None => [] end.
  Proof.
    intros Hg He. destruct (is_dock (g_kind n)) eqn:Hd.
    - rewrite (doc_no_next id n Hg Hd). destruct (g_kind n); reflexivity.
    - now apply nondoc_match.
  Qed.

  (* [subtree_ids] lists descendants ... *)
  Lemma In_desc f : forall id n x,
    get a id = Some n -> is_emptyk (g_kind n) = false ->
    In x (subtree_ids f a id) -> desc a id x.
  Proof.
    induction f as [|f IH]; intros id n x Hg He Hin; [destruct Hin|].
    rewrite subtree_ids_S, Hg in Hin. cbv beta iota in Hin. rewrite (next_part f id n Hg He) in Hin.
    destruct Hin as [<-|Hin]; [apply desc_refl|].
    apply in_app_or in Hin. destruct Hin as [Hin|Hin].
    - destruct (g_child n) as [c|] eqn:Hc; [|destruct Hin].
      destruct (link_target id n c Hg He (or_introl Hc)) as (_ & cn & Hgc & Hce & _).
      eapply desc_trans; [eapply desc_link; eauto | eapply IH; eauto].
    - destruct (g_next n) as [c|] eqn:Hc; [|destruct Hin].
      destruct (link_target id n c Hg He (or_intror Hc)) as (_ & cn & Hgc & Hce & _).
      eapply desc_trans; [eapply desc_link; eauto | eapply IH; eauto].
  Qed.

  (* ... and all of them, when the fuel covers the ids above the start *)
  Lemma desc_In f : forall id n x,
    length a <= id + f -> get a id = Some n -> is_emptyk (g_kind n) = false ->
    desc a id x -> In x (subtree_ids f a id).
  Proof.
    induction f as [|f IH]; intros id n x Hf Hg He Hd.
    - apply get_lt in Hg. lia.
    - rewrite subtree_ids_S, Hg. cbv beta iota. rewrite (next_part f id n Hg He).
      destruct (desc_top id n x Hg Hd) as [->|(c & Hc & Hcx)]; [now left|]. right.
      destruct (link_target id n c Hg He Hc) as (Hlt & cn & Hgc & Hce & _).
      apply in_or_app. destruct Hc as [Hc|Hc]; rewrite Hc; [left|right];
        (eapply IH; eauto; lia).
  Qed.

  (* ---------- delete_branch on a branch of [a], run on an arena that agrees with [a] there ------ *)

  Lemma delete_branch_gen f : forall id n (a1 : arena),
    length a <= id + f -> get a id = Some n -> is_emptyk (g_kind n) = false ->
    length a1 = length a -> (forall x, desc a id x -> get a1 x = get a x) ->
    exists a2, delete_branch f a1 id = Ok a2 /\ length a2 = length a /\
      (forall x, In x (subtree_ids f a id) -> get a2 x = Some empty_node) /\
      (forall x, ~ In x (subtree_ids f a id) -> get a2 x = get a1 x).
  Proof.
    induction f as [|f IH]; intros id n a1 Hf Hg He Hlen Hagree.
    - apply get_lt in Hg. lia.
    - rewrite delete_branch_S, subtree_ids_S, Hg. cbv beta iota. rewrite (next_part f id n Hg He).
      rewrite (Hagree id (desc_refl a id)), Hg. cbv beta iota.
      set (C := match g_child n with Some c => subtree_ids f a c | None => [] end).
      set (N := match g_next n with Some x => subtree_ids f a x | None => [] end).
      (* the child branch *)
      assert (HC : exists a1', (match g_child n with Some c => delete_branch f a1 c | None => Ok a1 end) = Ok a1' /\
                   length a1' = length a /\
                   (forall x, In x C -> get a1' x = Some empty_node) /\
                   (forall x, ~ In x C -> get a1' x = get a1 x)).
      { unfold C. destruct (g_child n) as [c|] eqn:Hc.
        - destruct (link_target id n c Hg He (or_introl Hc)) as (Hlt & cn & Hgc & Hce & _).
          apply (IH c cn a1); auto; [lia|].
          intros x Hx. apply Hagree. eapply desc_trans; [eapply desc_link; eauto | exact Hx].
        - exists a1. repeat split; auto. intros x []. }
      destruct HC as (a1' & -> & Hlen1 & HC1 & HC2). cbn [bind].
      assert (HCd : forall x, In x C -> exists c, g_child n = Some c /\ desc a c x).
      { unfold C. intros x Hx. destruct (g_child n) as [c|] eqn:Hc; [|destruct Hx].
        destruct (link_target id n c Hg He (or_introl Hc)) as (_ & cn & Hgc & Hce & _).
        exists c. split; [reflexivity|]. eapply In_desc; eauto. }
      assert (HNd : forall x, In x N -> exists c, g_next n = Some c /\ desc a c x).
      { unfold N. intros x Hx. destruct (g_next n) as [c|] eqn:Hc; [|destruct Hx].
        destruct (link_target id n c Hg He (or_intror Hc)) as (_ & cn & Hgc & Hce & _).
        exists c. split; [reflexivity|]. eapply In_desc; eauto. }
      assert (HidC : ~ In id C).
      { intros Hin. destruct (HCd id Hin) as (c & Hc & Hd).
        destruct (link_target id n c Hg He (or_introl Hc)) as (Hlt & _). apply desc_le in Hd. lia. }
      assert (HidN : ~ In id N).
      { intros Hin. destruct (HNd id Hin) as (c & Hc & Hd).
        destruct (link_target id n c Hg He (or_intror Hc)) as (Hlt & _). apply desc_le in Hd. lia. }
      (* the slot is read again: the child branch did not touch it *)
      rewrite (HC2 id HidC), (Hagree id (desc_refl a id)), Hg. cbv beta iota.
      rewrite (nonempty_match (g_kind n) _ _ He).
      (* the next branch *)
      assert (HN : exists a2, (match g_next n with Some nx => delete_branch f a1' nx | None => Ok a1' end) = Ok a2 /\
                   length a2 = length a /\
                   (forall x, In x N -> get a2 x = Some empty_node) /\
                   (forall x, ~ In x N -> get a2 x = get a1' x)).
      { unfold N. destruct (g_next n) as [nx|] eqn:Hnx.
        - destruct (link_target id n nx Hg He (or_intror Hnx)) as (Hlt & nn & Hgn & Hne & _).
          apply (IH nx nn a1'); auto; [lia|].
          intros x Hx. rewrite HC2.
          + apply Hagree. eapply desc_trans; [eapply desc_link; eauto | exact Hx].
          + intros Hin. destruct (HCd x Hin) as (c & Hc & Hcx).
            exact (branches_disjoint id n c nx x Hg He Hc Hnx Hcx Hx).
        - exists a1'. repeat split; auto. intros x []. }
      destruct HN as (a2 & -> & Hlen2 & HN1 & HN2). cbn [bind].
      exists (set_nth a2 id empty_node). split; [reflexivity|]. split; [now rewrite set_nth_length|].
      assert (Hid2 : id < length a2) by (rewrite Hlen2; eapply get_lt; eauto).
      split.
      + intros x [<-|Hin]; [now apply get_set_nth_same|].
        assert (Hne : x <> id) by (intros ->; apply in_app_or in Hin; tauto).
        rewrite get_set_nth_other by exact Hne.
        destruct (in_dec Nat.eq_dec x N) as [HxN|HxN]; [now apply HN1|].
        rewrite (HN2 x HxN). apply HC1. apply in_app_or in Hin. tauto.
      + intros x Hnin.
        assert (Hne : x <> id) by (intros ->; apply Hnin; now left).
        rewrite get_set_nth_other by exact Hne.
        rewrite HN2 by (intros H; apply Hnin; right; apply in_or_app; now right).
        apply HC2. intros H; apply Hnin; right; apply in_or_app; now left.
  Qed.
End Desc.

(* ---------- deleting a whole note ------------------------------------------------------------- *)

(* tombstoning every descendant of a document root leaves a well-formed arena *)
Lemma tombstone_root_ok (a a' : arena) (root : nat) (n : gnode) :
  arena_ok a = true -> get a root = Some n -> is_dock (g_kind n) = true ->
  (forall x, desc a root x -> get a' x = Some empty_node) ->
  (forall x, ~ desc a root x -> get a' x = get a x) ->
  (forall x, desc a root x \/ ~ desc a root x) ->
  arena_ok a' = true.
Proof.
  intros Hok Hr Hd Hin Hout Hdec.
  assert (Hall : forall id m, get a id = Some m -> node_ok a id m = true) by (now apply arena_ok_spec).
  apply arena_ok_spec. intros x m Hg.
  destruct (Hdec x) as [Hx|Hx].
  - rewrite (Hin x Hx) in Hg. inversion Hg; subst m. reflexivity.
  - rewrite (Hout x Hx) in Hg.
    destruct (is_emptyk (g_kind m)) eqn:Hem; [unfold node_ok; now rewrite Hem|].
    destruct (node_facts a Hok x m Hg Hem) as (Hup & Hci & Hcb & Hni & Hnb).
    assert (Hback : forall o, (g_child m = o \/ g_next m = o) -> back_ok a x o = true -> back_ok a' x o = true).
    { intros [c|] Ho Hb; [|reflexivity].
      destruct (link_target a Hok x m c Hg Hem Ho) as (_ & cn & Hgc & Hce & Hcp).
      assert (Hc : ~ desc a root c).
      { intros Hdc. inversion Hdc as [|c' n' p' Hg' He' Hp' Hdp]; subst.
        - rewrite Hr in Hgc. inversion Hgc; subst cn.
          rewrite (doc_no_prev a Hok c n Hr Hd) in Hcp. discriminate.
        - rewrite Hgc in Hg'. inversion Hg'; subst n'. rewrite Hcp in Hp'. inversion Hp'; subst p'.
          now apply Hx. }
      unfold back_ok in *. now rewrite (Hout c Hc). }
    apply node_ok_intro; auto.
    unfold up_ok in *. destruct (g_prev m) as [p|] eqn:Hp; [|exact Hup].
    assert (Hpn : ~ desc a root p).
    { intros Hdp. apply Hx. eapply desc_step; eauto. }
    now rewrite (Hout p Hpn).
Qed.

(* HEADLINE: delete_branch on the root of a note tombstones exactly the nodes of the note's tree -
   terminates (the fuel update_key passes suffices), never panics, touches nothing else, keeps the
   forest well formed *)
Theorem delete_branch_wf (a : arena) (root : nat) (n : gnode) (k : string) :
  arena_ok a = true -> get a root = Some n -> g_kind n = KDocument k ->
  exists a', delete_branch (S (length a)) a root = Ok a' /\ length a' = length a /\ arena_ok a' = true /\
    (forall id, In id (subtree_ids (S (length a)) a root) -> get a' id = Some empty_node) /\
    (forall id, ~ In id (subtree_ids (S (length a)) a root) -> get a' id = get a id).
Proof.
  intros Hok Hr Hk.
  assert (Hd : is_dock (g_kind n) = true) by (now rewrite Hk).
  assert (He : is_emptyk (g_kind n) = false) by (now rewrite Hk).
  destruct (delete_branch_gen a Hok (S (length a)) root n a ltac:(lia) Hr He eq_refl (fun _ _ => eq_refl))
    as (a' & Hdel & Hlen & Hin & Hout).
  assert (Hiff : forall x, In x (subtree_ids (S (length a)) a root) <-> desc a root x).
  { intros x. split; [eapply In_desc; eauto | eapply desc_In; eauto; lia]. }
  exists a'. repeat split; auto.
  apply (tombstone_root_ok a a' root n Hok Hr Hd).
  - intros x Hx. apply Hin. now apply Hiff.
  - intros x Hx. apply Hout. now rewrite Hiff.
  - intros x. destruct (in_dec Nat.eq_dec x (subtree_ids (S (length a)) a root)) as [H|H];
      [left|right]; now rewrite <- Hiff.
Qed.
Print Assumptions delete_branch_wf.

(* the trees of two different documents share nothing *)
Lemma roots_disjoint (a : arena) (r1 r2 : nat) (n1 n2 : gnode) (x : nat) :
  arena_ok a = true -> get a r1 = Some n1 -> get a r2 = Some n2 ->
  is_dock (g_kind n1) = true -> is_dock (g_kind n2) = true -> r1 <> r2 ->
  desc a r1 x -> desc a r2 x -> False.
Proof.
  intros Hok H1 H2 D1 D2 Hne X1 X2.
  destruct (desc_comparable a r1 r2 x X1 X2) as [H|H];
    inversion H as [|x' n' p' Hg' He' Hp' Hd]; subst; try congruence.
  - rewrite H2 in Hg'. inversion Hg'; subst n'. rewrite (doc_no_prev a Hok r2 n2 H2 D2) in Hp'. discriminate.
  - rewrite H1 in Hg'. inversion Hg'; subst n'. rewrite (doc_no_prev a Hok r1 n1 H1 D1) in Hp'. discriminate.
Qed.

(* ---------- the builder never writes below the arena it was started on ------------------------ *)
From IweV Require Import BuilderFacts.

Lemma firstn_set_nth {A} (l : list A) n i x : n <= i -> firstn n (set_nth l i x) = firstn n l.
Proof.
  revert n i; induction l as [|y l IH]; intros [|n] [|i] H; cbn; auto; try lia.
  f_equal. apply IH. lia.
Qed.

Lemma firstn_app_short {A} (l r : list A) n : n <= length l -> firstn n (l ++ r) = firstn n l.
Proof.
  intros H. rewrite firstn_app. replace (n - length l) with 0 by lia. cbn. apply app_nil_r.
Qed.

Lemma firstn_eq_length {A} (l a0 : list A) : firstn (length a0) l = a0 -> length a0 <= length l.
Proof.
  intros H. apply (f_equal (@length A)) in H. rewrite firstn_length in H. lia.
Qed.

Lemma get_firstn (l : arena) n i : i < n -> get (firstn n l) i = get l i.
Proof.
  unfold get. revert n i; induction l as [|y l IH]; intros [|n] [|i] H; cbn; auto; try lia.
  apply IH. lia.
Qed.

Lemma fold_panic {X S} (step : S -> X -> res S) (l : list X) s :
  fold_left (fun acc x => do st <- acc; step st x) l (Panic s) = Panic s.
Proof. induction l as [|x l IH]; cbn [fold_left bind]; auto. Qed.

Lemma fold_inv {X S} (step : S -> X -> res S) (Inv : S -> Prop) (l : list X) :
  (forall x s s', In x l -> Inv s -> step s x = Ok s' -> Inv s') ->
  forall st st', Inv st -> fold_left (fun acc x => do s <- acc; step s x) l (Ok st) = Ok st' -> Inv st'.
Proof.
  induction l as [|x l IH]; intros Hstep st st' Hinv H; cbn [fold_left] in H.
  - inversion H; subst. exact Hinv.
  - cbn [bind] in H. destruct (step st x) as [s1|msg] eqn:E.
    + apply (IH (fun y s s' Hy => Hstep y s s' (or_intror Hy)) s1 st'); [|exact H].
      eapply Hstep; eauto. now left.
    + rewrite fold_panic in H. discriminate.
Qed.

Section Frame.
  Variable a0 : arena.
  Variable dir : string.

  (* the cursor is not below the start arena, and the start arena is still there *)
  Definition Fr (st : bst) : Prop :=
    length a0 <= b_cur st /\ firstn (length a0) (b_arena st) = a0.

  Lemma Fr_same st st' : b_arena st' = b_arena st -> b_cur st' = b_cur st -> Fr st -> Fr st'.
  Proof. unfold Fr. intros -> ->. auto. Qed.

  Lemma link_shape (a : arena) cur new (ins : bool) a' :
    (if ins then set_child_id a cur new else set_next_id a cur new) = Ok a' ->
    exists x, a' = set_nth a cur x.
  Proof.
    unfold set_child_id, set_next_id. destruct ins; destruct (get a cur) as [n|]; try discriminate;
      destruct (g_kind n); intros H; inversion H; eexists; reflexivity.
  Qed.

  Lemma add_node_Fr st k st' : Fr st -> add_node st k = Ok st' -> Fr st'.
  Proof.
    intros [Hc Hf] H. unfold add_node in H.
    destruct (if b_insert st then set_child_id (b_arena st) (b_cur st) (length (b_arena st))
              else set_next_id (b_arena st) (b_cur st) (length (b_arena st))) as [a'|msg] eqn:E;
      cbn [bind] in H; [|discriminate].
    destruct (link_shape _ _ _ _ _ E) as (x & ->). inversion H; subst st'.
    pose proof (firstn_eq_length _ _ Hf) as Hl.
    split; cbn [b_cur b_arena]; [exact Hl|].
    rewrite firstn_app_short by (now rewrite set_nth_length).
    now rewrite firstn_set_nth.
  Qed.

  Lemma add_lines_Fr st k lr st' :
    Fr st -> (do s <- add_node st k; Ok (set_lines_range s lr)) = Ok st' -> Fr st'.
  Proof.
    intros HF H. destruct (add_node st k) as [s|msg] eqn:E; cbn [bind] in H; [|discriminate].
    inversion H; subst st'. apply (Fr_same s); try reflexivity. eapply add_node_Fr; eauto.
  Qed.

  Definition keeps {X} (f : X -> bst -> res bst) : Prop :=
    forall x st st', Fr st -> f x st = Ok st' -> Fr st'.

  Lemma frame_all : forall f,
    keeps (process_blocks dir f) /\
    (forall L, keeps (process_sections dir f L)) /\
    keeps (process_section dir f) /\
    keeps (section_block dir f) /\
    keeps (block dir f).
  Proof.
    unfold keeps. induction f as [|f (IHb & IHss & IHs & IHsb & IHbl)].
    - split; [|split; [|split; [|split]]]; intros; discriminate.
    - assert (Hitems : forall (its : list (list dblock)) st st', Fr st ->
                fold_left (fun acc it => do s <- acc; process_section dir f it s) its (Ok st) = Ok st' -> Fr st').
      { intros its. apply (fold_inv (fun s it => process_section dir f it s) Fr its).
        intros x s s' _. apply IHs. }
      assert (Hlist : forall k (its : list (list dblock)) st st', Fr st ->
                (do st <- add_node st k;
                 let st := set_insert st true in
                 let id := b_cur st in
                 do st <- fold_left (fun acc it => do s <- acc; process_section dir f it s) its (Ok st);
                 Ok (set_insert (set_id st id) false)) = Ok st' -> Fr st').
      { intros k its st st' HF H.
        destruct (add_node st k) as [s1|msg] eqn:E1; cbn [bind] in H; [|discriminate].
        pose proof (add_node_Fr _ _ _ HF E1) as HF1. cbv zeta in H.
        destruct (fold_left _ its _) as [s2|msg] eqn:E2; cbn [bind] in H; [|discriminate].
        pose proof (Hitems its _ _ (Fr_same s1 (set_insert s1 true) eq_refl eq_refl HF1) E2) as HF2.
        inversion H; subst st'. destruct HF1 as [Hc1 _], HF2 as [_ Hf2]. split; assumption. }
      split; [|split; [|split; [|split]]].
      + (* process_blocks *)
        intros bs st st' HF H. rewrite process_blocks_S in H.
        destruct bs as [|b r]; [inversion H; subst; exact HF|].
        cbv zeta in H. destruct (span_pre (b :: r)) as [pre rest].
        destruct (fold_left _ pre _) as [s1|msg] eqn:E1; cbn [bind] in H; [|discriminate].
        assert (HF1 : Fr s1).
        { apply (fold_inv (fun s b => block dir f b s) Fr pre (fun x s s' _ => IHbl x s s')
                          (set_insert st true) s1); [|exact E1].
          now apply (Fr_same st). }
        destruct rest as [|h rest']; [inversion H; subst; exact HF1|].
        destruct (header_level h) as [L|]; [|inversion H; subst; exact HF1].
        eapply IHss; eauto.
      + (* process_sections *)
        intros L bs st st' HF H. rewrite process_sections_S in H.
        destruct bs as [|h r]; [inversion H; subst; exact HF|].
        destruct (span_section L r) as [body rest].
        destruct (process_section dir f (h :: body) st) as [s1|msg] eqn:E1; cbn [bind] in H; [|discriminate].
        eapply IHss; [|exact H]. eapply IHs; eauto.
      + (* process_section *)
        intros bs st st' HF H. rewrite process_section_S in H.
        destruct bs as [|h body]; [inversion H; subst; exact HF|].
        destruct (starts_with_header (h :: body)).
        * destruct (section_block dir f h st) as [s1|msg] eqn:E1; cbn [bind] in H; [|discriminate].
          cbv zeta in H.
          destruct (process_blocks dir f body s1) as [s2|msg] eqn:E2; cbn [bind] in H; [|discriminate].
          inversion H; subst st'.
          pose proof (IHsb _ _ _ HF E1) as [Hc1 _]. pose proof (IHb _ _ _ (IHsb _ _ _ HF E1) E2) as [_ Hf2].
          split; assumption.
        * destruct (add_node st (KSection [])) as [s1|msg] eqn:E1; cbn [bind] in H; [|discriminate].
          cbv zeta in H.
          destruct (process_blocks dir f (h :: body) s1) as [s2|msg] eqn:E2; cbn [bind] in H; [|discriminate].
          inversion H; subst st'.
          pose proof (add_node_Fr _ _ _ HF E1) as HF1.
          pose proof HF1 as [Hc1 _]. pose proof (IHb _ _ _ HF1 E2) as [_ Hf2].
          split; assumption.
      + (* section_block *)
        intros b st st' HF H. rewrite section_block_S in H.
        destruct b; try discriminate; try (eapply add_lines_Fr; eauto; fail);
          eapply Hitems; eauto.
      + (* block *)
        intros b st st' HF H. rewrite block_S in H.
        destruct b as [lr l|lr lang text|lr bs|its|its|lr lv l|lr|lr h al rows].
        * destruct (para_is_ref l).
          -- destruct l as [|[] [|]]; try discriminate. eapply add_lines_Fr; eauto.
          -- eapply add_lines_Fr; eauto.
        * eapply add_lines_Fr; eauto.
        * destruct (add_node st KQuote) as [s1|msg] eqn:E1; cbn [bind] in H; [|discriminate].
          cbv zeta in H.
          destruct (process_blocks dir f bs _) as [s2|msg] eqn:E2; cbn [bind] in H; [|discriminate].
          inversion H; subst st'.
          pose proof (add_node_Fr _ _ _ HF E1) as HF1.
          assert (HF2 : Fr s2).
          { eapply IHb; [|exact E2]. destruct HF1 as [Hc1 Hf1]. split; assumption. }
          destruct HF1 as [Hc1 _], HF2 as [_ Hf2]. split; assumption.
        * eapply Hlist; eauto.
        * eapply Hlist; eauto.
        * discriminate.
        * eapply add_lines_Fr; eauto.
        * eapply add_lines_Fr; eauto.
  Qed.
End Frame.

(* whenever the builder returns, the arena it was given is a prefix of the arena it returns *)
Theorem build_document_frame (a : arena) (key : string) (bs : list dblock) (st : bst) :
  build_document a key bs = Ok st -> firstn (length a) (b_arena st) = a.
Proof.
  unfold build_document. intros H.
  destruct (frame_all a (key_parent key) (fuel_for bs)) as (Hb & _).
  apply (Hb bs (build_key a key) st); [|exact H].
  split; cbn [build_key b_cur b_arena]; [lia|].
  rewrite firstn_app_short by lia. apply firstn_all.
Qed.
Print Assumptions build_document_frame.

(* ---------- association lists and the key-map part of wf_b ------------------------------------ *)

Lemma In_aremove {A} k (l : list (string * A)) kv : In kv (aremove k l) <-> In kv l /\ fst kv <> k.
Proof.
  induction l as [|[k' v] l IH]; cbn [aremove].
  - cbn. tauto.
  - destruct (String.eqb k k') eqn:E.
    + apply String.eqb_eq in E; subst k'. rewrite IH. cbn [In]. split.
      * intros [H1 H2]; auto.
      * intros [[<-|H1] H2]; [cbn in H2; congruence | auto].
    + apply String.eqb_neq in E. cbn [In]. rewrite IH. split.
      * intros [<-|[H1 H2]]; [split; [now left | cbn; congruence] | auto].
      * intros [[<-|H1] H2]; auto.
Qed.

Lemma alookup_In {A} k (l : list (string * A)) v : alookup k l = Some v -> In (k, v) l.
Proof.
  induction l as [|[k' v'] l IH]; cbn [alookup]; [discriminate|].
  destruct (String.eqb k k') eqn:E.
  - apply String.eqb_eq in E; subst k'. intros H; inversion H; subst. now left.
  - intros H. right. now apply IH.
Qed.

Lemma alookup_None {A} k (l : list (string * A)) :
  alookup k l = None -> forall kv, In kv l -> fst kv <> k.
Proof.
  induction l as [|[k' v'] l IH]; cbn [alookup]; [intros _ kv []|].
  destruct (String.eqb k k') eqn:E; [discriminate|]. apply String.eqb_neq in E.
  intros H kv [<-|Hin]; [cbn; congruence | now apply IH].
Qed.

Lemma alookup_NoDup {A} k (l : list (string * A)) v :
  NoDup (map fst l) -> In (k, v) l -> alookup k l = Some v.
Proof.
  induction l as [|[k' v'] l IH]; cbn [alookup map]; [intros _ []|].
  intros Hnd Hin. apply NoDup_cons_iff in Hnd as [Hni Hnd].
  destruct (String.eqb k k') eqn:E.
  - apply String.eqb_eq in E; subst k'. destruct Hin as [Heq|Hin]; [congruence|].
    exfalso. apply Hni. exact (in_map fst l (k, v) Hin).
  - apply String.eqb_neq in E. destruct Hin as [Heq|Hin]; [congruence | now apply IH].
Qed.

Lemma aremove_NoDup {A B} (f : string * A -> B) k (l : list (string * A)) :
  NoDup (map f l) -> NoDup (map f (aremove k l)).
Proof.
  induction l as [|[k' v'] l IH]; cbn [aremove map]; [auto|].
  intros Hnd. apply NoDup_cons_iff in Hnd as [Hni Hnd].
  destruct (String.eqb k k'); [now apply IH|]. cbn [map]. apply NoDup_cons; [|now apply IH].
  intros Hin. apply Hni. apply in_map_iff in Hin as (kv & Hf & Hin). apply In_aremove in Hin as [Hin _].
  rewrite <- Hf. now apply in_map.
Qed.

Lemma aremove_notin {A} k (l : list (string * A)) : ~ In k (map fst (aremove k l)).
Proof.
  intros Hin. apply in_map_iff in Hin as (kv & Hf & Hin). apply In_aremove in Hin as [_ Hne]. congruence.
Qed.

Lemma NoDup_snoc {A} (l : list A) x : NoDup l -> ~ In x l -> NoDup (l ++ [x]).
Proof.
  induction l as [|y l IH]; cbn; intros Hnd Hni.
  - apply NoDup_cons; [intros [] | apply NoDup_nil].
  - apply NoDup_cons_iff in Hnd as [Hy Hnd]. apply NoDup_cons.
    + intros Hin. apply in_app_or in Hin as [Hin|[<-|[]]]; tauto.
    + apply IH; tauto.
Qed.

Lemma alookup_app {A} k (l1 l2 : list (string * A)) :
  alookup k (l1 ++ l2) = match alookup k l1 with Some v => Some v | None => alookup k l2 end.
Proof.
  induction l1 as [|[k' v'] l1 IH]; cbn [alookup app]; [reflexivity|].
  destruct (String.eqb k k'); [reflexivity | exact IH].
Qed.

Lemma alookup_aremove_other {A} k k' (l : list (string * A)) :
  k' <> k -> alookup k' (aremove k l) = alookup k' l.
Proof.
  intros Hne. induction l as [|[k0 v0] l IH]; cbn [aremove alookup]; [reflexivity|].
  destruct (String.eqb k k0) eqn:E.
  - apply String.eqb_eq in E; subst k0.
    replace (String.eqb k' k) with false by (symmetry; now apply String.eqb_neq). exact IH.
  - cbn [alookup]. destruct (String.eqb k' k0); [reflexivity | exact IH].
Qed.

Lemma alookup_ainsert_other {A} k k' (v : A) (l : list (string * A)) :
  k' <> k -> alookup k' (ainsert k v l) = alookup k' l.
Proof.
  intros Hne. unfold ainsert. rewrite alookup_app, alookup_aremove_other by exact Hne.
  destruct (alookup k' l); [reflexivity|]. cbn [alookup].
  replace (String.eqb k' k) with false by (symmetry; now apply String.eqb_neq). reflexivity.
Qed.

Lemma ainsert_keys_NoDup {A} k (v : A) (l : list (string * A)) :
  NoDup (map fst l) -> NoDup (map fst (ainsert k v l)).
Proof.
  intros Hnd. unfold ainsert. rewrite map_app. cbn [map fst].
  apply NoDup_snoc; [now apply aremove_NoDup | apply aremove_notin].
Qed.

Lemma nodup_nat_spec l : nodup_nat l = true <-> NoDup l.
Proof.
  induction l as [|x l IH]; cbn [nodup_nat].
  - split; [intros _; apply NoDup_nil | reflexivity].
  - rewrite Bool.andb_true_iff, Bool.negb_true_iff, IH, NoDup_cons_iff.
    assert (H : existsb (Nat.eqb x) l = false <-> ~ In x l).
    { rewrite <- Bool.not_true_iff_false, existsb_exists. split.
      - intros H Hin. apply H. exists x. split; [exact Hin | apply Nat.eqb_refl].
      - intros H (y & Hin & E). apply Nat.eqb_eq in E. subst y. tauto. }
    now rewrite H.
Qed.

Lemma docs_rooted_from_spec keys off l :
  docs_rooted_from keys off l = true <->
  (forall i n, nth_error l i = Some n -> is_dock (g_kind n) = true ->
               exists kv, In kv keys /\ snd kv = off + i).
Proof.
  revert off; induction l as [|x l IH]; intros off; cbn [docs_rooted_from].
  - split; [intros _ i n H; destruct i; discriminate | reflexivity].
  - rewrite Bool.andb_true_iff, IH. split.
    + intros [Hx Hl] i n H Hd. destruct i as [|i]; cbn in H.
      * inversion H; subst x. destruct (is_dock_key _ Hd) as (key & Hk). rewrite Hk in Hx.
        apply existsb_exists in Hx as (kv & Hin & E). apply Nat.eqb_eq in E.
        exists kv. split; [exact Hin | lia].
      * destruct (Hl i n H Hd) as (kv & Hin & E). exists kv. split; [exact Hin | lia].
    + intros H. split.
      * destruct (g_kind x) eqn:Hk; try reflexivity.
        destruct (H 0 x eq_refl) as (kv & Hin & E); [now rewrite Hk|].
        apply existsb_exists. exists kv. split; [exact Hin | apply Nat.eqb_eq; lia].
      * intros i n Hn Hd. destruct (H (S i) n Hn Hd) as (kv & Hin & E).
        exists kv. split; [exact Hin | lia].
Qed.

(* wf_b, read as propositions *)
Lemma wf_b_spec a keys :
  wf_b a keys = true <->
  arena_ok a = true /\
  (forall kv, In kv keys -> key_ok a kv = true) /\
  NoDup (map snd keys) /\
  (forall id n, get a id = Some n -> is_dock (g_kind n) = true -> exists kv, In kv keys /\ snd kv = id).
Proof.
  unfold wf_b. rewrite !Bool.andb_true_iff, forallb_forall, nodup_nat_spec, docs_rooted_from_spec.
  unfold get. cbn [plus]. tauto.
Qed.

Lemma key_ok_spec a kv :
  key_ok a kv = true <-> exists n, get a (snd kv) = Some n /\ g_kind n = KDocument (fst kv).
Proof.
  unfold key_ok. destruct (get a (snd kv)) as [n|].
  - split.
    + intros H. exists n. split; [reflexivity|]. destruct (g_kind n); try discriminate.
      apply String.eqb_eq in H. now subst.
    + intros (n' & Hn & Hk). inversion Hn; subst n'. rewrite Hk. apply String.eqb_refl.
  - split; [discriminate | intros (n & Hn & _); discriminate].
Qed.

(* the invariant of histories: wf_b and pairwise distinct keys *)
Definition graph_inv (g : graph) : Prop :=
  wf_b (gr_arena g) (gr_keys g) = true /\ NoDup (map fst (gr_keys g)).

(* wf_b alone is not inductive: it allows one key to be mapped twice, and then an update of that
   key leaves the second root an unrooted live document *)
Theorem update_key_wf_refuted :
  exists g, wf_b (gr_arena g) (gr_keys g) = true /\
    exists g', update_key g "k" None [] = Ok g' /\ wf_b (gr_arena g') (gr_keys g') = false.
Proof.
  exists (G [GN (KDocument "k") None None None; GN (KDocument "k") None None None] [("k", 0); ("k", 1)] [] [] []).
  split; [vm_compute; reflexivity|]. eexists. split; vm_compute; reflexivity.
Qed.

(* import of a list that names one key twice (a State is a HashMap and cannot; the model's list can):
   the first root stays live and unrooted - the premise NoDup of import_wf is needed.  In the pinned
   tree two DIFFERENT state names could be one key (`Key::from_file_name` stripped every `.md`:
   `x.md` and `x.md.md`, finding F-C14-5); since the repair a state name is its key (`Key::name`) *)
Theorem import_wf_refuted :
  exists notes g, map (fun n : string * option string * list dblock => fst (fst n)) notes = ["x"; "x"] /\
    import notes = Ok g /\ wf_b (gr_arena g) (gr_keys g) = false.
Proof.
  exists [("x", None, [DPara (0, 1) [Str "p"]]); ("x", None, [])]. eexists. split; [|split].
  - reflexivity.
  - vm_compute. reflexivity.
  - vm_compute. reflexivity.
Qed.

(* the former witness of F-C14-5 - the files `x.md` and `x.md.md`, loaded as the state names `x` and
   `x.md` - is now an ordinary import: two keys, two rooted trees *)
Example import_double_md_wf :
  exists g, import [("x", None, [DPara (0, 1) [Str "p"]]); ("x.md", None, [])] = Ok g /\
    map fst (gr_keys g) = ["x"; "x.md"] /\ wf_b (gr_arena g) (gr_keys g) = true.
Proof. eexists. split; [vm_compute; reflexivity|]. split; vm_compute; reflexivity. Qed.

(* ---------- building a note: the key-map side -------------------------------------------------- *)

(* what is asked of the arena and the key map before the note [key] is (re)built on them: every
   other entry names its document, roots and keys are pairwise distinct, and every live document
   is the root of an entry other than [key] (the old version of [key], if any, is gone) *)
Definition ready (a : arena) (keys : list (string * nat)) (key : string) : Prop :=
  arena_ok a = true /\
  (forall kv, In kv keys -> fst kv <> key -> key_ok a kv = true) /\
  NoDup (map snd keys) /\ NoDup (map fst keys) /\
  (forall id n, get a id = Some n -> is_dock (g_kind n) = true ->
     exists kv, In kv keys /\ fst kv <> key /\ snd kv = id).

Lemma build_keys_wf (a : arena) (keys : list (string * nat)) (key : string) (st : bst) :
  ready a keys key ->
  arena_ok (b_arena st) = true ->
  firstn (length a) (b_arena st) = a ->
  (exists n, get (b_arena st) (length a) = Some n /\ g_kind n = KDocument key) ->
  (forall id n, length a < id -> get (b_arena st) id = Some n -> is_dock (g_kind n) = false) ->
  wf_b (b_arena st) (ainsert key (length a) keys) = true /\
  NoDup (map fst (ainsert key (length a) keys)).
Proof.
  intros (Hok & K1 & K2 & K3 & K4) Hok' Hfirst (rn & Hrn & Hrk) Hlater.
  split; [|now apply ainsert_keys_NoDup].
  assert (Hold : forall id, id < length a -> get (b_arena st) id = get a id).
  { intros id Hlt. rewrite <- (get_firstn (b_arena st) (length a) id Hlt). now rewrite Hfirst. }
  assert (Hrem : forall kv, In kv (aremove key keys) ->
            exists n, get a (snd kv) = Some n /\ g_kind n = KDocument (fst kv)).
  { intros kv Hin. apply In_aremove in Hin as [Hin Hne]. apply key_ok_spec. now apply K1. }
  apply wf_b_spec. split; [exact Hok'|]. split; [|split].
  - intros kv Hin. unfold ainsert in Hin. apply in_app_or in Hin as [Hin|[<-|[]]].
    + destruct (Hrem kv Hin) as (n & Hn & Hk). apply key_ok_spec. exists n. split; [|exact Hk].
      rewrite Hold; [exact Hn | eapply get_lt; eauto].
    + apply key_ok_spec. exists rn. auto.
  - unfold ainsert. rewrite map_app. cbn [map snd]. apply NoDup_snoc; [now apply aremove_NoDup|].
    intros Hin. apply in_map_iff in Hin as (kv & Hs & Hin). destruct (Hrem kv Hin) as (n & Hn & _).
    apply get_lt in Hn. lia.
  - intros id n Hn Hd. destruct (Nat.lt_total id (length a)) as [Hlt|[->|Hgt]].
    + rewrite (Hold id Hlt) in Hn. destruct (K4 id n Hn Hd) as (kv & Hin & Hne & Hs).
      exists kv. split; [|exact Hs]. unfold ainsert. apply in_or_app. left. apply In_aremove. auto.
    + exists (key, length a). split; [|reflexivity]. unfold ainsert. apply in_or_app. right. now left.
    + rewrite (Hlater id n Hgt Hn) in Hd. discriminate.
Qed.

(* a graph satisfying the invariant is ready for a key it does not have ... *)
Lemma ready_fresh g key :
  graph_inv g -> alookup key (gr_keys g) = None -> ready (gr_arena g) (gr_keys g) key.
Proof.
  intros [Hwf Hnd] Hnone. apply wf_b_spec in Hwf as (Hok & Hkeys & Hsnd & Hroot).
  split; [exact Hok|]. split; [auto|]. split; [exact Hsnd|]. split; [exact Hnd|].
  intros id n Hn Hd. destruct (Hroot id n Hn Hd) as (kv & Hin & Hs).
  exists kv. split; [exact Hin|]. split; [|exact Hs]. now apply (alookup_None key (gr_keys g)).
Qed.

(* ... and, once the tree of [key] is deleted, for a key it has *)
Lemma ready_deleted g key root a' :
  graph_inv g -> alookup key (gr_keys g) = Some root ->
  delete_branch (S (length (gr_arena g))) (gr_arena g) root = Ok a' ->
  ready a' (gr_keys g) key /\ length a' = length (gr_arena g).
Proof.
  intros [Hwf Hnd] Hlook Hdel. apply wf_b_spec in Hwf as (Hok & Hkeys & Hsnd & Hroot).
  set (a := gr_arena g) in *.
  pose proof (alookup_In _ _ _ Hlook) as Hinr.
  destruct (proj1 (key_ok_spec a (key, root)) (Hkeys _ Hinr)) as (n & Hn & Hk). cbn [fst snd] in Hn, Hk.
  destruct (delete_branch_wf a root n key Hok Hn Hk) as (a2 & Hdel2 & Hlen & Hok2 & Hin & Hout).
  rewrite Hdel in Hdel2. inversion Hdel2; subst a2. split; [|exact Hlen].
  assert (Hd : is_dock (g_kind n) = true) by (now rewrite Hk).
  assert (He : is_emptyk (g_kind n) = false) by (now rewrite Hk).
  split; [exact Hok2|]. split; [|split; [exact Hsnd|split; [exact Hnd|]]].
  - intros kv Hkv Hne. destruct (proj1 (key_ok_spec a kv) (Hkeys _ Hkv)) as (m & Hm & Hmk).
    apply key_ok_spec. exists m. split; [|exact Hmk]. rewrite Hout; [exact Hm|].
    intros Hs. apply (In_desc a Hok _ root n _ Hn He) in Hs.
    inversion Hs as [|x' n' p' Hg' He' Hp' Hdp]; subst.
    + rewrite Hn in Hm. inversion Hm; subst m. rewrite Hk in Hmk. inversion Hmk. congruence.
    + rewrite Hm in Hg'. inversion Hg'; subst n'.
      rewrite (doc_no_prev a Hok (snd kv) m Hm) in Hp'; [discriminate | now rewrite Hmk].
  - intros id m Hm Hmd.
    destruct (in_dec Nat.eq_dec id (subtree_ids (S (length a)) a root)) as [Hs|Hs].
    + rewrite (Hin id Hs) in Hm. inversion Hm; subst m. discriminate.
    + rewrite (Hout id Hs) in Hm. destruct (Hroot id m Hm Hmd) as (kv & Hkv & Hkvs).
      exists kv. split; [exact Hkv|]. split; [|exact Hkvs].
      intros Hfk. apply Hs. destruct kv as [k0 r0]. cbn [fst snd] in *. subst k0 r0.
      rewrite (alookup_NoDup key (gr_keys g) id Hnd Hkv) in Hlook. inversion Hlook; subst id.
      rewrite subtree_ids_S, Hn. now left.
Qed.

Lemma refresh_title_arena g k : gr_arena (refresh_title g k) = gr_arena g.
Proof.
  unfold refresh_title. destruct (alookup k (gr_keys g)); [|reflexivity].
  destruct (extract_ref_text (gr_arena g) n); reflexivity.
Qed.

Lemma refresh_title_keys g k : gr_keys (refresh_title g k) = gr_keys g.
Proof.
  unfold refresh_title. destruct (alookup k (gr_keys g)); [|reflexivity].
  destruct (extract_ref_text (gr_arena g) n); reflexivity.
Qed.

Lemma refresh_all_arena_keys (l : list (string * nat)) : forall g,
  gr_arena (fold_left (fun g kv => refresh_title g (fst kv)) l g) = gr_arena g /\
  gr_keys (fold_left (fun g kv => refresh_title g (fst kv)) l g) = gr_keys g.
Proof.
  induction l as [|kv l IH]; intros g; cbn [fold_left]; [auto|].
  destruct (IH (refresh_title g (fst kv))) as [-> ->].
  now rewrite refresh_title_arena, refresh_title_keys.
Qed.

(* ---------- one note never disturbs another (no premise on the builder) ------------------------ *)

Lemma desc_get a r n x : get a r = Some n -> desc a r x -> exists m, get a x = Some m.
Proof. intros Hr Hd. destruct Hd; eauto. Qed.

Theorem update_frame g key meta bs g' k' root' :
  wf_b (gr_arena g) (gr_keys g) = true ->
  update_key g key meta bs = Ok g' -> k' <> key ->
  alookup k' (gr_keys g) = Some root' ->
  alookup k' (gr_keys g') = Some root' /\
  (forall id, In id (subtree_ids (S (length (gr_arena g))) (gr_arena g) root') ->
              get (gr_arena g') id = get (gr_arena g) id).
Proof.
  intros Hwf Hupd Hne Hlook'. apply wf_b_spec in Hwf as (Hok & Hkeys & Hsnd & Hroot).
  set (a := gr_arena g) in *.
  destruct (proj1 (key_ok_spec a (k', root')) (Hkeys _ (alookup_In _ _ _ Hlook'))) as (n' & Hn' & Hk').
  cbn [fst snd] in Hn', Hk'.
  assert (Hd' : is_dock (g_kind n') = true) by (now rewrite Hk').
  assert (He' : is_emptyk (g_kind n') = false) by (now rewrite Hk').
  (* the arena after the deletion step agrees with [a] on the tree of root' *)
  assert (Hstep : exists a1,
            (match alookup key (gr_keys g) with
             | Some root => delete_branch (S (length a)) a root
             | None => Ok a
             end) = Ok a1 /\ length a1 = length a /\
            (forall id, desc a root' id -> get a1 id = get a id)).
  { destruct (alookup key (gr_keys g)) as [root|] eqn:Hlook.
    - destruct (proj1 (key_ok_spec a (key, root)) (Hkeys _ (alookup_In _ _ _ Hlook))) as (n & Hn & Hk).
      cbn [fst snd] in Hn, Hk.
      destruct (delete_branch_wf a root n key Hok Hn Hk) as (a1 & Hdel & Hlen & _ & _ & Hout).
      exists a1. split; [exact Hdel|]. split; [exact Hlen|].
      intros id Hid. apply Hout. intros Hs.
      assert (He : is_emptyk (g_kind n) = false) by (now rewrite Hk).
      apply (In_desc a Hok _ root n _ Hn He) in Hs.
      apply (roots_disjoint a root root' n n' id Hok Hn Hn'); auto; [now rewrite Hk|].
      intros ->. rewrite Hn in Hn'. inversion Hn'; subst n'. rewrite Hk in Hk'. inversion Hk'. congruence.
    - exists a. auto. }
  destruct Hstep as (a1 & Hdel & Hlen & Hsame).
  unfold update_key in Hupd. fold a in Hupd. rewrite Hdel in Hupd. cbn [bind] in Hupd.
  unfold from_blocks, build_note in Hupd. cbn [gr_arena gr_keys gr_maps gr_titles gr_meta] in Hupd.
  destruct (build_document a1 key bs) as [st|msg] eqn:Hb; cbn [bind] in Hupd; [|discriminate].
  inversion Hupd; subst g'. rewrite refresh_title_arena, refresh_title_keys. cbn [gr_arena gr_keys].
  split.
  - now rewrite alookup_ainsert_other.
  - intros id Hin. apply (In_desc a Hok _ root' n' _ Hn' He') in Hin.
    destruct (desc_get a root' n' id Hn' Hin) as (m & Hm).
    assert (Hlt : id < length a1) by (rewrite Hlen; eapply get_lt; eauto).
    rewrite <- (Hsame id Hin).
    rewrite <- (get_firstn (b_arena st) (length a1) id Hlt).
    now rewrite (build_document_frame a1 key bs st Hb).
Qed.
Print Assumptions update_frame.

(* ---------- the whole-history invariant, given the builder fact -------------------------------- *)

Definition hist_step (acc : res graph) (op : string * option string * list dblock) : res graph :=
  do g <- acc; let '(k, m, bs) := op in update_key g k m bs.

Section WithBuilder.
  Hypothesis build_document_wf : forall a key bs,
    arena_ok a = true ->
    exists st, build_document a key bs = Ok st /\ arena_ok (b_arena st) = true /\
      firstn (length a) (b_arena st) = a /\
      (exists n, get (b_arena st) (length a) = Some n /\ g_kind n = KDocument key /\
                 g_prev n = None /\ g_next n = None) /\
      (forall id n, length a < id -> get (b_arena st) id = Some n ->
                    is_emptyk (g_kind n) = false /\ is_dock (g_kind n) = false).

  Lemma build_note_inv a keys maps titles metas key meta bs :
    ready a keys key ->
    exists g', build_note (G a keys maps titles metas) key meta bs = Ok g' /\ graph_inv g' /\
               gr_keys g' = ainsert key (length a) keys.
  Proof.
    intros Hready. pose proof Hready as (Hok & _).
    destruct (build_document_wf a key bs Hok)
      as (st & Hb & Hok' & Hfirst & (n & Hn & Hk & _ & _) & Hlater).
    unfold build_note. cbn [gr_arena gr_keys gr_maps gr_titles gr_meta]. rewrite Hb. cbn [bind].
    eexists. split; [reflexivity|]. split; [|reflexivity]. unfold graph_inv. cbn [gr_arena gr_keys].
    apply build_keys_wf; auto.
    - exists n. auto.
    - intros id m Hlt Hm. now destruct (Hlater id m Hlt Hm).
  Qed.

  Lemma from_blocks_inv a keys maps titles metas key meta bs :
    ready a keys key ->
    exists g', from_blocks (G a keys maps titles metas) key meta bs = Ok g' /\ graph_inv g'.
  Proof.
    intros Hready.
    destruct (build_note_inv a keys maps titles metas key meta bs Hready) as (g1 & H1 & Hinv & _).
    unfold from_blocks. rewrite H1. cbn [bind]. eexists. split; [reflexivity|].
    unfold graph_inv. now rewrite refresh_title_arena, refresh_title_keys.
  Qed.

  (* one update keeps the invariant and does not panic *)
  Theorem update_key_inv g key meta bs :
    graph_inv g ->
    exists g', update_key g key meta bs = Ok g' /\ graph_inv g'.
  Proof.
    intros Hinv. unfold update_key.
    destruct (alookup key (gr_keys g)) as [root|] eqn:Hlook.
    - pose proof Hinv as [Hwf _]. apply wf_b_spec in Hwf as (Hok & Hkeys & _).
      destruct (proj1 (key_ok_spec _ (key, root)) (Hkeys _ (alookup_In _ _ _ Hlook))) as (n & Hn & Hk).
      cbn [fst snd] in Hn, Hk.
      destruct (delete_branch_wf _ root n key Hok Hn Hk) as (a' & Hdel & _).
      rewrite Hdel. cbn [bind]. apply from_blocks_inv.
      now destruct (ready_deleted g key root a' Hinv Hlook Hdel).
    - cbn [bind]. apply from_blocks_inv. now apply ready_fresh.
  Qed.

  (* HEADLINE, in the form asked for; the distinctness of the keys of the key map is part of the
     invariant because wf_b alone is not inductive (update_key_wf_refuted) *)
  Theorem update_key_wf g key meta bs :
    wf_b (gr_arena g) (gr_keys g) = true -> NoDup (map fst (gr_keys g)) ->
    exists g', update_key g key meta bs = Ok g' /\
               wf_b (gr_arena g') (gr_keys g') = true /\ NoDup (map fst (gr_keys g')).
  Proof.
    intros Hwf Hnd.
    destruct (update_key_inv g key meta bs (conj Hwf Hnd)) as (g' & H & Hwf' & Hnd'). eauto.
  Qed.

  Lemma history_inv (ops : list (string * option string * list dblock)) :
    forall g0, graph_inv g0 ->
    exists g, fold_left hist_step ops (Ok g0) = Ok g /\ graph_inv g.
  Proof.
    induction ops as [|[[k m] bs] ops IH]; intros g0 Hinv; cbn [fold_left].
    - eauto.
    - cbn [hist_step bind snd] in *.
      destruct (update_key_inv g0 k m bs Hinv) as (g1 & -> & Hinv1). now apply IH.
  Qed.

  (* HEADLINE: EVERY history of updates from the empty graph runs without panic and ends in a
     well-formed forest *)
  Theorem history_wf : forall (ops : list (string * option string * list dblock)),
    exists g, fold_left (fun acc op => do g <- acc; let '(k, m, bs) := op in update_key g k m bs)
                        ops (Ok empty_graph) = Ok g
              /\ wf_b (gr_arena g) (gr_keys g) = true.
  Proof.
    intros ops.
    destruct (history_inv ops empty_graph) as (g & H & Hwf & _).
    - split; [reflexivity | apply NoDup_nil].
    - exists g. split; [exact H | exact Hwf].
  Qed.

  (* Graph::import of notes with pairwise distinct keys *)
  Definition note_key (n : string * option string * list dblock) : string :=
    key_name (fst (fst n)).

  Lemma import_fold_inv (notes : list (string * option string * list dblock)) :
    NoDup (map note_key notes) ->
    forall g0, graph_inv g0 ->
    (forall n, In n notes -> alookup (note_key n) (gr_keys g0) = None) ->
    exists g1, fold_left (fun acc n => do g <- acc; let '(name, meta, bs) := n in
                            build_note g (key_name name) meta bs) notes (Ok g0) = Ok g1 /\
               graph_inv g1.
  Proof.
    induction notes as [|[[name meta] bs] notes IH]; intros Hnd g0 Hinv Hfresh; cbn [fold_left].
    - eauto.
    - cbn [map] in Hnd. apply NoDup_cons_iff in Hnd as [Hni Hnd]. cbn [bind snd] in *.
      pose proof (Hfresh _ (or_introl eq_refl)) as Hnone. unfold note_key in Hnone. cbn [fst] in Hnone.
      destruct g0 as [a keys maps titles metas].
      destruct (build_note_inv a keys maps titles metas (key_name name) meta bs
                  (ready_fresh _ _ Hinv Hnone)) as (g1 & -> & Hinv1 & Hkeys1).
      apply IH; auto.
      intros n Hin. rewrite Hkeys1. cbn [gr_keys gr_arena] in *.
      rewrite alookup_ainsert_other; [apply Hfresh; now right|].
      intros Heq. apply Hni.
      assert (E : note_key (name, meta, bs) = note_key n) by (symmetry; exact Heq).
      rewrite E. now apply (in_map note_key).
  Qed.

  Theorem import_wf (notes : list (string * option string * list dblock)) :
    NoDup (map note_key notes) ->
    exists g, import notes = Ok g /\ wf_b (gr_arena g) (gr_keys g) = true /\ NoDup (map fst (gr_keys g)).
  Proof.
    intros Hnd. unfold import.
    destruct (import_fold_inv notes Hnd empty_graph) as (g1 & -> & Hinv1).
    - split; [reflexivity | apply NoDup_nil].
    - reflexivity.
    - cbn [bind]. eexists. split; [reflexivity|].
      destruct (refresh_all_arena_keys (gr_keys g1) g1) as [-> ->]. exact Hinv1.
  Qed.

  (* HEADLINE: the same from an imported library *)
  Theorem history_from_import_wf :
    forall (notes ops : list (string * option string * list dblock)),
    NoDup (map note_key notes) ->
    exists g, fold_left (fun acc op => do g <- acc; let '(k, m, bs) := op in update_key g k m bs)
                        ops (import notes) = Ok g
              /\ wf_b (gr_arena g) (gr_keys g) = true.
  Proof.
    intros notes ops Hnd.
    destruct (import_wf notes Hnd) as (g0 & -> & Hwf0 & Hnd0).
    destruct (history_inv ops g0 (conj Hwf0 Hnd0)) as (g & H & Hwf & _).
    exists g. split; [exact H | exact Hwf].
  Qed.
End WithBuilder.

Print Assumptions update_key_wf.
Print Assumptions history_wf.
Print Assumptions history_from_import_wf.

(* ---------- the statements after the section, and non-vacuity ---------------------------------- *)

Check update_key_wf :
  (forall a key bs, arena_ok a = true ->
     exists st, build_document a key bs = Ok st /\ arena_ok (b_arena st) = true /\
       firstn (length a) (b_arena st) = a /\
       (exists n, get (b_arena st) (length a) = Some n /\ g_kind n = KDocument key /\
                  g_prev n = None /\ g_next n = None) /\
       (forall id n, length a < id -> get (b_arena st) id = Some n ->
                     is_emptyk (g_kind n) = false /\ is_dock (g_kind n) = false)) ->
  forall g key meta bs,
    wf_b (gr_arena g) (gr_keys g) = true -> NoDup (map fst (gr_keys g)) ->
    exists g', update_key g key meta bs = Ok g' /\
               wf_b (gr_arena g') (gr_keys g') = true /\ NoDup (map fst (gr_keys g')).

Definition ex_h := DHeader (0, 1) 1 [Str "T"].
Definition ex_p := DPara (1, 2) [Str "p"].
Definition ex_l := DBList [[DPara (2, 3) [Str "i"]; DOList [[DPara (3, 4) [Str "j"]]; [DHeader (4, 5) 2 [Str "k"]]]];
                           [DPara (5, 6) [Str "m"]; DQuote (6, 7) [ex_p; DRule (7, 8)]]].
Definition ex_q := DQuote (0, 3) [DHeader (0, 1) 2 [Str "Q"]; ex_p; ex_l].
Definition ex_ops : list (string * option string * list dblock) :=
  [("a", None, [ex_p; ex_h; ex_p; ex_l; DHeader (9, 10) 1 [Str "U"]; ex_q]); ("d/b", Some "m", [ex_q; ex_l]);
   ("a", None, [ex_p]); ("d/b", None, []); ("c", None, [ex_h; ex_l]); ("a", Some "x", [ex_h; ex_l; ex_q])].

(* a history with re-updates of nested notes: the model run ends well formed, the live nodes are
   exactly the three trees, and 50 slots are tombstones of removed versions *)
Example ex_history :
  match fold_left hist_step ex_ops (Ok empty_graph) with
  | Ok g => wf_b (gr_arena g) (gr_keys g) = true /\ partition_ok (gr_arena g) (gr_keys g) = true /\
            map fst (gr_keys g) = ["d/b"; "c"; "a"] /\
            length (filter (fun n => is_emptyk (g_kind n)) (gr_arena g)) = 50
  | Panic _ => False
  end.
Proof. vm_compute. repeat split; reflexivity. Qed.

(* update_frame on a concrete step: the tree of "c" is where it was after "a" is rebuilt *)
Example ex_frame :
  match fold_left hist_step (firstn 5 ex_ops) (Ok empty_graph) with
  | Ok g =>
      match update_key g "a" (Some "x") [ex_h; ex_l; ex_q], alookup "c" (gr_keys g) with
      | Ok g', Some r =>
          alookup "c" (gr_keys g') = Some r /\ length (subtree_ids (S (length (gr_arena g))) (gr_arena g) r) = 11 /\
          collect_key g' "c" = collect_key g "c"
      | _, _ => False
      end
  | Panic _ => False
  end.
Proof. vm_compute. repeat split; reflexivity. Qed.
