(* RelPathLawsB.v — the C15 laws stated on the executable domain predicates of Check_C15.v
   ([canonicalb], [canonical_dirb]): the three sub-properties that `run` evaluates on every
   case are theorems on exactly the domains `dom1` / `dom2` used there. *)
From IweV Require Import Str RelPath RelPathFacts RelPathLaws Check_C15.
Local Open Scope string_scope.
Local Open Scope list_scope.

Lemma split_on_aux_nonempty c s cur : split_on_aux c s cur <> [].
Proof.
  revert cur; induction s as [|a s IH]; intros cur; cbn [split_on_aux]; [discriminate|].
  destruct (Ascii.eqb a c); [discriminate | apply IH].
Qed.

Lemma join_cons sep x l : l <> [] -> join sep (x :: l) = x +++ sep +++ join sep l.
Proof. destruct l; [congruence | reflexivity]. Qed.

(* splitting and joining again gives the text back *)
Lemma join_split_aux c s cur : join (String c "") (split_on_aux c s cur) = srev cur +++ s.
Proof.
  revert cur; induction s as [|a s IH]; intros cur; cbn [split_on_aux]; [cbn [join]; now rewrite append_nil_r|].
  destruct (Ascii.eqb_spec a c) as [->|N].
  - rewrite join_cons by apply split_on_aux_nonempty. rewrite IH. reflexivity.
  - rewrite IH, srev_cons, sapp_assoc. reflexivity.
Qed.

Theorem join_split c s : join (String c "") (split_on c s) = s.
Proof. apply join_split_aux. Qed.

Lemma good_namebs_spec l : forallb Check_C15.good_nameb l = true -> Forall good_name l.
Proof.
  intros H. apply Forall_forall. intros x Hx. rewrite forallb_forall in H.
  apply RelPathFacts.good_nameb_spec. exact (H x Hx).
Qed.

(* the executable classifiers of Check_C15 are the `Forall good_name` hypotheses *)
Theorem canonical_dirb_spec s :
  canonical_dirb s = true -> exists ds, Forall good_name ds /\ s = join SEPS ds.
Proof.
  unfold canonical_dirb. destruct (sempty s) eqn:E.
  - intros _. exists []. split; [constructor|]. now destruct s.
  - intros H. exists (split_on SEP s). split; [now apply good_namebs_spec|].
    symmetry. apply join_split.
Qed.

Theorem canonicalb_spec s :
  canonicalb s = true -> exists ds, Forall good_name ds /\ s = join SEPS ds.
Proof. unfold canonicalb. intros H. apply andb_prop in H as [_ H]. now apply canonical_dirb_spec. Qed.

(* conversely every joined list of good names is accepted *)
Theorem canonical_dirb_complete ds : Forall good_name ds -> canonical_dirb (join SEPS ds) = true.
Proof.
  intros H. unfold canonical_dirb. destruct (sempty (join SEPS ds)) eqn:E; [reflexivity|].
  destruct ds as [|d ds]; [discriminate|]. unfold SEPS. rewrite split_join.
  - apply forallb_forall. intros x Hx. rewrite Forall_forall in H.
    apply RelPathFacts.good_nameb_spec. now apply H.
  - discriminate.
  - eapply Forall_impl; [|exact H]. intros a [[_ Ha] _]. exact Ha.
Qed.

(* sub-property 1 on dom1 *)
Theorem C15_roundtrip_b K D :
  canonicalb K = true -> canonical_dirb D = true -> ends_with MD K = false ->
  from_rel_link_url (to_rel_link_url K D) D = K.
Proof.
  intros HK HD Hmd.
  apply canonicalb_spec in HK as (ks & Hks & ->). apply canonical_dirb_spec in HD as (ds & Hds & ->).
  now apply roundtrip_canonical.
Qed.
Print Assumptions C15_roundtrip_b.

(* sub-property 1 for the written url: every canonical key *)
Theorem C15_roundtrip_written_b K D ext :
  canonicalb K = true -> canonical_dirb D = true -> ext = MD \/ ext = "" ->
  from_rel_link_url (ref_url (to_rel_link_url K D) ext) D = K.
Proof.
  intros HK HD He.
  apply canonicalb_spec in HK as (ks & Hks & ->). apply canonical_dirb_spec in HD as (ds & Hds & ->).
  now apply roundtrip_written.
Qed.
Print Assumptions C15_roundtrip_written_b.

(* sub-property 2 on dom2 (the domain predicate is not even needed: C15_rewrite holds for all
   texts) *)
Theorem C15_rewrite_b u D :
  let K := from_rel_link_url u D in
  canonicalb K = true -> canonical_dirb D = true -> ends_with MD K = false ->
  from_rel_link_url (to_rel_link_url K D) D = K.
Proof. intros K _ _. apply C15_rewrite. Qed.
Print Assumptions C15_rewrite_b.

(* sub-property 3 on dom1 *)
Theorem C15_own_dir_b K :
  canonicalb K = true -> ends_with MD K = false ->
  from_rel_link_url (to_rel_link_url K (key_parent K)) (key_parent K) = K.
Proof.
  intros HK Hmd. apply canonicalb_spec in HK as (ks & Hks & ->). now apply C15_own_dir.
Qed.
Print Assumptions C15_own_dir_b.

Theorem C15_own_dir_written_b K ext :
  canonicalb K = true -> ext = MD \/ ext = "" ->
  from_rel_link_url (ref_url (to_rel_link_url K (key_parent K)) ext) (key_parent K) = K.
Proof.
  intros HK He. apply canonicalb_spec in HK as (ks & Hks & ->). now apply C15_own_dir_written.
Qed.
Print Assumptions C15_own_dir_written_b.

(* and the parent of a canonical key is a canonical directory *)
Theorem C15_parent_b K : canonicalb K = true -> canonical_dirb (key_parent K) = true.
Proof.
  intros HK. apply canonicalb_spec in HK as (ks & Hks & ->).
  destruct ks as [|s segs] using rev_ind; [reflexivity|]. clear IHsegs.
  apply Forall_app in Hks as [Hsegs Hs]. inversion Hs as [|? ? Hs' _]; subst.
  rewrite C15_parent_canonical by assumption. now apply canonical_dirb_complete.
Qed.
Print Assumptions C15_parent_b.

Example C15_b_nonvacuous :
  canonicalb "d/e/note" = true /\ canonical_dirb "d/f" = true /\ canonical_dirb "" = true /\
  canonicalb "" = false /\ canonicalb "a//b" = false /\ canonicalb "a/../b" = false.
Proof. repeat split. Qed.
