(* ActionsGraph.v — the hypotheses of ActionsTotal.C09_offered_resolves hold for the ActionContext
   of a well-formed graph (wf_b, the C20 invariant, which Reachable.v proves of every reachable
   state): every tree `collect` returns has an id on every node and pairwise distinct ids, and a
   key that exists can be collected.  Hence, for graph_ctx g of a well-formed g, every offered
   action resolves - no premise about the context left (C09_offered_resolves_graph). *)
From Coq Require Import Lia List Bool Arith.
From IweV Require Import Str Text Ast RelPath Arena ArenaWF ArenaFacts ForestFacts Project Library
  HistoryWF Index IndexHistory Squash SquashFacts Reachable TreeOps Actions TreeOpsFacts ActionsTotal.
Import ListNotations.
Local Open Scope string_scope.
Local Open Scope list_scope.

(* ---------- subsequences ------------------------------------------------------------------------ *)

Inductive subseq {A} : list A -> list A -> Prop :=
| ss_nil : subseq [] []
| ss_skip x l l' : subseq l l' -> subseq l (x :: l')
| ss_take x l l' : subseq l l' -> subseq (x :: l) (x :: l').

Lemma subseq_nil {A} (l : list A) : subseq [] l.
Proof. induction l; [apply ss_nil | apply ss_skip; assumption]. Qed.

Lemma subseq_refl {A} (l : list A) : subseq l l.
Proof. induction l; [apply ss_nil | apply ss_take; assumption]. Qed.

Lemma subseq_app {A} (l1 l1' l2 l2' : list A) : subseq l1 l1' -> subseq l2 l2' -> subseq (l1 ++ l2) (l1' ++ l2').
Proof. induction 1; intros H2; cbn [app]; [exact H2 | apply ss_skip; auto | apply ss_take; auto]. Qed.

Lemma subseq_in {A} (l l' : list A) x : subseq l l' -> In x l -> In x l'.
Proof. induction 1; intros Hin; [exact Hin | right; auto | destruct Hin as [->|Hin]; [now left | right; auto]]. Qed.

Lemma subseq_nodup {A} (l l' : list A) : subseq l l' -> NoDup l' -> NoDup l.
Proof.
  induction 1 as [|x l l' H IH|x l l' H IH]; intros ND; [constructor| |]; inversion ND as [|? ? Hx Hr]; subst.
  - auto.
  - constructor; [|auto]. intros Hin. apply Hx. eapply subseq_in; eauto.
Qed.

(* ---------- collect visits a subsequence of the arena walk --------------------------------------- *)

Section CollectIds.
  Variable a : arena.
  Hypothesis Hok : arena_ok a = true.
  Variable nf : nat -> gkind -> option node.

  Definition kids_fold (f : nat) (ids : list nat) : res (list tree) :=
    fold_right (fun i acc => do r <- acc; do t <- collect_fuel f nf a i;
                  Ok (match t with Some t => t :: r | None => r end)) (Ok []) ids.

  Lemma kids_fold_cons f i r :
    kids_fold f (i :: r) = do kr <- kids_fold f r; do t <- collect_fuel f nf a i;
                           Ok (match t with Some t => t :: kr | None => kr end).
  Proof. reflexivity. Qed.

  Lemma kids_forall (P : tree -> Prop) f :
    (forall i t, collect_fuel f nf a i = Ok (Some t) -> P t) ->
    forall ids kids, kids_fold f ids = Ok kids -> Forall P kids.
  Proof.
    intros HP. induction ids as [|i r IH]; intros kids H.
    - inversion H. constructor.
    - rewrite kids_fold_cons in H. destruct (kids_fold f r) as [kr|]; [|discriminate]. cbn [bind] in H.
      destruct (collect_fuel f nf a i) as [[t|]|] eqn:E; [| |discriminate]; cbn [bind] in H; inversion H; subst.
      + constructor; [eapply HP; eauto | now apply IH].
      + now apply IH.
  Qed.

  (* every node of a collected tree carries the id of its pointer *)
  Lemma collect_all_some : forall f id t, collect_fuel f nf a id = Ok (Some t) -> all_some t = true.
  Proof.
    induction f as [|f IH]; intros id t H; [discriminate|].
    rewrite collect_fuel_S in H. destruct (get a id) as [n|]; [|discriminate].
    destruct (nf id (g_kind n)) as [nd|]; [|discriminate].
    destruct (match g_child n with None => Ok [] | Some c => sibling_ids f a c end) as [ids|]; [|discriminate].
    cbn [bind] in H. fold (kids_fold f ids) in H. destruct (kids_fold f ids) as [kids|] eqn:K; [|discriminate].
    cbn [bind] in H. inversion H; subst. cbn [all_some ActionsTotal.is_some andb].
    apply forallb_forall. apply Forall_forall. eapply kids_forall; [|exact K]. exact IH.
  Qed.

  Definition child_walk (G : nat) (n : gnode) : list nat :=
    match g_child n with Some c => subtree_ids G a c | None => [] end.
  Definition own (G : nat) (id : nat) : list nat :=
    match get a id with Some n => id :: child_walk G n | None => [] end.

  Fixpoint bnd (f : nat) : nat := match f with O => O | S f' => bnd f' + f' + 1 end.

  Lemma sibling_ids_length : forall f c ids, sibling_ids f a c = Ok ids -> length ids <= f.
  Proof.
    induction f as [|f IH]; intros c ids H; [discriminate|].
    rewrite sibling_ids_S in H. destruct (get a c) as [n|]; [|discriminate].
    destruct (is_emptyk (g_kind n)) eqn:He; [destruct (g_kind n); discriminate|].
    rewrite (nonempty_match (g_kind n) _ _ He) in H.
    destruct (g_next n) as [nx|].
    - destruct (sibling_ids f a nx) as [r|] eqn:E; [|discriminate]. cbn [bind] in H. inversion H; subst.
      cbn [length]. specialize (IH nx r E). lia.
    - inversion H; subst. cbn [length]. lia.
  Qed.

  (* the sibling chain: its collected trees lie, in order, inside the walk from the first sibling *)
  Lemma chain_subseq f :
    (forall id t, collect_fuel f nf a id = Ok (Some t) -> forall G, bnd f <= G -> subseq (some_ids t) (own G id)) ->
    forall f' c ids kids, sibling_ids f' a c = Ok ids -> kids_fold f ids = Ok kids ->
    forall G, bnd f + length ids <= G -> subseq (flat_map some_ids kids) (subtree_ids G a c).
  Proof.
    intros Q. induction f' as [|f' IH]; intros c ids kids Hs Hk G HG; [discriminate|].
    rewrite sibling_ids_S in Hs. destruct (get a c) as [n|] eqn:Hn; [|discriminate].
    destruct (is_emptyk (g_kind n)) eqn:He; [destruct (g_kind n); discriminate|].
    rewrite (nonempty_match (g_kind n) _ _ He) in Hs.
    destruct (g_next n) as [nx|] eqn:Hx.
    - destruct (sibling_ids f' a nx) as [r|] eqn:E; [|discriminate]. cbn [bind] in Hs. inversion Hs; subst ids.
      cbn [length] in HG. destruct G as [|G']; [lia|].
      rewrite kids_fold_cons in Hk. destruct (kids_fold f r) as [kr|] eqn:Kr; [|discriminate]. cbn [bind] in Hk.
      assert (Hd : is_dock (g_kind n) = false).
      { pose proof (proj1 (arena_ok_spec a) Hok c n Hn) as Hno.
        destruct (node_ok_live a c n Hno He) as (_ & _ & _ & Hni & _). rewrite Hx in Hni. cbn in Hni.
        now apply negb_true_iff in Hni. }
      rewrite subtree_ids_S, Hn, (nondoc_match (g_kind n) _ _ Hd), Hx.
      assert (Hr : subseq (flat_map some_ids kr) (subtree_ids G' a nx)) by (eapply IH; eauto; lia).
      destruct (collect_fuel f nf a c) as [[t|]|] eqn:Ec; [| |discriminate]; cbn [bind] in Hk; inversion Hk; subst kids.
      + cbn [flat_map]. pose proof (Q c t Ec G' ltac:(lia)) as Ht. unfold own in Ht. rewrite Hn in Ht.
        exact (subseq_app (some_ids t) (c :: child_walk G' n) _ (subtree_ids G' a nx) Ht Hr).
      + apply ss_skip.
        exact (subseq_app [] (child_walk G' n) _ (subtree_ids G' a nx) (subseq_nil _) Hr).
    - inversion Hs; subst ids. cbn [length] in HG. destruct G as [|G']; [lia|].
      rewrite kids_fold_cons in Hk. cbn [kids_fold fold_right bind] in Hk.
      rewrite subtree_ids_S, Hn.
      destruct (collect_fuel f nf a c) as [[t|]|] eqn:Ec; [| |discriminate]; cbn [bind] in Hk; inversion Hk; subst kids.
      + cbn [flat_map]. pose proof (Q c t Ec G' ltac:(lia)) as Ht. unfold own in Ht. rewrite Hn in Ht.
        exact (subseq_app (some_ids t) (c :: child_walk G' n) [] _ Ht (subseq_nil _)).
      + apply subseq_nil.
  Qed.

  Lemma collect_subseq : forall f id t, collect_fuel f nf a id = Ok (Some t) ->
    forall G, bnd f <= G -> subseq (some_ids t) (own G id).
  Proof.
    induction f as [|f IH]; intros id t H G HG; [discriminate|].
    rewrite collect_fuel_S in H. unfold own. destruct (get a id) as [n|] eqn:Hn; [|discriminate].
    destruct (nf id (g_kind n)) as [nd|]; [|discriminate].
    unfold child_walk. destruct (g_child n) as [c|] eqn:Hc.
    - destruct (sibling_ids f a c) as [ids|] eqn:Hs; [|discriminate]. cbn [bind] in H.
      fold (kids_fold f ids) in H. destruct (kids_fold f ids) as [kids|] eqn:K; [|discriminate].
      cbn [bind] in H. inversion H; subst t. rewrite some_ids_T. cbn [app]. apply ss_take.
      pose proof (sibling_ids_length f c ids Hs) as Hl. cbn [bnd] in HG.
      eapply (chain_subseq f IH f c ids kids Hs K). lia.
    - cbn [bind] in H. inversion H; subst t. cbn. apply ss_take. constructor.
  Qed.

  (* the ids of a collected tree are pairwise distinct *)
  Hypothesis Hnf_empty : forall i k, is_emptyk k = true -> nf i k = None.

  Lemma collect_distinct f id t : collect_fuel f nf a id = Ok (Some t) -> NoDup (some_ids t).
  Proof.
    intros H. pose proof (collect_subseq f id t H (bnd f) (le_n _)) as Hs. unfold own in Hs.
    destruct f as [|f']; [discriminate|]. rewrite collect_fuel_S in H.
    destruct (get a id) as [n|] eqn:Hn; [|discriminate].
    destruct (is_emptyk (g_kind n)) eqn:He; [rewrite (Hnf_empty id _ He) in H; discriminate|].
    assert (Hl : lv a id) by (exists n; split; assumption).
    pose proof (subtree_NoDup a Hok (S (bnd (S f'))) id Hl) as ND. rewrite subtree_ids_S, Hn in ND.
    eapply subseq_nodup; [|exact ND].
    rewrite <- (app_nil_r (some_ids t)).
    refine (subseq_app (some_ids t) (id :: child_walk (bnd (S f')) n) [] _ Hs (subseq_nil _)).
  Qed.
End CollectIds.

Lemma pointer_node_empty ctx k : is_emptyk k = true -> pointer_node ctx k = None.
Proof. destruct k; cbn; intros; try discriminate; reflexivity. Qed.

(* HEADLINE: what `collect` returns in a well-formed arena has an id on every node, all distinct *)
Theorem collect_ids_ok ctx a root t :
  arena_ok a = true -> collect ctx a root = Ok t -> ids_ok t = true.
Proof.
  intros Hok H. unfold collect in H.
  destruct (collect_fuel (S (length a)) (fun _ k => pointer_node ctx k) a root) as [[t'|]|] eqn:E; try discriminate.
  cbn [bind] in H. injection H as ->. unfold ids_ok, ids_distinct. apply andb_true_iff. split.
  - eapply collect_all_some; exact E.
  - apply nodupb_spec. eapply (collect_distinct a Hok); [|exact E]. intros i k. apply pointer_node_empty.
Qed.
Print Assumptions collect_ids_ok.

(* ---------- the ActionContext of a well-formed graph ---------------------------------------------- *)

Lemma graph_ctx_collect_ids g key tree :
  wf_b (gr_arena g) (gr_keys g) = true -> cx_collect (graph_ctx g) key = Ok tree -> ids_ok tree = true.
Proof.
  intros Hwf H. apply wf_b_spec in Hwf as (Hok & _). cbn [graph_ctx cx_collect] in H. unfold collect_key in H.
  destruct (alookup key (gr_keys g)) as [root|]; [|discriminate]. eapply collect_ids_ok; eauto.
Qed.

Lemma graph_ctx_exists_collect g :
  wf_b (gr_arena g) (gr_keys g) = true ->
  forall k', cx_exists (graph_ctx g) k' = true -> exists t', cx_collect (graph_ctx g) k' = Ok t'.
Proof.
  intros Hwf k' H. pose proof (collectable_Collectable g (wf_b_collectable g Hwf)) as C.
  cbn [graph_ctx cx_exists cx_collect] in *. unfold collect_key.
  destruct (alookup k' (gr_keys g)) as [root|] eqn:E; [|discriminate]. exact (C k' root E).
Qed.

(* HEADLINE: on a well-formed graph every offered action resolves *)
Theorem C09_offered_resolves_graph :
  forall (g : graph) (k : akind) (kg : keygen) (target : nat) (title : string),
    wf_b (gr_arena g) (gr_keys g) = true ->
    action (graph_ctx g) k target = Ok (Some title) ->
    exists key tree,
      key_of g target = Ok key /\ collect_key g key = Ok tree /\ ids_ok tree = true /\
      (kg_has kg (draws_needed k tree target) = true ->
       exists l, handle_resolve (graph_ctx g) k kg target = Ok l /\ l <> [] /\ shape_b k key l = true /\
                 offer_shape (graph_ctx g) k kg key tree target l).
Proof.
  intros g k kg target title Hwf Ha.
  destruct (cx_key_of (graph_ctx g) target) as [key|] eqn:Hkey; [|unfold action in Ha; rewrite Hkey in Ha; discriminate].
  destruct (cx_collect (graph_ctx g) key) as [tree|] eqn:Hcol;
    [|unfold action, ctx_collect in Ha; rewrite Hkey in Ha; cbn [bind] in Ha; rewrite Hcol in Ha; discriminate].
  pose proof (graph_ctx_collect_ids g key tree Hwf Hcol) as Hids.
  exists key, tree. repeat split; try assumption. intros Hkg.
  destruct (C09_offered_resolves (graph_ctx g) k kg target key tree title Hkey Hcol Hids
              (graph_ctx_exists_collect g Hwf) Hkg Ha) as (l & Hl & Hne & Hs).
  exists l. repeat split; try assumption.
  eapply C09_offer_shapes; eauto using graph_ctx_exists_collect.
Qed.
Print Assumptions C09_offered_resolves_graph.

(* the LSP flow: what textDocument/codeAction returned for a line (title, data = node id) is
   answered by codeAction/resolve with an edit *)
Theorem C09_code_action_resolves :
  forall (g : graph) (key0 : string) (line : nat) (k : akind) (kg : keygen) (target : nat) (title : string),
    wf_b (gr_arena g) (gr_keys g) = true ->
    handle_code_action g key0 line k = Ok (Some (title, target)) ->
    exists key tree,
      key_of g target = Ok key /\ collect_key g key = Ok tree /\
      (kg_has kg (draws_needed k tree target) = true ->
       exists l, handle_resolve (graph_ctx g) k kg target = Ok l /\ l <> [] /\ shape_b k key l = true).
Proof.
  intros g key0 line k kg target title Hwf H. unfold handle_code_action, offer_at in H.
  destruct (get_node_id_at g key0 line) as [[id|]|]; try discriminate. cbn [bind] in H.
  destruct (action (graph_ctx g) k id) as [[ti|]|] eqn:Ha; try discriminate. cbn [bind] in H.
  injection H as -> ->.
  destruct (C09_offered_resolves_graph g k kg target title Hwf Ha) as (key & tree & Hk & Hc & _ & Hr).
  exists key, tree. repeat split; try assumption. intros Hkg. destruct (Hr Hkg) as (l & Hl & Hne & Hs & _). eauto.
Qed.
Print Assumptions C09_code_action_resolves.

(* at every state reached by an import of notes with distinct keys and any history *)
Theorem reached_C09_offered_resolves :
  forall notes ops s (k : akind) (kg : keygen) (target : nat) (title : string),
    distinct_keys notes -> reached notes ops s ->
    action (graph_ctx (gs_graph s)) k target = Ok (Some title) ->
    exists key tree,
      key_of (gs_graph s) target = Ok key /\ collect_key (gs_graph s) key = Ok tree /\
      (kg_has kg (draws_needed k tree target) = true ->
       exists l, handle_resolve (graph_ctx (gs_graph s)) k kg target = Ok l /\ l <> [] /\ shape_b k key l = true).
Proof.
  intros notes ops s k kg target title Hd Hr Ha.
  destruct (reached_Inv notes ops s Hd Hr) as ([Hwf _] & _).
  destruct (C09_offered_resolves_graph (gs_graph s) k kg target title Hwf Ha) as (key & tree & Hk & Hc & _ & Hres).
  exists key, tree. repeat split; try assumption. intros Hkg. destruct (Hres Hkg) as (l & Hl & Hne & Hs & _). eauto.
Qed.
Print Assumptions reached_C09_offered_resolves.

(* non-vacuity: an imported two-note library is well formed and offers all seven kinds; each offer
   resolves (computed), as the theorems say *)
Module Example_graph.
  Definition notes : list (string * option string * list dblock) :=
    [("a", None, [DHeader (0,1) 1 [Str "A"]; DPara (1,2) [Str "p"]; DHeader (2,3) 2 [Str "B"];
                  DPara (3,4) [Link "b" "" Regular [Str "t"]];
                  DBList [[DPara (4,5) [Str "x"]]]; DHeader (6,7) 2 [Str "C"]]);
     ("b", None, [DHeader (0,1) 1 [Str "X"]; DPara (1,2) [Str "q"]])].

  Definition check (g : graph) : bool :=
    wf_b (gr_arena g) (gr_keys g) &&
    forallb (fun k =>
      existsb (fun line => match handle_code_action g "a" line k with Ok (Some _) => true | _ => false end) (seq 0 8) &&
      forallb (fun line => match handle_code_action g "a" line k with
                           | Ok (Some (_, id)) => offered_resolves_b (graph_ctx g) k KSeq id &&
                                                  offered_resolves_b (graph_ctx g) k (KRand ["n1"; "n2"]) id
                           | Ok None => true
                           | Panic _ => false
                           end) (seq 0 8)) all_kinds.

  Example all_kinds_offered_and_resolve :
    match import notes with Ok g => check g | Panic _ => false end = true.
  Proof. vm_compute. reflexivity. Qed.
End Example_graph.
